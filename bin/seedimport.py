import json,sys,os,shutil,glob
sid,demo_path,needs=sys.argv[1],sys.argv[2],sys.argv[3]
prop=sid
import os as _o; RND=_o.environ.get("RND","3"); src="/tmp/seed_out%s/%s"%(RND,sid)
dst="/verif/seeded/%s_%s"%(sid,RND)
os.makedirs(dst,exist_ok=True)
for f in ["patch.diff","notes.md"]+[os.path.basename(x) for x in glob.glob(src+"/*_test.go")]:
    shutil.copy(os.path.join(src,f),dst)
demo=[os.path.basename(x) for x in glob.glob(src+"/*_test.go")][0]
pkg="./"+os.path.dirname(demo_path)
meta={"property":prop,"demo_file":demo,"demo_path":demo_path,"demo_cmd":"go test -vet=off -count=1 -run 'Seed' "+pkg,
 "needs":needs,"round":int(RND),"origin":"independent sub-agent given only the property text, a scratch worktree and the request to differ from the earlier seeds",
 "ran":"bin/seedtest seeded/%s_%s %s"%(sid,RND,prop)}
json.dump(meta,open(dst+"/meta.json","w"),indent=1)
print(dst, os.listdir(dst))
