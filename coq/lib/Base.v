(* Base definitions shared by all models: outcomes, observation encoding. *)
From stdpp Require Export gmap list.
From Coq Require Export ZArith Lia.
Open Scope Z_scope.

(* Outcome of a Go call: a value, an error (with a class), or a run-time panic.
   A panic is a first-class outcome of every model; it is never totalised away. *)
Inductive res (A : Type) : Type :=
| Ok (a : A)
| Err (e : Z)
| Panic.
Arguments Ok {A} a.
Arguments Err {A} e.
Arguments Panic {A}.

(* error classes *)
Definition EGeneric : Z := 1.
Definition ENotFound : Z := 2.

(* first integer of every observation *)
Definition OK : Z := 0.
Definition ERR : Z := 1.
Definition PANIC : Z := 2.

Definition obs := list Z.

Definition b2z (b : bool) : Z := if b then 1 else 0.

Definition res_bind {A B} (r : res A) (f : A -> res B) : res B :=
  match r with Ok a => f a | Err e => Err e | Panic => Panic end.

(* Go's integer division and remainder truncate toward zero. *)
Definition godiv (a b : Z) : Z := Z.quot a b.
Definition gomod (a b : Z) : Z := Z.rem a b.

(* slice indexing: out of range is a panic *)
Definition index {A} (l : list A) (i : Z) : res A :=
  if i <? 0 then Panic else
  match l !! Z.to_nat i with Some x => Ok x | None => Panic end.

Definition zlen {A} (l : list A) : Z := Z.of_nat (length l).

(* equality of observation traces, used by the correspondence evaluation *)
Fixpoint zlist_eqb (a b : list Z) : bool :=
  match a, b with
  | [], [] => true
  | x :: a', y :: b' => (x =? y) && zlist_eqb a' b'
  | _, _ => false
  end.

Fixpoint trace_eqb (a b : list obs) : bool :=
  match a, b with
  | [], [] => true
  | x :: a', y :: b' => zlist_eqb x y && trace_eqb a' b'
  | _, _ => false
  end.

(* index of the first differing step of two traces (or None) *)
Fixpoint first_diff (i : Z) (a b : list obs) : option Z :=
  match a, b with
  | [], [] => None
  | x :: a', y :: b' => if zlist_eqb x y then first_diff (i + 1) a' b' else Some i
  | _, _ => Some i
  end.

Definition nth_obs (l : list obs) (i : Z) : obs :=
  match l !! Z.to_nat i with Some o => o | None => [-1000] end.

(* A correspondence case: the model's trace against the implementation's.
   Result: (case number, step, model observation) of every mismatching case. *)
Definition mismatch {O} (run : list O -> list obs) (n : Z) (c : list O * list obs)
  : list (Z * Z * obs) :=
  let m := run (fst c) in
  match first_diff 0 m (snd c) with
  | None => []
  | Some i => [(n, i, nth_obs m i)]
  end.

Fixpoint mismatches_from {O} (run : list O -> list obs) (n : Z) (cs : list (list O * list obs))
  : list (Z * Z * obs) :=
  match cs with
  | [] => []
  | c :: cs' => mismatch run n c ++ mismatches_from run (n + 1) cs'
  end.

Definition mismatches {O} (run : list O -> list obs) (cs : list (list O * list obs)) :=
  mismatches_from run 0 cs.

(* insertion sort of key/value pairs by key (canonical order of map dumps) *)
Fixpoint insert_kv {A} (kv : Z * A) (l : list (Z * A)) : list (Z * A) :=
  match l with
  | [] => [kv]
  | x :: l' => if fst kv <=? fst x then kv :: l else x :: insert_kv kv l'
  end.
Definition sort_kv {A} (l : list (Z * A)) : list (Z * A) := foldr insert_kv [] l.

(* ---------------------------------------------------------------------------------------- *)
(* Evaluation of checkers over implementation traces.
   A checker takes the operations and the implementation's observations and returns None when
   satisfied, or Some (step, information) for the first step it objects to. *)
Definition checker (O : Type) := list O -> list obs -> option (Z * obs).

(* correspondence checker: the model's trace must equal the implementation's *)
Definition cmp_run {O} (run : list O -> list obs) : checker O :=
  fun ops tr => let m := run ops in
    match first_diff 0 m tr with None => None | Some i => Some (i, nth_obs m i) end.

Fixpoint failures_from {O} (f : checker O) (n : Z) (cs : list (list O * list obs))
  : list (Z * Z * obs) :=
  match cs with
  | [] => []
  | c :: cs' => match f (fst c) (snd c) with
                | None => failures_from f (n + 1) cs'
                | Some (i, info) => (n, i, info) :: failures_from f (n + 1) cs'
                end
  end.
Definition failures {O} (f : checker O) (cs : list (list O * list obs)) := failures_from f 0 cs.

(* projected comparison: the reference only speaks about part of each observation *)
Fixpoint proj_trace {O} (proj : O -> obs -> obs) (ops : list O) (tr : list obs) : list obs :=
  match ops, tr with
  | o :: ops', ob :: tr' => proj o ob :: proj_trace proj ops' tr'
  | _, _ => []
  end.

Definition cmp_proj {O} (proj : O -> obs -> obs) (ref : list O -> list obs) : checker O :=
  fun ops tr => let m := ref ops in
    if negb (length ops =? length tr)%nat then Some (-1, []) else
    match first_diff 0 m (proj_trace proj ops tr) with None => None | Some i => Some (i, nth_obs m i) end.
