(* Evaluation helpers for correspondence case files (kept apart from Base.v). *)
From V.lib Require Import Base.

(* every case carries its own checker (e.g. the model instantiated with the case's parameters) *)
Fixpoint failures_pc_from {O} (n : Z) (cs : list (checker O * (list O * list obs))) : list (Z * Z * obs) :=
  match cs with
  | [] => []
  | (f, c) :: cs' => match f (fst c) (snd c) with
                     | None => failures_pc_from (n + 1) cs'
                     | Some (i, info) => (n, i, info) :: failures_pc_from (n + 1) cs'
                     end
  end.
Definition failures_pc {O} (cs : list (checker O * (list O * list obs))) := failures_pc_from 0 cs.
