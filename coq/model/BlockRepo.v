(* Model of internal/storage/blocks.go (BlockRepository) and of Node.GetHeaders / Node.BlockHash
   (internal/spynode/node.go).  Executable definitions only; proofs are in proofs/BlockRepo_Proofs.v.

   Abstractions (modelled, not verified): a header is {id; prev; time} where id stands for its
   double-SHA256 hash; a block file holds a list of headers (the 80-byte header codec of
   tokenized/pkg/wire is not modelled, so truncating a file to 80*n bytes is `take n`). *)
From V.lib Require Import Base.

Record header := Header { hid : Z; hprev : Z; htime : Z }.

Definition genesis : header := Header 0 (-1) 1231006505.

Record repo := Repo {
  height : Z;               (* repo.height *)
  lasth : list header;      (* repo.lastHeaders *)
  heights : gmap Z Z;       (* repo.heights : hash -> height *)
}.

Definition store := gmap Z (list header).   (* file index -> headers in "spynode/blocks/%08x" *)

Section WithK.
Variable K : Z.              (* blocksPerKey *)
Variable rm_err : bool.      (* storage back end: removing a missing key is an error *)

Definition path (h : Z) : Z := godiv h K.           (* buildPath: height / blocksPerKey *)

(* repo.read *)
Definition read (st : store) (h : Z) : res (list header) :=
  match st !! path h with Some hs => Ok hs | None => Err ENotFound end.

(* repo.save: always succeeds on a fault-free store *)
Definition save (r : repo) (st : store) : store := <[path (height r) := lasth r]> st.

(* NewBlockRepository *)
Definition new_repo : repo := Repo (-1) [] ∅.

(* BlockRepository.Add *)
Definition add (r : repo) (st : store) (h : header) : repo * store :=
  let '(lst, st1) := if zlen (lasth r) =? K then ([], save r st) else (lasth r, st) in
  (Repo (height r + 1) (lst ++ [h]) (<[hid h := height r + 1]> (heights r)), st1).

(* getHeader (after the fix: negative heights are an error) *)
Definition get_header (r : repo) (st : store) (h : Z) : res header :=
  if h >? height r then Err EGeneric else
  if h <? 0 then Err EGeneric else
  if height r - h <? zlen (lasth r) then index (lasth r) (zlen (lasth r) - 1 - (height r - h)) else
  match read st h with
  | Ok hs => if negb (zlen hs =? K) then Err EGeneric else index hs (gomod h K)
  | Err e => Err e
  | Panic => Panic
  end.

(* getHash: same structure as getHeader *)
Definition get_hash (r : repo) (st : store) (h : Z) : res Z :=
  res_bind (get_header r st h) (fun x => Ok (hid x)).

(* getTime: beyond the tip, negative, or unreadable file -> 0, nil *)
Definition get_time (r : repo) (st : store) (h : Z) : res Z :=
  if (h >? height r) || (h <? 0) then Ok 0 else
  if height r - h <? zlen (lasth r) then
    res_bind (index (lasth r) (zlen (lasth r) - 1 - (height r - h))) (fun x => Ok (htime x)) else
  match read st h with
  | Ok hs => if negb (zlen hs =? K) then Err EGeneric
             else res_bind (index hs (gomod h K)) (fun x => Ok (htime x))
  | Err _ => Ok 0
  | Panic => Panic
  end.

(* BlockRepository.Header: -1 is the tip *)
Definition header_at (r : repo) (st : store) (h : Z) : res header :=
  get_header r st (if h =? -1 then height r else h).

(* LastHash: lastHeaders[len-1] *)
Definition last_hash (r : repo) : res Z :=
  res_bind (index (lasth r) (zlen (lasth r) - 1)) (fun x => Ok (hid x)).

(* Revert, first loop: collect the hashes above the target, top down *)
Fixpoint collect_hashes (r : repo) (st : store) (fuel : nat) (h : Z) : res (list Z) :=
  match fuel with
  | O => Ok []
  | S f => res_bind (get_hash r st h) (fun x =>
           res_bind (collect_hashes r st f (h - 1)) (fun xs => Ok (x :: xs)))
  end.

(* Revert, second loop: remove whole files above the target, top down.
   Returns the remaining revertedHeight and the store; None if a Remove failed. *)
Fixpoint remove_files (st : store) (fuel : nat) (rh t : Z) : option Z * store :=
  match fuel with
  | O => (Some rh, st)
  | S f =>
    if rh >=? t then
      let p := path (rh + K) in
      match st !! p with
      | None => if rm_err then (None, st) else remove_files st f (rh - K) t
      | Some _ => remove_files (delete p st) f (rh - K) t
      end
    else (Some rh, st)
  end.

Definition delete_all (ks : list Z) (m : gmap Z Z) : gmap Z Z := foldr delete m ks.

(* BlockRepository.Revert (after the fix: save first, prune the map last, negative is an error) *)
Definition revert (r : repo) (st : store) (t : Z) : res unit * repo * store :=
  if t >? height r then (Err EGeneric, r, st) else
  if t <? 0 then (Err EGeneric, r, st) else
  let st1 := save r st in
  match collect_hashes r st1 (Z.to_nat (height r - t)) (height r) with
  | Err e => (Err e, r, st1)
  | Panic => (Panic, r, st1)
  | Ok removed =>
    let full_end := godiv (height r) K * K - 1 in
    match remove_files st1 (Z.to_nat (godiv (height r) K + 1)) full_end t with
    | (None, st2) => (Err EGeneric, r, st2)
    | (Some rh, st2) =>
      let p := path (rh + K) in
      let cnt := t - rh in
      match st2 !! p with
      | None => (Err ENotFound, r, st2)
      | Some data =>
        let '(data', st3) :=
          if (cnt <? K) && (zlen data >? cnt)
          then (take (Z.to_nat cnt) data, <[p := take (Z.to_nat cnt) data]> st2)
          else (data, st2) in
        (Ok tt, Repo t data' (delete_all removed (heights r)), st3)
      end
    end
  end.

(* Load: heights of one file added to the map *)
Fixpoint add_heights (m : gmap Z Z) (hs : list header) (h : Z) : gmap Z Z :=
  match hs with
  | [] => m
  | x :: hs' => add_heights (<[hid x := h]> m) hs' (h + 1)
  end.

Fixpoint load_loop (st : store) (fuel : nat) (files : Z) (prev_size : Z) (r : repo)
  : res (Z * repo) :=
  match fuel with
  | O => Err EGeneric            (* not reached: a store has finitely many keys *)
  | S f =>
    match read st (files * K) with
    | Err _ => Ok (files, r)     (* ErrNotFound: break (other read errors cannot occur here) *)
    | Panic => Panic
    | Ok hs =>
      if zlen hs =? 0 then Ok (files, r) else
      if negb (prev_size =? -1) && negb (prev_size =? K) then Err EGeneric else
      let m := add_heights (heights r) hs (height r + 1) in
      let ht := if files =? 0 then zlen hs - 1 else height r + zlen hs in
      load_loop st f (files + 1) (zlen hs) (Repo ht hs m)
    end
  end.

(* NewBlockRepository + Load on a store *)
Definition load (st : store) : res repo :=
  match load_loop st (S (size st)) 0 (-1) new_repo with
  | Ok (files, r) =>
    if files =? 0
    then Ok (Repo 0 (lasth r ++ [genesis]) (<[hid genesis := 0]> (heights r)))
    else Ok r
  | Err e => Err e
  | Panic => Panic
  end.

(* Node.GetHeaders (after the fix) *)
Fixpoint get_headers_loop (r : repo) (st : store) (fuel : nat) (i : Z) : res (list header) :=
  match fuel with
  | O => Ok []
  | S f =>
    match header_at r st i with
    | Ok h => res_bind (get_headers_loop r st f (i + 1)) (fun hs => Ok (h :: hs))
    | Err _ => Ok []      (* ErrInvalidHeight: truncate at the tip *)
    | Panic => Panic
    end
  end.

(* Note: Header(i) treats i = -1 as the tip; GetHeaders only passes i >= 0 or i < -1 there
   (start height is max 0 .. when height = -1), so header_at is only entered with i <> -1
   unless the request height itself is below -1 and the loop walks up to -1. *)
Definition get_headers (r : repo) (st : store) (h maxc : Z) : res (Z * Z * list header) :=
  let start := if h =? -1 then Z.max 0 (height r - maxc + 1) else h in
  (* the Go loop runs maxc times but stops at the first height beyond the tip, i.e. after at most
     height + 2 iterations; the smaller fuel is exact and keeps the evaluation cheap *)
  res_bind (get_headers_loop r st (Z.to_nat (Z.min maxc (height r + 2))) start)
           (fun hs => Ok (h, start, hs)).

(* Node.BlockHash *)
Definition block_hash (r : repo) (st : store) (h : Z) : res Z :=
  get_hash r st (if h =? -1 then height r else h).

End WithK.

(* ---------------------------------------------------------------------------------------- *)
(* Operations and observations (the harness drives the same ones on the real repository).   *)

Inductive op :=
| OAdd (id prev time : Z)
| OAddN (first n : Z)
| ORevert (t : Z)
| OSave
| OLoad
| OLastHeight
| OLastHash
| OContains (id : Z)
| OHeight (id : Z)
| OHash (h : Z)
| OBlockHash (h : Z)
| OTime (h : Z)
| OHeaderAt (h : Z)
| OGetHeaders (h maxc : Z)
| OFiles.

Definition obs_res {A} (r : res A) (f : A -> list Z) : obs :=
  match r with Ok a => OK :: f a | Err _ => [ERR] | Panic => [PANIC] end.

Definition time_of_id (id : Z) : Z := 1300000000 + id * 600.

Fixpoint add_n (K : Z) (r : repo) (st : store) (n : nat) (id prev : Z) : repo * store :=
  match n with
  | O => (r, st)
  | S n' => let '(r1, st1) := add K r st (Header id prev (time_of_id id)) in
            add_n K r1 st1 n' (id + 1) id
  end.

Definition files_obs (st : store) : list Z :=
  flat_map (fun kv => [fst kv; zlen (snd kv)])
           (sort_kv (map_to_list st)).

Definition step (K : Z) (rm_err : bool) (s : repo * store) (o : op) : (repo * store) * obs :=
  let '(r, st) := s in
  match o with
  | OAdd id prev time => (add K r st (Header id prev time), [OK])
  | OAddN first n =>
      let prev := match last_hash r with Ok x => x | _ => -88 end in
      (add_n K r st (Z.to_nat n) first prev, [OK])
  | ORevert t => let '(x, r1, st1) := revert K rm_err r st t in ((r1, st1), obs_res x (fun _ => []))
  | OSave => ((r, save K r st), [OK])
  | OLoad => match load K st with
             | Ok r1 => ((r1, st), [OK])
             | Err _ => (s, [ERR])
             | Panic => (s, [PANIC])
             end
  | OLastHeight => (s, [OK; height r])
  | OLastHash => (s, obs_res (last_hash r) (fun x => [x]))
  | OContains id => (s, [OK; b2z (bool_decide (is_Some (heights r !! id)))])
  | OHeight id => (s, match heights r !! id with Some h => [OK; 1; h] | None => [OK; 0; 0] end)
  | OHash h => (s, obs_res (get_hash K r st h) (fun x => [x]))
  | OBlockHash h => (s, obs_res (block_hash K r st h) (fun x => [x]))
  | OTime h => (s, obs_res (get_time K r st h) (fun x => [x]))
  | OHeaderAt h => (s, obs_res (header_at K r st h) (fun x => [hid x; hprev x; htime x]))
  | OGetHeaders h maxc =>
      (s, obs_res (get_headers K r st h maxc)
                  (fun x => let '(rq, start, hs) := x in
                            rq :: Z.land start 4294967295 :: map hid hs))
  | OFiles => (s, OK :: files_obs st)
  end.

Fixpoint run_from (K : Z) (rm_err : bool) (s : repo * store) (ops : list op) : list obs :=
  match ops with
  | [] => []
  | o :: ops' => let '(s1, ob) := step K rm_err s o in ob :: run_from K rm_err s1 ops'
  end.

(* the harness starts every case with NewBlockRepository + Load on empty storage *)
Definition init_state : repo * store := (Repo 0 [genesis] {[ 0 := 0 ]}, ∅).

Definition run (K : Z) (rm_err : bool) (ops : list op) : list obs := run_from K rm_err init_state ops.
