(* Crash points of the block repository (property C10): the storage mutations every operation of
   model/BlockRepo.v issues, in program order, and the store image after each single mutation. *)
From V.lib Require Import Base.
From V.model Require Import BlockRepo BlockRepoSpec.

Inductive mut := MWrite (k : Z) (hs : list header) | MRemove (k : Z).

Definition apply_mut (st : store) (m : mut) : store :=
  match m with MWrite k hs => <[k := hs]> st | MRemove k => delete k st end.

Definition apply_muts (st : store) (ms : list mut) : store := fold_left apply_mut ms st.

Section WithK.
Variable K : Z.
Variable rm_err : bool.

(* the Remove calls of Revert's second loop that actually delete a key (a Remove of a missing key
   mutates nothing; with rm_err it aborts the revert) *)
Fixpoint remove_muts (st : store) (fuel : nat) (rh t : Z) : list mut :=
  match fuel with
  | O => []
  | S f =>
    if rh >=? t then
      let p := path K (rh + K) in
      match st !! p with
      | None => if rm_err then [] else remove_muts st f (rh - K) t
      | Some _ => MRemove p :: remove_muts (delete p st) f (rh - K) t
      end
    else []
  end.

Definition revert_muts (r : repo) (st : store) (t : Z) : list mut :=
  if (t >? height r) || (t <? 0) then [] else
  let w0 := MWrite (path K (height r)) (lasth r) in
  let st1 := save K r st in
  match collect_hashes K r st1 (Z.to_nat (height r - t)) (height r) with
  | Ok _ =>
    let full_end := godiv (height r) K * K - 1 in
    let fuel := Z.to_nat (godiv (height r) K + 1) in
    let rms := remove_muts st1 fuel full_end t in
    match remove_files K rm_err st1 fuel full_end t with
    | (Some rh, st2) =>
        let p := path K (rh + K) in
        let cnt := t - rh in
        match st2 !! p with
        | Some data => if (cnt <? K) && (zlen data >? cnt)
                       then w0 :: rms ++ [MWrite p (take (Z.to_nat cnt) data)]
                       else w0 :: rms
        | None => w0 :: rms
        end
    | (None, _) => w0 :: rms
    end
  | _ => [w0]
  end.

Fixpoint add_n_muts (r : repo) (st : store) (n : nat) (id prev : Z) : list mut :=
  match n with
  | O => []
  | S n' =>
      let m := if zlen (lasth r) =? K then [MWrite (path K (height r)) (lasth r)] else [] in
      let '(r1, st1) := add K r st (Header id prev (time_of_id id)) in
      m ++ add_n_muts r1 st1 n' (id + 1) id
  end.

(* storage mutations of one operation, in program order *)
Definition op_muts (s : repo * store) (o : op) : list mut :=
  let '(r, st) := s in
  match o with
  | OAdd _ _ _ => if zlen (lasth r) =? K then [MWrite (path K (height r)) (lasth r)] else []
  | OAddN first n =>
      let prev := match last_hash r with Ok x => x | _ => -88 end in
      add_n_muts r st (Z.to_nat n) first prev
  | ORevert t => revert_muts r st t
  | OSave => [MWrite (path K (height r)) (lasth r)]
  | _ => []
  end.

(* all store images after k = 0 .. |ms| mutations *)
Fixpoint prefixes_images (st : store) (ms : list mut) : list store :=
  st :: match ms with
        | [] => []
        | m :: ms' => prefixes_images (apply_mut st m) ms'
        end.

(* crash images along a history: (image, chain before the operation, chain after the operation) *)
Fixpoint crash_images (s : repo * store) (a : astate) (ops : list op)
  : list (store * list header * list header) :=
  match ops with
  | [] => []
  | o :: ops' =>
      let s1 := fst (step K rm_err s o) in
      let a1 := fst (spec_step K a o) in
      map (fun st' => (st', chain a, chain a1)) (prefixes_images (snd s) (op_muts s o))
      ++ crash_images s1 a1 ops'
  end.

End WithK.
