(* Abstract specification of the block store (property C09): the chain is a list of headers
   (genesis first) plus the number of headers that have reached storage.  Every observation of
   every operation is a function of this abstract state.  This is the reference the property text
   describes: "queries ... agree with the abstract list of headers". *)
From V.lib Require Import Base.
From V.model Require Import BlockRepo.

Record astate := AState { chain : list header; saved : Z }.

Definition a_init : astate := AState [genesis] 0.

Definition find_id (c : list header) (id : Z) : option Z :=
  (fix go (c : list header) (i : Z) : option Z :=
     match c with
     | [] => None
     | h :: c' => if hid h =? id then Some i else go c' (i + 1)
     end) c 0.

Definition at_height (c : list header) (h : Z) : option header :=
  if h <? 0 then None else c !! Z.to_nat h.

Definition tip_height (c : list header) : Z := zlen c - 1.

(* stored files as (index, header count) pairs for a persisted prefix of n headers *)
Fixpoint files_of (K : Z) (fuel : nat) (i n : Z) : list Z :=
  match fuel with
  | O => []
  | S f => if n <=? 0 then [] else i :: Z.min K n :: files_of K f (i + 1) (n - K)
  end.

Definition spec_step (K : Z) (a : astate) (o : op) : astate * obs :=
  let c := chain a in
  match o with
  | OAdd id prev time =>
      (AState (c ++ [Header id prev time])
              (if Z.rem (zlen c) K =? 0 then zlen c else saved a), [OK])
  | OAddN first n =>
      let prev := match last c with Some h => hid h | None => -88 end in
      ((fix go (k : nat) (a : astate) (id prev : Z) : astate :=
          match k with
          | O => a
          | S k' =>
            let c := chain a in
            go k' (AState (c ++ [Header id prev (time_of_id id)])
                          (if Z.rem (zlen c) K =? 0 then zlen c else saved a)) (id + 1) id
          end) (Z.to_nat n) a first prev, [OK])
  | ORevert t =>
      if (t >? tip_height c) || (t <? 0) then (a, [ERR])
      else (AState (take (Z.to_nat (t + 1)) c) (t + 1), [OK])
  | OSave => (AState c (zlen c), [OK])
  | OLoad => (if saved a =? 0 then AState [genesis] 0 else AState (take (Z.to_nat (saved a)) c) (saved a),
              [OK])
  | OLastHeight => (a, [OK; tip_height c])
  | OLastHash => (a, match last c with Some h => [OK; hid h] | None => [PANIC] end)
  | OContains id => (a, [OK; b2z (bool_decide (is_Some (find_id c id)))])
  | OHeight id => (a, match find_id c id with Some h => [OK; 1; h] | None => [OK; 0; 0] end)
  | OHash h => (a, match at_height c h with Some x => [OK; hid x] | None => [ERR] end)
  | OBlockHash h =>
      (a, match at_height c (if h =? -1 then tip_height c else h) with
          | Some x => [OK; hid x] | None => [ERR] end)
  | OTime h => (a, match at_height c h with Some x => [OK; htime x] | None => [OK; 0] end)
  | OHeaderAt h =>
      (a, match at_height c (if h =? -1 then tip_height c else h) with
          | Some x => [OK; hid x; hprev x; htime x] | None => [ERR] end)
  | OGetHeaders h maxc =>
      let start := if h =? -1 then Z.max 0 (zlen c - maxc) else h in
      let hs := if start <? 0 then [] else take (Z.to_nat maxc) (drop (Z.to_nat start) c) in
      (a, OK :: h :: Z.land start 4294967295 :: map hid hs)
  | OFiles => (a, OK :: files_of K (Z.to_nat (saved a)) 0 (saved a))
  end.

Fixpoint spec_run_from (K : Z) (a : astate) (ops : list op) : list obs :=
  match ops with
  | [] => []
  | o :: ops' => let '(a1, ob) := spec_step K a o in ob :: spec_run_from K a1 ops'
  end.

Definition spec_run (K : Z) (ops : list op) : list obs := spec_run_from K a_init ops.

(* Well-formed operation sequences: a header is only added when its id is not already in the
   chain (the node checks Contains before Add; ids stand for collision-free hashes). *)
Definition fresh (c : list header) (id : Z) : bool := negb (bool_decide (is_Some (find_id c id))).

Fixpoint fresh_range (c : list header) (k : nat) (id : Z) : bool :=
  match k with
  | O => true
  | S k' => fresh c id && fresh_range c k' (id + 1)
  end.

Definition op_valid (a : astate) (o : op) : bool :=
  match o with
  | OAdd id _ _ => fresh (chain a) id
  | OAddN first n => fresh_range (chain a) (Z.to_nat n) first
  | _ => true
  end.

Fixpoint valid_from (K : Z) (a : astate) (ops : list op) : bool :=
  match ops with
  | [] => true
  | o :: ops' => op_valid a o && valid_from K (fst (spec_step K a o)) ops'
  end.

Definition valid (K : Z) (ops : list op) : bool := valid_from K a_init ops.

(* The property monitor: the implementation's observations must be the specification's. *)
Definition c09_monitor (K : Z) : checker op := cmp_run (spec_run K).
