(* Model of the remote client's message handling (properties C16, C17, C18), pkg/client/remote_client.go:
     handleMessage           (accept verification, data gating on accepted, message-id gate)   2152-2375
     addHandlerMessage / runHandler / processHandler  (bounded FIFO to one consumer)            2128-2135, 2377-2431
     handleRequestResponse through runRequests  (response routing over the pending list)      1752-2126
     the public synchronous calls  (what they register, how a routed response becomes a result) 316-1181
     Ready, generateSession / the reset at the top of runConnection                           278-310, 1261-1292, 1451-1456
     GetOutputs                                                                                663-707
   Executable definitions only.  Cryptography is symbolic (free constructors): a key is either a
   root key or the key derived from a root key and a session hash; a signature records its signer
   and the signed content; verification is equality.  Hashes are ids: key k < 100 is a txid, key
   k >= 100 a block hash; request kinds:
     1 SendTx 2 SendExpandedTx 3 SaveTxs 4 GetTx 5 GetHeaders(height) 6 GetHeader 7 GetFeeQuotes
     8 ReprocessTx 9 MarkHeaderInvalid 10 MarkHeaderNotInvalid *)
From V.lib Require Import Base.

(* ---- symbolic crypto ---- *)
Inductive key := KRoot (id : Z) | KDerived (root : Z) (hash : Z).
Definition key_eqb (a b : key) : bool :=
  match a, b with
  | KRoot x, KRoot y => x =? y
  | KDerived r h, KDerived r' h' => (r =? r') && (h =? h')
  | _, _ => false
  end.

Record acontent := AContent { ac_key : key; ac_pd : Z; ac_ut : Z; ac_mc : Z; ac_hash : Z }.
Definition acontent_eqb (a b : acontent) : bool :=
  key_eqb (ac_key a) (ac_key b) && (ac_pd a =? ac_pd b) && (ac_ut a =? ac_ut b) && (ac_mc a =? ac_mc b)
  && (ac_hash a =? ac_hash b).

Record sig := Sig { s_signer : key; s_content : acontent }.

(* AcceptRegister as received *)
Record accept_msg := AMsg { a_key : key; a_pd : Z; a_ut : Z; a_mc : Z; a_sig : sig }.

(* AcceptRegister.SigHash(h): key, the three counts, the session hash *)
Definition accept_sighash (a : accept_msg) (h : Z) : acontent := AContent (a_key a) (a_pd a) (a_ut a) (a_mc a) h.
(* Signature.Verify(sighash, key) *)
Definition verify (s : sig) (c : acontent) (k : key) : bool := key_eqb (s_signer s) k && acontent_eqb (s_content s) c.

Definition SERVER_ROOT : Z := 7.

(* ---- server -> client messages ---- *)
Inductive smsg :=
| MTx (id k : Z) | MUpdate (id k : Z) | MInSync | MChainTip (k : Z)
| MHeaders (reqh n : Z) | MHeader (key : Z) | MFee | MBaseTx (k : Z)
| MAccept (kind key : Z)                 (* key -1: no hash *)
| MReject (kind key code : Z)
| MPing.

(* ---- state ---- *)
Record pend := Pend { p_h : Z; p_kind : Z; p_key : Z; p_call : bool; p_short : bool }.

Record cl := Cl {
  c_full : bool; c_qcap : Z;
  c_conn : bool; c_sess : Z;              (* a connection exists; number of the current session hash *)
  c_acc : bool; c_hs : bool;              (* accepted, handshakeComplete *)
  c_next : Z;                             (* nextMessageID *)
  c_queue : list (Z * Z);                 (* handler channel: (kind, id) *)
  c_pend : list pend;                     (* RemoteClient.requests, in order *)
  c_nh : Z;                               (* handles issued *)
  c_results : list (Z * list Z);          (* results of completed calls *)
}.

Definition cl_init (full : bool) (qcap : Z) : cl := Cl full qcap false 0 false false 1 [] [] 0 [].

Definition set_flags (s : cl) (acc hs : bool) : cl :=
  Cl (c_full s) (c_qcap s) (c_conn s) (c_sess s) acc hs (c_next s) (c_queue s) (c_pend s) (c_nh s) (c_results s).
Definition set_next (s : cl) (n : Z) : cl :=
  Cl (c_full s) (c_qcap s) (c_conn s) (c_sess s) (c_acc s) (c_hs s) n (c_queue s) (c_pend s) (c_nh s) (c_results s).
Definition set_queue (s : cl) (q : list (Z * Z)) : cl :=
  Cl (c_full s) (c_qcap s) (c_conn s) (c_sess s) (c_acc s) (c_hs s) (c_next s) q (c_pend s) (c_nh s) (c_results s).
Definition set_pend (s : cl) (p : list pend) : cl :=
  Cl (c_full s) (c_qcap s) (c_conn s) (c_sess s) (c_acc s) (c_hs s) (c_next s) (c_queue s) p (c_nh s) (c_results s).

(* addHandlerMessage: queued, or timed out because the channel stayed full *)
Definition enqueue (s : cl) (e : Z * Z) : cl * bool :=
  if zlen (c_queue s) <? c_qcap s then (set_queue s (c_queue s ++ [e]), true) else (s, false).

(* ---- response routing (handleRequestResponse) ---- *)
(* first pending request satisfying f is removed and returned *)
Fixpoint take_first (f : pend -> bool) (l : list pend) : option pend * list pend :=
  match l with
  | [] => (None, [])
  | p :: l' => if f p then (Some p, l')
               else let '(r, l'') := take_first f l' in (r, p :: l'')
  end.

Definition kk (kind key : Z) (p : pend) : bool := (p_kind p =? kind) && (p_key p =? key).
Definition konly (kind : Z) (p : pend) : bool := p_kind p =? kind.

Definition mem_z (x : Z) (l : list Z) : bool := existsb (Z.eqb x) l.

(* which pending request a message goes to; notfound: Headers only (ErrRequestNotFound) *)
Definition route (m : smsg) (l : list pend) : option pend * list pend * bool :=
  match m with
  | MHeaders reqh _ => let '(r, l') := take_first (kk 5 reqh) l in
                       (r, l', match r with None => true | Some _ => false end)
  | MHeader key => (take_first (kk 6 key) l, false)
  | MFee => (take_first (konly 7) l, false)
  | MBaseTx k => (take_first (kk 4 k) l, false)
  | MAccept kind key =>
      if key =? -1 then (None, l, false)
      else if mem_z kind [1; 2; 3; 8; 9; 10] then (take_first (kk kind key) l, false)
      else (None, l, false)
  | MReject kind key _ =>
      if key =? -1 then (if kind =? 7 then (take_first (konly 7) l, false) else (None, l, false))
      else if kind =? 7 then (take_first (konly 7) l, false)
      else if mem_z kind [1; 2; 3; 4; 6; 8; 9; 10] then (take_first (kk kind key) l, false)
      else (None, l, false)
  | _ => (None, l, false)
  end.

(* what a public call returns for the response routed to it: [status; detail...]
   0 ok, 6 reject (code), 3 unknown response *)
Definition call_result (kind : Z) (m : smsg) : list Z :=
  match m with
  | MReject _ _ code => [6; code]
  | MAccept _ _ => if mem_z kind [1; 2; 3; 8; 9; 10] then [0] else [3]
  | MBaseTx k => if kind =? 4 then [0; k] else [3]
  | MHeaders reqh n => if kind =? 5 then [0; reqh; n] else [3]
  | MHeader key => if kind =? 6 then [0; key] else [3]
  | MFee => if kind =? 7 then [0] else [3]
  | _ => [3]
  end.

Definition deliver (s : cl) (m : smsg) : cl * list Z * bool :=
  let '(r, l', nf) := route m (c_pend s) in
  match r with
  | None => (s, [], nf)
  | Some p =>
      let s1 := set_pend s l' in
      let s2 := if p_call p
                then Cl (c_full s1) (c_qcap s1) (c_conn s1) (c_sess s1) (c_acc s1) (c_hs s1) (c_next s1)
                        (c_queue s1) (c_pend s1) (c_nh s1) (c_results s1 ++ [(p_h p, call_result (p_kind p) m)])
                else s1 in
      (s2, [p_h p], nf)
  end.

(* ---- handleMessage for data messages ---- *)
Definition gated_through (m : smsg) : bool := match m with MReject _ _ _ | MPing => true | _ => false end.

(* returns the new state, the error class (0 none, 6 reject of the registration) and the handles served *)
Definition handle_msg (s : cl) (m : smsg) : cl * Z * list Z :=
  if negb (c_acc s) && negb (gated_through m) then (s, 0, []) else
  match m with
  | MTx id _ => if c_next s =? id
                then let '(s1, ok) := enqueue s (1, id) in ((if ok then set_next s1 (id + 1) else s1), 0, [])
                else (s, 0, [])
  | MUpdate id _ => if c_next s =? id
                    then let '(s1, ok) := enqueue s (2, id) in ((if ok then set_next s1 (id + 1) else s1), 0, [])
                    else (s, 0, [])
  | MInSync => (fst (enqueue s (4, 0)), 0, [])
  | MChainTip _ => (fst (enqueue s (6, 0)), 0, [])
  | MHeaders reqh _ =>
      let '(s1, d, nf) := deliver s m in
      if nf then (fst (enqueue s1 (3, reqh)), 0, d) else (s1, 0, d)
  | MFee => let '(s1, d, _) := deliver s m in (fst (enqueue s1 (7, 0)), 0, d)
  | MHeader _ | MBaseTx _ | MAccept _ _ => let '(s1, d, _) := deliver s m in (s1, 0, d)
  | MReject _ _ _ => if negb (c_acc s) then (s, 6, [])
                     else let '(s1, d, _) := deliver s m in (s1, 0, d)
  | MPing => (s, 0, [])
  end.

(* ---- AcceptRegister ---- *)
Definition expected_key (s : cl) : key := KDerived SERVER_ROOT (c_sess s).

(* error class: 0 accepted, 1 wrong key, 2 bad signature *)
Definition accept_check (s : cl) (a : accept_msg) : Z :=
  if negb (key_eqb (a_key a) (expected_key s)) then 1
  else if negb (verify (a_sig a) (accept_sighash a (c_sess s)) (a_key a)) then 2
  else 0.

Definition handle_accept (s : cl) (a : accept_msg) : cl * Z :=
  let e := accept_check s a in
  if negb (e =? 0) then (s, e) else
  let s1 := set_flags s true (if c_full s then c_hs s else true) in
  (fst (enqueue s1 (5, 0)), 0).

(* ---- GetOutputs ---- *)
Definition NOUT : Z := 3.
(* outs: the result slots; returns fetch count and either an error class or the filled slots *)
Fixpoint fill_same (k : Z) (rest : list (Z * Z)) (slots : list (option Z)) : option (list (option Z)) :=
  match rest, slots with
  | (k', i') :: rest', sl :: slots' =>
      match sl with
      | None => if k' =? k
                then if NOUT <=? i' then None
                     else match fill_same k rest' slots' with Some r => Some (Some (10 * k + i') :: r) | None => None end
                else match fill_same k rest' slots' with Some r => Some (None :: r) | None => None end
      | Some v => match fill_same k rest' slots' with Some r => Some (Some v :: r) | None => None end
      end
  | _, _ => Some []
  end.

Fixpoint get_outputs (fuel : nat) (ops : list (Z * Z)) (slots : list (option Z)) (known : list Z) (fetches : Z)
  : Z * option (list Z) * Z :=   (* fetches, values or None, error class *)
  match fuel with
  | O => (fetches, None, -9)
  | S f =>
    match ops, slots with
    | [], _ => (fetches, Some [], 0)
    | (k, i) :: ops', sl :: slots' =>
        match sl with
        | Some v =>
            let '(fc, r, e) := get_outputs f ops' slots' known fetches in
            (fc, match r with Some vs => Some (v :: vs) | None => None end, e)
        | None =>
            if negb (mem_z k known) then (fetches + 1, None, 6) else
            if NOUT <=? i then (fetches + 1, None, 3) else
            match fill_same k ops' slots' with
            | None => (fetches + 1, None, 3)
            | Some slots'' =>
                let '(fc, r, e) := get_outputs f ops' slots'' known (fetches + 1) in
                (fc, match r with Some vs => Some ((10 * k + i) :: vs) | None => None end, e)
            end
        end
    | _, [] => (fetches, None, -9)
    end
  end.

Fixpoint zip_out (ops : list (Z * Z)) (vs : list Z) : list Z :=
  match ops, vs with
  | (k, i) :: ops', v :: vs' => k :: i :: v :: zip_out ops' vs'
  | _, _ => []
  end.

(* ---- operations ---- *)
Inductive op :=
| OSession
| OAccept (a : accept_msg)
| OReady (n : Z)
| OMsg (m : smsg)
| ODeq
| OPend (kind key : Z)
| OUnpend (h : Z)
| OCall (kind key : Z) (short : bool)
| OAwait (h : Z)
| OOutputs (ops : list (Z * Z)) (known : list Z).

Definition pend_handles (s : cl) : list Z := map p_h (c_pend s).

Definition routing_obs (d : list Z) (s : cl) : list Z :=
  zlen d :: d ++ zlen (c_pend s) :: pend_handles s.

Definition find_result (s : cl) (h : Z) : option (list Z) :=
  match find (fun e => fst e =? h) (c_results s) with Some e => Some (snd e) | None => None end.

Definition step (s : cl) (o : op) : cl * obs :=
  match o with
  | OSession =>
      (Cl (c_full s) (c_qcap s) true (c_sess s + 1) false false (c_next s) (c_queue s) (c_pend s) (c_nh s)
          (c_results s), [OK])
  | OAccept a =>
      let '(s1, e) := handle_accept s a in
      (s1, [e; b2z (c_acc s1); b2z (c_hs s1); zlen (c_queue s1)])
  | OReady n =>
      if negb (c_conn s) then (s, [1; c_next s; b2z (c_hs s); -1]) else
      let n' := if n =? 0 then 1 else n in
      let s1 := set_flags (set_next s n') (c_acc s) true in
      (s1, [0; n'; 1; n'])
  | OMsg m =>
      let '(s1, e, d) := handle_msg s m in
      (s1, [e; c_next s1; zlen (c_queue s1)] ++ routing_obs d s1)
  | ODeq =>
      match c_queue s with
      | [] => (s, [-1])
      | (k, id) :: q' => (set_queue s q', if k =? 7 then [] else [k; id])
      end
  | OPend kind key =>
      let p := Pend (c_nh s) kind (if kind =? 7 then 0 else key) false false in
      (Cl (c_full s) (c_qcap s) (c_conn s) (c_sess s) (c_acc s) (c_hs s) (c_next s) (c_queue s)
          (c_pend s ++ [p]) (c_nh s + 1) (c_results s), [OK; c_nh s])
  | OUnpend h =>
      let s1 := set_pend s (filter (fun p => p_h p ≠ h) (c_pend s)) in
      (s1, 0 :: routing_obs [] s1)
  | OCall kind key short =>
      let p := Pend (c_nh s) kind (if kind =? 7 then 0 else key) true short in
      (Cl (c_full s) (c_qcap s) (c_conn s) (c_sess s) (c_acc s) (c_hs s) (c_next s) (c_queue s)
          (c_pend s ++ [p]) (c_nh s + 1) (c_results s),
       [OK; c_nh s; kind; if kind =? 7 then -1 else key])
  | OAwait h =>
      match find_result s h with
      | Some r => (s, OK :: r)
      | None =>
          match find (fun p => p_h p =? h) (c_pend s) with
          | Some p =>
              if p_short p then
                (* the request time-out fires: the call deregisters itself and returns a time-out *)
                let s1 := set_pend s (filter (fun p => p_h p ≠ h) (c_pend s)) in
                let s2 := Cl (c_full s1) (c_qcap s1) (c_conn s1) (c_sess s1) (c_acc s1) (c_hs s1) (c_next s1)
                             (c_queue s1) (c_pend s1) (c_nh s1) (c_results s1 ++ [(h, [4])]) in
                (s2, [OK; 4] ++ routing_obs [] s2)
              else (s, [OK; 9])
          | None => (s, [OK; 8])
          end
      end
  | OOutputs ops known =>
      if negb (c_acc s) then (s, [-5]) else
      let '(fc, r, e) := get_outputs (S (length ops)) ops (map (fun _ => None) ops) known 0 in
      match r with
      | Some vs => (s, [OK; fc; zlen ops] ++ zip_out ops vs)
      | None => (s, [ERR; fc; e])
      end
  end.

Fixpoint run_from (s : cl) (ops : list op) : list obs :=
  match ops with
  | [] => []
  | o :: ops' => let '(s1, ob) := step s o in ob :: run_from s1 ops'
  end.

Definition run (full : bool) (qcap : Z) (ops : list op) : list obs := run_from (cl_init full qcap) ops.
