(* Executable statements of properties C16, C17, C18 over the operations and the observations of
   the remote client (the same observations the harness prints for the real RemoteClient and the
   model Client.v computes).  Each monitor keeps its own bookkeeping and never looks at the model. *)
From V.lib Require Import Base.
From V.model Require Import Client.

(* ================= C17: message-id gate and handler order ================= *)
Record m17 := M17 {
  g_exp : Z;                  (* the id the next delivered tx / update must carry = reported next id *)
  g_q : list (Z * Z);         (* what the handlers have still to receive, in order *)
  g_acc : bool;
}.

Definition m17_init : m17 := M17 1 [] false.

(* what a server message looks like to the handlers: (kind, id) *)
Definition handler_view (m : smsg) : option (Z * Z) :=
  match m with
  | MTx id _ => Some (1, id) | MUpdate id _ => Some (2, id)
  | MInSync => Some (4, 0) | MChainTip _ => Some (6, 0)
  | MHeaders reqh _ => Some (3, reqh) | MFee => Some (7, 0)
  | _ => None
  end.

Definition is_idmsg (m : smsg) : option Z :=
  match m with MTx id _ | MUpdate id _ => Some id | _ => None end.

(* codes:
   701 a tx / update whose id is not the expected one was queued for the handlers
   702 the reported next message id is not (last queued id + 1) / the value declared ready
   703 handlers receive something else than the oldest queued message (order, loss, duplication)
   704 a tx / update with the expected id, on an accepted connection with room in the handler queue, was not queued
   705 the handler queue length changed in a way no single message explains
   706 data was queued for the handlers on a connection that has not been accepted *)
Definition step17 (qcap : Z) (s : m17) (o : op) (ob : obs) : Z * m17 :=
  match o, ob with
  | OSession, _ => (0, M17 (g_exp s) (g_q s) false)
  | OAccept _, [e; acc; _; qlen] =>
      let grew := qlen =? zlen (g_q s) + 1 in
      let same := qlen =? zlen (g_q s) in
      if negb (grew || same) then (705, s) else
      (0, M17 (g_exp s) (if grew then g_q s ++ [(5, 0)] else g_q s) (negb (acc =? 0)))
  | OReady n, [err; next; _; _] =>
      if err =? 0 then
        let n' := if n =? 0 then 1 else n in
        ((if next =? n' then 0 else 702), M17 n' (g_q s) (g_acc s))
      else ((if next =? g_exp s then 0 else 702), s)
  | OMsg m, e :: next :: qlen :: _ =>
      let grew := qlen =? zlen (g_q s) + 1 in
      let same := qlen =? zlen (g_q s) in
      if negb (grew || same) then (705, s) else
      if grew && negb (g_acc s) then (706, s) else
      match is_idmsg m with
      | Some id =>
          if grew then
            if negb (id =? g_exp s) then (701, s)
            else ((if next =? id + 1 then 0 else 702), M17 (id + 1) (g_q s ++ [(match m with MTx _ _ => 1 | _ => 2 end, id)]) (g_acc s))
          else
            if (id =? g_exp s) && g_acc s && (zlen (g_q s) <? qcap) then (704, s)
            else ((if next =? g_exp s then 0 else 702), s)
      | None =>
          if negb (next =? g_exp s) then (702, s) else
          if grew then
            match handler_view m with
            | Some v => (0, M17 (g_exp s) (g_q s ++ [v]) (g_acc s))
            | None => (705, s)
            end
          else (0, s)
      end
  | ODeq, _ =>
      match g_q s with
      | [] => ((if zlist_eqb ob [-1] then 0 else 703), s)
      | (k, id) :: q' =>
          ((if zlist_eqb ob (if k =? 7 then [] else [k; id]) then 0 else 703), M17 (g_exp s) q' (g_acc s))
      end
  | _, _ => (0, s)
  end.

Fixpoint mon17_from (qcap : Z) (s : m17) (i : Z) (ops : list op) (tr : list obs) : option (Z * obs) :=
  match ops, tr with
  | o :: ops', ob :: tr' =>
      let '(code, s1) := step17 qcap s o ob in
      if negb (code =? 0) then Some (i, [code]) else mon17_from qcap s1 (i + 1) ops' tr'
  | [], [] => None
  | _, _ => Some (i, [797])
  end.

Definition c17_monitor (qcap : Z) : checker op := fun ops tr => mon17_from qcap m17_init 0 ops tr.

(* the tx / update ids the handlers receive, in order (every ODeq observation of kind 1 or 2) *)
Fixpoint delivered_ids (tr : list obs) : list Z :=
  match tr with
  | [] => []
  | [k; id] :: tr' => if (k =? 1) || (k =? 2) then id :: delivered_ids tr' else delivered_ids tr'
  | _ :: tr' => delivered_ids tr'
  end.

(* ================= C16: responses go to the request they answer ================= *)
(* the meaning of the protocol, written independently of the routing code: message m answers a
   request of this kind and key *)
Definition answers (m : smsg) (kind key : Z) : bool :=
  match m with
  | MBaseTx k => (kind =? 4) && (key =? k)
  | MHeaders reqh _ => (kind =? 5) && (key =? reqh)
  | MHeader h => (kind =? 6) && (key =? h)
  | MFee => kind =? 7
  | MAccept k h => (k =? kind) && negb (h =? -1) && (key =? h) && mem_z kind [1; 2; 3; 8; 9; 10]
  | MReject k h _ =>
      (k =? kind) &&
      (if kind =? 7 then true
       else negb (h =? -1) && (key =? h) && mem_z kind [1; 2; 3; 4; 6; 8; 9; 10])
  | _ => false
  end.

(* the value a call must return for the message that answers it *)
Definition expected_result (kind : Z) (m : smsg) : list Z :=
  match m with
  | MReject _ _ code => [6; code]
  | MBaseTx k => [0; k]
  | MHeaders reqh n => [0; reqh; n]
  | MHeader h => [0; h]
  | _ => [0]
  end.

Record live := Live { l_h : Z; l_kind : Z; l_key : Z; l_call : bool; l_short : bool }.

Record m16 := M16 {
  r_live : list live;                   (* outstanding requests, oldest first *)
  r_n : Z;                              (* handles issued *)
  r_res : list (Z * list Z);            (* what each finished call must have returned *)
  r_acc : bool;
}.
Definition m16_init : m16 := M16 [] 0 [] false.

Fixpoint first_answered (m : smsg) (l : list live) : option live * list live :=
  match l with
  | [] => (None, [])
  | x :: l' => if answers m (l_kind x) (l_key x) then (Some x, l')
               else let '(r, l'') := first_answered m l' in (r, x :: l'')
  end.

Definition live_handles (l : list live) : list Z := map l_h l.

Definition lookup_res (s : m16) (h : Z) : option (list Z) :=
  match find (fun e => fst e =? h) (r_res s) with Some e => Some (snd e) | None => None end.

(* outputs lookup, stated directly: every outpoint known and in range -> its value, in order *)
Definition outputs_spec (ops : list (Z * Z)) (known : list Z) : option (list Z) :=
  if forallb (fun p => mem_z (fst p) known && (snd p <? NOUT)) ops
  then Some (flat_map (fun p => [fst p; snd p; 10 * fst p + snd p]) ops) else None.

(* codes:
   601 a response was delivered to a request it does not answer, or not to the (oldest) request it answers
   602 the pending list after the step is not the outstanding requests minus the one answered
   603 a call returned something else than the response that answers it (value, reject code)
   604 a call that got no response did not fail with a time-out, or disturbed other pending calls
   605 the outputs lookup did not return, per outpoint and in order, that outpoint's value (or an error when it must)
   606 a call reported a result although nothing answered it
   607 a response reached a request on a connection that is not accepted
   609 a call's message was written to the connection before its request was registered (a reply
       routed before the caller resumes would find nobody) *)
Definition step16 (s : m16) (o : op) (ob : obs) : Z * m16 :=
  match o, ob with
  | OSession, _ => (0, M16 (r_live s) (r_n s) (r_res s) false)
  | OAccept _, [_; acc; _; _] => (0, M16 (r_live s) (r_n s) (r_res s) (negb (acc =? 0)))
  | OPend kind key, [_; h] =>
      (0, M16 (r_live s ++ [Live h kind (if kind =? 7 then 0 else key) false false]) (r_n s + 1) (r_res s) (r_acc s))
  | OCall kind key short, [c; h; sk; skey] =>
      ((if c =? -6 then 609 else
        if (sk =? kind) && (skey =? (if kind =? 7 then -1 else key)) then 0 else 601),
       M16 (r_live s ++ [Live h kind (if kind =? 7 then 0 else key) true short]) (r_n s + 1) (r_res s) (r_acc s))
  | OUnpend h, _ :: tail =>
      let l' := filter (fun x => l_h x ≠ h) (r_live s) in
      ((if zlist_eqb tail (0 :: zlen l' :: live_handles l') then 0 else 602), M16 l' (r_n s) (r_res s) (r_acc s))
  | OMsg m, _ :: _ :: _ :: tail =>
      let '(served, rest) := if r_acc s then first_answered m (r_live s) else (None, r_live s) in
      match served with
      | None =>
          ((if zlist_eqb tail (0 :: zlen rest :: live_handles rest) then 0
            else match tail with 0 :: _ => 602 | _ => if r_acc s then 601 else 607 end), s)
      | Some x =>
          let want := 1 :: l_h x :: zlen rest :: live_handles rest in
          ((if zlist_eqb tail want then 0 else match tail with 1 :: h :: _ => if h =? l_h x then 602 else 601 | _ => 601 end),
           M16 rest (r_n s) (if l_call x then r_res s ++ [(l_h x, expected_result (l_kind x) m)] else r_res s) (r_acc s))
      end
  | OAwait h, _ :: got =>
      match lookup_res s h with
      | Some r => ((if zlist_eqb got r then 0 else 603), s)
      | None =>
          match find (fun x => l_h x =? h) (r_live s) with
          | Some x =>
              if l_short x then
                let l' := filter (fun y => l_h y ≠ h) (r_live s) in
                ((if zlist_eqb got ([4; 0; zlen l'] ++ live_handles l') then 0 else 604),
                 M16 l' (r_n s) (r_res s ++ [(h, [4])]) (r_acc s))
              else ((if zlist_eqb got [9] then 0 else 606), s)
          | None => (0, s)
          end
      end
  | OOutputs ops known, st :: _ :: tail =>
      if negb (r_acc s) then (0, s) else
      match outputs_spec ops known with
      | Some vs => ((if (st =? OK) && zlist_eqb tail (zlen ops :: vs) then 0 else 605), s)
      | None => ((if st =? ERR then 0 else 605), s)
      end
  | _, _ => (0, s)
  end.

Fixpoint mon16_from (s : m16) (i : Z) (ops : list op) (tr : list obs) : option (Z * obs) :=
  match ops, tr with
  | o :: ops', ob :: tr' =>
      let '(code, s1) := step16 s o ob in
      if negb (code =? 0) then Some (i, [code]) else mon16_from s1 (i + 1) ops' tr'
  | [], [] => None
  | _, _ => Some (i, [697])
  end.

Definition c16_monitor : checker op := fun ops tr => mon16_from m16_init 0 ops tr.

(* hypothesis of C16: concurrent requests have distinct keys (per kind); fee quote requests have no
   key, so at most one is outstanding; handles passed to unpend / await exist *)
Fixpoint c16_valid_from (livek : list (Z * Z * Z)) (n : Z) (ops : list op) : bool :=
  match ops with
  | [] => true
  | o :: ops' =>
      match o with
      | OPend kind key | OCall kind key _ =>
          let key' := if kind =? 7 then 0 else key in
          negb (existsb (fun e => (fst (fst e) =? kind) && (snd (fst e) =? key')) livek)
          && (1 <=? kind) && (kind <=? 10) && (0 <=? key)
          && c16_valid_from (livek ++ [(kind, key', n)]) (n + 1) ops'
      | _ => c16_valid_from livek n ops'
      end
  end.
(* (requests answered or timed out stay in the table: keys are never reused within a history) *)
Definition c16_valid (ops : list op) : bool := c16_valid_from [] 0 ops.

(* ================= C18: the accept message authenticates the server ================= *)
Definition genuine (a : accept_msg) (sess : Z) : bool :=
  key_eqb (a_key a) (KDerived SERVER_ROOT sess) &&
  key_eqb (s_signer (a_sig a)) (a_key a) &&
  acontent_eqb (s_content (a_sig a)) (AContent (a_key a) (a_pd a) (a_ut a) (a_mc a) sess).

Record m18 := M18 { h_sess : Z; h_acc : bool; h_ready : bool; h_q : Z; h_next : Z }.
Definition m18_init : m18 := M18 0 false false 0 1.

(* codes:
   801 a connection became accepted without a genuine accept message (or a genuine one was refused)
   802 a forged accept message did not fail the connection with the right error
   803 data reached the handlers / the pending requests / the message id before the connection was accepted
   804 the handshake was marked complete although neither ready was declared on this connection nor
       (control connections) the server was accepted
   805 Ready reported success although no ready message with the declared next message id was written
       to the connection *)
Definition step18 (full : bool) (s : m18) (o : op) (ob : obs) : Z * m18 :=
  match o, ob with
  | OSession, _ => (0, M18 (h_sess s + 1) false false (h_q s) (h_next s))
  | OAccept a, [e; acc; hs; qlen] =>
      let g := genuine a (h_sess s) in
      let acc' := negb (acc =? 0) in
      if negb (Bool.eqb acc' (h_acc s || g)) then (801, s) else
      if negb (Bool.eqb (e =? 0) g) then (802, s) else
      if negb g && negb (qlen =? h_q s) then (803, s) else
      if negb (Bool.eqb (negb (hs =? 0)) (h_ready s || (negb full && acc'))) then (804, s) else
      (0, M18 (h_sess s) acc' (h_ready s) qlen (h_next s))
  | OReady n, [err; next; hs; w] =>
      if err =? 0 then
        if negb (w =? (if n =? 0 then 1 else n)) then (805, s) else
        (0, M18 (h_sess s) (h_acc s) true (h_q s) next)
      else (0, s)
  | OMsg m, e :: next :: qlen :: nd :: _ =>
      if negb (h_acc s) then
        ((if (qlen =? h_q s) && (next =? h_next s) && (nd =? 0) then 0 else 803), s)
      else (0, M18 (h_sess s) (h_acc s) (h_ready s) qlen next)
  | ODeq, _ => (0, match ob with [-1] => s | _ => M18 (h_sess s) (h_acc s) (h_ready s) (h_q s - 1) (h_next s) end)
  | _, _ => (0, s)
  end.

Fixpoint mon18_from (full : bool) (s : m18) (i : Z) (ops : list op) (tr : list obs) : option (Z * obs) :=
  match ops, tr with
  | o :: ops', ob :: tr' =>
      let '(code, s1) := step18 full s o ob in
      if negb (code =? 0) then Some (i, [code]) else mon18_from full s1 (i + 1) ops' tr'
  | [], [] => None
  | _, _ => Some (i, [897])
  end.

Definition c18_monitor (full : bool) : checker op := fun ops tr => mon18_from full m18_init 0 ops tr.
