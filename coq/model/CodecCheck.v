(* Executable checkers used by the codec correspondence runs (gen/c15.py, gen/c20.py): the real
   Serialize / Deserialize results are compared with encode / decode on the generated formats inside
   Coq by vm_compute.  Definitions only. *)
From Coq Require Import ZArith Ascii String List Bool.
From V.model Require Import CodecDSL.
Import ListNotations.
Open Scope Z_scope.

(* byte strings are written as hex string literals in the generated case files (fast to parse) *)
Definition hexv (c : Ascii.ascii) : Z :=
  let n := Z.of_N (Ascii.N_of_ascii c) in if n <? 58 then n - 48 else n - 87.
Fixpoint hexb (s : string) : bytes :=
  match s with
  | String a (String b r) => (16 * hexv a + hexv b) :: hexb r
  | _ => []
  end.

Fixpoint zs_eqb (a b : bytes) : bool :=
  match a, b with
  | [], [] => true
  | x :: a', y :: b' => (x =? y) && zs_eqb a' b'
  | _, _ => false
  end.

(* oracle tables measured on the real dependency decoders by the harness (op "odec"):
   (name, length of the input handed to the decoder, class 0 ok / 1 error / 2 panic, bytes consumed) *)
Definition otable := list (string * Z * Z * Z).

Fixpoint olookup (t : otable) (name : string) (len : Z) : option (Z * Z) :=
  match t with
  | [] => None
  | (n, l, c, k) :: r => if String.eqb n name && (l =? len) then Some (c, k) else olookup r name len
  end.

Definition odec_tbl (t : otable) (name : string) (bs : bytes) : ores :=
  match olookup t name (zlen bs) with
  | Some (0, k) => OOk (Z.to_nat k)
  | Some (2, _) => OPanic
  | _ => OErr
  end.

Definition ochk_tbl (t : otable) (name : string) (b : bytes) : Z :=
  match olookup t name (zlen b) with
  | Some (c, _) => c
  | None => 1
  end.

(* equality of a decoded value with the value reported by the harness, along the format; opaque
   values and dependency-parsed blocks are compared by the harness' re-serialisation, which may
   normalise (low-S signatures, BSOR), so they are not compared byte for byte here *)
Fixpoint veq (f : fmt) (a b : value) {struct f} : bool :=
  match f, a, b with
  | FUInt _, VInt x, VInt y | FSInt _, VInt x, VInt y | FVarInt _, VInt x, VInt y => x =? y
  | FBool, VBool x, VBool y => Bool.eqb x y
  | FBytes _, VBytes x, VBytes y => zs_eqb x y
  | FVarBytes _ None, VBytes x, VBytes y => zs_eqb x y
  | FVarBytes _ (Some _), VBytes _, VBytes _ => true
  | FList _ g, VList x, VList y | FListOf _ _ g, VList x, VList y =>
      (fix go (x y : list value) : bool :=
         match x, y with
         | [], [] => true
         | u :: x', v :: y' => veq g u v && go x' y'
         | _, _ => false
         end) x y
  | FOpt g, VOpt None, VOpt None => true
  | FOpt g, VOpt (Some u), VOpt (Some v) => veq g u v
  | FNil, VStruct [], VStruct [] => true
  | FField n g rest, VStruct ((n1, u) :: x), VStruct ((n2, v) :: y) =>
      String.eqb n n1 && String.eqb n n2 && veq g u v && veq rest (VStruct x) (VStruct y)
  | FStruct body, u, v => veq body u v
  | FOpaque _, VBytes _, VBytes _ => true
  | _, _, _ => false
  end.

Fixpoint find_fmt (n : string) (l : list (string * fmt * fmt)) : option (fmt * fmt) :=
  match l with
  | [] => None
  | (n', w, r) :: t => if String.eqb n n' then Some (w, r) else find_fmt n t
  end.

(* --- serialisation: real bytes = model bytes, value well-formed.  0 = agree *)
Definition check_enc (types : list (string * fmt * fmt)) (c : string * otable * value * bytes) : Z :=
  let '(tn, tbl, v, real) := c in
  match find_fmt tn types with
  | None => 9
  | Some (w, r) =>
      if negb (zs_eqb (encode w v) real) then 1
      else if negb (wf (odec_tbl tbl) (ochk_tbl tbl) r [] v) then 2
      else 0
  end.

(* --- deserialisation: outcome class, bytes consumed, decoded value.
   case: (type, oracle table, input, real class, real consumed, real value)
   result: [] when the model agrees, else [code; model class; model consumed] *)
Definition check_dec (types : list (string * fmt * fmt)) (c : string * otable * bytes * Z * Z * option value) : list Z :=
  let '(tn, tbl, input, rclass, rcons, rval) := c in
  match find_fmt tn types with
  | None => [9; 0; 0]
  | Some (w, r) =>
      match decode (odec_tbl tbl) (ochk_tbl tbl) r [] input with
      | DOk v rest _ =>
          let cons := zlen input - zlen rest in
          if negb (rclass =? 0) then [1; 0; cons]
          else if negb (cons =? rcons) then [2; 0; cons]
          else match rval with
               | Some rv => if veq r v rv then [] else [3; 0; cons]
               | None => [4; 0; cons]
               end
      | DErr _ => if rclass =? 1 then [] else [1; 1; 0]
      | DPanic => if rclass =? 2 then [] else [1; 2; 0]
      end
  end.

(* --- streams of messages: (oracle table, input, real class, real messages) *)
Section Stream.
  Variable types : list (string * fmt * fmt).
  Variable ptab : list (Z * string).        (* PayloadForType *)

  Definition rtable : list (Z * fmt) :=
    flat_map (fun cn => match find_fmt (snd cn) types with Some (_, r) => [(fst cn, r)] | None => [] end) ptab.

  Fixpoint msgs_eq (a b : list (Z * value)) : bool :=
    match a, b with
    | [], [] => true
    | (c1, u) :: a', (c2, v) :: b' =>
        (c1 =? c2) && match lookup_code rtable c1 with Some r => veq r u v | None => false end && msgs_eq a' b'
    | _, _ => false
    end.

  Definition check_stream (c : otable * bytes * Z * list (Z * value)) : Z :=
    let '(tbl, input, rclass, rmsgs) := c in
    match decode_stream (odec_tbl tbl) (ochk_tbl tbl) rtable (length input) input with
    | Some ms => if negb (rclass =? 0) then 1 else if msgs_eq ms rmsgs then 0 else 3
    | None => if rclass =? 0 then 1 else 0
    end.
End Stream.

(* indices (from 0) of the cases on which a checker objects, with its objection *)
Fixpoint collect {A B} (f : A -> B) (bad : B -> bool) (n : Z) (cs : list A) : list (Z * B) :=
  match cs with
  | [] => []
  | c :: t => let r := f c in if bad r then (n, r) :: collect f bad (n + 1) t else collect f bad (n + 1) t
  end.

Definition nonzero (z : Z) : bool := negb (z =? 0).
Definition nonempty (l : list Z) : bool := match l with [] => false | _ => true end.

(* C20: the model's verdict on one hostile input: [class; alloc] *)
Definition hostile_verdict (types : list (string * fmt * fmt)) (c : string * otable * bytes) : list Z :=
  let '(tn, tbl, input) := c in
  match find_fmt tn types with
  | None => [9; 0]
  | Some (_, r) =>
      match decode (odec_tbl tbl) (ochk_tbl tbl) r [] input with
      | DOk _ _ a => [0; a]
      | DErr a => [1; a]
      | DPanic => [2; 0]
      end
  end.
