(* CodecDSL - a deeply embedded FORMAT language for the client wire protocol of tokenized/spynode
   (pkg/client/messages.go, models.go) and the stored client.Tx record (internal/storage/tx.go),
   with an encoder and a decoder interpretation over a dynamically typed value universe.

   One format term describes both directions.  The translator (translator/codec.go) reads one term
   off every Serialize function (w_T) and one off every Deserialize function (r_T); reader-only
   facts (how a slice is allocated, limits checked before allocating) are ANNOTATIONS (lshape,
   bshape) that the encoder ignores and `erase` removes.  Executable definitions only; the
   meta-theorems are in proofs/Codec_Proofs.v.

   Go constructs the constructors stand for:
     FUInt w / FSInt w   binary.Read/Write(.., Endian, &x) of uint8/16/32/64, int32/int64 (little endian)
     FBool               binary.Read/Write of bool: 1 byte, reader yields byte <> 0, writer writes 1/0
     FVarInt bits        wire.ReadVarInt / wire.WriteVarInt (tokenized/pkg wire/common.go:341-439): canonical
                         Bitcoin varint, non-canonical encodings are an error; bits = 32 is the reader's
                         truncating cast uint32(v) (resp. the writer's uint64(x) of a 32-bit field)
     FBytes n            fixed block: bitcoin.Hash32 (32), Hash20 (20), wire.BlockHeader (80, opaque block)
     FVarBytes sh chk    varint length + block; sh = BPre lim : b := make([]byte, size); io.ReadFull(r, b)
                                                   (lim = Some m : `if size > m {error}` before the make)
                                                sh = BGrow    : io.ReadAll(io.LimitReader(r, size)) + length check
                         chk = Some name : the block is then parsed by a dependency parser (BSOR), oracle ochk
     FList sh f          varint count + elements; sh = LPre esz lim : x = make([]T, count); for i := range x
                                                  sh = LApp esz cap : x = make([]T, 0, min(count, cap)) (cap 0: no
                                                       make at all); for i := 0; i < count; i++ { ...append }
     FListOf path sh f   elements only, count = len of an already decoded list (Tx.Outputs: len(m.Tx.TxIn))
     FOpt f              presence flag byte + f  (Accept.Hash, Reject.Hash, TxState.MerkleProof)
     FNil / FField / FStruct   a struct: FStruct (FField n1 f1 (FField n2 f2 ... FNil)), fields in wire order
     FOpaque name        a dependency decoder that is not modelled byte-exactly (bitcoin.PublicKey,
                         bitcoin.Signature, merkle_proof.MerkleProof): oracle odec
     FUnsupported loc    a Go statement the translator does not recognise: decodes to a panic, never
                         well-formed, never bounded (fails closed). *)
From Coq Require Import ZArith String List Bool Lia.
Import ListNotations.
Open Scope Z_scope.

Definition bytes := list Z.

Inductive value : Type :=
| VInt (n : Z)
| VBytes (b : bytes)
| VBool (b : bool)
| VList (l : list value)
| VStruct (fs : list (string * value))     (* fields in serialization order *)
| VOpt (o : option value).

(* reader-only annotations *)
Inductive lshape : Type :=
| LPre (esz : Z) (lim : option Z)           (* make([]T, count) : esz = sizeof T *)
| LApp (esz : Z) (cap : Z).                 (* make([]T, 0, min(count, cap)) + append *)
Inductive bshape : Type :=
| BPre (lim : option Z)
| BGrow.

Inductive fmt : Type :=
| FUInt (w : nat)
| FSInt (w : nat)
| FBool
| FVarInt (bits : Z)
| FBytes (n : nat)
| FVarBytes (sh : bshape) (chk : option string)
| FList (sh : lshape) (f : fmt)
| FListOf (path : list string) (sh : lshape) (f : fmt)
| FOpt (f : fmt)
| FNil
| FField (name : string) (f : fmt) (rest : fmt)
| FStruct (body : fmt)
| FOpaque (name : string)
| FUnsupported (loc : string).

(* outcome of a decoder: value, remaining input, allocation count | error (allocation so far) | panic *)
Inductive dres : Type :=
| DOk (v : value) (rest : bytes) (a : Z)
| DErr (a : Z)
| DPanic.

Inductive lres : Type :=
| LOk (l : list value) (rest : bytes) (a : Z)
| LErr (a : Z)
| LPanic.

(* outcome of an opaque dependency decoder on the remaining input: bytes consumed | error | panic *)
Inductive ores : Type :=
| OOk (n : nat)
| OErr
| OPanic.

Definition zlen {A} (l : list A) : Z := Z.of_nat (length l).

(* Go's runtime.makeslice panics ("len out of range") when len*elemsize exceeds maxAlloc = 2^48 on
   linux/amd64 (runtime/malloc.go: heapAddrBits = 48), which also covers counts >= 2^63. *)
Definition makeslice_limit : Z := 2 ^ 48.
(* largest up-front reservation that `bounded` accepts from a checked count: 16 MiB *)
Definition small_limit : Z := 2 ^ 24.
(* allocation charged per consumed byte of an opaque dependency decoder *)
Definition opaque_alloc : Z := 16.

(* ---------------------------------------------------------------------------------------- *)
(* primitives *)

Fixpoint le_enc (w : nat) (n : Z) : bytes :=
  match w with
  | O => []
  | S w' => (n mod 256) :: le_enc w' (n / 256)
  end.

Fixpoint le_dec (bs : bytes) : Z :=
  match bs with
  | [] => 0
  | b :: r => b + 256 * le_dec r
  end.

Definition take_n (n : nat) (bs : bytes) : option (bytes * bytes) :=
  if (length bs <? n)%nat then None else Some (firstn n bs, skipn n bs).

Definition take_z (n : Z) (bs : bytes) : option (bytes * bytes) :=
  if (zlen bs <? n) || (n <? 0) then None else Some (firstn (Z.to_nat n) bs, skipn (Z.to_nat n) bs).

(* wire.WriteVarInt *)
Definition varint_enc (n : Z) : bytes :=
  if n <? 253 then [n]
  else if n <=? 65535 then 253 :: le_enc 2 n
  else if n <=? 4294967295 then 254 :: le_enc 4 n
  else 255 :: le_enc 8 n.

(* wire.ReadVarIntN: EOF and non-canonical encodings are errors *)
Definition varint_dec (bs : bytes) : option (Z * bytes) :=
  match bs with
  | [] => None
  | d :: r =>
      if d =? 255 then
        match take_n 8 r with
        | None => None
        | Some (x, r') => if le_dec x <? 4294967296 then None else Some (le_dec x, r')
        end
      else if d =? 254 then
        match take_n 4 r with
        | None => None
        | Some (x, r') => if le_dec x <? 65536 then None else Some (le_dec x, r')
        end
      else if d =? 253 then
        match take_n 2 r with
        | None => None
        | Some (x, r') => if le_dec x <? 253 then None else Some (le_dec x, r')
        end
      else Some (d, r)
  end.

Definition byte_ok (x : Z) : bool := (0 <=? x) && (x <? 256).
Definition bytes_ok (b : bytes) : bool := forallb byte_ok b.

(* ---------------------------------------------------------------------------------------- *)
(* environment: the fields of the enclosing struct decoded so far (most recent first) *)

Fixpoint assoc (k : string) (fs : list (string * value)) : option value :=
  match fs with
  | [] => None
  | (k', v) :: r => if String.eqb k k' then Some v else assoc k r
  end.

Fixpoint lookup_path (fs : list (string * value)) (path : list string) : option value :=
  match path with
  | [] => None
  | p :: ps =>
      match assoc p fs with
      | None => None
      | Some v =>
          match ps with
          | [] => Some v
          | _ => match v with VStruct fs' => lookup_path fs' ps | _ => None end
          end
      end
  end.

Definition env_count (env : list (string * value)) (path : list string) : option Z :=
  match lookup_path env path with
  | Some (VList l) => Some (zlen l)
  | _ => None
  end.

(* ---------------------------------------------------------------------------------------- *)
(* allocation of the list header *)

Inductive hres : Type := HOk (a : Z) | HErr | HPanic.

Definition over_limit (lim : option Z) (c : Z) : bool :=
  match lim with Some m => m <? c | None => false end.

Definition list_header (sh : lshape) (c : Z) : hres :=
  match sh with
  | LPre esz lim =>
      if over_limit lim c then HErr
      else if makeslice_limit <? c * esz then HPanic
      else HOk (c * esz)
  | LApp esz cap => HOk (Z.min c cap * esz)
  end.

(* charged per appended element: amortised growth of append *)
Definition app_cost (sh : lshape) : Z :=
  match sh with LPre _ _ => 0 | LApp esz _ => 2 * esz end.
(* charged per element of a list whose count is the length of an already decoded list *)
Definition elem_cost (sh : lshape) : Z :=
  match sh with LPre esz _ => esz | LApp esz _ => 2 * esz end.

(* counted loop.  fuel = length of the input: every successful element consumes at least one byte
   (formats with min_size >= 1, checked by fmt_ok), so when the fuel is used up the input is empty and the
   Go code's next element read fails with EOF. *)
Definition repeat_dec (d : bytes -> dres) (pe : Z) : nat -> Z -> bytes -> lres :=
  fix loop (fuel : nat) (c : Z) (bs : bytes) : lres :=
    if c <=? 0 then LOk [] bs 0
    else match fuel with
         | O => LErr 0
         | S fuel' =>
             match d bs with
             | DOk v bs' a1 =>
                 match loop fuel' (c - 1) bs' with
                 | LOk l r a2 => LOk (v :: l) r (a1 + pe + a2)
                 | LErr a2 => LErr (a1 + pe + a2)
                 | LPanic => LPanic
                 end
             | DErr a1 => LErr a1
             | DPanic => LPanic
             end
         end.

Section Interp.
  (* oracles for dependency code that is not modelled: see the hypotheses in Codec_Proofs.v *)
  Variable odec : string -> bytes -> ores.
  Variable ochk : string -> bytes -> Z.     (* 0 = accepted, 1 = error, anything else = panic *)

  Definition checked (chk : option string) (b : bytes) (a : Z) (k : dres) : dres :=
    match chk with
    | None => k
    | Some name => if ochk name b =? 0 then k else if ochk name b =? 1 then DErr a else DPanic
    end.

  Fixpoint decode (f : fmt) (env : list (string * value)) (bs : bytes) {struct f} : dres :=
    match f with
    | FUInt w =>
        match take_n w bs with
        | None => DErr 0
        | Some (x, r) => DOk (VInt (le_dec x)) r 0
        end
    | FSInt w =>
        match take_n w bs with
        | None => DErr 0
        | Some (x, r) =>
            let u := le_dec x in
            DOk (VInt (if u <? 256 ^ Z.of_nat w / 2 then u else u - 256 ^ Z.of_nat w)) r 0
        end
    | FBool =>
        match bs with
        | [] => DErr 0
        | b :: r => DOk (VBool (negb (b =? 0))) r 0
        end
    | FVarInt bits =>
        match varint_dec bs with
        | None => DErr 0
        | Some (v, r) => DOk (VInt (v mod 2 ^ bits)) r 0
        end
    | FBytes n =>
        match take_n n bs with
        | None => DErr 0
        | Some (x, r) => DOk (VBytes x) r (Z.of_nat n)
        end
    | FVarBytes sh chk =>
        match varint_dec bs with
        | None => DErr 0
        | Some (n, r) =>
            match sh with
            | BPre lim =>
                if over_limit lim n then DErr 0
                else if makeslice_limit <? n then DPanic
                else match take_z n r with
                     | None => DErr n
                     | Some (x, r') => checked chk x n (DOk (VBytes x) r' n)
                     end
            | BGrow =>
                match take_z n r with
                | None => DErr (2 * zlen r + 512)
                | Some (x, r') => checked chk x (2 * n + 512) (DOk (VBytes x) r' (2 * n + 512))
                end
            end
        end
    | FList sh g =>
        match varint_dec bs with
        | None => DErr 0
        | Some (c, r) =>
            match list_header sh c with
            | HErr => DErr 0
            | HPanic => DPanic
            | HOk a0 =>
                match repeat_dec (decode g env) (app_cost sh) (length r) c r with
                | LOk l r' a => DOk (VList l) r' (a0 + a)
                | LErr a => DErr (a0 + a)
                | LPanic => DPanic
                end
            end
        end
    | FListOf path sh g =>
        match env_count env path with
        | None => DErr 0
        | Some c =>
            match repeat_dec (decode g env) (elem_cost sh) (length bs) c bs with
            | LOk l r' a => DOk (VList l) r' a
            | LErr a => DErr a
            | LPanic => DPanic
            end
        end
    | FOpt g =>
        match bs with
        | [] => DErr 0
        | b :: r =>
            if b =? 0 then DOk (VOpt None) r 0
            else match decode g env r with
                 | DOk v r' a => DOk (VOpt (Some v)) r' a
                 | DErr a => DErr a
                 | DPanic => DPanic
                 end
        end
    | FNil => DOk (VStruct []) bs 0
    | FField n g rest =>
        match decode g env bs with
        | DOk v r a1 =>
            match decode rest ((n, v) :: env) r with
            | DOk (VStruct fs) r' a2 => DOk (VStruct ((n, v) :: fs)) r' (a1 + a2)
            | DOk _ _ _ => DErr 0          (* ill-formed format: rest is not a field sequence *)
            | DErr a2 => DErr (a1 + a2)
            | DPanic => DPanic
            end
        | DErr a => DErr a
        | DPanic => DPanic
        end
    | FStruct body => decode body [] bs
    | FOpaque name =>
        match odec name bs with
        | OOk n =>
            if (n =? 0)%nat || (length bs <? n)%nat then DErr 0
            else DOk (VBytes (firstn n bs)) (skipn n bs) (opaque_alloc * Z.of_nat n)
        | OErr => DErr 0
        | OPanic => DPanic
        end
    | FUnsupported _ => DPanic
    end.

  (* well-formed (representable) values of a format, relative to the fields decoded so far *)
  Fixpoint wf (f : fmt) (env : list (string * value)) (v : value) {struct f} : bool :=
    match f, v with
    | FUInt w, VInt n => (0 <=? n) && (n <? 256 ^ Z.of_nat w)
    | FSInt w, VInt n => (- (256 ^ Z.of_nat w / 2) <=? n) && (n <? 256 ^ Z.of_nat w / 2) && (1 <=? Z.of_nat w)
    | FBool, VBool _ => true
    | FVarInt bits, VInt n => (0 <=? n) && (n <? 2 ^ bits)
    | FBytes n, VBytes b => (length b =? n)%nat
    | FVarBytes sh chk, VBytes b =>
        (zlen b <? 2 ^ 64)
        && match sh with
           | BPre lim => negb (over_limit lim (zlen b)) && (zlen b <=? makeslice_limit)
           | BGrow => true
           end
        && match chk with None => true | Some name => ochk name b =? 0 end
    | FList sh g, VList l =>
        (zlen l <? 2 ^ 64)
        && match list_header sh (zlen l) with HOk _ => true | _ => false end
        && forallb (wf g env) l
    | FListOf path sh g, VList l =>
        match env_count env path with
        | Some c => (c =? zlen l) && forallb (wf g env) l
        | None => false
        end
    | FOpt g, VOpt None => true
    | FOpt g, VOpt (Some x) => wf g env x
    | FNil, VStruct [] => true
    | FField n g rest, VStruct ((n', x) :: fs) =>
        String.eqb n n' && wf g env x && wf rest ((n, x) :: env) (VStruct fs)
    | FStruct body, x => wf body [] x
    | FOpaque name, VBytes b =>
        match odec name b with
        | OOk n => (n =? length b)%nat && negb (n =? 0)%nat
        | _ => false
        end
    | _, _ => false
    end.
End Interp.

(* the encoder ignores annotations and needs no oracle: an opaque value IS its own serialization *)
Fixpoint encode (f : fmt) (v : value) {struct f} : bytes :=
  match f, v with
  | FUInt w, VInt n => le_enc w n
  | FSInt w, VInt n => le_enc w (n mod 256 ^ Z.of_nat w)
  | FBool, VBool b => [if b then 1 else 0]
  | FVarInt _, VInt n => varint_enc n
  | FBytes _, VBytes b => b
  | FVarBytes _ _, VBytes b => varint_enc (zlen b) ++ b
  | FList _ g, VList l => varint_enc (zlen l) ++ flat_map (encode g) l
  | FListOf _ _ g, VList l => flat_map (encode g) l
  | FOpt g, VOpt None => [0]
  | FOpt g, VOpt (Some x) => 1 :: encode g x
  | FField _ g rest, VStruct ((_, x) :: fs) => encode g x ++ encode rest (VStruct fs)
  | FStruct body, x => encode body x
  | FOpaque _, VBytes b => b
  | _, _ => []
  end.

(* ---------------------------------------------------------------------------------------- *)
(* static checks on formats *)

(* lower bound of the bytes consumed by a successful decode *)
Fixpoint min_size (f : fmt) : nat :=
  match f with
  | FUInt w | FSInt w => w
  | FBool => 1
  | FVarInt _ => 1
  | FBytes n => n
  | FVarBytes _ _ => 1
  | FList _ _ => 1
  | FListOf _ _ _ => 0
  | FOpt _ => 1
  | FNil => 0
  | FField _ g rest => min_size g + min_size rest
  | FStruct body => min_size body
  | FOpaque _ => 1
  | FUnsupported _ => 0
  end.

(* side condition of round trip / prefix theorems: list elements consume at least one byte, varint
   casts are to at most 64 bits, nothing unsupported *)
Fixpoint fmt_ok (f : fmt) : bool :=
  match f with
  | FVarInt bits => (0 <=? bits) && (bits <=? 64)
  | FList _ g => (1 <=? min_size g)%nat && fmt_ok g
  | FListOf _ _ g => (1 <=? min_size g)%nat && fmt_ok g
  | FOpt g => fmt_ok g
  | FField _ g rest => fmt_ok g && fmt_ok rest
  | FStruct body => fmt_ok body
  | FUnsupported _ => false
  | _ => true
  end.

(* C20: no allocation from an unchecked count, nothing unsupported *)
Fixpoint bounded (f : fmt) : bool :=
  match f with
  | FVarBytes (BPre (Some m)) _ => m <=? small_limit
  | FVarBytes (BPre None) _ => false
  | FVarBytes BGrow _ => true
  | FList (LPre esz (Some m)) g =>
      (0 <=? esz) && (0 <=? m) && (m * esz <=? small_limit) && (1 <=? min_size g)%nat && bounded g
  | FList (LPre _ None) _ => false
  | FList (LApp esz cap) g =>
      (0 <=? esz) && (0 <=? cap) && (cap * esz <=? small_limit) && (1 <=? min_size g)%nat && bounded g
  | FListOf _ sh g => (0 <=? elem_cost sh) && (1 <=? min_size g)%nat && bounded g
  | FOpt g => bounded g
  | FField _ g rest => bounded g && bounded rest
  | FStruct body => bounded body
  | FUnsupported _ => false
  | _ => true
  end.

(* alloc <= bound_A f * (bytes consumed or input length) + bound_B f *)
Fixpoint bound_B (f : fmt) : Z :=
  match f with
  | FVarBytes (BPre _) _ => small_limit
  | FVarBytes BGrow _ => 512
  | FList _ g => small_limit + bound_B g
  | FListOf _ _ g => bound_B g
  | FOpt g => bound_B g
  | FField _ g rest => bound_B g + bound_B rest
  | FStruct body => bound_B body
  | _ => 0
  end.

Fixpoint bound_A (f : fmt) : Z :=
  match f with
  | FBytes _ => 1
  | FVarBytes (BPre _) _ => 1
  | FVarBytes BGrow _ => 2
  | FList sh g => bound_A g + bound_B g + app_cost sh
  | FListOf _ sh g => bound_A g + bound_B g + elem_cost sh
  | FOpt g => bound_A g
  | FField _ g rest => Z.max (bound_A g) (bound_A rest)
  | FStruct body => bound_A body
  | FOpaque _ => opaque_alloc
  | _ => 0
  end.

(* ---------------------------------------------------------------------------------------- *)
(* erasing reader-only annotations; symmetry of a writer and a reader format *)

Fixpoint erase (f : fmt) : fmt :=
  match f with
  | FVarBytes _ chk => FVarBytes BGrow chk
  | FList _ g => FList (LApp 0 0) (erase g)
  | FListOf _ _ g => FListOf [] (LApp 0 0) (erase g)   (* the count source is reader-only *)
  | FOpt g => FOpt (erase g)
  | FField n g rest => FField n (erase g) (erase rest)
  | FStruct body => FStruct (erase body)
  | x => x
  end.

Definition opt_eqb {A} (e : A -> A -> bool) (a b : option A) : bool :=
  match a, b with
  | None, None => true
  | Some x, Some y => e x y
  | _, _ => false
  end.

Fixpoint strs_eqb (a b : list string) : bool :=
  match a, b with
  | [], [] => true
  | x :: a', y :: b' => String.eqb x y && strs_eqb a' b'
  | _, _ => false
  end.

Definition lshape_eqb (a b : lshape) : bool :=
  match a, b with
  | LPre e1 l1, LPre e2 l2 => (e1 =? e2) && opt_eqb Z.eqb l1 l2
  | LApp e1 c1, LApp e2 c2 => (e1 =? e2) && (c1 =? c2)
  | _, _ => false
  end.

Definition bshape_eqb (a b : bshape) : bool :=
  match a, b with
  | BPre l1, BPre l2 => opt_eqb Z.eqb l1 l2
  | BGrow, BGrow => true
  | _, _ => false
  end.

Fixpoint fmt_eqb (a b : fmt) {struct a} : bool :=
  match a, b with
  | FUInt w1, FUInt w2 => (w1 =? w2)%nat
  | FSInt w1, FSInt w2 => (w1 =? w2)%nat
  | FBool, FBool => true
  | FVarInt b1, FVarInt b2 => b1 =? b2
  | FBytes n1, FBytes n2 => (n1 =? n2)%nat
  | FVarBytes s1 c1, FVarBytes s2 c2 => bshape_eqb s1 s2 && opt_eqb String.eqb c1 c2
  | FList s1 g1, FList s2 g2 => lshape_eqb s1 s2 && fmt_eqb g1 g2
  | FListOf p1 s1 g1, FListOf p2 s2 g2 => strs_eqb p1 p2 && lshape_eqb s1 s2 && fmt_eqb g1 g2
  | FOpt g1, FOpt g2 => fmt_eqb g1 g2
  | FNil, FNil => true
  | FField n1 g1 r1, FField n2 g2 r2 => String.eqb n1 n2 && fmt_eqb g1 g2 && fmt_eqb r1 r2
  | FStruct b1, FStruct b2 => fmt_eqb b1 b2
  | FOpaque n1, FOpaque n2 => String.eqb n1 n2
  | FUnsupported l1, FUnsupported l2 => String.eqb l1 l2
  | _, _ => false
  end.

(* the writer and the reader describe the same wire format: same fields in the same order, same
   widths and casts; they may differ in reader-only annotations *)
Definition symmetric (w r : fmt) : bool := fmt_eqb (erase w) (erase r).

(* ---------------------------------------------------------------------------------------- *)
(* Message framing (Message.Serialize / Message.Deserialize): varint type code + payload.
   tbl is PayloadForType composed with the generated reader formats. *)

Fixpoint lookup_code (tbl : list (Z * fmt)) (t : Z) : option fmt :=
  match tbl with
  | [] => None
  | (c, f) :: r => if c =? t then Some f else lookup_code r t
  end.

Definition encode_msg (tbl : list (Z * fmt)) (m : Z * value) : bytes :=
  varint_enc (fst m) ++ match lookup_code tbl (fst m) with Some f => encode f (snd m) | None => [] end.

Inductive mres : Type :=
| MOk (m : Z * value) (rest : bytes) (a : Z)
| MErr (a : Z)
| MPanic.

Section Msg.
  Variable odec : string -> bytes -> ores.
  Variable ochk : string -> bytes -> Z.

  Definition decode_msg (tbl : list (Z * fmt)) (bs : bytes) : mres :=
    match varint_dec bs with
    | None => MErr 0
    | Some (t, r) =>
        match lookup_code tbl t with
        | None => MErr 0                                  (* ErrUnknownMessageType *)
        | Some f =>
            match decode odec ochk f [] r with
            | DOk v r' a => MOk (t, v) r' a
            | DErr a => MErr a
            | DPanic => MPanic
            end
        end
    end.

  Definition wf_msg (tbl : list (Z * fmt)) (m : Z * value) : bool :=
    (0 <=? fst m) && (fst m <? 2 ^ 64)
    && match lookup_code tbl (fst m) with Some f => fmt_ok f && wf odec ochk f [] (snd m) | None => false end.

  (* decode messages from one reader until it is empty *)
  Fixpoint decode_stream (tbl : list (Z * fmt)) (fuel : nat) (bs : bytes) : option (list (Z * value)) :=
    match bs with
    | [] => Some []
    | _ =>
        match fuel with
        | O => None
        | S k =>
            match decode_msg tbl bs with
            | MOk m r _ => match decode_stream tbl k r with Some ms => Some (m :: ms) | None => None end
            | _ => None
            end
        end
    end.
End Msg.

(* ---------------------------------------------------------------------------------------- *)
(* C20 witnesses: a hostile input for the first unbounded site of a format, computed from the
   format itself: a minimal valid prefix up to the site, then the count / length 2^63
   (ff 00 00 00 00 00 00 00 80).  None when the format has no unbounded site (or one that this
   simple generator cannot reach, e.g. behind an opaque field). *)

Definition huge_count : bytes := [255; 0; 0; 0; 0; 0; 0; 0; 128].
(* a count that passes a limit check `count <= m` but still reserves far more than the input *)
Definition big_count (m : Z) : bytes := varint_enc (Z.min m (2 ^ 40)).

Definition zeros (n : nat) : bytes := repeat 0 n.

(* (bytes, found) : found = the bytes end in a hostile count *)
Fixpoint witness (f : fmt) : bytes * bool :=
  match f with
  | FUInt w | FSInt w => (zeros w, false)
  | FBool => ([0], false)
  | FVarInt _ => ([0], false)
  | FBytes n => (zeros n, false)
  | FVarBytes (BPre None) _ => (huge_count, true)
  | FVarBytes (BPre (Some m)) _ => if m <=? small_limit then ([0], false) else (big_count m, true)
  | FVarBytes BGrow _ => ([0], false)
  | FList (LPre _ None) _ => (huge_count, true)
  | FList (LPre esz (Some m)) g =>
      if m * esz <=? small_limit then
        (* one element, so that a site inside the element is reached *)
        let (b, fd) := witness g in (1 :: b, fd)
      else (big_count m, true)
  | FList (LApp _ _) g => let (b, fd) := witness g in (1 :: b, fd)
  | FListOf _ _ g => witness g          (* the referenced list has one element, see FList *)
  | FOpt g => let (b, fd) := witness g in (1 :: b, fd)
  | FNil => ([], false)
  | FField _ g rest =>
      let (b, fd) := witness g in
      if fd then (b, true) else let (b', fd') := witness rest in (b ++ b', fd')
  | FStruct body => witness body
  | FOpaque _ => ([], false)
  | FUnsupported _ => ([], true)
  end.

(* the decoder's outcome on a hostile input is bad: panic, or an allocation of at least 2^32 bytes *)
Definition hostile_outcome (r : dres) : bool :=
  match r with
  | DPanic => true
  | DErr a => 4294967296 <=? a
  | DOk _ _ a => 4294967296 <=? a
  end.
