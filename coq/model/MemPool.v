(* Model of internal/state/mempool.go (after the fix of AddTransaction / removeTransaction).
   Executable definitions only.  A txid and an outpoint are ids (Z); a transaction body is the
   list of the outpoints it spends; time is in milliseconds. *)
From V.lib Require Import Base.

Record mtx := MTx { mtime : Z; outpoints : list Z; mtrusted : bool }.

Record mempool := MemPool {
  txs : gmap Z mtx;            (* memPool.txs *)
  inputs : gmap Z (list Z);    (* memPool.inputs : outpoint -> spending txids, arrival order *)
  requests : gmap Z Z;         (* memPool.requests : txid -> time of last request *)
}.

Definition mp_init : mempool := MemPool ∅ ∅ ∅.

Definition REQ_WINDOW : Z := 3000.   (* now.Sub(requestTime).Seconds() > 3 *)

Definition mem (x : Z) (l : list Z) : bool := existsb (Z.eqb x) l.

(* AddRequest(txid, trusted) : (already have it, should request) *)
Definition add_request (s : mempool) (now txid : Z) (trusted : bool) : mempool * (bool * bool) :=
  let '(txs1, have) :=
    match txs s !! txid with
    | Some m =>
        let m1 := if trusted && negb (mtrusted m) then MTx (mtime m) (outpoints m) true else m in
        (<[txid := m1]> (txs s), negb (zlen (outpoints m) =? 0))
    | None => (<[txid := MTx now [] trusted]> (txs s), false)
    end in
  if have then (MemPool txs1 (inputs s) (requests s), (true, false)) else
  match requests s !! txid with
  | Some t =>
      if now - t >? REQ_WINDOW
      then (MemPool txs1 (inputs s) (<[txid := now]> (requests s)), (false, true))
      else (MemPool txs1 (inputs s) (requests s), (false, false))
  | None => (MemPool txs1 (inputs s) (<[txid := now]> (requests s)), (false, true))
  end.

(* appendIfNotContained(list, add, exclude) *)
Definition append_if_not_contained (l add : list Z) (exclude : Z) : list Z :=
  fold_left (fun acc a => if (a =? exclude) || mem a acc then acc else acc ++ [a]) add l.

(* the loop over the outpoints of AddTransaction *)
Fixpoint add_inputs (ins : gmap Z (list Z)) (conflicts : list Z) (txid : Z) (ops : list Z)
  : gmap Z (list Z) * list Z :=
  match ops with
  | [] => (ins, conflicts)
  | o :: ops' =>
      match ins !! o with
      | Some l =>
          let c := append_if_not_contained conflicts l txid in
          let ins1 := if mem txid l then ins else <[o := l ++ [txid]]> ins in
          add_inputs ins1 c txid ops'
      | None => add_inputs (<[o := [txid]]> ins) conflicts txid ops'
      end
  end.

(* AddTransaction(tx, trusted) : (conflicts, trusted, added) *)
Definition add_transaction (s : mempool) (now txid : Z) (body : list Z) (trusted : bool)
  : mempool * (list Z * bool * bool) :=
  let reqs := delete txid (requests s) in
  match txs s !! txid with
  | Some m =>
      let m1 := if trusted && negb (mtrusted m) then MTx (mtime m) (outpoints m) true else m in
      if negb (zlen (outpoints m) =? 0)
      then (MemPool (<[txid := m1]> (txs s)) (inputs s) reqs, ([], mtrusted m1, false))
      else
        let m2 := MTx (mtime m1) body (mtrusted m1) in
        let '(ins, c) := add_inputs (inputs s) [] txid body in
        (MemPool (<[txid := m2]> (txs s)) ins reqs, (c, trusted, true))
  | None =>
      let m2 := MTx now body trusted in
      let '(ins, c) := add_inputs (inputs s) [] txid body in
      (MemPool (<[txid := m2]> (txs s)) ins reqs, (c, trusted, true))
  end.

(* removeTransaction *)
Definition remove_inputs (ins : gmap Z (list Z)) (txid : Z) (ops : list Z) : gmap Z (list Z) :=
  fold_left (fun ins o =>
    match ins !! o with
    | Some l => let r := filter (fun x => x ≠ txid) l in
                if zlen r >? 0 then <[o := r]> ins else delete o ins
    | None => ins
    end) ops ins.

Definition remove_transaction (s : mempool) (txid : Z) : mempool * bool :=
  let reqs := delete txid (requests s) in
  match txs s !! txid with
  | Some m =>
      (MemPool (delete txid (txs s)) (remove_inputs (inputs s) txid (outpoints m)) reqs,
       negb (zlen (outpoints m) =? 0))
  | None => (MemPool (txs s) (inputs s) reqs, false)
  end.

Definition transaction_exists (s : mempool) (txid : Z) : bool :=
  match txs s !! txid with Some m => negb (zlen (outpoints m) =? 0) | None => false end.

Definition is_trusted (s : mempool) (txid : Z) : bool :=
  match txs s !! txid with Some m => mtrusted m | None => false end.

(* Conflicting(tx): for each input, every listed spender is reported and removed *)
Definition conflicting (s : mempool) (body : list Z) : mempool * list Z :=
  fold_left (fun '(s, acc) o =>
    match inputs s !! o with
    | Some l => fold_left (fun '(s, acc) t => (fst (remove_transaction s t), acc ++ [t])) l (s, acc)
    | None => (s, acc)
    end) body (s, []).

(* ---------------------------------------------------------------------------------------- *)
Inductive op :=
| OAdvance (dt : Z)                                  (* ageing hook: the clock advances *)
| OAddRequest (txid : Z) (trusted : bool)
| OAddTx (txid : Z) (body : list Z) (trusted : bool)
| ORemoveTx (txid : Z)
| OExists (txid : Z)
| OIsTrusted (txid : Z)
| OConflicting (body : list Z)
| OIndex (o : Z).                                    (* verif accessor: inputs[o] *)

Definition step (st : mempool * Z) (o : op) : (mempool * Z) * obs :=
  let '(s, now) := st in
  match o with
  | OAdvance dt => ((s, now + dt), [OK])
  | OAddRequest t tr => let '(s1, (a, b)) := add_request s now t tr in ((s1, now), [OK; b2z a; b2z b])
  | OAddTx t body tr =>
      let '(s1, (c, tr1, added)) := add_transaction s now t body tr in
      ((s1, now), OK :: b2z tr1 :: b2z added :: c)
  | ORemoveTx t => let '(s1, b) := remove_transaction s t in ((s1, now), [OK; b2z b])
  | OExists t => (st, [OK; b2z (transaction_exists s t)])
  | OIsTrusted t => (st, [OK; b2z (is_trusted s t)])
  | OConflicting body => let '(s1, c) := conflicting s body in ((s1, now), OK :: c)
  | OIndex o => (st, OK :: match inputs s !! o with Some l => 1 :: l | None => [0] end)
  end.

Fixpoint run_from (st : mempool * Z) (ops : list op) : list obs :=
  match ops with
  | [] => []
  | o :: ops' => let '(st1, ob) := step st o in ob :: run_from st1 ops'
  end.

Definition run (ops : list op) : list obs := run_from (mp_init, 0) ops.
