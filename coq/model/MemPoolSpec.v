(* Reference for property C05 (component level): the pool is the list of held transaction bodies in
   arrival order; there is NO outpoint index - spenders of an outpoint are found by scanning. *)
From V.lib Require Import Base.
From V.model Require Import MemPool.

Definition pool := list (Z * list Z).     (* (txid, outpoints spent), arrival order *)

Definition spenders (p : pool) (o : Z) : list Z :=
  map fst (filter (fun e => mem o (snd e) = true) p).

Definition held (p : pool) (t : Z) : bool := mem t (map fst p).

Definition remove_tx (p : pool) (t : Z) : pool := filter (fun e => fst e ≠ t) p.

(* distinct other transactions of the pool sharing an outpoint with body, in (input, arrival) order *)
Definition conflicts_of (p : pool) (t : Z) (body : list Z) : list Z :=
  fold_left (fun acc o => append_if_not_contained acc (spenders p o) t) body [].

Definition ref_step (p : pool) (o : op) : pool * obs :=
  match o with
  | OAdvance _ | OAddRequest _ _ | OIsTrusted _ => (p, [])
  | OAddTx t body _ =>
      if held p t then (p, [0])
      else (if zlen body =? 0 then p else p ++ [(t, body)], 1 :: conflicts_of p t body)
  | ORemoveTx t => (remove_tx p t, [OK; b2z (held p t)])
  | OExists t => (p, [OK; b2z (held p t)])
  | OConflicting body =>
      let '(p1, c) := fold_left (fun '(p, acc) o =>
                         let l := spenders p o in
                         (fold_left remove_tx l p, acc ++ l)) body (p, []) in
      (p1, OK :: c)
  | OIndex o => (p, OK :: match spenders p o with [] => [0] | l => 1 :: l end)
  end.

Fixpoint ref_run_from (p : pool) (ops : list op) : list obs :=
  match ops with
  | [] => []
  | o :: ops' => let '(p1, ob) := ref_step p o in ob :: ref_run_from p1 ops'
  end.

Definition ref_run (ops : list op) : list obs := ref_run_from [] ops.

Definition ref_after (ops : list op) : pool := fold_left (fun p o => fst (ref_step p o)) ops [].

(* the part of an implementation observation the reference speaks about *)
Definition c05_proj (o : op) (ob : obs) : obs :=
  match o, ob with
  | (OAdvance _ | OAddRequest _ _ | OIsTrusted _), _ => []
  | OAddTx _ _ _, _ :: _ :: rest => rest          (* drop outcome + trusted flag: added :: conflicts *)
  | _, _ => ob
  end.

Definition c05_monitor : checker op := cmp_proj c05_proj ref_run.

(* two bodies share an outpoint *)
Definition shares (a b : list Z) : Prop := exists o, In o a /\ In o b.

(* model state after a history *)
Definition mp_after (ops : list op) : mempool :=
  fst (fold_left (fun st o => fst (step st o)) ops (mp_init, 0)).
