(* Model for property C04 (confirmations carry valid merkle proofs; bad-merkle blocks never accepted).
   Executable definitions only.

   (a) symbolic hash            : free term algebra mnode (leaves = txids); the node function is a free
                                  constructor, hence injective and never equal to a leaf - the standard
                                  collision-free idealisation of double SHA-256
   (b) wire.MerkleTree (pruned) : github.com/tokenized/pkg wire/merkle_tree.go, wire/merkle_proof.go
                                  NewMerkleTree(true), AddMerkleProof, AddHash, processProofsLayer,
                                  FinalizeMerkleProofs, MerkleProof.AddHash / AddDuplicate
                                  DEPENDENCY CODE: modelled and validated by correspondence, not verified
   (c) /repo's own part         : Node.ProcessBlock (internal/spynode/blocks.go: already-have / not-next /
                                  IsMerkleRootValid gate, blocks.Add, HandleHeaders, registration loop,
                                  root comparison, pairing merkleProofs[i] with txs[i]), convertMerkleProof,
                                  client.MerkleProof.IsValid (pkg/client/messages.go),
                                  processUnconfirmedTx (internal/spynode/transactions.go) as far as
                                  "relevant unconfirmed tx delivered and remembered" goes
   (d) independent reference    : textbook recursive merkle root and audit path
   plus the observation encoding, the model trace `run` and the property monitor `c04_monitor`. *)
From V.lib Require Import Base.

(* ---------------------------------------------------------------------------------------- *)
(* (a) symbolic hashes *)
Inductive mnode :=
| Leaf (t : Z)                (* a transaction id *)
| Node (l r : mnode).         (* SHA256d(l || r) *)

Fixpoint mnode_eqb (a b : mnode) : bool :=
  match a, b with
  | Leaf x, Leaf y => x =? y
  | Node a1 a2, Node b1 b2 => mnode_eqb a1 b1 && mnode_eqb a2 b2
  | _, _ => false
  end.

(* structural encoding used in observations: prefix form, a leaf is its (non-negative) txid, -1 opens an
   inner node; the harness encodes a real hash it cannot explain as -7 *)
Fixpoint enc (n : mnode) : list Z :=
  match n with
  | Leaf t => [t]
  | Node l r => (-1) :: enc l ++ enc r
  end.

Fixpoint dec (fuel : nat) (l : list Z) : option (mnode * list Z) :=
  match fuel with
  | O => None
  | S f =>
      match l with
      | [] => None
      | x :: l' =>
          if x =? -1 then
            match dec f l' with
            | Some (a, l1) => match dec f l1 with Some (b, l2) => Some (Node a b, l2) | None => None end
            | None => None
            end
          else if x <? 0 then None else Some (Leaf x, l')
      end
  end.

(* ---------------------------------------------------------------------------------------- *)
(* (b) the streaming merkle tree of the dependency, prune = true *)

(* merkleNodeLayer *)
Record layer := Layer { l_hashes : list mnode; l_count : Z }.

(* wire.MerkleProof: Index (-1 until the txid is added), TxID, Path, DuplicatedIndexes, root, depth *)
Record mproof := MP {
  p_index : Z;
  p_txid : Z;
  p_path : list mnode;
  p_dups : list Z;
  p_root : mnode;
  p_depth : Z;
}.

(* wire.MerkleTree *)
Record mtree := MT { t_layers : list layer; t_count : Z; t_proofs : list mproof }.

Definition new_tree : mtree := MT [] 0 [].

(* NewMerkleProof / MerkleTree.AddMerkleProof *)
Definition new_proof (txid : Z) : mproof := MP (-1) txid [] [] (Leaf txid) 1.
Definition add_merkle_proof (t : mtree) (txid : Z) : mtree :=
  MT (t_layers t) (t_count t) (t_proofs t ++ [new_proof txid]).

(* MerkleProof.AddHash / AddDuplicate *)
Definition mp_add_hash (p : mproof) (h newroot : mnode) : mproof :=
  MP (p_index p) (p_txid p) (p_path p ++ [h]) (p_dups p) newroot (p_depth p + 1).
Definition mp_add_dup (p : mproof) (newroot : mnode) : mproof :=
  MP (p_index p) (p_txid p) (p_path p) (p_dups p ++ [p_depth p]) newroot (p_depth p + 1).

(* processProofsLayer: the new hash, and every active proof whose tracked root is one of the operands
   takes the other operand (or a duplicate mark) *)
Definition ppl_one (l r nh : mnode) (isdup : bool) (p : mproof) : mproof :=
  if p_index p =? -1 then p
  else if isdup then (if mnode_eqb (p_root p) l then mp_add_dup p nh else p)
  else if mnode_eqb (p_root p) l then mp_add_hash p r nh
  else if mnode_eqb (p_root p) r then mp_add_hash p l nh
  else p.

Definition ppl (ps : list mproof) (l r : mnode) (isdup : bool) : mnode * list mproof :=
  let nh := Node l r in (nh, map (ppl_one l r nh isdup) ps).

Definition new_layer (h : mnode) : layer := Layer [h] 1.
Definition layer_add (L : layer) (h : mnode) : layer := Layer (l_hashes L ++ [h]) (l_count L + 1).
Definition layer_clear (L : layer) : layer := Layer [] (l_count L).
(* hashes[len-1], hashes[len-2]: out of range is a Go panic *)
Definition last_hash (L : layer) : res mnode := index (l_hashes L) (zlen (l_hashes L) - 1).
Definition next_last_hash (L : layer) : res mnode := index (l_hashes L) (zlen (l_hashes L) - 2).

(* AddHash, first part: the first proof without index whose txid is this hash gets the running count *)
Fixpoint set_index (ps : list mproof) (h : mnode) (c : Z) : list mproof :=
  match ps with
  | [] => []
  | p :: ps' =>
      if (p_index p =? -1) && mnode_eqb (Leaf (p_txid p)) h
      then MP c (p_txid p) (p_path p) (p_dups p) (p_root p) (p_depth p) :: ps'
      else p :: set_index ps' h c
  end.

(* AddHash, the loop over the layers (falling out of the loop appends a new layer) *)
Fixpoint add_loop (ls : list layer) (next : mnode) (ps : list mproof) : res (list layer * list mproof) :=
  match ls with
  | [] => Ok ([new_layer next], ps)
  | L :: ls' =>
      let L1 := layer_add L next in
      if Z.odd (l_count L1) then Ok (L1 :: ls', ps)
      else
        res_bind (next_last_hash L1) (fun nl =>
        let '(nh, ps1) := ppl ps nl next false in
        res_bind (add_loop ls' nh ps1) (fun r => Ok (layer_clear L1 :: fst r, snd r)))
  end.

Definition add_hash (t : mtree) (h : mnode) : res mtree :=
  let ps := set_index (t_proofs t) h (t_count t) in
  match t_layers t with
  | [] => Ok (MT [new_layer h] 1 ps)
  | ls => res_bind (add_loop ls h ps) (fun r => Ok (MT (fst r) (t_count t + 1) (snd r)))
  end.

(* FinalizeMerkleProofs: the loop; result root None is the zero hash ("should never be valid") *)
Fixpoint fin_loop (ls : list layer) (next : option mnode) (ps : list mproof)
  : res (option mnode * list mproof) :=
  match ls with
  | [] => match next with
          | None => Ok (None, [])
          | Some n => Ok (Some n, ps)
          end
  | L :: ls' =>
      match next with
      | Some n =>
          if Z.even (l_count L) then
            let '(nh, ps1) := ppl ps n n true in fin_loop ls' (Some nh) ps1
          else
            res_bind (last_hash L) (fun lh =>
            let '(nh, ps1) := ppl ps lh n false in fin_loop ls' (Some nh) ps1)
      | None =>
          if Z.odd (l_count L) then
            if (l_count L =? 1) && (match ls' with [] => true | _ => false end)
            then res_bind (last_hash L) (fun lh => Ok (Some lh, ps))
            else res_bind (last_hash L) (fun lh =>
                 let '(nh, ps1) := ppl ps lh lh true in fin_loop ls' (Some nh) ps1)
          else fin_loop ls' None ps
      end
  end.

Definition finalize (t : mtree) : res (option mnode * list mproof) :=
  if t_count t =? 0 then Ok (None, [])
  else if t_count t =? 1 then
    match t_layers t with
    | L :: _ => res_bind (last_hash L) (fun lh => Ok (Some lh, t_proofs t))
    | [] => Panic
    end
  else fin_loop (t_layers t) None (t_proofs t).

(* ---------------------------------------------------------------------------------------- *)
(* (d) independent reference: textbook merkle root and audit path *)
Fixpoint pair_up (ns : list mnode) : list mnode :=
  match ns with
  | a :: b :: rest => Node a b :: pair_up rest
  | [a] => [Node a a]
  | [] => []
  end.

Fixpoint ref_root_f (fuel : nat) (ns : list mnode) : option mnode :=
  match fuel with
  | O => None
  | S f => match ns with
           | [] => None
           | [a] => Some a
           | _ => ref_root_f f (pair_up ns)
           end
  end.
Definition ref_root (ns : list mnode) : option mnode := ref_root_f (length ns) ns.

(* sibling of position i in a level (the node itself when it is the unpaired last one) *)
Definition ref_sibling (ns : list mnode) (i : nat) : option mnode :=
  if Nat.even i then match ns !! S i with Some s => Some s | None => ns !! i end
  else ns !! (i - 1)%nat.

Fixpoint ref_path_f (fuel : nat) (ns : list mnode) (i : nat) : option (list mnode) :=
  match fuel with
  | O => None
  | S f => match ns with
           | [] => None
           | [_] => Some []
           | _ => match ref_sibling ns i, ref_path_f f (pair_up ns) (Nat.div2 i) with
                  | Some s, Some p => Some (s :: p)
                  | _, _ => None
                  end
           end
  end.
Definition ref_path (ns : list mnode) (i : nat) : option (list mnode) := ref_path_f (length ns) ns i.

(* textbook verification: fold the audit path by the index bits *)
Fixpoint ref_fold (cur : mnode) (i : nat) (path : list mnode) : mnode :=
  match path with
  | [] => cur
  | s :: path' => ref_fold (if Nat.even i then Node cur s else Node s cur) (Nat.div2 i) path'
  end.

(* ---------------------------------------------------------------------------------------- *)
(* (c) /repo's part *)

(* client.MerkleProof (pkg/client/models.go): Index, Path, BlockHeader, DuplicatedIndexes;
   the header is (id, merkle root) *)
Record cproof := CP { c_index : Z; c_path : list mnode; c_hdr : Z * mnode; c_dups : list Z }.

(* convertMerkleProof (blocks.go): uint64(mp.Index), Path, header, uint64 of every duplicated index *)
Definition to_u64 (x : Z) : Z := x mod 2 ^ 64.
Definition convert_merkle_proof (p : mproof) (hdr : Z * mnode) : cproof :=
  CP (to_u64 (p_index p)) (p_path p) hdr (map to_u64 (p_dups p)).

(* MerkleProof.IsValid (messages.go), the loop.  State: index, layer, hash, path, duplicateIndexes.
   Every iteration consumes a duplicate mark or a path element, so |path| + |dups| + 1 iterations are
   enough; running out of fuel does not happen (Panic would show it).  Err 1 = "left node is duplicate" *)
Fixpoint isvalid_loop (fuel : nat) (idx layer : Z) (h : mnode) (path : list mnode) (dups : list Z)
  : res (Z * Z * mnode * list Z) :=
  match fuel with
  | O => Panic
  | S f =>
      let isleft := idx mod 2 =? 0 in
      let step (other : mnode) (path' : list mnode) (dups' : list Z) :=
        if mnode_eqb other h && negb isleft then Err 1
        else isvalid_loop f (idx / 2) (layer + 1) (if isleft then Node h other else Node other h) path' dups' in
      match dups with
      | d0 :: dups' =>
          if layer =? d0 then step h path dups'
          else match path with
               | [] => Ok (idx, layer, h, dups)
               | s :: path' => step s path' dups
               end
      | [] => match path with
              | [] => Ok (idx, layer, h, dups)
              | s :: path' => step s path' dups
              end
      end
  end.

(* IsValid: 0 = nil, 1 = ErrInvalid (left node is duplicate), 2 = ErrWrongHash, 3 = (unreachable) *)
Definition is_valid (p : cproof) (txid : Z) : Z :=
  match isvalid_loop (length (c_path p) + length (c_dups p) + 1) (c_index p) 1 (Leaf txid) (c_path p) (c_dups p) with
  | Ok (_, _, h, _) => if mnode_eqb h (snd (c_hdr p)) then 0 else 2
  | Err e => e
  | Panic => 3
  end.

(* the node.  In memory: chain of (header id, merkle root) newest first (genesis, id 0, is not stored),
   unconfirmed relevant txids (TxRepository.unconfirmed), mempool txids, in-sync flag.
   In storage (what a restart finds): the headers as of the last BlockRepository.Save (after every block
   when in sync, else only at shutdown), the unconfirmed list as of the last TxRepository save (end of every
   completely processed block, shutdown), and the per-height relevant-txid files spynode/txs/<height>,
   written immediately (TxRepository.Add / Remove with a height).
   n_faults: transactions whose spent outputs the output fetcher currently fails to deliver (environment).
   n_states: the stored client.Tx states (spynode/txs states, SaveTxState / FetchTxState), as far as the
   merkle proof they carry goes. *)
Record nstate := NS {
  n_chain : list (Z * mnode);
  n_unconf : list Z;
  n_mempool : list Z;
  n_insync : bool;
  n_saved_chain : list (Z * mnode);
  n_saved_unconf : list Z;
  n_txfiles : list (Z * list Z);
  n_faults : list Z;
  n_states : list (Z * option cproof);   (* stored tx states (storage, written immediately): txid -> last merkle proof *)
}.

Definition n_init (insync : bool) : nstate := NS [] [] [] insync [] [] [] [] [].
Definition n_height (s : nstate) : Z := zlen (n_chain s).
Definition n_tip (s : nstate) : Z := match n_chain s with [] => 0 | h :: _ => fst h end.

Definition zmem (x : Z) (l : list Z) : bool := existsb (Z.eqb x) l.

(* removeHash (blocks.go) *)
Fixpoint remove_hash (x : Z) (l : list Z) : bool * list Z :=
  match l with
  | [] => (false, [])
  | y :: l' => if x =? y then (true, l') else let '(b, r) := remove_hash x l' in (b, y :: r)
  end.

(* per-height tx id files: TxRepository.Add(txid, height) appends unless listed (its result `added` is
   ignored by ProcessBlock), TxRepository.Remove(txid, height) deletes the first occurrence *)
Definition file_add (x : Z) (file : list Z) : list Z := if zmem x file then file else file ++ [x].
Definition file_remove (x : Z) (file : list Z) : list Z := snd (remove_hash x file).
Fixpoint get_file (h : Z) (files : list (Z * list Z)) : list Z :=
  match files with
  | [] => []
  | (k, f) :: files' => if k =? h then f else get_file h files'
  end.
Fixpoint set_file (h : Z) (f : list Z) (files : list (Z * list Z)) : list (Z * list Z) :=
  match files with
  | [] => [(h, f)]
  | (k, g) :: files' => if k =? h then (h, f) :: files' else (k, g) :: set_file h f files'
  end.

(* notifications *)
Inductive event :=
| EHeaders (height hid : Z)
| ETx (kind txid : Z) (proof : option (cproof * Z * Z)).   (* kind 1 HandleTx, 2 HandleTxUpdate; proof, depth, IsValid *)

(* the header id of a proof is observed as such only when that header is the node's tip (the harness
   compares with the header held at the last height), else as -5 *)
Definition enc_event (tip : Z) (e : event) : list Z :=
  match e with
  | EHeaders h hid => [3; h; hid]
  | ETx k t None => [k; t; 0]
  | ETx k t (Some (p, depth, valid)) =>
      [k; t; 1; (if fst (c_hdr p) =? tip then tip else -5); c_index p; depth; valid; zlen (c_path p)]
      ++ concat (map enc (c_path p)) ++ [zlen (c_dups p)] ++ c_dups p
  end.

Definition mk_obs (code : Z) (s : nstate) (evs : list event) : obs :=
  [code; n_height s; n_tip s; zlen evs] ++ concat (map (enc_event (n_tip s)) evs).

(* stored tx states *)
Fixpoint get_state (t : Z) (states : list (Z * option cproof)) : option (option cproof) :=
  match states with
  | [] => None
  | (k, p) :: states' => if k =? t then Some p else get_state t states'
  end.
Fixpoint set_state (t : Z) (p : option cproof) (states : list (Z * option cproof)) : list (Z * option cproof) :=
  match states with
  | [] => [(t, p)]
  | (k, q) :: states' => if k =? t then (t, p) :: states' else (k, q) :: set_state t p states'
  end.
(* every delivered confirmation was saved in the transaction's state first *)
Definition apply_states (evs : list event) (states : list (Z * option cproof)) : list (Z * option cproof) :=
  fold_left (fun st e => match e with
                         | ETx _ t (Some (cp, _, _)) => set_state t (Some cp) st
                         | _ => st
                         end) evs states.

(* the registration loop of ProcessBlock over the block's transactions (txid, relevant):
   state = (merkle tree, unconfirmed left, mempool left, txs with is-new flag, tx id file of this height) *)
Definition block_tx (insync : bool) (st : res (mtree * list Z * list Z * list (Z * bool) * list Z)) (tx : Z * bool)
  : res (mtree * list Z * list Z * list (Z * bool) * list Z) :=
  res_bind st (fun '(tree, unconf, mempool, txs, file) =>
    let txid := fst tx in
    let '(in_unconf, unconf1) := remove_hash txid unconf in
    (* in sync: RemoveTransaction; in any case memPool.Conflicting(tx) removes every mempool transaction
       spending one of its inputs - the transaction itself included - so it leaves the mempool either way;
       only a node in sync uses "it was in the mempool" for the decision *)
    let '(was_in_mempool, mempool1) := remove_hash txid mempool in
    let in_mempool := insync && was_in_mempool in
    let '(tree1, txs1, file1) :=
      if in_unconf then (add_merkle_proof tree txid, txs ++ [(txid, false)], file)
      else if negb in_mempool then
        if snd tx then (add_merkle_proof tree txid, txs ++ [(txid, true)], file_add txid file)
        else (tree, txs, file_remove txid file)
      else (tree, txs, file) in
    res_bind (add_hash tree1 (Leaf txid)) (fun tree2 => Ok (tree2, unconf1, mempool1, txs1, file1))).

(* sending the updates: merkleProofs[i] pairs with txs[i] (out of range is a Go panic).  A new transaction's
   spent outputs are fetched before it is delivered; when the fetcher fails ProcessBlock returns the error:
   the notifications sent so far stay sent, the rest of the block is not notified.
   Result: notifications, outcome class. *)
Fixpoint block_events (hdr : Z * mnode) (faults : list Z) (states : list (Z * option cproof))
                      (proofs : list mproof) (i : Z) (txs : list (Z * bool)) : list event * Z :=
  match txs with
  | [] => ([], OK)
  | (txid, isnew) :: txs' =>
      (* a new transaction: outputs fetched (may fail); a previously seen one: its stored state is fetched
         (must exist) and then gets THIS block's proof, whatever proof it carried before *)
      if (if isnew then zmem txid faults else match get_state txid states with None => true | Some _ => false end)
      then match index proofs i with Ok _ => ([], ERR) | _ => ([], if isnew then PANIC else ERR) end
      else
      match index proofs i with
      | Ok mp =>
            let cp := convert_merkle_proof mp hdr in
            let '(evs, code) := block_events hdr faults states proofs (i + 1) txs' in
            (ETx (if isnew then 1 else 2) txid (Some (cp, 0, is_valid cp txid)) :: evs, code)
      | _ => ([], PANIC)
      end
  end.

(* the block type's IsMerkleRootValid (wire.MsgBlock / wire.MsgParseBlock recompute the root from the
   transactions with calculateMerkleLevel, i.e. the textbook root) *)
Definition is_merkle_root_valid (hroot : mnode) (body : list Z) : bool :=
  match ref_root (map Leaf body) with Some r => mnode_eqb r hroot | None => false end.

(* ProcessBlock.  Result: new state, error class, notifications.  The second comparison (streaming root
   against the header) happens after the header was added and announced - modelled as the code has it.
   The unconfirmed list is only replaced (and saved) when the block is processed to the end. *)
Definition process_block (s : nstate) (hid prev : Z) (hroot : mnode) (body : list (Z * bool)) (lie : bool)
  : nstate * Z * list event :=
  if existsb (fun h => fst h =? hid) (n_chain s) || (hid =? 0) then (s, ERR, [])       (* ErrBlockNotAdded *)
  else if negb (prev =? n_tip s) then (s, ERR, [])                                  (* ErrBlockNotNextBlock *)
  else if negb (lie || is_merkle_root_valid hroot (map fst body)) then (s, ERR, []) (* ErrBlockNotAdded *)
  else
    let chain1 := (hid, hroot) :: n_chain s in
    let saved1 := if n_insync s then chain1 else n_saved_chain s in
    let height := zlen chain1 in
    let hev := EHeaders height hid in
    (* state when ProcessBlock returns early: header added (saved when in sync), unconfirmed list untouched *)
    let early mempool files evs :=
      NS chain1 (n_unconf s) mempool (n_insync s) saved1 (n_saved_unconf s) files (n_faults s)
         (apply_states evs (n_states s)) in
    match fold_left (block_tx (n_insync s)) body
                    (Ok (new_tree, n_unconf s, n_mempool s, [], get_file height (n_txfiles s))) with
    | Ok (tree, unconf, mempool, txs, file) =>
        let files := set_file height file (n_txfiles s) in
        match finalize tree with
        | Ok (root, proofs) =>
            if negb (match root with Some r => mnode_eqb r hroot | None => false end)
            then (early mempool files [], ERR, [hev])                        (* "Invalid merkle root hash" *)
            else
              let '(evs, code) := block_events (hid, hroot) (n_faults s) (n_states s) proofs 0 txs in
              if code =? OK
              then (NS chain1 unconf mempool (n_insync s) saved1 unconf files (n_faults s)
                       (apply_states evs (n_states s)), OK, hev :: evs)
              else (early mempool files evs, code, hev :: evs)
        | Err _ => (early mempool files [], ERR, [hev])
        | Panic => (early mempool files [], PANIC, [hev])
        end
    | Err _ => (early (n_mempool s) (n_txfiles s) [], ERR, [hev])
    | Panic => (early (n_mempool s) (n_txfiles s) [], PANIC, [hev])
    end.

(* a transaction arrives unconfirmed (Node.HandleTx -> processUnconfirmedTx).  Known to the mempool: nothing.
   Else it enters the mempool; irrelevant: dropped from the unconfirmed set; already unconfirmed: nothing;
   else it becomes unconfirmed (in memory) and
     - without stored state: a state without proof is created and delivered (HandleTx, depth 1);
     - with a stored state whose proof names a header still in the chain: "already confirmed", it is taken
       out of the unconfirmed set and out of the mempool again, nothing is delivered;
     - with any other stored state: that state is saved again and delivered as it is - a proof it carries
       (of a block reverted since) stays in it, and the unconfirmed depth stays 0 then.
   (Not modelled: an output fetch fault for such a transaction - excluded by c04_valid.) *)
Definition process_seen (s : nstate) (t : Z) (rel : bool) : nstate * Z * list event :=
  if zmem t (n_mempool s) then (s, OK, [])
  else
    let upd unconf states := NS (n_chain s) unconf (n_mempool s ++ [t]) (n_insync s)
                                (n_saved_chain s) (n_saved_unconf s) (n_txfiles s) (n_faults s) states in
    if negb rel then (upd (snd (remove_hash t (n_unconf s))) (n_states s), OK, [])
    else if zmem t (n_unconf s) then (upd (n_unconf s) (n_states s), OK, [])
    else
      match get_state t (n_states s) with
      | None => (upd (n_unconf s ++ [t]) (set_state t None (n_states s)), OK, [ETx 1 t None])
      | Some p =>
          if match p with Some cp => existsb (fun h => fst h =? fst (c_hdr cp)) (n_chain s) | None => false end
          then (s, OK, [])
          else (upd (n_unconf s ++ [t]) (n_states s), OK,
                [ETx 1 t (match p with Some cp => Some (cp, 0, is_valid cp t) | None => None end)])
      end.

(* the Node is dropped and a new one loaded from storage.  graceful: headers and unconfirmed list are saved
   first (shutdown); otherwise a hard crash.  The mempool is not stored: load puts the transactions of the
   unconfirmed list whose stored state can be fetched back into it; insync: state of the new node. *)
Definition process_restart (s : nstate) (graceful insync : bool) : nstate :=
  let chain := if graceful then n_chain s else n_saved_chain s in
  let unconf := if graceful then n_unconf s else n_saved_unconf s in
  let mempool := filter (fun t => is_Some (get_state t (n_states s))) unconf in
  NS chain unconf mempool insync chain unconf (n_txfiles s) (n_faults s) (n_states s).

Definition set_faults (s : nstate) (ts : list Z) : nstate :=
  NS (n_chain s) (n_unconf s) (n_mempool s) (n_insync s) (n_saved_chain s) (n_saved_unconf s) (n_txfiles s) ts
     (n_states s).

(* height of a held header (genesis, id 0, has height 0) *)
Fixpoint height_in (hid : Z) (chain : list (Z * mnode)) : option Z :=
  match chain with
  | [] => if hid =? 0 then Some 0 else None
  | h :: chain' => if fst h =? hid then Some (zlen chain) else height_in hid chain'
  end.

(* HeadersHandler, "reorg in processed blocks": the blocks above height r are reverted - their per-height tx
   id files removed, the header files saved and truncated (BlockRepository.Revert saves first), in-sync
   cleared.  The unconfirmed set, the mempool and the stored tx states are NOT touched: a transaction of a
   reverted block keeps the proof of that block in its stored state. *)
Definition revert_to (s : nstate) (r : Z) : nstate :=
  let chain := drop (Z.to_nat (zlen (n_chain s) - r)) (n_chain s) in
  NS chain (n_unconf s) (n_mempool s) false chain (n_saved_unconf s)
     (filter (fun f => fst f <=? r = true) (n_txfiles s)) (n_faults s) (n_states s).

(* a header hid on prev is announced through the headers handler (no block request pending), then the block
   is supplied and processed like processBlocks does *)
Definition process_reorg (s : nstate) (hid prev : Z) (hroot : mnode) (body : list (Z * bool))
  : nstate * Z * list event :=
  if prev =? n_tip s then process_block s hid prev hroot body false            (* the next header *)
  else if existsb (fun h => fst h =? hid) (n_chain s) || (hid =? 0) then (s, ERR, [])   (* already held: not requested *)
  else match height_in prev (n_chain s) with
       | Some r => process_block (revert_to s r) hid prev hroot body false     (* competing header: revert *)
       | None =>                                                               (* unknown parent: in sync cleared *)
           (NS (n_chain s) (n_unconf s) (n_mempool s) false (n_saved_chain s) (n_saved_unconf s)
               (n_txfiles s) (n_faults s) (n_states s), ERR, [])
       end.

Inductive op :=
| OSeen (t : Z) (rel : bool)
| OBlock (hid prev : Z) (committed : list Z) (body : list (Z * bool)) (lie : bool)
  (* the header commits to the textbook root of `committed`; `body` is what is delivered with it;
     lie: the block is wrapped in a type whose IsMerkleRootValid answers true without looking (no such
     type exists in the code base; used to exercise the second root comparison of ProcessBlock) *)
| OFault (ts : list Z)                   (* the output fetcher fails for these transactions from now on *)
| ORestart (graceful insync : bool)
| OReorg (hid prev : Z) (committed : list Z) (body : list (Z * bool)).
  (* like OBlock, but the header is first announced through the headers handler: when prev is a held header
     below the tip the chain is reverted to it *)

(* header root of a block op; an empty committed list has no root: such an op is outside c04_valid *)
Definition committed_root (committed : list Z) : mnode :=
  match ref_root (map Leaf committed) with Some r => r | None => Leaf (-1) end.

(* one operation: new state, outcome class, notifications *)
Definition step_ev (s : nstate) (o : op) : nstate * Z * list event :=
  match o with
  | OSeen t rel => process_seen s t rel
  | OBlock hid prev committed body lie => process_block s hid prev (committed_root committed) body lie
  | OFault ts => (set_faults s ts, OK, [])
  | ORestart g i => (process_restart s g i, OK, [])
  | OReorg hid prev committed body => process_reorg s hid prev (committed_root committed) body
  end.

Definition step (s : nstate) (o : op) : nstate * obs :=
  let '(s1, code, evs) := step_ev s o in (s1, mk_obs code s1 evs).

Fixpoint run_from (s : nstate) (ops : list op) : list obs :=
  match ops with
  | [] => []
  | o :: ops' => let '(s1, ob) := step s o in ob :: run_from s1 ops'
  end.

Definition run (insync : bool) (ops : list op) : list obs := run_from (n_init insync) ops.

(* the state a history leads to *)
Definition state_after (insync : bool) (ops : list op) : nstate :=
  fold_left (fun s o => fst (fst (step_ev s o))) ops (n_init insync).

(* ---------------------------------------------------------------------------------------- *)
(* vocabulary of the theorems (props/C04.v) *)

(* the registration discipline in isolation: any choice of registered transactions (a flag per tx),
   AddMerkleProof immediately before the transaction's own AddHash, AddHash for every transaction *)
Definition reg_step (st : res mtree) (tx : Z * bool) : res mtree :=
  res_bind st (fun t => add_hash (if snd tx then add_merkle_proof t (fst tx) else t) (Leaf (fst tx))).
Definition reg_loop (body : list (Z * bool)) : res mtree := fold_left reg_step body (Ok new_tree).
Definition registered (body : list (Z * bool)) : list Z := map fst (filter (fun tx => snd tx = true) body).

(* what the confirmation of transaction tx = (txid, is-new) of a block with txids ids under header
   (hid, hroot) must look like: kind 1 new / 2 update, that header, unconfirmed depth 0, the index is the
   transaction's position in the block, IsValid = nil *)
Definition conf_ok (hid : Z) (hroot : mnode) (ids : list Z) (tx : Z * bool) (e : event) : Prop :=
  exists cp, e = ETx (if snd tx then 1 else 2) (fst tx) (Some (cp, 0, 0)) /\
             c_hdr cp = (hid, hroot) /\ 0 <= c_index cp /\ ids !! Z.to_nat (c_index cp) = Some (fst tx) /\
             is_valid cp (fst tx) = 0.

(* a notification of a block operation is sound: the announcement of that header, or a right confirmation
   of one of the block's transactions *)
Definition block_event_ok (hid : Z) (hroot : mnode) (ids : list Z) (e : event) : Prop :=
  match e with
  | EHeaders _ h => h = hid
  | ETx _ _ _ => exists (tx : Z * bool) cp, e = ETx (if snd tx then 1 else 2) (fst tx) (Some (cp, 0, 0)) /\
                   c_hdr cp = (hid, hroot) /\ 0 <= c_index cp /\ ids !! Z.to_nat (c_index cp) = Some (fst tx) /\
                   is_valid cp (fst tx) = 0
  end.

(* the transactions of a block that ProcessBlock notifies, with their is-new flag: one already delivered
   unconfirmed gets a state update; any other relevant one (unless, in sync, it sits in the mempool as a
   known transaction) is a new transaction.  The per-height tx id file does not appear here: whatever it
   already lists - e.g. from a processing of the same block that a crash cut short - makes no difference. *)
Definition select_tx (insync : bool) (unconf mempool : list Z) (tx : Z * bool) : option (Z * bool) :=
  if zmem (fst tx) unconf then Some (fst tx, false)
  else if snd tx && negb (insync && zmem (fst tx) mempool) then Some (fst tx, true)
  else None.
Definition selected (insync : bool) (unconf mempool : list Z) (body : list (Z * bool)) : list (Z * bool) :=
  omap (select_tx insync unconf mempool) body.

(* ---------------------------------------------------------------------------------------- *)
(* Property monitor.  Reads the operations and the implementation's observations only; uses only the
   textbook reference (ref_root, ref_path) - never the streaming tree model or the IsValid model. *)

(* parsing of observations *)
Definition take_z {A} (n : Z) (l : list A) : option (list A * list A) :=
  if (n <? 0) || (zlen l <? n) then None else Some (take (Z.to_nat n) l, drop (Z.to_nat n) l).

Fixpoint dec_n (n : nat) (l : list Z) : option (list mnode * list Z) :=
  match n with
  | O => Some ([], l)
  | S n' => match dec (length l) l with
            | Some (a, l1) => match dec_n n' l1 with Some (r, l2) => Some (a :: r, l2) | None => None end
            | None => None
            end
  end.

Record pevent := PE {
  e_kind : Z; e_txid : Z; e_has : Z; e_hdr : Z; e_index : Z; e_depth : Z; e_valid : Z;
  e_path : list mnode; e_dups : list Z;
}.

Definition parse_event (l : list Z) : option (pevent * list Z) :=
  match l with
  | k :: a :: b :: r =>
      if k =? 3 then Some (PE 3 b 0 0 a 0 0 [] [], r)                 (* [3; height; header id] *)
      else if b =? 0 then Some (PE k a 0 0 0 0 0 [] [], r)            (* [kind; txid; 0] *)
      else
        match r with
        | hdr :: idx :: depth :: valid :: np :: r0 =>
            if (np <? 0) || (zlen r0 <? np) then None else
            match dec_n (Z.to_nat np) r0 with
            | Some (path, nd :: r1) =>
                match take_z nd r1 with
                | Some (dups, r2) => Some (PE k a 1 hdr idx depth valid path dups, r2)
                | None => None
                end
            | _ => None
            end
        | _ => None
        end
  | _ => None
  end.

Fixpoint parse_events (n : nat) (l : list Z) : option (list pevent) :=
  match n with
  | O => match l with [] => Some [] | _ => None end
  | S n' => match parse_event l with
            | Some (e, r) => match parse_events n' r with Some es => Some (e :: es) | None => None end
            | None => None
            end
  end.

(* the sibling list a (path, duplicated indexes) pair stands for: at layer k the sibling is the node
   itself when k is the next duplicated index, else the next path element *)
Fixpoint expand (fuel : nat) (cur : mnode) (i : nat) (layer : Z) (path : list mnode) (dups : list Z)
  : option (list mnode) :=
  match fuel with
  | O => None
  | S f =>
      let go (s : mnode) path' dups' :=
        match expand f (if Nat.even i then Node cur s else Node s cur) (Nat.div2 i) (layer + 1) path' dups' with
        | Some r => Some (s :: r)
        | None => None
        end in
      match dups with
      | d0 :: dups' => if layer =? d0 then go cur path dups'
                       else match path with [] => None | s :: path' => go s path' dups end
      | [] => match path with [] => Some [] | s :: path' => go s path' dups end
      end
  end.

Fixpoint mlist_eqb (a b : list mnode) : bool :=
  match a, b with
  | [], [] => true
  | x :: a', y :: b' => mnode_eqb x y && mlist_eqb a' b'
  | _, _ => false
  end.

Fixpoint find_index (x : Z) (l : list Z) (i : nat) : option nat :=
  match l with
  | [] => None
  | y :: l' => if x =? y then Some i else find_index x l' (S i)
  end.

(* monitor state: chain (header id, committed leaves) newest first as the node was observed to hold it;
   txids delivered unconfirmed (their confirmation must be a state update); txids for which, after a crash
   or an earlier (possibly aborted) processing of their block, either kind is accepted; the fault set *)
Record mstate := MS { m_chain : list (Z * list Z); m_notified : list Z; m_maybe : list Z; m_faults : list Z }.
Definition m_height (m : mstate) : Z := zlen (m_chain m).
Definition m_tip (m : mstate) : Z := match m_chain m with [] => 0 | h :: _ => fst h end.

Definition opt_mnode_eqb (a b : option mnode) : bool :=
  match a, b with Some x, Some y => mnode_eqb x y | _, _ => false end.

(* one delivered confirmation against the textbook: codes
     421 wrong kind (new instead of update or the reverse)      422 no proof attached
     423 proof names another header than the one held at that height
     424 index is not the transaction's index in the block     425 unconfirmed depth not zero
     426 the real client verifier (MerkleProof.IsValid) rejected the proof
     427 the independent verifier rejects: the proof does not denote the textbook audit path of that
         index, or the path does not fold to the header's root
   kind: 0 = either kind is accepted *)
Definition check_conf (hid : Z) (committed : list Z) (kind txid : Z) (e : pevent) : Z :=
  if negb (((kind =? 0) && ((e_kind e =? 1) || (e_kind e =? 2))) || (e_kind e =? kind)) then 421
  else if negb (e_has e =? 1) then 422
  else if negb (e_hdr e =? hid) then 423
  else match find_index txid committed 0 with
       | None => 424
       | Some i =>
           if negb (e_index e =? Z.of_nat i) then 424
           else if negb (e_depth e =? 0) then 425
           else if negb (e_valid e =? 0) then 426
           else
             let leaves := map Leaf committed in
             match expand (length (e_path e) + length (e_dups e) + 1) (Leaf txid) i 1 (e_path e) (e_dups e),
                   ref_path leaves i with
             | Some sibs, Some rp =>
                 if mlist_eqb sibs rp && opt_mnode_eqb (Some (ref_fold (Leaf txid) i sibs)) (ref_root leaves)
                 then 0 else 427
             | _, _ => 427
             end
       end.

Definition expected_kind (m : mstate) (t : Z) : Z :=
  if zmem t (m_notified m) then 2 else if zmem t (m_maybe m) then 0 else 1.

(* the confirmations of a block against its relevant transactions, in block order.  A notification is
   matched with the next relevant transaction of that txid; relevant transactions skipped on the way were
   not notified (429, reported unless a proof defect is found further on - that one is reported first);
   complete = false: the block was cut short by an injected fault, missing notifications are not counted *)
Fixpoint check_confs (m : mstate) (hid : Z) (committed : list Z) (complete : bool) (miss : Z)
                     (body : list (Z * bool)) (es : list pevent) : Z :=
  match body with
  | [] => match es with [] => miss | _ => 428 end                   (* a notification nobody asked for *)
  | (t, rel) :: body' =>
      if rel then
        match es with
        | [] => if complete then 429 else miss                        (* a relevant transaction of the block not notified *)
        | e :: es' =>
            if e_txid e =? t then
              let c := check_conf hid committed (expected_kind m t) t e in
              if negb (c =? 0) then c else check_confs m hid committed complete miss body' es'
            else check_confs m hid committed complete (if complete then 429 else miss) body' es
        end
      else check_confs m hid committed complete miss body' es
  end.

(* a block (header hid on prev, committing to `committed`, delivered with `body`) against monitor state m *)
Definition c04_block (m : mstate) (code height tip nev : Z) (es : list pevent)
                     (hid prev : Z) (committed : list Z) (body : list (Z * bool)) : Z * mstate :=
              let fresh := negb (existsb (fun h => fst h =? hid) (m_chain m) || (hid =? 0)) in
              let body_ok := opt_mnode_eqb (ref_root (map Leaf (map fst body))) (ref_root (map Leaf committed)) in
              let faulty := existsb (fun tx => snd tx && zmem (fst tx) (m_faults m)) body in
              let relevant := map fst (filter (fun tx => snd tx = true) body) in
              if negb (fresh && (prev =? m_tip m)) then
                (* not the next block / already held: nothing may change (not the subject of C04) *)
                if (height =? m_height m) && (tip =? m_tip m) && (nev =? 0) then (0, m) else (419, m)
              else if negb body_ok then
                (* the body does not hash to the header's root: never added, nothing delivered *)
                if negb ((height =? m_height m) && (tip =? m_tip m)) then (411, m)
                else if negb (nev =? 0) then (412, m)
                else (0, m)
              else if faulty then
                (* a block whose processing an injected output-fetch fault may cut short: whatever was
                   delivered must still be right; the chain is what the node is observed to hold *)
                if (height =? m_height m) && (tip =? m_tip m) then
                  if nev =? 0 then (0, m) else (412, m)
                else if negb ((height =? m_height m + 1) && (tip =? hid)) then (418, m)
                else match es with
                     | e0 :: es' =>
                         if negb ((e_kind e0 =? 3) && (e_txid e0 =? hid) && (e_index e0 =? height)) then (420, m)
                         else let c := check_confs m hid committed (code =? OK) 0 body es' in
                              if negb (c =? 0) then (c, m)
                              else (0, MS ((hid, committed) :: m_chain m)
                                          (filter (fun t => negb (zmem t relevant) = true) (m_notified m))
                                          (relevant ++ m_maybe m) (m_faults m))
                     | [] => (420, m)
                     end
              else
                (* a block whose body matches its header *)
                if negb ((code =? OK) && (height =? m_height m + 1) && (tip =? hid)) then (418, m)
                else match es with
                     | e0 :: es' =>
                         if negb ((e_kind e0 =? 3) && (e_txid e0 =? hid) && (e_index e0 =? height)) then (420, m)
                         else let c := check_confs m hid committed true 0 body es' in
                              if negb (c =? 0) then (c, m)
                              else (0, MS ((hid, committed) :: m_chain m)
                                          (filter (fun t => negb (zmem t relevant) = true) (m_notified m))
                                          (relevant ++ m_maybe m) (m_faults m))
                     | [] => (420, m)
                     end.

Definition c04_step (m : mstate) (o : op) (ob : obs) : Z * mstate :=
  match ob with
  | code :: height :: tip :: nev :: rest =>
      match parse_events (Z.to_nat nev) rest with
      | None => (498, m)
      | Some es =>
          match o with
          | OSeen t rel =>
              (* outside a block: chain untouched; only new-transaction notifications without proof *)
              (* (whether such a notification may carry a proof is not the subject of C04: see
                 c04_reannounce_monitor) *)
              if negb ((height =? m_height m) && (tip =? m_tip m)) then (410, m)
              else if existsb (fun e => negb (e_kind e =? 1)) es then (410, m)
              else (0, MS (m_chain m) (map e_txid es ++ m_notified m) (m_maybe m) (m_faults m))
          | OFault ts =>
              if (height =? m_height m) && (tip =? m_tip m) && (nev =? 0)
              then (0, MS (m_chain m) (m_notified m) (m_maybe m) ts) else (410, m)
          | ORestart graceful _ =>
              (* the chain the node holds after the restart is what it is observed to hold: a suffix was
                 lost when headers were not saved; nothing is delivered by a restart *)
              let k := m_height m - height in
              if (k <? 0) || negb (nev =? 0) then (430, m) else
              let chain := drop (Z.to_nat k) (m_chain m) in
              if negb (tip =? match chain with [] => 0 | h :: _ => fst h end) then (430, m)
              else if graceful then (0, MS chain (m_notified m) (m_maybe m) (m_faults m))
              else (0, MS chain [] (m_notified m ++ m_maybe m) (m_faults m))
          | OBlock hid prev committed body _ => c04_block m code height tip nev es hid prev committed body
          | OReorg hid prev committed body =>
              (* announced through the headers handler: a header on a held block below the tip makes the
                 node revert to that block first (the monitor follows: the reverted blocks leave its chain);
                 then the block is judged like any other *)
              let fresh := negb (existsb (fun h => fst h =? hid) (m_chain m) || (hid =? 0)) in
              let m1 :=
                if fresh && negb (prev =? m_tip m) then
                  match find_index prev (map fst (m_chain m) ++ [0]) 0 with
                  | Some k => MS (drop k (m_chain m)) (m_notified m) (m_maybe m) (m_faults m)
                  | None => m
                  end
                else m in
              c04_block m1 code height tip nev es hid prev committed body
          end
      end
  | _ => (499, m)
  end.

Fixpoint c04_from (m : mstate) (i : Z) (ops : list op) (tr : list obs) : option (Z * obs) :=
  match ops, tr with
  | o :: ops', ob :: tr' =>
      let '(code, m1) := c04_step m o ob in
      if negb (code =? 0) then Some (i, [code]) else c04_from m1 (i + 1) ops' tr'
  | [], [] => None
  | _, _ => Some (i, [497])
  end.

Definition c04_monitor : checker op := fun ops tr => c04_from (MS [] [] [] []) 0 ops tr.

(* an unconfirmed (re-)announcement that carries a merkle proof: the stored state of a transaction whose
   block was reverted keeps that block's proof, and processUnconfirmedTx delivers it as a new transaction
   with it (unconfirmed depth 0).  The text of C04 speaks of the notification for a transaction included in
   a block, so this is reported apart (code 431), not as a C04 failure. *)
Fixpoint reannounce_from (i : Z) (ops : list op) (tr : list obs) : option (Z * obs) :=
  match ops, tr with
  | o :: ops', ob :: tr' =>
      match o, ob with
      | OSeen _ _, _ :: _ :: _ :: nev :: rest =>
          match parse_events (Z.to_nat nev) rest with
          | Some es => if existsb (fun e => e_has e =? 1) es then Some (i, [431]) else reannounce_from (i + 1) ops' tr'
          | None => reannounce_from (i + 1) ops' tr'
          end
      | _, _ => reannounce_from (i + 1) ops' tr'
      end
  | _, _ => None
  end.
Definition c04_reannounce_monitor : checker op := fun ops tr => reannounce_from 0 ops tr.

(* hypotheses of the property on a history: txids are non-negative and pairwise distinct inside every
   delivered body and every committed list (this excludes the CVE-2012-2459 shape [a,b,c] ~ [a,b,c,c]),
   committed lists are non-empty, a txid always carries the same relevance flag, no lying block type, the
   injected output-fetch faults never concern a transaction that also arrives unconfirmed, and a block never
   holds a transaction that is confirmed in a block of the chain the node holds at that moment (a txid is
   confirmed once per branch; after a reorg or a lost header it may be confirmed again) *)
Fixpoint nodup_z (l : list Z) : bool :=
  match l with [] => true | x :: l' => negb (zmem x l') && nodup_z l' end.

Definition op_txs (o : op) : list (Z * bool) :=
  match o with OSeen t rel => [(t, rel)] | OBlock _ _ _ body _ => body | OReorg _ _ _ body => body | _ => [] end.

Definition flags_consistent (txs : list (Z * bool)) : bool :=
  forallb (fun a => forallb (fun b => negb (fst a =? fst b) || Bool.eqb (snd a) (snd b)) txs) txs.

Definition block_shape_ok (hid : Z) (committed : list Z) (body : list (Z * bool)) : bool :=
  let ids := map fst body in
  (0 <? hid) && negb (zlen committed =? 0) && nodup_z committed && nodup_z ids
  && forallb (fun t => 0 <=? t) committed && forallb (fun t => 0 <=? t) ids.

Definition op_shape_ok (o : op) : bool :=
  match o with
  | OSeen t _ => 0 <=? t
  | OBlock hid _ committed body lie => negb lie && block_shape_ok hid committed body
  | OReorg hid _ committed body => block_shape_ok hid committed body
  | _ => true
  end.

Definition faults_not_seen (ops : list op) : bool :=
  forallb (fun o => match o with
                    | OFault ts => forallb (fun o' => match o' with OSeen t _ => negb (zmem t ts) | _ => true end) ops
                    | _ => true
                    end) ops.

Definition c04_valid (ops : list op) : bool :=
  flags_consistent (concat (map op_txs ops)) && forallb op_shape_ok ops && faults_not_seen ops.

(* the part of the hypotheses that depends on the chain the node holds (followed like the monitor does) *)
Definition not_confirmed_in (chain : list (Z * list Z)) (hid : Z) (body : list (Z * bool)) : bool :=
  existsb (fun h => fst h =? hid) chain
  || forallb (fun t => negb (zmem t (concat (map snd chain)))) (map fst body).

Fixpoint valid_chain_from (m : mstate) (ops : list op) (tr : list obs) : bool :=
  match ops, tr with
  | o :: ops', ob :: tr' =>
      (match o with
       | OBlock hid _ _ body _ => not_confirmed_in (m_chain m) hid body
       | OReorg hid prev _ body =>
           let chain := if negb (existsb (fun h => fst h =? hid) (m_chain m) || (hid =? 0)) && negb (prev =? m_tip m)
                        then match find_index prev (map fst (m_chain m) ++ [0]) 0 with
                             | Some k => drop k (m_chain m) | None => m_chain m end
                        else m_chain m in
           not_confirmed_in chain hid body
       | _ => true
       end)
      && valid_chain_from (snd (c04_step m o ob)) ops' tr'
  | _, _ => true
  end.

Definition c04_valid_tr (ops : list op) (tr : list obs) : bool :=
  c04_valid ops && valid_chain_from (MS [] [] [] []) ops tr.
