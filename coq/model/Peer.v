(* Model of a Bitcoin-node-like trusted peer and of the combined system node + peer + connection
   (property C01).  The node is model/Sync.v, unchanged: every node step below IS Sync.step.
     peer        a best chain (ids from genesis) of the block tree `parent_of`; whether `sendheaders`
                 was received on the current connection
     events      APeerSet c: the peer's best chain becomes c (extension or reorganisation; accepted only
                 when c is a chain of the tree with more blocks than the present one, which is what
                 "most work" means at constant difficulty); announced by a `headers` message with the
                 headers above the fork point once `sendheaders` was received, by an `inv` of the
                 new tip before that (what a Bitcoin node does)
     getheaders  up to M headers after the first locator hash on the best chain (genesis if none);
                 the message is sent even when it is empty
     getdata     the blocks, one message each (any block of the tree, also stale ones)
     connection  cw_chan: the peer's messages in flight (a schedule delivers any of them, duplicates any
                 of them, or leaves them there); cw_reqs: the node's messages the peer has not
                 handled yet.  A time-out of the node, a lost connection or a restart of the node closes
                 the connection: what was in flight is gone, the peer greets the new connection with
                 `version` and has forgotten `sendheaders`.
   Actions are the atomic steps; a list of actions is one history + schedule.  `settle` is the
   canonical settling run.  Executable definitions only. *)
From V.lib Require Import Base.
From V.model Require Import Requests Sync SyncSpec.

Inductive msg := MVersion | MHeaders (hs : list hdr) | MBlock (id : Z) | MInv (id : Z).
Inductive req := RGetHeaders (loc : list Z) | RGetData (ids : list Z) | RSendHeaders.

Record peer := Peer { p_best : list Z; p_sh : bool }.

Record cworld := CW {
  cw_node : world;
  cw_peer : peer;
  cw_chan : list msg;
  cw_reqs : list req;
  cw_heard : list Z;      (* ghost: ids of the headers in the headers messages the node has consumed so far *)
}.

Inductive act :=
| ADeliver (k : nat)        (* the node handles the message at position k mod length *)
| ADup (k : nat)            (* that message is duplicated (the copy goes to the end) *)
| AAnswer (k : nat)         (* the peer handles the node's message at position k mod length *)
| AProcess                  (* one iteration of processBlocks *)
| ACheck                    (* Node.check *)
| AAdvance (dt : Z)         (* the clock advances *)
| ATimeouts                 (* CheckTimeouts; an error restarts the connection *)
| ADisconnect               (* the connection is lost and made again *)
| ARestart                  (* a new node process on the same storage *)
| APeerSet (c : list Z).    (* the peer's best chain changes *)

(* scenario operations of the correspondence run *)
(* CProcessAll / CSettleBg: the schedule class "whenever the block thread gets its turn it runs until it
   is idle" (the harness's bgblocks mode, which runs the real processBlocks goroutine) *)
Inductive cop := CAct (a : act) | CSettle (n : nat) | CProcessAll | CSettleBg (n : nat).

(* element k mod length, and the list without it *)
Fixpoint remove_nth {A} (n : nat) (l : list A) : list A :=
  match l, n with
  | [], _ => []
  | _ :: l', O => l'
  | x :: l', S n' => x :: remove_nth n' l'
  end.

Definition pick {A} (k : nat) (l : list A) : option (A * list A) :=
  match l with
  | [] => None
  | _ => let i := (k mod length l)%nat in
         match l !! i with Some x => Some (x, remove_nth i l) | None => None end
  end.

Fixpoint cpl (a b : list Z) : nat :=
  match a, b with
  | x :: a', y :: b' => if x =? y then S (cpl a' b') else O
  | _, _ => O
  end.

Fixpoint after (id : Z) (l : list Z) : list Z :=
  match l with
  | [] => []
  | x :: r => if x =? id then r else after id r
  end.

Definition on_best (best : list Z) (id : Z) : bool := existsb (Z.eqb id) best.

Definition ids_of (hs : list hdr) : list Z := map fst hs.

Definition add_new (l : list Z) (xs : list Z) : list Z :=
  foldl (fun acc x => if existsb (Z.eqb x) acc then acc else acc ++ [x]) l xs.

Definition enc_msg (m : msg) : list Z :=
  match m with
  | MVersion => [1]
  | MHeaders hs => 2 :: zlen hs :: ids_of hs
  | MBlock id => [3; id]
  | MInv id => [4; id]
  end.

Definition enc_req (r : req) : list Z :=
  match r with
  | RGetHeaders loc => 1 :: zlen loc :: loc
  | RGetData ids => 2 :: zlen ids :: ids
  | RSendHeaders => [3]
  end.

Section Combined.
Variable MAXR LIM HT HDT BT DELTA : Z.
Variable M : nat.                       (* most headers in one reply to getheaders (2000 on the network) *)
Variable parent_of : Z -> Z.

Definition hdrs_of (ids : list Z) : list hdr := map (fun id => (id, parent_of id)) ids.

Fixpoint linked_ids (p : Z) (c : list Z) : bool :=
  match c with
  | [] => true
  | x :: r => negb (x =? 0) && (parent_of x =? p) && linked_ids x r
  end.

Definition is_chain (c : list Z) : bool :=
  match c with
  | 0 :: r => linked_ids 0 r
  | _ => false
  end.

Definition answer_getheaders (best loc : list Z) : list hdr :=
  let start := match find (on_best best) loc with Some l => l | None => 0 end in
  hdrs_of (take M (after start best)).

(* what the node puts on the wire in a step (the same calls as Sync.step makes) *)
Definition sends (s : sync) (o : op) : list req :=
  match o with
  | OHeaders hs =>
      match snd (handle_headers MAXR LIM s hs) with
      | Some (x :: l) => [RGetData (x :: l)]
      | _ => []
      end
  | OProcess =>
      match snd (process_next MAXR LIM parent_of s) with
      | [] => []
      | l => [RGetData l]
      end
  | OCheck =>
      flat_map (fun o => match o with
                         | OutGetHeaders loc => [RGetHeaders loc]
                         | OutSendHeaders => [RSendHeaders]
                         | _ => []
                         end) (snd (check s))
  | _ => []
  end.

Definition nstep := Sync.step MAXR LIM HT HDT BT DELTA parent_of.

Definition node_sync (w : cworld) : sync := w_sync (cw_node w).

Definition apply_node (w : cworld) (o : op) : cworld * obs :=
  let '(n1, ob) := nstep (cw_node w) o in
  (CW n1 (cw_peer w) (cw_chan w) (cw_reqs w ++ sends (node_sync w) o) (cw_heard w), ob).

Definition nop_obs (w : cworld) : obs := OK :: digest (node_sync w).

(* the connection is closed and made again *)
Definition conn_reset (w : cworld) : cworld :=
  CW (cw_node w) (Peer (p_best (cw_peer w)) false) [MVersion] [] (cw_heard w).

(* InvHandler.Handle for a block inventory of the trusted peer (internal/handlers/inventory.go):
   ClearInSync, in sync (fix 903636f - before it a block inventory was ignored) and out of sync (a block found
   while the last announced blocks are still being processed is announced by inventory as long as the peer has
   not been told "sendheaders": a pending sync must be confirmed by the peer again, so that the periodic check
   requests headers before the node calls itself in sync) *)
Definition handle_block_inv (s : sync) : sync := clear_in_sync s.

Definition set_node (w : cworld) (n : world) : cworld :=
  CW n (cw_peer w) (cw_chan w) (cw_reqs w) (cw_heard w).

Definition set_chan (w : cworld) (c : list msg) : cworld :=
  CW (cw_node w) (cw_peer w) c (cw_reqs w) (cw_heard w).

Definition peer_answer (w : cworld) (r : req) (rest : list req) : cworld :=
  match r with
  | RGetHeaders loc =>
      CW (cw_node w) (cw_peer w) (cw_chan w ++ [MHeaders (answer_getheaders (p_best (cw_peer w)) loc)]) rest (cw_heard w)
  | RGetData ids => CW (cw_node w) (cw_peer w) (cw_chan w ++ map MBlock ids) rest (cw_heard w)
  | RSendHeaders => CW (cw_node w) (Peer (p_best (cw_peer w)) true) (cw_chan w) rest (cw_heard w)
  end.

Definition peer_set (w : cworld) (c : list Z) : cworld :=
  let best := p_best (cw_peer w) in
  if is_chain c && (length best <? length c)%nat then
    let ann := hdrs_of (drop (cpl best c) c) in
    CW (cw_node w) (Peer c (p_sh (cw_peer w)))
       (cw_chan w ++ [if p_sh (cw_peer w) then MHeaders ann else MInv (List.last c 0)]) (cw_reqs w) (cw_heard w)
  else w.

(* one atomic step; the observation is that of Sync.step (code, digest, payload) *)
Definition wstep_obs (w : cworld) (a : act) : cworld * obs :=
  match a with
  | ADeliver k =>
      match pick k (cw_chan w) with
      | None => (w, nop_obs w)
      | Some (m, rest) =>
          let w0 := set_chan w rest in
          match m with
          | MVersion => apply_node w0 OVersion
          | MHeaders hs =>
              apply_node (CW (cw_node w0) (cw_peer w0) (cw_chan w0) (cw_reqs w0) (add_new (cw_heard w0) (ids_of hs)))
                         (OHeaders hs)
          | MBlock id => apply_node w0 (OBlockMsg id true)
          | MInv id => (set_node w0 (World (handle_block_inv (node_sync w0)) (w_uverified (cw_node w0))), 
                        OK :: digest (handle_block_inv (node_sync w0)))
          end
      end
  | ADup k =>
      match pick k (cw_chan w) with
      | None => (w, nop_obs w)
      | Some (m, _) => (set_chan w (cw_chan w ++ [m]), nop_obs w)
      end
  | AAnswer k =>
      match pick k (cw_reqs w) with
      | None => (w, nop_obs w)
      | Some (r, rest) => (peer_answer w r rest, nop_obs w)
      end
  | AProcess => apply_node w OProcess
  | ACheck => apply_node w OCheck
  | AAdvance dt => apply_node w (OAdvance (Z.max 0 dt))
  | ATimeouts =>
      let '(w1, ob) := apply_node w OTimeouts in
      (if timed_out HT HDT BT (node_sync w) then conn_reset w1 else w1, ob)
  | ADisconnect => let '(w1, ob) := apply_node w OReconnect in (conn_reset w1, ob)
  | ARestart => let '(w1, ob) := apply_node w ORestartNode in (conn_reset w1, ob)
  | APeerSet c => (peer_set w c, nop_obs w)
  end.

Definition wstep (w : cworld) (a : act) : cworld := fst (wstep_obs w a).

Definition wrun (w : cworld) (acts : list act) : cworld := fold_left wstep acts w.

(* ---------------------------------------------------------------------------------------- *)
(* what the property speaks about *)

Definition best (w : cworld) : list Z := p_best (cw_peer w).

(* blocks on the peer's best chain whose header the node was given and which it does not hold *)
Definition missing (w : cworld) : list Z :=
  filter (fun id => on_best (best w) id && negb (contains (node_sync w) id)) (cw_heard w).

Definition caught_up (w : cworld) : bool := match missing w with [] => true | _ => false end.

Definition converged (w : cworld) : bool :=
  zeq (map fst (chain (node_sync w))) (best w) && ready (node_sync w).

Definition emits_insync (s : sync) : bool :=
  existsb (fun o => match o with OutInSync => true | _ => false end) (snd (check s)).

(* ---------------------------------------------------------------------------------------- *)
(* the canonical settling run *)

Definition head_ready (s : sync) : bool :=
  match requested (rq s) with
  | (_, Some _) :: _ => true
  | _ => false
  end.

Definition check_enabled (s : sync) : bool :=
  match snd (check s) with
  | [] => version_received s && ready s && negb (was_in_sync s)
  | _ => true
  end.

Definition settle_dt : Z := Z.max HT (Z.max HDT BT) + 1.

Definition advanced (s : sync) (dt : Z) : sync :=
  Sync (chain s) (rq s) (valid_of s) (ready s) (pending_sync s) (was_in_sync s) (notified s)
       (start_height s) (start_hash s) (version_received s) (handshake_complete s) (sent_sendheaders s)
       (addrs_requested s) (headers_requested s) (connected s) (req_times s) (now s + dt).

Definition armed (s : sync) : bool := timed_out HT HDT BT (advanced s settle_dt).

(* kind of the step taken: 0 nothing is enabled, 1 deliver, 2 peer answers, 3 process, 4 check,
   5 clock past the time-outs + time-out fired;  and, for a check that notifies in sync, the
   number of missing blocks and of outstanding block requests at that moment *)
Definition settle1 (w : cworld) : cworld * Z * option (Z * Z) :=
  let s := node_sync w in
  match cw_chan w with
  | _ :: _ => (wstep w (ADeliver 0), 1, None)
  | [] =>
      match cw_reqs w with
      | _ :: _ => (wstep w (AAnswer 0), 2, None)
      | [] =>
          if head_ready s then (wstep w AProcess, 3, None)
          else if check_enabled s then
            (wstep w ACheck, 4, if emits_insync s then Some (zlen (missing w), total_requests (rq s)) else None)
          else if converged w then (w, 0, None)
          else if armed s then (wstep (wstep w (AAdvance settle_dt)) ATimeouts, 5, None)
          else (w, 0, None)
      end
  end.

Fixpoint settle_run (n : nat) (w : cworld) (steps touts : Z) (ins : list Z) : cworld * Z * Z * list Z :=
  match n with
  | O => (w, steps, touts, ins)
  | S n' =>
      let '(w1, k, i) := settle1 w in
      if k =? 0 then (w, steps, touts, ins)
      else settle_run n' w1 (steps + 1) (if k =? 5 then touts + 1 else touts)
                      (match i with Some (x, y) => ins ++ [x; y] | None => ins end)
  end.

Definition settle (n : nat) (w : cworld) : cworld := (settle_run n w 0 0 []).1.1.1.

Definition quiescent (w : cworld) : bool := (settle1 w).1.2 =? 0.

(* ---------------------------------------------------------------------------------------- *)
(* the correspondence trace: per operation
     code :: digest of the node ++ [length of peer info] ++ peer info ++ payload
   peer info = missing count, sendheaders received, block thread alive, best chain, channel, unanswered
   node messages *)

Definition pinfo (w : cworld) : list Z :=
  [zlen (missing w); b2z (p_sh (cw_peer w)); 1 (* the block thread is alive *); zlen (best w)] ++ best w ++
  [zlen (cw_chan w); zlen (cw_reqs w)] ++ concat (map enc_msg (cw_chan w)) ++ concat (map enc_req (cw_reqs w)).

Definition frame (w1 : cworld) (code : Z) (payload : list Z) : obs :=
  code :: digest (node_sync w1) ++ zlen (pinfo w1) :: pinfo w1 ++ payload.

(* the block thread runs until no delivered block is at the head of the queue; observed: the announced
   (height, id) pairs and the getdata messages it sent *)
Fixpoint process_all (fuel : nat) (w : cworld) (ann : list Z) (gds : list (list Z)) : cworld * list Z * list (list Z) :=
  match fuel with
  | O => (w, ann, gds)
  | S f =>
      if head_ready (node_sync w) then
        let '(_, popped, reqs) := process_next MAXR LIM parent_of (node_sync w) in
        let w1 := wstep w AProcess in
        process_all f w1
          (match popped with
           | Some (id, code) => if code =? 0 then ann ++ [height (node_sync w1); id] else ann
           | None => ann
           end)
          (match reqs with [] => gds | _ => gds ++ [reqs] end)
      else (w, ann, gds)
  end.

Definition process_all_payload (ann : list Z) (gds : list (list Z)) : list Z :=
  (zlen ann / 2) :: ann ++ zlen gds :: concat (map (fun l => zlen l :: l) gds).

Definition process_fuel (w : cworld) : nat := S (length (requested (rq (node_sync w)))).

Definition settle1_bg (w : cworld) : cworld * Z * option (Z * Z) :=
  let s := node_sync w in
  match cw_chan w, cw_reqs w with
  | [], [] => if head_ready s then ((process_all (process_fuel w) w [] []).1.1, 3, None) else settle1 w
  | _, _ => settle1 w
  end.

Fixpoint settle_run_bg (n : nat) (w : cworld) (steps touts : Z) (ins : list Z) : cworld * Z * Z * list Z :=
  match n with
  | O => (w, steps, touts, ins)
  | S n' =>
      let '(w1, k, i) := settle1_bg w in
      if k =? 0 then (w, steps, touts, ins)
      else settle_run_bg n' w1 (steps + 1) (if k =? 5 then touts + 1 else touts)
                         (match i with Some (x, y) => ins ++ [x; y] | None => ins end)
  end.

Definition cstep (w : cworld) (o : cop) : cworld * obs :=
  match o with
  | CAct a =>
      let '(w1, ob) := wstep_obs w a in
      (w1, frame w1 (hd 0 ob) (drop (1 + length (digest (node_sync w1))) ob))
  | CSettle n =>
      let '(w1, steps, touts, ins) := settle_run n w 0 0 [] in
      (w1, frame w1 OK ([b2z (quiescent w1); steps; touts; zlen ins / 2] ++ ins))
  | CProcessAll =>
      let '(w1, ann, gds) := process_all (process_fuel w) w [] [] in
      (w1, frame w1 OK (process_all_payload ann gds))
  | CSettleBg n =>
      let '(w1, steps, touts, ins) := settle_run_bg n w 0 0 [] in
      (w1, frame w1 OK ([b2z (quiescent w1); steps; touts; zlen ins / 2] ++ ins))
  end.

Fixpoint crun_from (w : cworld) (ops : list cop) : list obs :=
  match ops with
  | [] => []
  | o :: ops' => let '(w1, ob) := cstep w o in ob :: crun_from w1 ops'
  end.

End Combined.

Definition cw_init (start : Z) : cworld := CW (w_init start) (Peer [0] false) [MVersion] [] [].

Definition crun (MAXR LIM HT HDT BT DELTA : Z) (M : nat) (parents : list (Z * Z)) (start : Z) (ops : list cop) : list obs :=
  crun_from MAXR LIM HT HDT BT DELTA M (table_fn parents) (cw_init start) ops.

(* ---------------------------------------------------------------------------------------- *)
(* the property on traces (used on the implementation's observations)
     101  the in-sync notification was delivered while block requests were outstanding
     106  ... while a block of the peer's best chain whose header the node had been given was not held
          (the announcement was dropped), on an in-order connection;  108: the same on a history with
          out-of-order deliveries or duplicates
     102  at rest the node calls itself in sync below / off the peer's best chain, in-order connection;
          107: the same on a history with out-of-order deliveries or duplicates
     103  at rest the node is neither in sync nor waiting for anything
     104  the final settling run did not come to rest within its bound
     105  the history does not end with a settling run
     109  the block processing thread has ended although the node is running (processBlocks returned):
          delivered blocks are never processed again on this connection
     199  malformed observation *)

Record cobs := CO { co_ready : bool; co_nreq : Z; co_chain : list Z; co_missing : Z; co_alive : bool; co_best : list Z; co_payload : list Z;
                    co_nchan : Z; co_nreqs : Z   (* messages in flight to the node / to the peer after the step *) }.

Definition parse_cobs (ob : obs) : option cobs :=
  match parse_obs ob with
  | None => None
  | Some d =>
      match d_payload d with
      | n :: rest =>
          if (n <? 4) || (zlen rest <? n) then None else
          match rest with
          | miss :: _ :: alive :: B :: rest2 =>
              if (B <? 0) || (zlen rest2 <? B) then None else
              Some (CO (d_ready d) (d_nreq d + nth 6 ob 0) (d_chain d) miss (negb (alive =? 0)) (take (Z.to_nat B) rest2)
                       (drop (Z.to_nat n) rest)
                       (nth (Z.to_nat B) rest2 0) (nth (S (Z.to_nat B)) rest2 0))
          | _ => None
          end
      | [] => None
      end
  end.

(* does the payload of a check step (enc_out items) contain the in-sync notification *)
Fixpoint has_insync (fuel : nat) (p : list Z) : bool :=
  match fuel with
  | O => false
  | S f =>
      match p with
      | 1 :: n :: rest => has_insync f (drop (Z.to_nat n) rest)
      | 4 :: _ => true
      | _ :: rest => has_insync f rest
      | [] => false
      end
  end.

(* is the step an in-order one, given how many messages were in flight to the node (nchan) / to the peer (nreqs)
   before it: position k mod length = 0 is the head of the queue; a duplication of nothing is no step at all *)
Definition in_order (nchan nreqs : Z) (o : cop) : bool :=
  match o with
  | CAct (ADeliver k) => (nchan <=? 0) || (Z.of_nat k mod nchan =? 0)
  | CAct (AAnswer k) => (nreqs <=? 0) || (Z.of_nat k mod nreqs =? 0)
  | CAct (ADup _) => nchan <=? 0
  | _ => true
  end.

(* codes of a notification with m missing blocks and r outstanding requests *)
Definition insync_code (fifo : bool) (m r : Z) : Z :=
  if negb (r =? 0) then 101 else if negb (m =? 0) then (if fifo then 106 else 108) else 0.

Fixpoint insync_codes (fifo : bool) (k : nat) (ins : list Z) : Z :=
  match k, ins with
  | S k', m :: r :: ins' => let c := insync_code fifo m r in if negb (c =? 0) then c else insync_codes fifo k' ins'
  | _, _ => 0
  end.

Definition c01_step (fifo last : bool) (o : cop) (c : cobs) : Z :=
  if negb (co_alive c) then 109 else
  match o with
  | CAct ACheck =>
      let code := if has_insync (length (co_payload c)) (co_payload c)
                  then insync_code fifo (co_missing c) (co_nreq c) else 0 in
      if negb (code =? 0) then code else if last then 105 else 0
  | CAct _ | CProcessAll => if last then 105 else 0
  | CSettle _ | CSettleBg _ =>
      match co_payload c with
      | q :: _ :: _ :: k :: ins =>
          let code := insync_codes fifo (Z.to_nat k) ins in
          if negb (code =? 0) then code else
          if q =? 0 then (if last then 104 else 0) else
          if zeq (co_chain c) (co_best c) && co_ready c then 0 else
          if co_ready c then (if fifo then 102 else 107) else 103
      | _ => 199
      end
  end.

Fixpoint c01_from (fifo : bool) (nchan nreqs : Z) (i : Z) (ops : list cop) (tr : list obs) : option (Z * obs) :=
  match ops, tr with
  | o :: ops', ob :: tr' =>
      match parse_cobs ob with
      | None => Some (i, [199])
      | Some c =>
          let fifo1 := fifo && in_order nchan nreqs o in
          let code := c01_step fifo1 (match ops' with [] => true | _ => false end) o c in
          if negb (code =? 0) then Some (i, [code]) else c01_from fifo1 (co_nchan c) (co_nreqs c) (i + 1) ops' tr'
      end
  | [], [] => None
  | _, _ => Some (i, [197])
  end.

(* a connection starts with the peer's version message in flight *)
Definition c01_monitor : checker cop := fun ops tr => c01_from true 1 0 0 ops tr.
