(* Model of the block request window: internal/state/requests.go (+ Reset of state.go).
   Executable definitions only.  A block hash is an id (Z); a block body is its size. *)
From V.lib Require Import Base.

Record rstate := RState {
  requested : list (Z * option Z);   (* blocksRequested: (hash, Some size when the block arrived) *)
  to_request : list Z;               (* blocksToRequest *)
  pending : Z;                       (* pendingBlockSize *)
  last_saved : Z;                    (* lastSavedHash *)
}.

Definition r_init (h : Z) : rstate := RState [] [] 0 h.

Section WithLimits.
Variable MAXR : Z.   (* maxRequestedBlocks *)
Variable LIM : Z.    (* maxPendingBlockSize *)

Definition over_threshold (s : rstate) : bool :=
  (zlen (requested s) >=? MAXR) || (pending s >? LIM).

(* AddBlockRequest(prevHash, hash) : (bool, error) *)
Definition add_block_request (s : rstate) (prev h : Z) : rstate * res bool :=
  match last (to_request s) with
  | Some l =>
      if negb (l =? prev) then (s, Err EGeneric)
      else (RState (requested s) (to_request s ++ [h]) (pending s) (last_saved s), Ok false)
  | None =>
      let linked := match last (requested s) with
                    | Some (l, _) => l =? prev
                    | None => last_saved s =? prev
                    end in
      if negb linked then (s, Err EGeneric) else
      if over_threshold s then (RState (requested s) [h] (pending s) (last_saved s), Ok false)
      else (RState (requested s ++ [(h, None)]) (to_request s) (pending s) (last_saved s), Ok true)
  end.

(* AddBlock(hash, block): fills the first matching request; a block received again replaces the
   earlier one (its size is not counted twice - after the fix) *)
Fixpoint fill (l : list (Z * option Z)) (h size : Z) : option (list (Z * option Z) * Z) :=
  match l with
  | [] => None
  | (x, b) :: l' =>
      if x =? h then Some ((x, Some size) :: l', match b with Some old => size - old | None => size end)
      else match fill l' h size with
           | Some (l2, d) => Some ((x, b) :: l2, d)
           | None => None
           end
  end.

Definition add_block (s : rstate) (h size : Z) : rstate * bool :=
  match fill (requested s) h size with
  | Some (l, d) => (RState l (to_request s) (pending s + d) (last_saved s), true)
  | None => (s, false)
  end.

(* NextBlock: pops the head only when its block arrived *)
Definition next_block (s : rstate) : rstate * option Z :=
  match requested s with
  | (h, Some size) :: l => (RState l (to_request s) (pending s - size) h, Some h)
  | _ => (s, None)
  end.

(* GetNextBlockToRequest: (hash, count) or (nil, -1) *)
Definition get_next (s : rstate) : rstate * option (Z * Z) :=
  match to_request s with
  | [] => (s, None)
  | h :: l =>
      if over_threshold s then (s, None)
      else (RState (requested s ++ [(h, None)]) l (pending s) (last_saved s),
            Some (h, zlen (requested s) + 1))
  end.

Definition clear_all (s : rstate) : rstate := RState [] [] 0 (last_saved s).

Definition sizes (l : list (Z * option Z)) : Z :=
  foldr (fun x acc => match snd x with Some sz => sz + acc | None => acc end) 0 l.

Fixpoint find_idx {A} (f : A -> bool) (l : list A) (i : nat) : option nat :=
  match l with
  | [] => None
  | x :: l' => if f x then Some i else find_idx f l' (S i)
  end.

(* ClearBlockRequestsAfter(hash) *)
Definition clear_after (s : rstate) (h : Z) : rstate :=
  match find_idx (fun x => fst x =? h) (requested s) 0 with
  | Some i =>
      RState (take (S i) (requested s)) [] (pending s - sizes (drop (S i) (requested s))) (last_saved s)
  | None =>
      match find_idx (fun x => x =? h) (to_request s) 0 with
      | Some i => RState (requested s) (take (S i) (to_request s)) (pending s) (last_saved s)
      | None => s
      end
  end.

Definition set_last_hash (s : rstate) (h : Z) : rstate :=
  RState (requested s) (to_request s) (pending s) h.

(* lastHash *)
Definition last_hash (s : rstate) : Z :=
  match last (to_request s) with
  | Some l => l
  | None => match last (requested s) with Some (l, _) => l | None => last_saved s end
  end.

(* BlockRequestHash(delta): Go indexes len-delta-1 after checking len > delta only *)
Definition block_request_hash (s : rstate) (delta : Z) : res (option Z) :=
  if zlen (to_request s) >? delta then
    res_bind (index (to_request s) (zlen (to_request s) - delta - 1)) (fun x => Ok (Some x))
  else if zlen (requested s) >? delta then
    res_bind (index (requested s) (zlen (requested s) - delta - 1)) (fun x => Ok (Some (fst x)))
  else Ok None.

(* State.Reset keeps lastSavedHash *)
Definition reset (s : rstate) : rstate := RState [] [] 0 (last_saved s).

End WithLimits.

(* ---------------------------------------------------------------------------------------- *)
Inductive op :=
| OAnnounce (prev h : Z)        (* AddBlockRequest *)
| ODeliver (h size : Z)         (* AddBlock *)
| OPop                          (* NextBlock *)
| ONext                         (* GetNextBlockToRequest *)
| OClearAll
| OClearAfter (h : Z)
| OSetLast (h : Z)
| OReset
| OLastHash
| OReqHash (delta : Z)
| OIsRequested (h : Z)
| OIsToBeRequested (h : Z).

(* every observation ends with the digest: requested count, to-request count, pending bytes *)
Definition digest (s : rstate) : list Z := [zlen (requested s); zlen (to_request s); pending s].

Definition step (MAXR LIM : Z) (s : rstate) (o : op) : rstate * obs :=
  match o with
  | OAnnounce prev h =>
      let '(s1, r) := add_block_request MAXR LIM s prev h in
      (s1, match r with Ok b => OK :: b2z b :: digest s1 | _ => ERR :: digest s1 end)
  | ODeliver h size => let '(s1, b) := add_block s h size in (s1, OK :: b2z b :: digest s1)
  | OPop => let '(s1, r) := next_block s in
            (s1, match r with Some h => OK :: 1 :: h :: digest s1 | None => OK :: 0 :: digest s1 end)
  | ONext => let '(s1, r) := get_next MAXR LIM s in
             (s1, match r with Some (h, c) => OK :: 1 :: h :: c :: digest s1 | None => OK :: 0 :: digest s1 end)
  | OClearAll => let s1 := clear_all s in (s1, OK :: digest s1)
  | OClearAfter h => let s1 := clear_after s h in (s1, OK :: digest s1)
  | OSetLast h => let s1 := set_last_hash s h in (s1, OK :: digest s1)
  | OReset => let s1 := reset s in (s1, OK :: digest s1)
  | OLastHash => (s, OK :: last_hash s :: digest s)
  | OReqHash d => (s, match block_request_hash s d with
                      | Ok (Some h) => OK :: 1 :: h :: digest s
                      | Ok None => OK :: 0 :: digest s
                      | Err _ => ERR :: digest s
                      | Panic => [PANIC]
                      end)
  | OIsRequested h => (s, OK :: b2z (existsb (fun x => fst x =? h) (requested s)) :: digest s)
  | OIsToBeRequested h => (s, OK :: b2z (existsb (fun x => x =? h) (to_request s)) :: digest s)
  end.

Fixpoint run_from (MAXR LIM : Z) (s : rstate) (ops : list op) : list obs :=
  match ops with
  | [] => []
  | o :: ops' => let '(s1, ob) := step MAXR LIM s o in ob :: run_from MAXR LIM s1 ops'
  end.

(* the harness starts from NewState + SetLastHash 0 *)
Definition run (MAXR LIM : Z) (ops : list op) : list obs := run_from MAXR LIM (r_init 0) ops.
