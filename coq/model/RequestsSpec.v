(* Reference queue model for property C13.
   One queue of announced-but-not-yet-processed blocks in announcement order, each with the body
   that arrived for it (if any); the first `nreq` of them have been requested.  The number of
   buffered bytes is not stored: it is *defined* as the sum of the sizes of the buffered bodies. *)
From V.lib Require Import Base.
From V.model Require Import Requests.

Record qstate := QState {
  queue : list (Z * option Z);
  nreq : nat;
  q_last_saved : Z;
}.

Definition q_init (h : Z) : qstate := QState [] 0 h.

Definition buffered (q : qstate) : Z := sizes (queue q).

Section WithLimits.
Variable MAXR : Z.
Variable LIM : Z.

Definition q_over (q : qstate) : bool := (Z.of_nat (nreq q) >=? MAXR) || (buffered q >? LIM).

Definition q_tail (q : qstate) : Z :=
  match last (queue q) with Some (l, _) => l | None => q_last_saved q end.

Definition q_step (q : qstate) (o : op) : qstate * obs :=
  let dig (q : qstate) := [Z.of_nat (nreq q); zlen (queue q) - Z.of_nat (nreq q); buffered q] in
  match o with
  | OAnnounce prev h =>
      if negb (q_tail q =? prev) then (q, ERR :: dig q) else
      if (nreq q =? length (queue q))%nat && negb (q_over q)
      then let q1 := QState (queue q ++ [(h, None)]) (S (nreq q)) (q_last_saved q) in (q1, OK :: 1 :: dig q1)
      else let q1 := QState (queue q ++ [(h, None)]) (nreq q) (q_last_saved q) in (q1, OK :: 0 :: dig q1)
  | ODeliver h size =>
      match fill (take (nreq q) (queue q)) h size with
      | Some (l, _) => let q1 := QState (l ++ drop (nreq q) (queue q)) (nreq q) (q_last_saved q) in
                       (q1, OK :: 1 :: dig q1)
      | None => (q, OK :: 0 :: dig q)
      end
  | OPop =>
      match queue q, nreq q with
      | (h, Some _) :: l, S n => let q1 := QState l n h in (q1, OK :: 1 :: h :: dig q1)
      | _, _ => (q, OK :: 0 :: dig q)
      end
  | ONext =>
      match drop (nreq q) (queue q) with
      | (h, _) :: _ =>
          if q_over q then (q, OK :: 0 :: dig q)
          else let q1 := QState (queue q) (S (nreq q)) (q_last_saved q) in
               (q1, OK :: 1 :: h :: Z.of_nat (S (nreq q)) :: dig q1)
      | [] => (q, OK :: 0 :: dig q)
      end
  | OClearAll => let q1 := QState [] 0 (q_last_saved q) in (q1, OK :: dig q1)
  | OClearAfter h =>
      match find_idx (fun x => fst x =? h) (queue q) 0 with
      | Some i => let q1 := QState (take (S i) (queue q)) (Nat.min (nreq q) (S i)) (q_last_saved q) in
                  (q1, OK :: dig q1)
      | None => (q, OK :: dig q)
      end
  | OSetLast h => let q1 := QState (queue q) (nreq q) h in (q1, OK :: dig q1)
  | OReset => let q1 := QState [] 0 (q_last_saved q) in (q1, OK :: dig q1)
  | OLastHash => (q, OK :: q_tail q :: dig q)
  | OReqHash d =>
      (* hash `d` places before the end of the not-yet-requested part, else of the requested part *)
      let tr := drop (nreq q) (queue q) in
      let rq := take (nreq q) (queue q) in
      (q, if d <? 0 then [PANIC]   (* Go: len > delta holds, index len-delta-1 is out of range *)
          else if zlen tr >? d then
            match tr !! Z.to_nat (zlen tr - d - 1) with Some (h, _) => OK :: 1 :: h :: dig q | None => [PANIC] end
          else if zlen rq >? d then
            match rq !! Z.to_nat (zlen rq - d - 1) with Some (h, _) => OK :: 1 :: h :: dig q | None => [PANIC] end
          else OK :: 0 :: dig q)
  | OIsRequested h => (q, OK :: b2z (existsb (fun x => fst x =? h) (take (nreq q) (queue q))) :: dig q)
  | OIsToBeRequested h => (q, OK :: b2z (existsb (fun x => fst x =? h) (drop (nreq q) (queue q))) :: dig q)
  end.

Fixpoint q_run_from (q : qstate) (ops : list op) : list obs :=
  match ops with
  | [] => []
  | o :: ops' => let '(q1, ob) := q_step q o in ob :: q_run_from q1 ops'
  end.

End WithLimits.

Definition q_run (MAXR LIM : Z) (ops : list op) : list obs := q_run_from MAXR LIM (q_init 0) ops.

(* state of the reference queue after a history *)
Definition q_after (MAXR LIM : Z) (ops : list op) : qstate :=
  fold_left (fun q o => fst (q_step MAXR LIM q o)) ops (q_init 0).

Definition requested_part (q : qstate) : list (Z * option Z) := take (nreq q) (queue q).
Definition waiting_part (q : qstate) : list (Z * option Z) := drop (nreq q) (queue q).

(* the property monitor: the implementation behaves like the reference queue *)
Definition c13_monitor (MAXR LIM : Z) : checker op := cmp_run (q_run MAXR LIM).

(* Histories the property quantifies over: announcements come from a block tree, i.e. there is a
   rank (height) function under which every announcement goes from a block to a strictly higher
   one.  (Only needed for the no-duplicate-request statement.) *)
Definition announces_ranked (rk : Z -> Z) (ops : list op) : Prop :=
  Forall (fun o => match o with OAnnounce prev h => rk prev < rk h | _ => True end) ops.

(* the getdata requests issued by a history: hashes for which announce returned true or that
   GetNextBlockToRequest handed out, in order *)
Definition issued_of (o : op) (ob : obs) : list Z :=
  match o, ob with
  | OAnnounce _ h, 0 :: 1 :: _ => [h]
  | ONext, 0 :: 1 :: h :: _ => [h]
  | _, _ => []
  end.

Definition popped_of (o : op) (ob : obs) : list Z :=
  match o, ob with
  | OPop, 0 :: 1 :: h :: _ => [h]
  | _, _ => []
  end.

Fixpoint collect (f : op -> obs -> list Z) (ops : list op) (tr : list obs) : list Z :=
  match ops, tr with
  | o :: ops', ob :: tr' => f o ob ++ collect f ops' tr'
  | _, _ => []
  end.
