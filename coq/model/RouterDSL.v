(* The routing language the translator (translator/router.go) emits for
   RemoteClient.handleRequestResponse, pkg/client/remote_client.go, and its meaning over the
   pending list of model/Client.v.  gen/RouterGen.v is the function as the source has it now;
   proofs/Router_Proofs.v proves that it computes exactly Client.route. *)
From V.lib Require Import Base.
From V.gen Require Import Consts.
From V.model Require Import Client.

Inductive payload := PHeaders | PHeader | PFeeQuotes | PBaseTx | PAccept | PReject | POther | PDefault.

(* what the search loop compares the request with, besides its type *)
Inductive rkey :=
| KNone          (* nothing: the type alone *)
| KReqHeight     (* request.height == int(msg.RequestHeight) *)
| KBlockHash     (* request.hash.Equal(&h), h := *msg.Header.BlockHash() *)
| KTxHash        (* request.hash.Equal(&t), t := *msg.Tx.TxHash() *)
| KMsgHash       (* request.hash.Equal(msg.Hash) *)
| KUnknown.

Inductive rstmt :=
| SSkip
| SLoop (typ : Z) (key : rkey) (deliver remove ret : bool)
| SRetNil
| SRetNotFound
| SIfNoHash (body : list rstmt)
| SIfSubType (typ : Z) (body : list rstmt)
| SSwitchSub (cases : list (Z * list rstmt)) (default : list rstmt)
| SUnknown.

(* the model's request kinds (Client.v) for the wire message types *)
Definition kind_of_typ (t : Z) : Z :=
  if t =? MessageTypeSendTx then 1 else
  if t =? MessageTypeSendExpandedTx then 2 else
  if t =? MessageTypeSaveTxs then 3 else
  if t =? MessageTypeGetTx then 4 else
  if t =? MessageTypeGetHeaders then 5 else
  if t =? MessageTypeGetHeader then 6 else
  if t =? MessageTypeGetFeeQuotes then 7 else
  if t =? MessageTypeReprocessTx then 8 else
  if t =? MessageTypeMarkHeaderInvalid then 9 else
  if t =? MessageTypeMarkHeaderNotInvalid then 10 else - t.

Definition payload_of (m : smsg) : payload :=
  match m with
  | MHeaders _ _ => PHeaders | MHeader _ => PHeader | MFee => PFeeQuotes | MBaseTx _ => PBaseTx
  | MAccept _ _ => PAccept | MReject _ _ _ => PReject
  | _ => POther
  end.

Definition payload_eqb (a b : payload) : bool :=
  match a, b with
  | PHeaders, PHeaders | PHeader, PHeader | PFeeQuotes, PFeeQuotes | PBaseTx, PBaseTx
  | PAccept, PAccept | PReject, PReject | POther, POther | PDefault, PDefault => true
  | _, _ => false
  end.

(* the key a message offers under a key source; None: the source does not exist for this message
   (the Go code would not compile), treated as never matching *)
Definition msg_key (m : smsg) (k : rkey) : option Z :=
  match k, m with
  | KReqHeight, MHeaders reqh _ => Some reqh
  | KBlockHash, MHeader key => Some key
  | KTxHash, MBaseTx t => Some t
  | KMsgHash, MAccept _ key => Some key
  | KMsgHash, MReject _ key _ => Some key
  | _, _ => None
  end.

(* msg.Hash == nil, msg.MessageType *)
Definition no_hash (m : smsg) : bool :=
  match m with MAccept _ key | MReject _ key _ => key =? -1 | _ => false end.
Definition sub_kind (m : smsg) : option Z :=
  match m with MAccept kind _ | MReject kind _ _ => Some kind | _ => None end.

(* outcome of a statement: fall through to the next one, or the function returned *)
Inductive outcome := Fall (l : list pend) | Done (r : option pend) (l : list pend) (notfound : bool).

Definition loop_pred (m : smsg) (typ : Z) (key : rkey) (p : pend) : bool :=
  match key with
  | KNone => konly (kind_of_typ typ) p
  | KUnknown => false
  | _ => match msg_key m key with Some k => kk (kind_of_typ typ) k p | None => false end
  end.

Definition exec_loop (m : smsg) (typ : Z) (key : rkey) (deliver remove ret : bool) (l : list pend) : outcome :=
  match take_first (loop_pred m typ key) l with
  | (Some p, l') =>
      (* anything but "deliver, remove, return" leaves the list or the caller in another state:
         modelled as losing every pending request, which no routing of Client.route does *)
      if deliver && remove && ret then Done (Some p) l' false else Done None [] true
  | (None, _) => Fall l
  end.

Section Exec.
  Variable m : smsg.

  Fixpoint exec (s : rstmt) (l : list pend) : outcome :=
    let fix seq (ss : list rstmt) (l : list pend) : outcome :=
      match ss with
      | [] => Fall l
      | s :: ss' => match exec s l with Fall l' => seq ss' l' | d => d end
      end in
    let fix cases (cs : list (Z * list rstmt)) (k : Z) (l : list pend) : option outcome :=
      match cs with
      | [] => None
      | (t, body) :: cs' => if k =? kind_of_typ t then Some (seq body l) else cases cs' k l
      end in
    match s with
    | SSkip => Fall l
    | SLoop typ key deliver remove ret => exec_loop m typ key deliver remove ret l
    | SRetNil => Done None l false
    | SRetNotFound => Done None l true
    | SIfNoHash body => if no_hash m then seq body l else Fall l
    | SIfSubType typ body =>
        match sub_kind m with
        | Some k => if k =? kind_of_typ typ then seq body l else Fall l
        | None => Done None [] true
        end
    | SSwitchSub cs def =>
        match sub_kind m with
        | Some k => match cases cs k l with Some o => o | None => seq def l end
        | None => Done None [] true
        end
    | SUnknown => Done None [] true
    end.

  Fixpoint exec_seq (ss : list rstmt) (l : list pend) : outcome :=
    match ss with
    | [] => Fall l
    | s :: ss' => match exec s l with Fall l' => exec_seq ss' l' | d => d end
    end.
End Exec.

Fixpoint find_clause (cl : list (payload * list rstmt)) (p : payload) : option (list rstmt) :=
  match cl with
  | [] => None
  | (q, body) :: cl' => if payload_eqb p q then Some body else find_clause cl' p
  end.

(* the whole function: the type switch, then the statements after it; falling off the end cannot
   happen in Go (missing return), modelled like SUnknown *)
Definition exec_router (shape_ok : bool) (clauses : list (payload * list rstmt)) (tail : list rstmt)
                       (m : smsg) (l : list pend) : option pend * list pend * bool :=
  if negb shape_ok then (None, [], true) else
  let body := match find_clause clauses (payload_of m) with
              | Some b => b
              | None => match find_clause clauses PDefault with Some b => b | None => [] end
              end in
  match exec_seq m body l with
  | Done r l' nf => (r, l', nf)
  | Fall l' => match exec_seq m tail l' with
               | Done r l'' nf => (r, l'', nf)
               | Fall _ => (None, [], true)
               end
  end.
