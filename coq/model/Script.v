(* Model of the subscription filter: Node.IsRelevant / pushDataToHash / checkContracts
   (internal/spynode/transactions.go:232-317), Subscribe/UnsubscribePushDatas (node.go:182-215) and
   of bitcoin.ParsePushDataScript (tokenized/pkg, a dependency: modelled, not verified).
   Bytes are Z in 0..255.  RIPEMD160(SHA256(.)) and the Tokenized action parser are oracles
   (Section variables), supplied as finite tables by the correspondence run. *)
From V.lib Require Import Base.

Definition bytes := list Z.

Fixpoint bytes_eqb (a b : bytes) : bool :=
  match a, b with
  | [], [] => true
  | x :: a', y :: b' => (x =? y) && bytes_eqb a' b'
  | _, _ => false
  end.

(* result of one ParsePushDataScript call *)
Inductive item_res :=
| IPush (data : bytes) (rest : bytes)     (* a push op: data may be empty *)
| INotPush (rest : bytes)                 (* ErrNotPushOp: one opcode byte consumed *)
| IError.                                 (* EOF, truncated size field, size past end *)

Definition le_val (bs : bytes) : Z := foldr (fun b acc => b + 256 * acc) 0 bs.

(* read a size field of n bytes then that many data bytes *)
Definition sized_push (n : nat) (rest : bytes) : item_res :=
  if (length rest <? n)%nat then IError else
  let size := le_val (take n rest) in
  let r := drop n rest in
  if size =? 0 then IPush [] r else
  if size >? zlen r then IError else
  IPush (take (Z.to_nat size) r) (drop (Z.to_nat size) r).

Definition parse_item (s : bytes) : item_res :=
  match s with
  | [] => IError                                         (* binary.Read: EOF *)
  | op :: rest =>
      if op =? 0 then IPush [] rest                      (* OP_FALSE *)
      else if op <=? 75 then                             (* OP_MAX_SINGLE_BYTE_PUSH_DATA *)
        (if op >? zlen rest then IError
         else IPush (take (Z.to_nat op) rest) (drop (Z.to_nat op) rest))
      else if (81 <=? op) && (op <=? 96) then IPush [op - 80] rest      (* OP_1 .. OP_16 *)
      else if op =? 79 then IPush [255] rest                            (* OP_1NEGATE *)
      else if op =? 76 then sized_push 1 rest                           (* OP_PUSH_DATA_1 *)
      else if op =? 77 then sized_push 2 rest                           (* OP_PUSH_DATA_2 *)
      else if op =? 78 then sized_push 4 rest                           (* OP_PUSH_DATA_4 *)
      else INotPush rest
  end.

(* the loop of IsRelevant over one script: `continue` on not-push, `break` on any other error.
   Every iteration consumes at least one byte, so fuel = length + 1 is never exhausted. *)
Fixpoint pushes_fuel (fuel : nat) (s : bytes) : list bytes :=
  match fuel with
  | O => []
  | S f =>
      match parse_item s with
      | IPush d rest => d :: pushes_fuel f rest
      | INotPush rest => pushes_fuel f rest
      | IError => []
      end
  end.

Definition pushes (s : bytes) : list bytes := pushes_fuel (S (length s)) s.

Section WithOracles.
Variable H160 : bytes -> bytes.          (* bitcoin.Hash160 = RIPEMD160 . SHA256 *)
Variable is_cf_or_ic : bytes -> bool.    (* protocol.Deserialize yields ContractFormation / InstrumentCreation *)

(* pushDataToHash *)
Definition push_key (p : bytes) : bytes := if (length p =? 20)%nat then p else H160 p.

Record fstate := FState { subs : list bytes; contracts : bool }.
Definition f_init : fstate := FState [] false.

Definition subscribe (s : fstate) (ds : list bytes) : fstate :=
  FState (subs s ++ map push_key ds) (contracts s).

Fixpoint remove_first (k : bytes) (l : list bytes) : list bytes :=
  match l with
  | [] => []
  | x :: l' => if bytes_eqb x k then l' else x :: remove_first k l'
  end.

Definition unsubscribe (s : fstate) (ds : list bytes) : fstate :=
  FState (fold_left (fun l d => remove_first (push_key d) l) ds (subs s)) (contracts s).

Definition subscribed (s : fstate) (k : bytes) : bool := existsb (fun x => bytes_eqb x k) (subs s).

Definition script_matches (s : fstate) (script : bytes) : bool :=
  existsb (fun p => subscribed s (push_key p)) (pushes script).

(* IsRelevant: contracts first, then outputs, then inputs *)
Definition is_relevant (s : fstate) (outs ins : list bytes) : bool :=
  (contracts s && existsb is_cf_or_ic outs)
  || existsb (script_matches s) outs
  || existsb (script_matches s) ins.

End WithOracles.

(* ---------------------------------------------------------------------------------------- *)
Inductive op :=
| OSubscribe (ds : list bytes)
| OUnsubscribe (ds : list bytes)
| OSubContracts
| OUnsubContracts
| OIsRelevant (outs ins : list bytes)
| OHash160 (d : bytes)
| OSubscribed.                               (* verif accessor: the subscription list *)

(* oracle tables carried by a correspondence case *)
Definition table_lookup (tbl : list (bytes * bytes)) (d : bytes) : bytes :=
  match find (fun e => bytes_eqb (fst e) d) tbl with
  | Some e => snd e
  | None => [-1]                              (* the hash of unknown data never equals a subscription *)
  end.

Definition in_table (tbl : list bytes) (d : bytes) : bool := existsb (bytes_eqb d) tbl.

Definition step (htbl : list (bytes * bytes)) (ctbl : list bytes) (s : fstate) (o : op) : fstate * obs :=
  let H := table_lookup htbl in
  match o with
  | OSubscribe ds => (subscribe H s ds, [OK])
  | OUnsubscribe ds => (unsubscribe H s ds, [OK])
  | OSubContracts => (FState (subs s) true, [OK])
  | OUnsubContracts => (FState (subs s) false, [OK])
  | OIsRelevant outs ins => (s, [OK; b2z (is_relevant H (in_table ctbl) s outs ins)])
  | OHash160 d => (s, OK :: H d)
  | OSubscribed => (s, OK :: zlen (subs s) :: concat (subs s))
  end.

Fixpoint run_from (htbl : list (bytes * bytes)) (ctbl : list bytes) (s : fstate) (ops : list op) : list obs :=
  match ops with
  | [] => []
  | o :: ops' => let '(s1, ob) := step htbl ctbl s o in ob :: run_from htbl ctbl s1 ops'
  end.

Definition run (htbl : list (bytes * bytes)) (ctbl : list bytes) (ops : list op) : list obs :=
  run_from htbl ctbl f_init ops.
