(* Declarative reference for property C08: the item grammar of a script and what the filter means. *)
From V.lib Require Import Base.
From V.model Require Import Script.

(* script items *)
Inductive item :=
| ItZero                           (* OP_0 / OP_FALSE : pushes the empty string *)
| ItDirect (d : bytes)             (* 1..75 data bytes preceded by their count *)
| ItNum (n : Z)                    (* OP_1 .. OP_16 : pushes the single byte n *)
| ItNeg                            (* OP_1NEGATE : pushes 0xff *)
| ItPushData (w : nat) (d : bytes) (* OP_PUSHDATA1/2/4 (w = 1, 2, 4), little-endian length, data *)
| ItOp (b : Z).                    (* any other opcode *)

Definition is_byte (b : Z) : Prop := 0 <= b < 256.

Fixpoint le_bytes (w : nat) (n : Z) : bytes :=
  match w with
  | O => []
  | S w' => (n mod 256) :: le_bytes w' (n / 256)
  end.

Definition wf_item (it : item) : Prop :=
  match it with
  | ItZero | ItNeg => True
  | ItDirect d => (1 <= length d <= 75)%nat /\ Forall is_byte d
  | ItNum n => 1 <= n <= 16
  | ItPushData w d => (w = 1 \/ w = 2 \/ w = 4)%nat /\ zlen d < 256 ^ Z.of_nat w /\ Forall is_byte d
  | ItOp b => is_byte b /\ (b = 80 \/ 97 <= b)
  end.

Definition encode_item (it : item) : bytes :=
  match it with
  | ItZero => [0]
  | ItDirect d => zlen d :: d
  | ItNum n => [80 + n]
  | ItNeg => [79]
  | ItPushData w d => (match w with 1%nat => 76 | 2%nat => 77 | _ => 78 end) :: le_bytes w (zlen d) ++ d
  | ItOp b => [b]
  end.

(* the data an item pushes (None for a non-push opcode) *)
Definition item_push (it : item) : option bytes :=
  match it with
  | ItZero => Some []
  | ItDirect d => Some d
  | ItNum n => Some [n]
  | ItNeg => Some [255]
  | ItPushData _ d => Some d
  | ItOp _ => None
  end.

Definition encode_items (its : list item) : bytes := concat (map encode_item its).
Definition pushes_of (its : list item) : list bytes := omap item_push its.

(* what relevance means, stated over the pushes of the scripts *)
Definition relevant_spec (H160 : bytes -> bytes) (is_cf_or_ic : bytes -> bool)
           (s : fstate) (outs ins : list bytes) : Prop :=
  (contracts s = true /\ exists o, In o outs /\ is_cf_or_ic o = true) \/
  (exists sc p k, In sc (outs ++ ins) /\ In p (pushes sc) /\ In k (subs s) /\ k = push_key H160 p).
