(* Declarative reference for property C08: the item grammar of a script and what the filter means. *)
From V.lib Require Import Base.
From V.model Require Import Script.

(* script items *)
Inductive item :=
| ItZero                           (* OP_0 / OP_FALSE : pushes the empty string *)
| ItDirect (d : bytes)             (* 1..75 data bytes preceded by their count *)
| ItNum (n : Z)                    (* OP_1 .. OP_16 : pushes the single byte n *)
| ItNeg                            (* OP_1NEGATE : pushes 0xff *)
| ItPushData (w : nat) (d : bytes) (* OP_PUSHDATA1/2/4 (w = 1, 2, 4), little-endian length, data *)
| ItOp (b : Z).                    (* any other opcode *)

Definition is_byte (b : Z) : Prop := 0 <= b < 256.

Fixpoint le_bytes (w : nat) (n : Z) : bytes :=
  match w with
  | O => []
  | S w' => (n mod 256) :: le_bytes w' (n / 256)
  end.

Definition wf_item (it : item) : Prop :=
  match it with
  | ItZero | ItNeg => True
  | ItDirect d => (1 <= length d <= 75)%nat /\ Forall is_byte d
  | ItNum n => 1 <= n <= 16
  | ItPushData w d => (w = 1 \/ w = 2 \/ w = 4)%nat /\ zlen d < 256 ^ Z.of_nat w /\ Forall is_byte d
  | ItOp b => is_byte b /\ (b = 80 \/ 97 <= b)
  end.

Definition encode_item (it : item) : bytes :=
  match it with
  | ItZero => [0]
  | ItDirect d => zlen d :: d
  | ItNum n => [80 + n]
  | ItNeg => [79]
  | ItPushData w d => (match w with 1%nat => 76 | 2%nat => 77 | _ => 78 end) :: le_bytes w (zlen d) ++ d
  | ItOp b => [b]
  end.

(* the data an item pushes (None for a non-push opcode) *)
Definition item_push (it : item) : option bytes :=
  match it with
  | ItZero => Some []
  | ItDirect d => Some d
  | ItNum n => Some [n]
  | ItNeg => Some [255]
  | ItPushData _ d => Some d
  | ItOp _ => None
  end.

Definition encode_items (its : list item) : bytes := concat (map encode_item its).
Definition pushes_of (its : list item) : list bytes := omap item_push its.

(* what relevance means, stated over the pushes of the scripts *)
Definition relevant_spec (H160 : bytes -> bytes) (is_cf_or_ic : bytes -> bool)
           (s : fstate) (outs ins : list bytes) : Prop :=
  (contracts s = true /\ exists o, In o outs /\ is_cf_or_ic o = true) \/
  (exists sc p k, In sc (outs ++ ins) /\ In p (pushes sc) /\ In k (subs s) /\ k = push_key H160 p).

(* ---------------------------------------------------------------------------------------- *)
(* Executable statement of C08 over operations and observations (the harness' and the model's):
   the subscriptions are a MULTISET of 20-byte keys (order is not part of the property);
   851 IsRelevant does not say what the filter means (a complete push whose key is subscribed in some
       output / input script, or contracts on and a contract formation / instrument creation output)
   852 the subscriptions after subscribe / unsubscribe calls are not the multiset sum / difference *)
Definition count_k (k : bytes) (l : list bytes) : Z := zlen (filter (fun x => bytes_eqb x k = true) l).
Definition mset_eqb (a b : list bytes) : bool := forallb (fun k => count_k k a =? count_k k b) (a ++ b).

Fixpoint chunk (fuel : nat) (n : nat) (l : bytes) : list bytes :=
  match fuel with
  | O => []
  | S f => match l with [] => [] | _ => take n l :: chunk f n (drop n l) end
  end.

Definition spec_relevant (H : bytes -> bytes) (is_c : bytes -> bool) (s : fstate) (outs ins : list bytes) : bool :=
  (contracts s && existsb is_c outs)
  || existsb (fun sc => existsb (fun p => 0 <? count_k (push_key H p) (subs s)) (pushes sc)) (outs ++ ins).

Definition step08 (htbl : list (bytes * bytes)) (ctbl : list bytes) (s : fstate) (o : op) (ob : obs) : Z * fstate :=
  let H := table_lookup htbl in
  match o with
  | OSubscribe ds => (0, subscribe H s ds)
  | OUnsubscribe ds => (0, unsubscribe H s ds)
  | OSubContracts => (0, FState (subs s) true)
  | OUnsubContracts => (0, FState (subs s) false)
  | OIsRelevant outs ins =>
      ((if zlist_eqb ob [OK; b2z (spec_relevant H (in_table ctbl) s outs ins)] then 0 else 851), s)
  | OHash160 _ => (0, s)
  | OSubscribed =>
      match ob with
      | _ :: n :: rest =>
          ((if (n =? zlen (subs s)) && mset_eqb (chunk (S (length rest)) 20 rest) (subs s) then 0 else 852), s)
      | _ => (852, s)
      end
  end.

Fixpoint mon08_from (htbl : list (bytes * bytes)) (ctbl : list bytes) (s : fstate) (i : Z) (ops : list op) (tr : list obs)
  : option (Z * obs) :=
  match ops, tr with
  | o :: ops', ob :: tr' =>
      let '(code, s1) := step08 htbl ctbl s o ob in
      if negb (code =? 0) then Some (i, [code]) else mon08_from htbl ctbl s1 (i + 1) ops' tr'
  | [], [] => None
  | _, _ => Some (i, [897])
  end.
Definition c08_monitor (htbl : list (bytes * bytes)) (ctbl : list bytes) : checker op :=
  fun ops tr => mon08_from htbl ctbl f_init 0 ops tr.

(* hypothesis: the oracle table knows every datum that is subscribed / unsubscribed (its key is 20 bytes) *)
Definition keys20 (htbl : list (bytes * bytes)) (ops : list op) : bool :=
  forallb (fun o => match o with
                    | OSubscribe ds | OUnsubscribe ds =>
                        forallb (fun d => (length (push_key (table_lookup htbl) d) =? 20)%nat) ds
                    | _ => true
                    end) ops.
