(* The "accepted" flag of the remote client across connections (property C18, first sentence), on top of the
   send machine: pkg/client/remote_client.go
     runConnection, start: accepted := false for the new connection         1450-1456  (ABase SConnect)
     handleMessage: gate on accepted; AcceptRegister verified against the
       CURRENT session key / hash sets accepted                             2177-2209  (AAccept, AData)
     connect: a fresh session hash and key per dial                          (ASession)
   The message-handling goroutine reads the receive channel independently of the connection goroutine, so an
   accept of a connection can be handled after that connection was torn down (a step AAccept while no connection
   runs).  Executable definitions only. *)
From V.lib Require Import Base.
From V.model Require Import SendMachine.

Inductive aop :=
| ABase (o : sop)          (* an operation of the send machine scenario (connect, drop, ...) *)
| ASession                 (* connect() generates the session for the next dial *)
| AAccept (sess : Z)       (* the handler goroutine handles an accept made for session number sess (0: forged) *)
| AFlags                   (* observation: the accepted flag *)
| AData.                   (* the handler goroutine handles a tx message carrying the expected message id *)

Record aw := AW {
  a_w : smw;
  a_sess : Z;              (* number of the current session (0: none generated yet) *)
  a_acc : bool;            (* accepted *)
}.

Definition a_init : aw := AW sm_init 0 false.

Definition astep (s : aw) (o : aop) : aw * obs :=
  match o with
  | ABase SConnect => let '(w1, ob) := sstep (a_w s) SConnect in (AW w1 (a_sess s) false, ob)
  | ABase o' => let '(w1, ob) := sstep (a_w s) o' in (AW w1 (a_sess s) (a_acc s), ob)
  | ASession => (AW (a_w s) (a_sess s + 1) (a_acc s), [OK])
  | AAccept n =>
      let good := (0 <? n) && (n =? a_sess s) in
      (AW (a_w s) (a_sess s) (a_acc s || good), [b2z (negb good); b2z (a_acc s || good)])
  | AFlags => (s, [OK; b2z (a_acc s)])
  | AData => (s, [OK; b2z (a_acc s)])
  end.

Fixpoint arun_from (s : aw) (ops : list aop) : list obs :=
  match ops with
  | [] => []
  | o :: ops' => let '(s1, ob) := astep s o in ob :: arun_from s1 ops'
  end.
Definition arun (ops : list aop) : list obs := arun_from a_init ops.

(* The property over the observations: the client counts as accepted (flag set / data delivered to the handlers)
   only if an accept made for the session that was current when it was handled has been handled SINCE the current
   connection started.
   813 accepted / data delivered on a connection for which no genuine accept has been handled *)
Fixpoint auth_monitor_from (sess : Z) (since : bool) (i : Z) (ops : list aop) (tr : list obs) : option (Z * obs) :=
  match ops, tr with
  | ABase SConnect :: ops', _ :: tr' => auth_monitor_from sess false (i + 1) ops' tr'
  | ABase _ :: ops', _ :: tr' => auth_monitor_from sess since (i + 1) ops' tr'
  | ASession :: ops', _ :: tr' => auth_monitor_from (sess + 1) since (i + 1) ops' tr'
  | AAccept n :: ops', ob :: tr' =>
      let good := (0 <? n) && (n =? sess) in
      let since' := since || good in
      match ob with
      | [_; a] => if negb (a =? 0) && negb since' then Some (i, [813])
                  else auth_monitor_from sess since' (i + 1) ops' tr'
      | _ => Some (i, [897])
      end
  | AFlags :: ops', ob :: tr' | AData :: ops', ob :: tr' =>
      match ob with
      | [_; a] => if negb (a =? 0) && negb since then Some (i, [813])
                  else auth_monitor_from sess since (i + 1) ops' tr'
      | _ => Some (i, [897])
      end
  | [], [] => None
  | _, _ => Some (i, [897])
  end.
Definition auth_monitor : checker aop := fun ops tr => auth_monitor_from 0 false 0 ops tr.
