(* Model of the remote client's send path (property C18, second half), pkg/client/remote_client.go:
     sendMessage / sendDirect                      1295-1368   (ASend)
     sendMessages (the per-connection goroutine)   1551-1595   (ASender, ASenderStop, ASenderTimeout)
     runConnection: start and teardown             1445-1535   (AConnect, ATear)
     maintainConnection carrying the unsent message 1370-1443  (w_carried -> w_first)
     Ready / accept on a control connection marking the handshake complete  278-310, 2196-2215 (AComplete)
   as a transition system of atomic steps; an interleaving of the application goroutines, the sends
   goroutine, the connection goroutine and the peer is a list of actions.  Executable definitions only.
   The teardown order is the repaired one (stop the sender, CLOSE the socket, then release the
   handshake wait). *)
From V.lib Require Import Base.

Inductive sphase := SNone | SWaiting | SServing | SExited.

(* a request to send: an id and whether its message type is a handshake type (IsHandshakeType) *)
Record req := Req { rq_id : Z; rq_hs : bool }.
Definition sm_req_msg (r : req) : req := r.
Definition sm_is_handshake (r : req) : bool := rq_hs r.

Record smw := SM {
  w_conn : Z;                    (* number of the current connection (0: none yet) *)
  w_open : bool;                 (* its socket accepts writes *)
  w_hs : bool;                   (* handshakeComplete flag *)
  w_tok : Z;                     (* tokens in the handshake-complete channel (capacity 5) *)
  w_phase : sphase;              (* the sends goroutine of the current connection *)
  w_stop : bool;                 (* its interrupt was signalled *)
  w_queue : list req;            (* sendChannel *)
  w_first : option req;          (* firstMsg of the current sendMessages call *)
  w_carried : option req;        (* messageToSend kept by maintainConnection *)
  w_tear : Z;                    (* teardown progress: 0 none, 1 sender stopped, 2 socket closed, 3 wait released *)
  sm_written : list (Z * req);   (* (connection, message) written to a socket, newest last *)
  sm_acked : list req;           (* sendMessage returned nil for these *)
  sm_completed : list Z;         (* connections whose handshake was marked complete *)
  sm_failed : list req;          (* sendMessage returned an error at once (direct send on a dead socket) *)
  sm_wdone : list bool;          (* per written message: was its connection's handshake complete when it was written *)
}.

Definition sm_init : smw := SM 0 false false 0 SNone false [] None None 0 [] [] [] [] [].

Inductive act :=
| AConnect | AComplete | ASend (r : req) | ASender | ASenderStop | ASenderTimeout | ATear | APeerClose.

Definition bump (t : Z) : Z := if t <? 5 then t + 1 else t.

Definition sm_step (w : smw) (a : act) : smw :=
  match a with
  | AConnect =>
      let idle := match w_phase w with
                  | SNone => true
                  | SExited => w_tear w =? 3
                  | _ => false
                  end in
      if idle then
        SM (w_conn w + 1) true false 0 SWaiting false (w_queue w) (w_carried w) None 0
           (sm_written w) (sm_acked w) (sm_completed w) (sm_failed w) (sm_wdone w)
      else w
  | AComplete =>
      (* Ready wrote its message to the socket / the accept arrived on it *)
      match w_phase w with
      | SNone => w
      | _ => if w_open w then
               SM (w_conn w) (w_open w) true (bump (w_tok w)) (w_phase w) (w_stop w) (w_queue w) (w_first w)
                  (w_carried w) (w_tear w) (sm_written w) (sm_acked w) (sm_completed w ++ [w_conn w]) (sm_failed w) (sm_wdone w)
             else w
      end
  | ASend r =>
      if negb (w_hs w) && rq_hs r then
        (* sendDirect *)
        if w_open w then
          SM (w_conn w) (w_open w) (w_hs w) (w_tok w) (w_phase w) (w_stop w) (w_queue w) (w_first w) (w_carried w)
             (w_tear w) (sm_written w ++ [(w_conn w, r)]) (sm_acked w ++ [r]) (sm_completed w) (sm_failed w) (sm_wdone w ++ [existsb (Z.eqb (w_conn w)) (sm_completed w)])
        else
          SM (w_conn w) (w_open w) (w_hs w) (w_tok w) (w_phase w) (w_stop w) (w_queue w) (w_first w) (w_carried w)
             (w_tear w) (sm_written w) (sm_acked w) (sm_completed w) (sm_failed w ++ [r]) (sm_wdone w)
      else
        SM (w_conn w) (w_open w) (w_hs w) (w_tok w) (w_phase w) (w_stop w) (w_queue w ++ [r]) (w_first w) (w_carried w)
           (w_tear w) (sm_written w) (sm_acked w) (sm_completed w) (sm_failed w) (sm_wdone w)
  | ASender =>
      match w_phase w with
      | SWaiting =>
          if 0 <? w_tok w then
            match w_first w with
            | Some r =>
                if w_open w then
                  SM (w_conn w) (w_open w) (w_hs w) (w_tok w - 1) SServing (w_stop w) (w_queue w) None (w_carried w)
                     (w_tear w) (sm_written w ++ [(w_conn w, r)]) (sm_acked w ++ [r]) (sm_completed w) (sm_failed w) (sm_wdone w ++ [existsb (Z.eqb (w_conn w)) (sm_completed w)])
                else
                  SM (w_conn w) (w_open w) (w_hs w) (w_tok w - 1) SExited (w_stop w) (w_queue w) None (Some r)
                     (w_tear w) (sm_written w) (sm_acked w) (sm_completed w) (sm_failed w) (sm_wdone w)
            | None =>
                SM (w_conn w) (w_open w) (w_hs w) (w_tok w - 1) SServing (w_stop w) (w_queue w) None (w_carried w)
                   (w_tear w) (sm_written w) (sm_acked w) (sm_completed w) (sm_failed w) (sm_wdone w)
            end
          else w
      | SServing =>
          match w_queue w with
          | [] => w
          | r :: q' =>
              if w_open w then
                SM (w_conn w) (w_open w) (w_hs w) (w_tok w) SServing (w_stop w) q' (w_first w) (w_carried w)
                   (w_tear w) (sm_written w ++ [(w_conn w, r)]) (sm_acked w ++ [r]) (sm_completed w) (sm_failed w) (sm_wdone w ++ [existsb (Z.eqb (w_conn w)) (sm_completed w)])
              else
                SM (w_conn w) (w_open w) (w_hs w) (w_tok w) SExited (w_stop w) q' (w_first w) (Some r)
                   (w_tear w) (sm_written w) (sm_acked w) (sm_completed w) (sm_failed w) (sm_wdone w)
          end
      | _ => w
      end
  | ASenderStop =>
      match w_phase w with
      | SServing => if w_stop w then
                      SM (w_conn w) (w_open w) (w_hs w) (w_tok w) SExited (w_stop w) (w_queue w) (w_first w) None
                         (w_tear w) (sm_written w) (sm_acked w) (sm_completed w) (sm_failed w) (sm_wdone w)
                    else w
      | _ => w
      end
  | ASenderTimeout =>
      match w_phase w with
      | SWaiting => SM (w_conn w) (w_open w) (w_hs w) (w_tok w) SExited (w_stop w) (w_queue w) None (w_first w)
                       (w_tear w) (sm_written w) (sm_acked w) (sm_completed w) (sm_failed w) (sm_wdone w)
      | _ => w
      end
  | ATear =>
      match w_phase w with
      | SNone => w
      | _ =>
        if w_tear w =? 0 then
          SM (w_conn w) (w_open w) (w_hs w) (w_tok w) (w_phase w) true (w_queue w) (w_first w) (w_carried w)
             1 (sm_written w) (sm_acked w) (sm_completed w) (sm_failed w) (sm_wdone w)
        else if w_tear w =? 1 then
          SM (w_conn w) false (w_hs w) (w_tok w) (w_phase w) (w_stop w) (w_queue w) (w_first w) (w_carried w)
             2 (sm_written w) (sm_acked w) (sm_completed w) (sm_failed w) (sm_wdone w)
        else if w_tear w =? 2 then
          SM (w_conn w) (w_open w) (w_hs w) (bump (w_tok w)) (w_phase w) (w_stop w) (w_queue w) (w_first w) (w_carried w)
             3 (sm_written w) (sm_acked w) (sm_completed w) (sm_failed w) (sm_wdone w)
        else w
      end
  | APeerClose =>
      SM (w_conn w) false (w_hs w) (w_tok w) (w_phase w) (w_stop w) (w_queue w) (w_first w) (w_carried w)
         (w_tear w) (sm_written w) (sm_acked w) (sm_completed w) (sm_failed w) (sm_wdone w)
  end.

Definition sm_run_from (w : smw) (acts : list act) : smw := fold_left sm_step acts w.
Definition sm_run (acts : list act) : smw := sm_run_from sm_init acts.

(* ---- scenarios executed against the real code (deterministic schedules) ---- *)
Inductive sop :=
| SConnect            (* maintainConnection starts a connection *)
| SComplete           (* the application declares ready on it *)
| SSend (r : req)     (* the application calls sendMessage *)
| SBreak              (* the socket stops accepting writes *)
| SDrop               (* the receive side ends: runConnection tears the connection down *)
| SWrites.            (* observation: everything written so far, per connection *)

(* let the sends goroutine run until it has nothing to do *)
Fixpoint settle (fuel : nat) (w : smw) : smw :=
  match fuel with
  | O => w
  | S f =>
      let w1 := sm_step w ASender in
      let w2 := match w_phase w1, w_queue w1 with
                | SServing, [] => sm_step w1 ASenderStop
                | _, _ => w1
                end in
      settle f w2
  end.

Definition settled (w : smw) : smw := settle (S (S (length (w_queue w)))) w.

Fixpoint enc_writes_from (l : list (Z * req)) (d : list bool) : list Z :=
  match l, d with
  | e :: l', b :: d' => fst e :: rq_id (snd e) :: b2z b :: enc_writes_from l' d'
  | _, _ => []
  end.
Definition enc_writes (w : smw) : list Z := enc_writes_from (sm_written w) (sm_wdone w).

Definition is_acked (w : smw) (r : req) : bool := existsb (fun x => rq_id x =? rq_id r) (sm_acked w).

Definition sstep (w : smw) (o : sop) : smw * obs :=
  match o with
  | SConnect => let w1 := settled (sm_step w AConnect) in (w1, [OK])
  | SComplete =>
      let w1 := settled (sm_step w AComplete) in
      (w1, [b2z (negb (match w_phase w with SNone => false | _ => w_open w end))])
  | SSend r => let w1 := settled (sm_step w (ASend r)) in (w1, [OK; b2z (is_acked w1 r)])
  | SBreak => (sm_step w APeerClose, [OK])
  | SDrop =>
      let w1 := settled (sm_step (sm_step (sm_step (settled w) ATear) ATear) ATear) in
      (* which of "a queued request is taken and carried" / "the interrupt is seen first" happens is up to
         select; both lead to the same writes later, so the carried request is not part of the observation *)
      (w1, [OK])
  | SWrites => (w, OK :: enc_writes w)
  end.

Fixpoint srun_from (w : smw) (ops : list sop) : list obs :=
  match ops with
  | [] => []
  | o :: ops' => let '(w1, ob) := sstep w o in ob :: srun_from w1 ops'
  end.
Definition srun (ops : list sop) : list obs := srun_from sm_init ops.

(* the property over the observations of a scenario: every write of a non-handshake message
   (even request ids) happened on a connection whose handshake was completed
   811 a request was written to a connection whose handshake had not completed *)
Fixpoint gated_obs (l : list Z) : bool :=
  match l with
  | c :: id :: done :: l' => (Z.odd id || negb (done =? 0)) && gated_obs l'
  | _ => true
  end.

Fixpoint written_ids (l : list Z) : list Z :=
  match l with
  | _ :: id :: _ :: l' => id :: written_ids l'
  | _ => []
  end.

(* 812 a request was reported as sent (sendMessage returned nil) but it is on no connection's list of written messages *)
Fixpoint sm_monitor_from (acked : list Z) (i : Z) (ops : list sop) (tr : list obs) : option (Z * obs) :=
  match ops, tr with
  | SWrites :: ops', (_ :: l) :: tr' =>
      if negb (gated_obs l) then Some (i, [811])
      else if negb (forallb (fun a => existsb (Z.eqb a) (written_ids l)) acked) then Some (i, [812])
      else sm_monitor_from acked (i + 1) ops' tr'
  | SSend r :: ops', ob :: tr' =>
      sm_monitor_from (match ob with [_; a] => if a =? 0 then acked else rq_id r :: acked | _ => acked end) (i + 1) ops' tr'
  | _ :: ops', _ :: tr' => sm_monitor_from acked (i + 1) ops' tr'
  | [], [] => None
  | _, _ => Some (i, [897])
  end.
Definition sm_monitor : checker sop := fun ops tr => sm_monitor_from [] 0 ops tr.
