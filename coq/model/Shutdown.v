(* Model of Node.Run's phased shutdown protocol (property C19), internal/spynode/node.go:
     Run                     318-496   connect loop, start of the goroutines, phased shutdown, restart-or-stop
     Stop / requestStop      512-554
     restart                 843-851
     monitorIncoming         782-840   (MI)   check 868-951
     monitorRequestTimeouts  957-967   (RT)
     sendOutgoing            693-716   (SO)
     processBlocks           blocks.go 23-108        (PB)
     processUnconfirmedTxs   transactions.go 266-275 (PU)
     checkTxDelays           973-1019  (CD)
     monitorUntrustedNodes   1086-1233 (MU)  and one untrusted node (untrusted_node.go, UN)
     MessageChannel          messages.go 11-49 ; TxChannel handlers/transaction.go 53-91
   as a transition system of atomic steps.  A run is a list of actions: every interleaving of the
   run loop, the goroutines, the application's Stop call, the trusted peer and the untrusted peer.
   Executable definitions only.
   monitorUntrustedNodes (MU) is one thread here; what it does inside - untrustedLock, the list of untrusted nodes,
   scan(), IsActive, CleanupBlock - is the second, separate transition system `mstep` further down.

   Faithful to the code as it is, including its hazards:
   - a goroutine started by Run is first "started" (TSpawned) and increments its counter only with its
     own first step (AReg): the counters are incremented INSIDE the goroutines (node.go 357-408, 1288-1292);
   - Add on a channel takes the channel's mutex and keeps it while it waits for room (PSend); Close
     needs the same mutex;
   - processUnconfirmedTxs, after a processing error (requestStop), keeps taking and dropping what
     arrives until its channel is closed (fix 99e17c5); the model parameter `daf = false` gives the
     behaviour before that fix (requestStop, break - the channel stays open without a consumer: D26);
     sendOutgoing never leaves its loop early;
   - processBlocks returns when queueOutgoing fails or ProcessBlock fails (no restart).
   Simplifications, all stated: restart() is one step (its two lock regions cannot be separated by a
   step that matters: the thread is alive, so Run cannot reach its restart decision in between);
   check() of monitorIncoming is part of the body that handled the previous message (the body's
   length is arbitrary); one untrusted node stands for all of them; sleeps are not steps; calls from
   the application other than Stop (SendTx, BroadcastTx) are not in the model; node.txStateLock (held
   around a tx-state read-modify-write and the callback that reports it) is a leaf lock - nothing
   blocks while it is held - so it is part of the atomic KCall step.
   The work a goroutine does for one message / one round is a body of at most n sub-steps (n is
   arbitrary, chosen when the body starts): handler callbacks and storage mutations (KCall), queueing
   an outgoing message (KOut), queueing an unconfirmed tx (KTx), starting an untrusted node (KSpawn),
   failing (KFail), finishing (KEnd). *)
From V.lib Require Import Base.

Inductive rpc :=
| RLoop        (* head of the outer loop: for !node.isStopping() *)
| RConnect     (* node.connect *)
| RWaitStop    (* for !node.isStopping() { sleep } *)
| RCloseConn   (* connection.Close(); connection = nil *)
| RWaitIn      (* wait for incomingCount == 0 *)
| RCloseOut    (* outgoing.Close() *)
| RCloseTx     (* unconfTxChannel.Close() *)
| RWaitProc    (* wait for processingCount == 0 *)
| RSave        (* blocks.Save, txs.Save, peers.Save *)
| RDecide      (* if !needsRestart || hardStop break ; else reset the flags and the state *)
| RExit        (* stopped = true *)
| RDone.       (* Run returned *)

Inductive chan := COut | CTx.     (* node.outgoing ; node.unconfTxChannel *)

Inductive pc :=
| PTop                 (* loop head (consumers: waiting for the next item) *)
| PRead                (* MI: blocked in wire.ReadMessageN *)
| PGate                (* MI: handleMessage's isStopping check *)
| PWork                (* inside the body *)
| PQOut                (* queueOutgoing's isStopping check *)
| PLock (c : chan)     (* Add: about to take the channel's mutex *)
| PSend (c : chan)     (* Add: holds the mutex, waits for room in the channel *)
| PStopUn              (* MU: "Stop all" *)
| PWaitUn.             (* MU: wait for untrustedCount == 0 *)

Inductive tstate :=
| TNone                          (* never started *)
| TSpawned                       (* go func() executed, the goroutine has not run yet (counter not incremented) *)
| TLive (p : pc) (fuel : nat)    (* registered: counter incremented *)
| TDone.                         (* returned: counter decremented *)

Inductive tid := MI | RT | SO | PB | PU | CD | MU | UN
               | AP.   (* a goroutine of the application inside Node.HandleTx / SendTx -> TxChannel.Add; not started by Run, not counted *)
Inductive kind := KCall | KOut | KTx | KSpawn | KFail | KEnd.
Inductive cstate := CNone | COpen | CPeerClosed.

Record threads := Thr { t_mi : tstate; t_rt : tstate; t_so : tstate; t_pb : tstate; t_pu : tstate;
                        t_cd : tstate; t_mu : tstate; t_un : tstate; t_ap : tstate }.

Definition tget (T : threads) (t : tid) : tstate :=
  match t with
  | MI => t_mi T | RT => t_rt T | SO => t_so T | PB => t_pb T
  | PU => t_pu T | CD => t_cd T | MU => t_mu T | UN => t_un T | AP => t_ap T
  end.

Definition tset (T : threads) (t : tid) (s : tstate) : threads :=
  match t with
  | MI => Thr s (t_rt T) (t_so T) (t_pb T) (t_pu T) (t_cd T) (t_mu T) (t_un T) (t_ap T)
  | RT => Thr (t_mi T) s (t_so T) (t_pb T) (t_pu T) (t_cd T) (t_mu T) (t_un T) (t_ap T)
  | SO => Thr (t_mi T) (t_rt T) s (t_pb T) (t_pu T) (t_cd T) (t_mu T) (t_un T) (t_ap T)
  | PB => Thr (t_mi T) (t_rt T) (t_so T) s (t_pu T) (t_cd T) (t_mu T) (t_un T) (t_ap T)
  | PU => Thr (t_mi T) (t_rt T) (t_so T) (t_pb T) s (t_cd T) (t_mu T) (t_un T) (t_ap T)
  | CD => Thr (t_mi T) (t_rt T) (t_so T) (t_pb T) (t_pu T) s (t_mu T) (t_un T) (t_ap T)
  | MU => Thr (t_mi T) (t_rt T) (t_so T) (t_pb T) (t_pu T) (t_cd T) s (t_un T) (t_ap T)
  | UN => Thr (t_mi T) (t_rt T) (t_so T) (t_pb T) (t_pu T) (t_cd T) (t_mu T) s (t_ap T)
  | AP => Thr (t_mi T) (t_rt T) (t_so T) (t_pb T) (t_pu T) (t_cd T) (t_mu T) (t_un T) s
  end.

Record ctl := Ctl {
  c_pc : rpc;
  c_stopping : bool; c_stopped : bool; c_needs : bool; c_hard : bool;
  c_call : Z          (* the application's Stop(): 0 not called, 1 hardStop set, 2 requestStop done (it now polls stopped) *)
}.
Record chs := Chs { o_open : bool; o_len : Z; x_open : bool; x_len : Z }.
Record cnt := Cnt { n_in : Z; n_proc : Z; n_un : Z }.   (* incomingCount, processingCount, untrustedCount *)
Record dat := Dat {
  d_mem : Z;          (* version of the in-memory chain / unconfirmed set / peers (bumped by every mutation) *)
  d_disk : Z;         (* version written by the last save phase *)
  d_calls : Z;        (* handler invocations so far *)
  d_late : bool;      (* a handler was invoked while stopped = true *)
  d_pufail : bool;    (* processUnconfirmedTxs of the current round had a processing error (failed = true / left its loop) *)
  d_overlap : bool;   (* Run started goroutines while goroutines of an earlier round still existed *)
  d_rlock : bool      (* the tx repository's unconfirmed lock was left held by a goroutine that has ended *)
}.

Record sw := SW {
  w_ctl : ctl;
  w_conn : cstate;    (* CNone: node.connection == nil (closed by Run) *)
  w_inbox : Z;        (* messages of the trusted peer not yet read *)
  w_gen : Z;          (* successful connects so far *)
  w_ch : chs;
  w_thr : threads;
  w_cnt : cnt;
  w_ustop : bool;     (* the untrusted node's stopping flag *)
  w_dat : dat
}.

Definition set_ctl w c := SW c (w_conn w) (w_inbox w) (w_gen w) (w_ch w) (w_thr w) (w_cnt w) (w_ustop w) (w_dat w).
Definition set_conn w c := SW (w_ctl w) c (w_inbox w) (w_gen w) (w_ch w) (w_thr w) (w_cnt w) (w_ustop w) (w_dat w).
Definition set_inbox w n := SW (w_ctl w) (w_conn w) n (w_gen w) (w_ch w) (w_thr w) (w_cnt w) (w_ustop w) (w_dat w).
Definition set_ch w c := SW (w_ctl w) (w_conn w) (w_inbox w) (w_gen w) c (w_thr w) (w_cnt w) (w_ustop w) (w_dat w).
Definition set_thr w T := SW (w_ctl w) (w_conn w) (w_inbox w) (w_gen w) (w_ch w) T (w_cnt w) (w_ustop w) (w_dat w).
Definition set_cnt w c := SW (w_ctl w) (w_conn w) (w_inbox w) (w_gen w) (w_ch w) (w_thr w) c (w_ustop w) (w_dat w).
Definition set_ustop w b := SW (w_ctl w) (w_conn w) (w_inbox w) (w_gen w) (w_ch w) (w_thr w) (w_cnt w) b (w_dat w).
Definition set_dat w d := SW (w_ctl w) (w_conn w) (w_inbox w) (w_gen w) (w_ch w) (w_thr w) (w_cnt w) (w_ustop w) d.

Definition pc_of w := c_pc (w_ctl w).
Definition stopping w := c_stopping (w_ctl w).
Definition stopped w := c_stopped (w_ctl w).
Definition needs w := c_needs (w_ctl w).
Definition hard w := c_hard (w_ctl w).
Definition stopcall w := c_call (w_ctl w).

Definition set_pc w p := let c := w_ctl w in set_ctl w (Ctl p (c_stopping c) (c_stopped c) (c_needs c) (c_hard c) (c_call c)).
Definition set_stopping w b := let c := w_ctl w in set_ctl w (Ctl (c_pc c) b (c_stopped c) (c_needs c) (c_hard c) (c_call c)).
Definition set_stopped w b := let c := w_ctl w in set_ctl w (Ctl (c_pc c) (c_stopping c) b (c_needs c) (c_hard c) (c_call c)).
Definition set_needs w b := let c := w_ctl w in set_ctl w (Ctl (c_pc c) (c_stopping c) (c_stopped c) b (c_hard c) (c_call c)).
Definition set_hard w b := let c := w_ctl w in set_ctl w (Ctl (c_pc c) (c_stopping c) (c_stopped c) (c_needs c) b (c_call c)).
Definition set_call w n := let c := w_ctl w in set_ctl w (Ctl (c_pc c) (c_stopping c) (c_stopped c) (c_needs c) (c_hard c) n).

Definition thread w t := tget (w_thr w) t.
Definition set_thread w t s := set_thr w (tset (w_thr w) t s).

Definition sw_init : sw :=
  SW (Ctl RLoop false false false false 0) CNone 0 0 (Chs false 0 false 0)
     (Thr TNone TNone TNone TNone TNone TNone TNone TNone TNone) (Cnt 0 0 0) false (Dat 0 0 0 false false false false).

(* thread classes *)
Definition is_incoming (t : tid) : bool := match t with MI | CD | MU => true | _ => false end.
Definition is_processing (t : tid) : bool := match t with RT | SO | PB | PU => true | _ => false end.
Definition can_call (t : tid) : bool := match t with MI | PB | PU | CD => true | _ => false end.   (* invokes client handlers *)
Definition mutates (t : tid) : bool := match t with MI | PB | PU | CD | UN => true | _ => false end. (* changes chain / txs / peers *)
Definition uses_out (t : tid) : bool := match t with MI | PB => true | _ => false end.
Definition uses_tx (t : tid) : bool := match t with MI | UN => true | _ => false end.

Definition bump_cnt (c : cnt) (t : tid) (d : Z) : cnt :=
  match t with AP => c | _ =>
  if is_incoming t then Cnt (n_in c + d) (n_proc c) (n_un c)
  else if is_processing t then Cnt (n_in c) (n_proc c + d) (n_un c)
  else Cnt (n_in c) (n_proc c) (n_un c + d)
  end.

Definition register w t := set_cnt (set_thread w t (TLive PTop 0)) (bump_cnt (w_cnt w) t 1).
Definition exit_thread w t := set_cnt (set_thread w t TDone) (bump_cnt (w_cnt w) t (-1)).

(* requestStop (538-554) and restart (843-851) *)
Definition request_stop w := if stopped w || stopping w then w else set_stopping w true.
Definition restart w := if stopping w then w else set_stopping (set_needs w true) true.

(* a handler callback and/or a mutation of the in-memory data by thread t *)
Definition callback w t :=
  let d := w_dat w in
  set_dat w (Dat (if mutates t then d_mem d + 1 else d_mem d) (d_disk d)
                 (if can_call t then d_calls d + 1 else d_calls d)
                 (d_late d || (can_call t && stopped w)) (d_pufail d) (d_overlap d) (d_rlock d)).
Definition set_pufail w :=
  let d := w_dat w in set_dat w (Dat (d_mem d) (d_disk d) (d_calls d) (d_late d) true (d_overlap d) (d_rlock d)).
Definition save w :=
  let d := w_dat w in set_dat w (Dat (d_mem d) (d_mem d) (d_calls d) (d_late d) (d_pufail d) (d_overlap d) (d_rlock d)).
Definition set_rlock w :=
  let d := w_dat w in set_dat w (Dat (d_mem d) (d_disk d) (d_calls d) (d_late d) (d_pufail d) (d_overlap d) true).

(* channels *)
Definition ch_open w c := match c with COut => o_open (w_ch w) | CTx => x_open (w_ch w) end.
Definition ch_len w c := match c with COut => o_len (w_ch w) | CTx => x_len (w_ch w) end.
Definition set_ch_len w c n :=
  let h := w_ch w in
  match c with
  | COut => set_ch w (Chs (o_open h) n (x_open h) (x_len h))
  | CTx => set_ch w (Chs (o_open h) (o_len h) (x_open h) n)
  end.
Definition set_ch_open w c b :=
  let h := w_ch w in
  match c with
  | COut => set_ch w (Chs b (o_len h) (x_open h) (x_len h))
  | CTx => set_ch w (Chs (o_open h) (o_len h) b (x_len h))
  end.
Definition chan_eqb (a b : chan) : bool := match a, b with COut, COut | CTx, CTx => true | _, _ => false end.
Definition at_send (c : chan) (s : tstate) : bool :=
  match s with TLive (PSend c') _ => chan_eqb c c' | _ => false end.
(* the channel's mutex is held exactly by a thread waiting in PSend *)
Definition ch_locked w c :=
  at_send c (thread w MI) || at_send c (thread w PB) || at_send c (thread w UN) || at_send c (thread w AP).

Definition busy (s : tstate) : bool := match s with TNone | TDone => false | _ => true end.
Definition spawned (s : tstate) : bool := match s with TSpawned => true | _ => false end.

Inductive act :=
| ARun (ok : bool)                    (* next step of Node.Run; ok: result of net.Dial when it is at RConnect *)
| AStopFlag | AStopReq                (* the application's Stop(): hardStop = true ; requestStop *)
| APeerMsg                            (* a message of the trusted peer arrives *)
| APeerClose                          (* the trusted peer closes / resets the connection *)
| AUnMsg (n : nat)                    (* a message of the untrusted peer arrives: the untrusted node works on it *)
| AApiTx                              (* the application calls Node.HandleTx / SendTx: TxChannel.Add begins *)
| AReg (t : tid)                      (* a started goroutine runs its first statement: the counter increment *)
| AStep (t : tid) (k : kind) (n : nat). (* next atomic step of a registered goroutine (k, n: its choices) *)

Section Model.
Variable cap : Z.       (* capacity of both channels (100 in the code) *)
Variable ucfg : bool.   (* config.UntrustedCount != 0: monitorUntrustedNodes is started *)
Variable daf : bool.    (* processUnconfirmedTxs keeps draining its channel after a processing error (the code
                           since fix 99e17c5); false: it leaves its loop (requestStop, break) as it did before *)
Variable unlk : bool.   (* ProcessBlock releases the tx repository's unconfirmed lock (held from GetUnconfirmed to
                           FinalizeUnconfirmed / ReleaseUnconfirmed) on every error exit (the code); false: an error
                           exit that returns without ReleaseUnconfirmed *)
Variable sdrain : bool. (* sendOutgoing keeps emptying its channel after a failed socket write (the code, both in
                           node.go and in untrusted_node.go); false: it returns on the first failed write *)

(* the Add returned; ok = the message was queued.  processBlocks returns when queueOutgoing fails *)
Definition after_add w (t : tid) (f : nat) (ok : bool) : sw :=
  match t, ok with
  | PB, false => exit_thread w PB
  | AP, _ => set_thread w AP TNone               (* HandleTx returns to the application *)
  | _, _ => set_thread w t (TLive PWork f)
  end.

Definition end_body w (t : tid) := set_thread w t (TLive PTop 0).

Definition spawn_un w :=
  match thread w UN with
  | TNone | TDone => set_ustop (set_thread w UN TSpawned) (stopping w)   (* addUntrustedNode: if isStopping newNode.Stop() *)
  | _ => w
  end.

Definition fail_exit w (t : tid) : sw :=
  match t with
  | MI => exit_thread (request_stop w) MI          (* check() failed: requestStop; break *)
  | CD | RT => exit_thread (restart w) t           (* GetNewSafe failed / a request timed out: restart; break *)
  | PB => exit_thread (if unlk then w else set_rlock w) PB   (* ProcessBlock failed: return err *)
  | UN => exit_thread w UN
  | _ => end_body w t
  end.

Definition so_after_fail (drain : bool) w : sw :=
  if drain then set_thread (restart w) SO (TLive PTop 0) else exit_thread (restart w) SO.

Definition work_step w (t : tid) (f : nat) (k : kind) : option sw :=
  match t with
  | SO =>   (* sendAsync returned; on an error restart() and keep emptying the channel *)
      Some (match k with KFail => so_after_fail sdrain w | _ => set_thread w SO (TLive PTop 0) end)
  | PU =>   (* processUnconfirmedTx returned (or, once failed = true, the item was just dropped) *)
      match k with
      | KFail => if d_pufail (w_dat w) then Some (set_thread w PU (TLive PTop 0))
                 else if daf then Some (set_thread (set_pufail (request_stop w)) PU (TLive PTop 0))  (* requestStop; failed = true *)
                 else Some (exit_thread (set_pufail (request_stop w)) PU)                              (* requestStop; break *)
      | _ => Some (set_thread (if d_pufail (w_dat w) then w else callback w PU) PU (TLive PTop 0))
      end
  | AP => None
  | _ =>
      match k, f with
      | KFail, _ => Some (fail_exit w t)
      | KCall, S f' => Some (set_thread (callback w t) t (TLive PWork f'))
      | KOut, S f' => if uses_out t then Some (set_thread w t (TLive PQOut f')) else Some (end_body w t)
      | KTx, S f' => if uses_tx t then Some (set_thread w t (TLive (PLock CTx) f')) else Some (end_body w t)
      | KSpawn, S f' => match t with
                        | MU => Some (spawn_un (set_thread w MU (TLive PWork f')))
                        | _ => Some (end_body w t)
                        end
      | _, _ => Some (end_body w t)
      end
  end.

(* a consumer at its loop head: range over the channel *)
Definition consume w (t : tid) (c : chan) : option sw :=
  if 0 <? ch_len w c then Some (set_thread (set_ch_len w c (ch_len w c - 1)) t (TLive PWork 0))
  else if ch_open w c then None
  else Some (exit_thread w t).

Definition top_step w (t : tid) (n : nat) : option sw :=
  match t with
  | MI => Some (if stopping w then exit_thread w MI
                else match w_conn w with
                     | CNone => exit_thread w MI
                     | _ => set_thread w MI (TLive PRead 0)
                     end)
  | RT | PB | CD => Some (if stopping w then exit_thread w t else set_thread w t (TLive PWork n))
  | MU => Some (if stopping w then set_thread w MU (TLive PStopUn 0) else set_thread w MU (TLive PWork n))
  | UN => if w_ustop w then Some (exit_thread w UN) else None     (* otherwise blocked in its read: AUnMsg *)
  | SO => consume w SO COut
  | PU => consume w PU CTx
  | AP => None
  end.

(* monitorIncoming blocked in ReadMessageN *)
Definition read_step w : option sw :=
  match w_conn w with
  | CNone => Some (exit_thread (restart w) MI)     (* Run closed the socket; restart() does nothing when stopping *)
  | c => if 0 <? w_inbox w then Some (set_thread (set_inbox w (w_inbox w - 1)) MI (TLive PGate 0))
         else match c with
              | CPeerClosed => Some (exit_thread (restart w) MI)
              | _ => None
              end
  end.

Definition step_thread w (t : tid) (k : kind) (n : nat) : option sw :=
  match thread w t with
  | TLive p f =>
      match p with
      | PTop => top_step w t n
      | PRead => match t with MI => read_step w | _ => None end
      | PGate => Some (if stopping w then set_thread w t (TLive PTop 0) else set_thread w t (TLive PWork n))
      | PWork => work_step w t f k
      | PQOut => Some (if stopping w then after_add w t f false else set_thread w t (TLive (PLock COut) f))
      | PLock c => if ch_locked w c then None
                   else if ch_open w c then Some (set_thread w t (TLive (PSend c) f))
                   else Some (after_add w t f false)
      | PSend c => if ch_len w c <? cap then Some (after_add (set_ch_len w c (ch_len w c + 1)) t f true) else None
      | PStopUn => Some (set_thread (set_ustop w true) t (TLive PWaitUn 0))
      | PWaitUn => if n_un (w_cnt w) =? 0 then Some (exit_thread w t) else None
      end
  | _ => None
  end.

(* node.connect succeeded: channels opened, version queued, goroutines started, AcceptRegister sent to the handlers *)
Definition connect w : sw :=
  let T := w_thr w in
  let c := w_ctl w in
  let d := w_dat w in
  let ov := busy (t_mi T) || busy (t_rt T) || busy (t_so T) || busy (t_pb T) || busy (t_pu T) || busy (t_cd T)
            || (ucfg && busy (t_mu T)) in
  SW (Ctl RWaitStop (c_stopping c) (c_stopped c) (c_needs c) (c_hard c) (c_call c))
     COpen 0 (w_gen w + 1) (Chs true 1 true 0)
     (Thr TSpawned TSpawned TSpawned TSpawned TSpawned TSpawned (if ucfg then TSpawned else t_mu T) (t_un T) (t_ap T))
     (w_cnt w) (w_ustop w)
     (Dat (d_mem d) (d_disk d) (d_calls d + 1) (d_late d || c_stopped c) false (d_overlap d || ov) (d_rlock d)).

Definition step_run w (ok : bool) : option sw :=
  match pc_of w with
  | RLoop => Some (set_pc w (if stopping w then RExit else RConnect))
  | RConnect => Some (if ok then connect w else set_pc w RLoop)
  | RWaitStop => if stopping w then Some (set_pc w RCloseConn) else None
  | RCloseConn => Some (set_pc (set_conn w CNone) RWaitIn)
  | RWaitIn => if n_in (w_cnt w) =? 0 then Some (set_pc w RCloseOut) else None
  | RCloseOut => if ch_locked w COut then None else Some (set_pc (set_ch_open w COut false) RCloseTx)
  | RCloseTx => if ch_locked w CTx then None else Some (set_pc (set_ch_open w CTx false) RWaitProc)
  | RWaitProc => if n_proc (w_cnt w) =? 0 then Some (set_pc w RSave) else None
  | RSave => if d_rlock (w_dat w) then None              (* txs.Save needs the unconfirmed lock *)
             else Some (set_pc (save w) RDecide)
  | RDecide => Some (if negb (needs w) || hard w then set_pc w RExit
                     else set_pc (set_stopping (set_needs w false) false) RLoop)
  | RExit => Some (set_pc (set_stopped w true) RDone)
  | RDone => None
  end.

(* None: the action is not enabled in this state (a blocked step; a wait whose condition is false) *)
Definition step w (a : act) : option sw :=
  match a with
  | ARun ok => step_run w ok
  | AStopFlag => if stopped w then None else if stopcall w =? 0 then Some (set_call (set_hard w true) 1) else None
  | AStopReq => if stopcall w =? 1 then Some (set_call (request_stop w) 2) else None
  | APeerMsg => match w_conn w with COpen => Some (set_inbox w (w_inbox w + 1)) | _ => None end
  | APeerClose => match w_conn w with COpen => Some (set_conn w CPeerClosed) | _ => None end
  | AUnMsg n => match thread w UN with
                | TLive PTop _ => if w_ustop w then None else Some (set_thread w UN (TLive PWork n))
                | _ => None
                end
  | AApiTx => match thread w AP with TNone => Some (set_thread w AP (TLive (PLock CTx) 0)) | _ => None end
  | AReg t => match t, thread w t with
              | AP, _ => None
              | _, TSpawned => Some (register w t)
              | _, _ => None
              end
  | AStep t k n => step_thread w t k n
  end.

Definition apply w a := match step w a with Some w' => w' | None => w end.
Definition run_from w (acts : list act) : sw := fold_left apply acts w.
Definition run (acts : list act) : sw := run_from sw_init acts.

(* ---- a TxChannel.Add that checks `open` under the mutex but waits for room OUTSIDE it (not the code:
   the code keeps the mutex while it waits).  Close no longer waits for a parked sender, and a sender
   does not wait for another one; a sender parked on a channel that gets closed panics in Go
   ("send on closed channel"). ---- *)
Definition step_sol w (a : act) : option sw :=
  match a with
  | ARun _ =>
      match pc_of w with
      | RCloseTx => Some (set_pc (set_ch_open w CTx false) RWaitProc)
      | _ => step w a
      end
  | AStep t _ _ =>
      match thread w t with
      | TLive (PLock CTx) f => if ch_open w CTx then Some (set_thread w t (TLive (PSend CTx) f)) else step w a
      | _ => step w a
      end
  | _ => step w a
  end.
Definition run_sol (acts : list act) : sw :=
  fold_left (fun w a => match step_sol w a with Some w' => w' | None => w end) acts sw_init.
(* a goroutine is parked in a send on the closed tx channel *)
Definition send_on_closed w : bool := negb (ch_open w CTx) && ch_locked w CTx.

(* ---- the schedules excluded by the theorems (D27): a counter is observed to be zero although a
   goroutine started for that class has not yet incremented it ---- *)
Definition no_spawned_incoming w := negb (spawned (thread w MI) || spawned (thread w CD) || spawned (thread w MU)).
Definition no_spawned_processing w :=
  negb (spawned (thread w RT) || spawned (thread w SO) || spawned (thread w PB) || spawned (thread w PU)).

Definition prompt_ok w (a : act) : bool :=
  match a with
  | ARun _ => match pc_of w with
              | RWaitIn => negb (n_in (w_cnt w) =? 0) || no_spawned_incoming w
              | RWaitProc => negb (n_proc (w_cnt w) =? 0) || no_spawned_processing w
              | _ => true
              end
  | AStep MU _ _ => match thread w MU with
                    | TLive PWaitUn _ => negb (n_un (w_cnt w) =? 0) || negb (spawned (thread w UN))
                    | _ => true
                    end
  | _ => true
  end.

Fixpoint prompt_from w (acts : list act) : bool :=
  match acts with
  | [] => true
  | a :: acts' => prompt_ok w a && prompt_from (apply w a) acts'
  end.
Definition prompt (acts : list act) : bool := prompt_from sw_init acts.

(* the hang of D26: the consumer of the tx channel is gone, the channel is full and open, and a
   producer waits for room holding the channel's mutex *)
Definition d26_state w : bool :=
  match thread w PU with TDone => true | _ => false end
  && ch_locked w CTx && ch_open w CTx && (cap <=? ch_len w CTx).

(* ---- measures for the termination argument ---- *)
Definition W : Z := 8.   (* cost of one unit of body fuel *)
Definition rank_pc (t : tid) (p : pc) (f : nat) : Z :=
  match p with
  | PTop => match t with MU => 3 | _ => 1 end
  | PRead => 3
  | PGate => match t with MU => 4 | _ => 2 end
  | PWork => match t with
             | MU => 4 + W * Z.of_nat f
             | _ => 2 + W * Z.of_nat f
             end
  | PQOut => (match t with MU => 10 | _ => 8 end) + W * Z.of_nat f
  | PLock _ => (match t with MU => 9 | _ => 7 end) + W * Z.of_nat f
  | PSend _ => (match t with MU => 8 | _ => 6 end) + W * Z.of_nat f
  | PStopUn => 2
  | PWaitUn => 1
  end.
Definition rank_thread (t : tid) (s : tstate) : Z :=
  match s with
  | TNone | TDone => 0
  | TSpawned => match t with MU => 4 | _ => 2 end
  | TLive p f => rank_pc t p f
  end.
Definition rank_run (p : rpc) : Z :=
  match p with
  | RDone => 0 | RExit => 1 | RLoop => 2 | RDecide => 2 | RSave => 3 | RWaitProc => 4 | RCloseTx => 5
  | RCloseOut => 6 | RWaitIn => 7 | RCloseConn => 8 | RWaitStop => 9 | RConnect => 40
  end.
Definition rank w : Z :=
  let T := w_thr w in
  rank_run (pc_of w)
  + rank_thread MI (t_mi T) + rank_thread RT (t_rt T) + rank_thread SO (t_so T) + rank_thread PB (t_pb T)
  + rank_thread PU (t_pu T) + rank_thread CD (t_cd T) + rank_thread MU (t_mu T) + rank_thread UN (t_un T)
  + rank_thread AP (t_ap T)
  + 3 * o_len (w_ch w) + 3 * x_len (w_ch w).

(* steps monitorUntrustedNodes still needs before it has told the untrusted node to stop *)
Definition mu_dist w : Z :=
  (match pc_of w with RConnect => if ucfg then 5 else 0 | _ => 0 end) +
  match thread w MU with
  | TSpawned => 4
  | TLive PTop _ => 3
  | TLive PWork f => 4 + W * Z.of_nat f
  | TLive PStopUn _ => 1
  | _ => 0
  end.

Definition thread_act (a : act) : bool :=
  match a with ARun _ | AReg _ | AStep _ _ _ => true | _ => false end.

End Model.

(* ================================================================================================ *)
(* Scenarios executed against the real code (harness component "shutdown"): the real Node.Run
   against a scripted trusted peer.  A scenario operation is mapped to steps of the transition system
   above (capacity 100, no untrusted nodes) plus a deterministic scheduler `settle` that lets the run
   loop and the goroutines run until nothing more can happen - the counterpart of the harness waiting
   for the node's reaction.  The handshake / header / block bookkeeping of the scripted peer is kept
   in a few counters next to it (the synchronisation protocol itself is the subject of C02). *)

Definition scap : Z := 100.
Definition sstep_sys := step scap false true true true.
Definition sapply := apply scap false true true true.

Definition enabled (w : sw) (a : act) : bool := match sstep_sys w a with Some _ => true | None => false end.

(* candidates in scheduling order; idle loops (a goroutine at its loop head with nothing to do, the
   connect loop while the peer does not listen) and parked goroutines are left out *)
Definition cands (listen skip_pu skip_pb in_body skip_so : bool) (w : sw) : list act :=
  let T := w_thr w in
  let reg (t : tid) := if spawned (tget T t) then [AReg t] else [] in
  let st := stopping w in
  reg MI ++ reg RT ++ reg SO ++ reg PB ++ reg PU ++ reg CD ++
  (match pc_of w with
   | RLoop => if st || listen then [ARun true] else []
   | RConnect => [ARun listen]
   | RDone => []
   | _ => [ARun true]
   end) ++
  (match t_mi T with
   | TLive PWork _ => if in_body then [] else [AStep MI KEnd 0]    (* the body ends *)
   | TLive PGate _ => [AStep MI KEnd 8]
   | TLive _ _ => [AStep MI KEnd 0]
   | _ => []
   end) ++
  (match t_rt T with TLive PTop _ => if st then [AStep RT KEnd 0] else [] | TLive _ _ => [AStep RT KEnd 0] | _ => [] end) ++
  (match t_so T with
   | TLive PWork _ => if skip_so then [] else [AStep SO KEnd 0]    (* parked inside the socket write *)
   | TLive _ _ => [AStep SO KEnd 0]
   | _ => []
   end) ++
  (match t_pb T with
   | TLive PTop _ => if st then [AStep PB KEnd 0] else []
   | TLive PWork _ => []
   | TLive _ _ => [AStep PB KEnd 0]
   | _ => []
   end) ++
  (match t_pu T with
   | TLive PWork _ => if skip_pu then [] else [AStep PU KEnd 0]
   | TLive _ _ => [AStep PU KEnd 0]
   | _ => []
   end) ++
  (match t_cd T with TLive PTop _ => if st then [AStep CD KEnd 0] else [] | TLive _ _ => [AStep CD KEnd 0] | _ => [] end) ++
  (match t_ap T with TLive _ _ => [AStep AP KEnd 0] | _ => [] end).

Definition pick (listen skip_pu skip_pb in_body skip_so : bool) (w : sw) : option act :=
  List.find (enabled w) (cands listen skip_pu skip_pb in_body skip_so w).

Fixpoint settle (fuel : nat) (listen skip_pu skip_pb in_body skip_so : bool) (w : sw) : sw :=
  match fuel with
  | O => w
  | S f => match pick listen skip_pu skip_pb in_body skip_so w with
           | Some a => settle f listen skip_pu skip_pb in_body skip_so (sapply w a)
           | None => w
           end
  end.

(* ================================================================================================ *)
(* monitorUntrustedNodes in detail (node.go 1086-1233 with scan 1236-1296, addUntrustedNode 1298-1356,
   CleanupBlock 766-779, UntrustedNode.Run / IsActive / Stop): the goroutine MU of the system above, now
   with its mutex node.untrustedLock, the LIST node.untrustedNodes, the scanning flag and the untrusted
   nodes it starts.  A small transition system of its own:
     - the monitor's program counter (one step per lock region / test / wait);
     - untrustedLock is held by the monitor from its Lock to the Unlock after pruning (m_lock); every
       other holder (addUntrustedNode's append, CleanupBlock, "stop all") is one atomic step that needs
       the lock to be free;
     - an untrusted node is dialling (its Run holds the node's own lock across connect), active or done;
       it is in the list or not; scan()'s nodes are never in the list;
     - pruning asks IsActive of every listed node: that call waits for a node that is dialling (it needs
       the lock Run holds) - the monitor's step is not enabled then;
     - CleanupBlock ranges over the LIST: a node that is not listed keeps the announcement of a confirmed
       tx (n_stale); asking the peer for such a tx is the bad event (m_bad).
   Switches (false = the code as it is):
     lock_early     untrustedLock is taken BEFORE the stop test that follows scan(), and the loop is left with
                    the lock held                                                          (seeded/C19_6)
     dial_unlocked  Run does not hold the node's lock across the dial: IsActive answers false for a node that
                    is dialling, the monitor drops it from the list, the node then runs unlisted  (seeded/C14_5)
   Faithful to the code as it is: scan() sets the flag node.scanning and returns WITHOUT clearing it when
   there is no unchecked address (the next scans are skipped: `if node.scanning return`).
   Not modelled: the random choice among addresses (the lowest index stands for it); a goroutine started
   for a node takes the node's lock before the monitor's next pass (2 s later) - the same kind of scheduling
   hypothesis as `prompt`. *)
Inductive ust := UDial | UActive | UDone.
Record unode := UNode {
  n_addr : nat; n_st : ust; n_listed : bool; n_stop : bool; n_scan : bool;
  n_trk : list Z;       (* announcements remembered by the node's tracker *)
  n_stale : list Z      (* ... of txs confirmed by a block whose clean-up did not reach this node *)
}.
Record uaddr := UAddr {
  a_kind : Z;           (* scripted peer behind the address (scenario layer): 1 good, 2 fresh, 3 slow dial, 4 silent, 5 told later *)
  a_score : Z; a_checked : bool; a_used : bool;
  a_rel : bool;         (* slow peer: its hanging dial may complete *)
  a_open : bool         (* the peer listens *)
}.
Inductive mpc := MTop | MScan | MScanWait | MPost | MLock | MPrune | MAdd | MSleep | MStopAll | MWait | MDone.
Record mst := MSt {
  m_pc : mpc; m_lock : bool; m_stop : bool; m_ready : bool; m_flag : bool; m_bc : bool; m_want : nat;
  m_addrs : list uaddr; m_nodes : list unode; m_bad : bool
}.
Definition mst_init : mst := MSt MTop false false false false false 0 [] [] false.

Inductive mact :=
| AMon                              (* the monitor's next step *)
| ATimer                            (* the sleep / the scan window of the monitor is over *)
| ANode (i : nat) (ok : bool)       (* node i's next step; ok: its dial succeeds *)
| ANodeEnd (i : nat)                (* node i stops by itself (peer closed, time-out) *)
| AMStop | AMRestart | AMReady (b : bool) | AMWant (n : nat)
| AMInv (i : nat) (t : Z)           (* node i remembers an announcement *)
| AMBlock (ts : list Z)             (* Node.CleanupBlock for a processed block *)
| AMCheck (i : nat) (ts : list Z)   (* node i's tracker check asks its peer for ts *)
| AMAddr (a : uaddr) | AMBcast | AMRelease (a : nat) | AMClose (a : nat).

Fixpoint upd {A} (i : nat) (f : A -> A) (l : list A) : list A :=
  match l, i with
  | [], _ => []
  | x :: l', O => f x :: l'
  | x :: l', S i' => x :: upd i' f l'
  end.
Definition zmem (t : Z) (l : list Z) : bool := existsb (Z.eqb t) l.
Definition zdiff (l ts : list Z) : list Z := filter (fun t => negb (zmem t ts)) l.
Definition zinter (l ts : list Z) : list Z := filter (fun t => zmem t ts) l.

Definition mset_pc (s : mst) (p : mpc) : mst :=
  MSt p (m_lock s) (m_stop s) (m_ready s) (m_flag s) (m_bc s) (m_want s) (m_addrs s) (m_nodes s) (m_bad s).
Definition mset_pc_lock (s : mst) (p : mpc) (l : bool) : mst :=
  MSt p l (m_stop s) (m_ready s) (m_flag s) (m_bc s) (m_want s) (m_addrs s) (m_nodes s) (m_bad s).
Definition mset_nodes (s : mst) (l : list unode) : mst :=
  MSt (m_pc s) (m_lock s) (m_stop s) (m_ready s) (m_flag s) (m_bc s) (m_want s) (m_addrs s) l (m_bad s).
Definition mset_addrs (s : mst) (l : list uaddr) : mst :=
  MSt (m_pc s) (m_lock s) (m_stop s) (m_ready s) (m_flag s) (m_bc s) (m_want s) l (m_nodes s) (m_bad s).
Definition mset_flag (s : mst) (b : bool) : mst :=
  MSt (m_pc s) (m_lock s) (m_stop s) (m_ready s) b (m_bc s) (m_want s) (m_addrs s) (m_nodes s) (m_bad s).

Definition n_set_stop (n : unode) : unode := UNode (n_addr n) (n_st n) (n_listed n) true (n_scan n) (n_trk n) (n_stale n).
Definition n_set_st (n : unode) (st : ust) : unode := UNode (n_addr n) st (n_listed n) (n_stop n) (n_scan n) (n_trk n) (n_stale n).
Definition n_unlist (n : unode) : unode := UNode (n_addr n) (n_st n) false (n_stop n) (n_scan n) (n_trk n) (n_stale n).
Definition n_set_trk (n : unode) (trk stale : list Z) : unode := UNode (n_addr n) (n_st n) (n_listed n) (n_stop n) (n_scan n) trk stale.
Definition a_rescore (a : uaddr) (d : Z) : uaddr := UAddr (a_kind a) (a_score a + d) true (a_used a) (a_rel a) (a_open a).
Definition a_set_used (a : uaddr) : uaddr := UAddr (a_kind a) (a_score a) (a_checked a) true (a_rel a) (a_open a).
Definition a_set_rel (a : uaddr) : uaddr := UAddr (a_kind a) (a_score a) (a_checked a) (a_used a) true (a_open a).
Definition a_set_closed (a : uaddr) : uaddr := UAddr (a_kind a) (a_score a) (a_checked a) (a_used a) (a_rel a) false.

Definition is_done (n : unode) : bool := match n_st n with UDone => true | _ => false end.
Definition is_dial (n : unode) : bool := match n_st n with UDial => true | _ => false end.
Definition scan_done (l : list unode) : bool := forallb (fun n => negb (n_scan n) || is_done n) l.
Definition regular_done (l : list unode) : bool := forallb (fun n => n_scan n || is_done n) l.
Definition listed_dialling (l : list unode) : bool := existsb (fun n => n_listed n && is_dial n) l.
Definition listed_count (l : list unode) : nat := length (filter n_listed l).
Definition unchecked (a : uaddr) : bool := (a_score a =? 0) && negb (a_checked a).
(* addresses by index *)
Fixpoint indexed {A} (i : nat) (l : list A) : list (nat * A) :=
  match l with [] => [] | x :: l' => (i, x) :: indexed (S i) l' end.
Definition fresh_nodes (l : list uaddr) : list unode :=
  map (fun ia => UNode (fst ia) UDial false false true [] []) (filter (fun ia => unchecked (snd ia)) (indexed 0 l)).
Definition pick_addr (l : list uaddr) : option nat :=
  match filter (fun ia => (1 <=? a_score (snd ia)) && negb (a_used (snd ia))) (indexed 0 l) with
  | [] => None
  | ia :: _ => Some (fst ia)
  end.

Section UMon.
Variables (lock_early dial_unlocked : bool).

(* IsActive as the monitor sees it *)
Definition inactive (n : unode) : bool := match n_st n with UDone => true | UDial => true | UActive => false end.
Definition prune (l : list unode) : list unode := map (fun n => if n_listed n && inactive n then n_unlist n else n) l.
Definition stop_scan (l : list unode) : list unode := map (fun n => if n_scan n then n_set_stop n else n) l.
Definition stop_listed (l : list unode) : list unode := map (fun n => if n_listed n then n_set_stop n else n) l.
Definition shotgun : nat := 10.

Definition mon_step (s : mst) : option mst :=
  match m_pc s with
  | MTop =>
      if m_stop s then Some (mset_pc s MStopAll)
      else if negb (m_ready s) then Some (mset_pc s MSleep)
      else if m_bc s || m_flag s then Some (mset_pc s MPost)
      else match fresh_nodes (m_addrs s) with
           | [] => Some (mset_pc (mset_flag s true) MPost)                        (* the flag stays set *)
           | fr => Some (mset_pc (mset_nodes (mset_flag s true) (m_nodes s ++ fr)) MScan)
           end
  | MScan => if m_stop s then Some (mset_pc (mset_nodes s (stop_scan (m_nodes s))) MScanWait) else None
  | MScanWait => if scan_done (m_nodes s) then Some (mset_pc (mset_flag s false) MPost) else None
  | MPost =>
      if lock_early then
        if m_lock s then None
        else if m_stop s then Some (mset_pc_lock s MStopAll true)               (* break with the lock held *)
        else if negb (m_ready s) then Some (mset_pc s MSleep) else Some (mset_pc_lock s MPrune true)
      else if m_stop s then Some (mset_pc s MStopAll) else Some (mset_pc s MLock)
  | MLock =>
      if m_lock s then None
      else if negb (m_ready s) then Some (mset_pc s MSleep) else Some (mset_pc_lock s MPrune true)
  | MPrune =>
      if negb dial_unlocked && listed_dialling (m_nodes s) then None          (* IsActive waits for the dial *)
      else Some (mset_pc_lock (mset_nodes s (prune (m_nodes s))) MAdd false)
  | MAdd =>
      if m_stop s then Some (mset_pc s MStopAll)
      else if m_lock s then None
      else if Nat.ltb (listed_count (m_nodes s)) (if m_bc s then shotgun else m_want s) then
        match pick_addr (m_addrs s) with
        | Some a => Some (mset_nodes (mset_addrs s (upd a a_set_used (m_addrs s)))
                                    (m_nodes s ++ [UNode a UDial true false false [] []]))
        | None => Some (mset_pc s MSleep)
        end
      else Some (mset_pc s MSleep)
  | MSleep => if m_stop s then Some (mset_pc s MTop) else None
  | MStopAll => if m_lock s then None else Some (mset_pc (mset_nodes s (stop_listed (m_nodes s))) MWait)
  | MWait => if regular_done (m_nodes s) then Some (mset_pc s MDone) else None
  | MDone => None
  end.

Definition node_step (s : mst) (i : nat) (ok : bool) : option mst :=
  match nth_error (m_nodes s) i with
  | None => None
  | Some n =>
      match n_st n with
      | UDial =>
          if ok && negb (n_stop n) then
            Some (mset_nodes (if n_scan n then s else mset_addrs s (upd (n_addr n) (fun a => a_rescore a 5) (m_addrs s)))
                            (upd i (fun n => n_set_st n UActive) (m_nodes s)))
          else Some (mset_nodes (if ok then s else mset_addrs s (upd (n_addr n) (fun a => a_rescore a (-1)) (m_addrs s)))
                               (upd i (fun n => n_set_st n UDone) (m_nodes s)))
      | UActive =>
          if n_stop n then Some (mset_nodes s (upd i (fun n => n_set_st n UDone) (m_nodes s)))
          else if n_scan n then                                           (* "Found peer": the scanning node stops itself *)
            Some (mset_nodes (mset_addrs s (upd (n_addr n) (fun a => a_rescore a 5) (m_addrs s)))
                            (upd i (fun n => n_set_st n UDone) (m_nodes s)))
          else None
      | UDone => None
      end
  end.

Definition timer_step (s : mst) : option mst :=
  match m_pc s with
  | MScan => Some (mset_pc (mset_nodes s (stop_scan (m_nodes s))) MScanWait)
  | MSleep => Some (mset_pc s MTop)
  | _ => None
  end.

Definition block_node (ts : list Z) (n : unode) : unode :=
  if is_done n then n
  else if n_listed n then n_set_trk n (zdiff (n_trk n) ts) (n_stale n)
  else n_set_trk n (n_trk n) (n_stale n ++ zinter (n_trk n) ts).

Definition env_step (s : mst) (a : mact) : option mst :=
  match a with
  | AMStop => Some (MSt (m_pc s) (m_lock s) true (m_ready s) (m_flag s) (m_bc s) (m_want s) (m_addrs s) (m_nodes s) (m_bad s))
  | AMRestart => match m_pc s with
                 | MDone => Some (MSt MTop (m_lock s) false false (m_flag s) (m_bc s) (m_want s) (m_addrs s) (m_nodes s) (m_bad s))
                 | _ => None
                 end
  | AMReady b => Some (MSt (m_pc s) (m_lock s) (m_stop s) b (m_flag s) (m_bc s) (m_want s) (m_addrs s) (m_nodes s) (m_bad s))
  | AMWant n => Some (MSt (m_pc s) (m_lock s) (m_stop s) (m_ready s) (m_flag s) (m_bc s) n (m_addrs s) (m_nodes s) (m_bad s))
  | AMBcast => Some (MSt (m_pc s) (m_lock s) (m_stop s) (m_ready s) (m_flag s) true (m_want s) (m_addrs s) (m_nodes s) (m_bad s))
  | AMAddr a => Some (mset_addrs s (m_addrs s ++ [a]))
  | AMRelease a => Some (mset_addrs s (upd a a_set_rel (m_addrs s)))
  | AMClose a => Some (mset_addrs s (upd a a_set_closed (m_addrs s)))
  | ANodeEnd i => match nth_error (m_nodes s) i with
                  | Some n => match n_st n with
                              | UActive => Some (mset_nodes s (upd i (fun n => n_set_st n UDone) (m_nodes s)))
                              | _ => None
                              end
                  | None => None
                  end
  | AMInv i t => match nth_error (m_nodes s) i with
                 | Some n => match n_st n with
                             | UActive => if n_scan n then None
                                          else Some (mset_nodes s (upd i (fun n => n_set_trk n (n_trk n ++ [t]) (n_stale n)) (m_nodes s)))
                             | _ => None
                             end
                 | None => None
                 end
  | AMBlock ts => if m_lock s then None else Some (mset_nodes s (map (block_node ts) (m_nodes s)))
  | AMCheck i ts => match nth_error (m_nodes s) i with
                    | Some n => match n_st n with
                                | UActive =>
                                    let bad := existsb (fun t => zmem t (n_stale n)) ts in
                                    Some (MSt (m_pc s) (m_lock s) (m_stop s) (m_ready s) (m_flag s) (m_bc s) (m_want s) (m_addrs s)
                                              (upd i (fun n => n_set_trk n (zdiff (n_trk n) ts) (zdiff (n_stale n) ts)) (m_nodes s))
                                              (m_bad s || bad))
                                | _ => None
                                end
                    | None => None
                    end
  | _ => None
  end.

Definition mstep_opt (s : mst) (a : mact) : option mst :=
  match a with
  | AMon => mon_step s
  | ATimer => timer_step s
  | ANode i ok => node_step s i ok
  | _ => env_step s a
  end.
Definition menabled (s : mst) (a : mact) : bool := match mstep_opt s a with Some _ => true | None => false end.
Definition mstep (s : mst) (a : mact) : mst := match mstep_opt s a with Some s' => s' | None => s end.
Fixpoint mrun_from (s : mst) (l : list mact) : mst := match l with [] => s | a :: l' => mrun_from (mstep s a) l' end.
Definition mrun (l : list mact) : mst := mrun_from mst_init l.

(* the steps of the monitor and of the nodes it started (what the fairness hypothesis is about) *)
Definition mthread_act (a : mact) : bool := match a with AMon | ANode _ _ => true | _ => false end.

(* rank: what is left to do once the stop flag is set *)
Definition pc_rank (p : mpc) : nat :=
  match p with
  | MScan => 11 | MScanWait => 10 | MPost => 9 | MLock => 8 | MPrune => 7 | MAdd => 6 | MSleep => 5 | MTop => 4
  | MStopAll => 3 | MWait => 2 | MDone => 0
  end.
Definition n_rank (n : unode) : nat := match n_st n with UDial => 2 | UActive => 1 | UDone => 0 end.
Fixpoint nodes_rank (l : list unode) : nat := match l with [] => 0 | n :: l' => n_rank n + nodes_rank l' end.
Definition mrank (s : mst) : nat := pc_rank (m_pc s) + nodes_rank (m_nodes s).

(* a scheduler: the monitor if it can move, otherwise the first node that can *)
Fixpoint first_node (s : mst) (i : nat) (l : list unode) : option mact :=
  match l with
  | [] => None
  | n :: l' => if menabled s (ANode i true) then Some (ANode i true) else first_node s (S i) l'
  end.
Definition mpick (s : mst) : option mact :=
  if menabled s AMon then Some AMon else first_node s 0 (m_nodes s).
Fixpoint mdrive (fuel : nat) (s : mst) : mst :=
  match fuel with
  | O => s
  | S f => match mpick s with Some a => mdrive f (mstep s a) | None => s end
  end.
End UMon.

(* bookkeeping of the application-side operations *)
Record sext := SExt {
  x_seen : list Z;    (* relevant txs tracked by the tx repository (delivered once) *)
  x_apin : Z;         (* calls of the last api_fill *)
  x_apiok : Z;        (* ... that returned nil *)
  x_apierr : Z;       (* ... that returned an error *)
  x_pend : Z;         (* relevant txs of a burst sent by the peer and not yet read by monitorIncoming *)
  x_ptx : Z;          (* tx of the block whose processing is parked in the output fetcher (-1: none) *)
  x_burst : Z;        (* relevant txs of bursts (delivered, or going to be once the consumer is released) *)
  x_inv : list (Z * (Z * (bool * bool)));  (* announced txs not held: (t, (getdata requests so far, (also tracked, window passed))) *)
  x_u : mst;          (* monitorUntrustedNodes, its list and its nodes (the transition system mstep of the code as it is) *)
  x_uask : list (Z * Z)   (* getdata requests received by the scripted untrusted peers: (peer * 100000 + t, count) *)
}.

Record scn := Scn {
  s_w : sw;
  s_listen : bool;
  s_acc : Z;          (* connection generation accepted by the peer (0: none) *)
  s_popen : bool;     (* the peer's side of that connection is open *)
  s_base : Z;         (* locator tip told by the node on this connection (-100: not yet) *)
  s_sent : Z;         (* highest header sent on this connection (-1: none) *)
  s_served : Z;       (* blocks served so far *)
  s_tip : Z;          (* blocks processed = announced *)
  s_ready : bool;     (* in sync on this connection *)
  s_unconf : Z;       (* relevant unconfirmed txs in the tx repository *)
  s_peers : Z;
  s_hold : Z;         (* 0 none, 1 HandleTx, 3 HandleHeaders, 100 output fetcher *)
  s_held : Z;         (* 0 none, 1 processUnconfirmedTxs parked, 2 processBlocks parked *)
  s_ann : list Z;     (* heights announced, in order *)
  s_stopcalls : Z;    (* handler invocations when Stop returned (-1: it has not) *)
  s_x : sext
}.

Definition scn_init : scn := Scn sw_init true 0 false (-100) (-1) 0 0 false 0 0 0 0 [] (-1) (SExt [] 0 0 0 0 (-1) 0 [] mst_init []).

Definition with_w (s : scn) (w : sw) : scn :=
  Scn w (s_listen s) (s_acc s) (s_popen s) (s_base s) (s_sent s) (s_served s) (s_tip s) (s_ready s) (s_unconf s)
      (s_peers s) (s_hold s) (s_held s) (s_ann s) (s_stopcalls s) (s_x s).

Definition ssettle (s : scn) (w : sw) : sw := settle 600 (s_listen s) (s_held s =? 1) (s_held s =? 2) false false w.
(* while monitorIncoming is inside the body that the scenario scripts *)
Definition bsettle (s : scn) (w : sw) : sw := settle 600 (s_listen s) (s_held s =? 1) (s_held s =? 2) true false w.

(* Stop has returned when it found stopped = true: remember the handler invocations so far *)
Definition note_stop (s : scn) : scn :=
  if (s_stopcalls s <? 0) && stopped (s_w s) then
    Scn (s_w s) (s_listen s) (s_acc s) (s_popen s) (s_base s) (s_sent s) (s_served s) (s_tip s) (s_ready s) (s_unconf s)
        (s_peers s) (s_hold s) (s_held s) (s_ann s) (d_calls (w_dat (s_w s))) (s_x s)
  else s.

(* the peer's connection is served by monitorIncoming *)
Definition alive (s : scn) : bool :=
  s_popen s && (w_gen (s_w s) =? s_acc s) &&
  match w_conn (s_w s), t_mi (w_thr (s_w s)) with
  | COpen, TLive PRead _ => negb (stopping (s_w s))
  | _, _ => false
  end.

(* monitorIncoming reads one message and handles it: the sub-steps of its body in order *)
Fixpoint body (s : scn) (w : sw) (script : list kind) : sw :=
  match script with
  | [] => w
  | k :: script' => body s (bsettle s (sapply w (AStep MI k 0))) script'
  end.
Definition deliver (s : scn) (w : sw) (script : list kind) : sw :=
  let w1 := bsettle s (sapply w APeerMsg) in      (* read; gate; the body starts *)
  let w2 := body s w1 script in
  ssettle s w2.                                    (* the body ends; back to the read *)

Inductive sop :=
| SStart | SListen | SUnlisten
| SAccept | SVersion | SHeaders (n : Z) | SBlocks (k : Z) | SSync | STx (t : Z) (rel : bool) | SBurst (n : Z)
| SPing | SAddr (n : Z) | SClose | SCloseStop | SSilence | SAge | SWaitRestart
| SHold (k : Z) | SRelease (e : bool)
| SStop | SStopAsync | SStopWait | SQuiet | SStored | SAnnounced | SCounts | SDrain | SSleep
| SApiTx (t : Z) (rel : bool) | SApiFill (n : Z) | SApiResult | SBlockInv | SRestart
| STxBlock (t : Z) (rel : bool) | SBurstRel (n : Z) | SDelivered (k : Z)
| SInv (t : Z) | STxAge | SGetData (t : Z)
| SUCount (n : Z) | SUPeer (k : Z) | SUAddr (i : Z) | SUWaitConn (i : Z) | SUWaitSeen (i : Z) | SUConns (i : Z)
| SUListed (i : Z) | SURelease (i : Z) | SUInv (i t : Z) | SUGetData (i t : Z) | SUClose (i : Z)
| SWaitScan (v : bool) | SBroadcast (t : Z) | SCountsU.

Fixpoint iter {A} (n : nat) (f : A -> A) (x : A) : A := match n with O => x | S n' => iter n' f (f x) end.

Definition set_xlen (w : sw) (n : Z) : sw := set_ch_len w CTx n.

(* processBlocks takes the next block and runs ProcessBlock (announcement, storage); parked inside the
   HandleHeaders callback when that callback is held *)
Definition process_block (s : scn) : scn :=
  let w := s_w s in
  match t_pb (w_thr w) with
  | TLive PTop _ =>
      if stopping w || negb (s_held s =? 0) then s else
      let w1 := sapply w (AStep PB KEnd 4) in
      let h := s_tip s + 1 in
      if s_hold s =? 3 then
        Scn w1 (s_listen s) (s_acc s) (s_popen s) (s_base s) (s_sent s) (s_served s) h (s_ready s) (s_unconf s)
            (s_peers s) (s_hold s) 2 (s_ann s ++ [h]) (s_stopcalls s) (s_x s)
      else
        let w2 := sapply (sapply w1 (AStep PB KCall 0)) (AStep PB KEnd 0) in
        Scn (ssettle s w2) (s_listen s) (s_acc s) (s_popen s) (s_base s) (s_sent s) (s_served s) h (s_ready s) (s_unconf s)
            (s_peers s) (s_hold s) (s_held s) (s_ann s ++ [h]) (s_stopcalls s) (s_x s)
  | _ => s
  end.

Definition serve_block (s : scn) : scn :=
  if alive s then
    let s1 := with_w s (deliver s (s_w s) []) in
    let s2 := Scn (s_w s1) (s_listen s1) (s_acc s1) (s_popen s1) (s_base s1) (s_sent s1) (s_served s1 + 1) (s_tip s1)
                  (s_ready s1) (s_unconf s1) (s_peers s1) (s_hold s1) (s_held s1) (s_ann s1) (s_stopcalls s1) (s_x s1) in
    process_block s2
  else Scn (s_w s) (s_listen s) (s_acc s) (s_popen s) (s_base s) (s_sent s) (s_served s + 1) (s_tip s)
           (s_ready s) (s_unconf s) (s_peers s) (s_hold s) (s_held s) (s_ann s) (s_stopcalls s) (s_x s).

Fixpoint enc_ann (l : list Z) : list Z := match l with [] => [] | h :: l' => h :: h :: enc_ann l' end.

Definition with_x (s : scn) (x : sext) : scn :=
  Scn (s_w s) (s_listen s) (s_acc s) (s_popen s) (s_base s) (s_sent s) (s_served s) (s_tip s) (s_ready s) (s_unconf s)
      (s_peers s) (s_hold s) (s_held s) (s_ann s) (s_stopcalls s) x.
Definition seen (s : scn) (t : Z) : bool := existsb (Z.eqb t) (x_seen (s_x s)).
Definition add_seen (s : scn) (t : Z) : sext :=
  let x := s_x s in SExt (x_seen x ++ [t]) (x_apin x) (x_apiok x) (x_apierr x) (x_pend x) (x_ptx x) (x_burst x) (x_inv x) (x_u x) (x_uask x).
Definition ap_idle (w : sw) : bool := match t_ap (w_thr w) with TNone => true | _ => false end.
(* one call of Node.HandleTx by the application, and whatever it enables *)
Definition api_call (s : scn) (w : sw) : sw := ssettle s (sapply w AApiTx).
(* the application goroutine makes its next calls, one after the other, until one does not return *)
Fixpoint api_calls (n : nat) (s : scn) (w : sw) (ok err : Z) : sw * Z * Z :=
  match n with
  | O => (w, ok, err)
  | S n' =>
      if ap_idle w then
        let o := x_open (w_ch w) in
        let w1 := api_call s w in
        if ap_idle w1 then api_calls n' s w1 (if o then ok + 1 else ok) (if o then err else err + 1)
        else (w1, ok, err)
      else (w, ok, err)
  end.

(* announcements of txs by the trusted peer (InvHandler, MemPool.AddRequest, TxTracker): what C14 demands *)
Definition with_inv (s : scn) (l : list (Z * (Z * (bool * bool)))) : scn :=
  let x := s_x s in
  with_x s (SExt (x_seen x) (x_apin x) (x_apiok x) (x_apierr x) (x_pend x) (x_ptx x) (x_burst x) l (x_u x) (x_uask x)).
Fixpoint inv_find (t : Z) (l : list (Z * (Z * (bool * bool)))) : option (Z * (bool * bool)) :=
  match l with
  | [] => None
  | (t', v) :: l' => if t' =? t then Some v else inv_find t l'
  end.
Fixpoint inv_set (t : Z) (v : Z * (bool * bool)) (l : list (Z * (Z * (bool * bool)))) : list (Z * (Z * (bool * bool))) :=
  match l with
  | [] => [(t, v)]
  | (t', v') :: l' => if t' =? t then (t, v) :: l' else (t', v') :: inv_set t v l'
  end.
(* an inventory announcement: ask if not asked within the window, otherwise remember the announcement *)
Definition inv_announce (t : Z) (l : list (Z * (Z * (bool * bool)))) :=
  match inv_find t l with
  | None => inv_set t (1, (false, false)) l
  | Some (n, (tr, aged)) => if aged then inv_set t (n + 1, (tr, false)) l else inv_set t (n, (true, false)) l
  end.
(* the tracker check at the connection's next activity: every remembered announcement whose request window
   has passed is asked for again (and no longer remembered) *)
Definition inv_check (l : list (Z * (Z * (bool * bool)))) :=
  map (fun e => match e with
                | (t, (n, (tr, aged))) => if tr && aged then (t, (n + 1, (false, false))) else e
                end) l.
Definition inv_age (l : list (Z * (Z * (bool * bool)))) :=
  map (fun e => match e with (t, (n, (tr, _))) => (t, (n, (tr, true))) end) l.
Definition inv_count (t : Z) (l : list (Z * (Z * (bool * bool)))) : Z :=
  match inv_find t l with Some (n, _) => n | None => 0 end.

(* per announced tx: 1 asked, 2 also remembered (announced again inside the window), 3 the window has passed *)
Fixpoint ph_get (t : Z) (l : list (Z * Z)) : Z := match l with [] => 0 | (t', p) :: l' => if t' =? t then p else ph_get t l' end.
Fixpoint ph_set (t p : Z) (l : list (Z * Z)) : list (Z * Z) :=
  match l with [] => [(t, p)] | (t', p') :: l' => if t' =? t then (t, p) :: l' else (t', p') :: ph_set t p l' end.

(* ---- the untrusted side of the scenarios: the monitor's transition system, driven deterministically ----
   What a scripted untrusted peer does decides the outcome of a node's step: a dial to a closed listener fails,
   a dial to a slow peer hangs until the peer is released, a scanning node that verified its peer stops itself. *)
Definition node_act (m : mst) (i : nat) (n : unode) : option mact :=
  match n_st n with
  | UDial => match nth_error (m_addrs m) (n_addr n) with
             | Some a => if negb (a_open a) then Some (ANode i false)
                         else if (a_kind a =? 3) && negb (a_rel a) && negb (n_stop n) then None
                         else Some (ANode i true)
             | None => Some (ANode i false)
             end
  | UActive => if n_stop n then Some (ANode i true)
               else if n_scan n then
                 match nth_error (m_addrs m) (n_addr n) with
                 | Some a => if a_kind a =? 4 then None else Some (ANode i true)
                 | None => None
                 end
               else None
  | UDone => None
  end.
Fixpoint unode_pick (m : mst) (i : nat) (l : list unode) : option mact :=
  match l with
  | [] => None
  | n :: l' => match node_act m i n with Some a => Some a | None => unode_pick m (S i) l' end
  end.
Definition upick (m : mst) : option mact :=
  if menabled false false m AMon then Some AMon else unode_pick m 0 (m_nodes m).
Fixpoint udrive (fuel : nat) (m : mst) : mst :=
  match fuel with
  | O => m
  | S f => match upick m with Some a => udrive f (mstep false false m a) | None => m end
  end.
Definition usettle_m (m : mst) : mst := udrive 80 m.
(* time passes: the monitor's sleep ends (not the scan window: that takes an explicit wait) *)
Definition utime (m : mst) : mst :=
  let m1 := usettle_m m in
  usettle_m (match m_pc m1 with MSleep => mstep false false m1 ATimer | _ => m1 end).
Definition is_mdone (m : mst) : bool := match m_pc m with MDone => true | _ => false end.

Definition with_u (s : scn) (m : mst) : scn :=
  let x := s_x s in
  with_x s (SExt (x_seen x) (x_apin x) (x_apiok x) (x_apierr x) (x_pend x) (x_ptx x) (x_burst x) (x_inv x) m (x_uask x)).
Definition with_uask (s : scn) (l : list (Z * Z)) : scn :=
  let x := s_x s in
  with_x s (SExt (x_seen x) (x_apin x) (x_apiok x) (x_apierr x) (x_pend x) (x_ptx x) (x_burst x) (x_inv x) (x_u x) l).
Definition su (s : scn) : mst := x_u (s_x s).

(* the node of the list that serves peer a (running, not a scanning node) *)
Fixpoint find_node (a : nat) (i : nat) (l : list unode) : option (nat * unode) :=
  match l with
  | [] => None
  | n :: l' => if Nat.eqb (n_addr n) a && negb (n_scan n) && match n_st n with UActive => true | _ => false end
               then Some (i, n) else find_node a (S i) l'
  end.
(* peer index of an operation: -1 stands for the first peer that has a running node *)
Fixpoint first_conn (m : mst) (k : nat) (a : nat) : option nat :=
  match k with
  | O => None
  | S k' => match find_node a 0 (m_nodes m) with Some _ => Some a | None => first_conn m k' (S a) end
  end.
Definition upeer (m : mst) (i : Z) : option nat :=
  if i <? 0 then first_conn m (length (m_addrs m)) 0
  else if i <? zlen (m_addrs m) then Some (Z.to_nat i) else None.
Definition u_connected (m : mst) (i : Z) : bool :=
  match upeer m i with Some a => match find_node a 0 (m_nodes m) with Some _ => true | None => false end | None => false end.
Definition u_seen (m : mst) (a : nat) : bool :=
  existsb (fun n => Nat.eqb (n_addr n) a && negb (is_dial n)) (m_nodes m) &&
  match nth_error (m_addrs m) a with Some ad => a_open ad && negb (a_kind ad =? 4) | None => false end.
Definition u_conn_count (m : mst) (a : nat) : Z :=
  zlen (filter (fun n => Nat.eqb (n_addr n) a && negb (is_dial n)) (m_nodes m)).
Definition u_listed (m : mst) (a : nat) : bool :=
  existsb (fun n => Nat.eqb (n_addr n) a && negb (n_scan n) && n_listed n) (m_nodes m).
Definition u_running (m : mst) : Z := zlen (filter (fun n => negb (n_scan n) && negb (is_done n)) (m_nodes m)).
Definition ukey (a : nat) (t : Z) : Z := Z.of_nat a * 100000 + t.
Definition uask_get (k : Z) (l : list (Z * Z)) : Z := ph_get k l.
Definition a_tell (a : uaddr) : uaddr := UAddr (a_kind a) (a_score a) false (a_used a) (a_rel a) (a_open a).

(* the mempool's answer to a request by an untrusted connection: ask now (no request yet, or the window has
   passed) or remember the announcement *)
Definition inv_due (t : Z) (l : list (Z * (Z * (bool * bool)))) : bool :=
  match inv_find t l with None => true | Some (_, (_, aged)) => aged end.
Definition inv_asked (t : Z) (l : list (Z * (Z * (bool * bool)))) :=
  match inv_find t l with
  | None => inv_set t (0, (false, false)) l
  | Some (n, (tr, _)) => inv_set t (n, (tr, false)) l
  end.
(* a block confirmed t: nothing remembers it any more *)
Definition inv_confirm (t : Z) (l : list (Z * (Z * (bool * bool)))) :=
  match inv_find t l with
  | None => l
  | Some (n, _) => inv_set t (n, (false, false)) l
  end.

Definition sstep0 (s : scn) (o : sop) : scn * obs :=
  let w := s_w s in
  let fin (s' : scn) (ob : obs) := (s', ob) in
  let fin_stop (s' : scn) (ob : obs) := (note_stop s', ob) in
  match o with
  | SStart => fin (with_w s (ssettle s w)) [OK]
  | SListen =>
      let s1 := Scn w true (s_acc s) (s_popen s) (s_base s) (s_sent s) (s_served s) (s_tip s) (s_ready s) (s_unconf s)
                    (s_peers s) (s_hold s) (s_held s) (s_ann s) (s_stopcalls s) (s_x s) in
      fin (with_w s1 (ssettle s1 w)) [OK]
  | SUnlisten =>
      fin (Scn w false (s_acc s) (s_popen s) (s_base s) (s_sent s) (s_served s) (s_tip s) (s_ready s) (s_unconf s)
               (s_peers s) (s_hold s) (s_held s) (s_ann s) (s_stopcalls s) (s_x s)) [OK]
  | SAccept =>
      if s_listen s && (s_acc s <? w_gen w) && match w_conn w with COpen => true | _ => false end then
        fin (Scn w (s_listen s) (w_gen w) true (-100) (-1) (s_served s) (s_tip s) false (s_unconf s)
                 (s_peers s) (s_hold s) (s_held s) (s_ann s) (s_stopcalls s) (s_x s)) [OK; 1; s_tip s]
      else fin s [OK; 0; -1]
  | SVersion =>
      if alive s then
        let w1 := deliver s w [KOut; KOut] in
        fin (Scn w1 (s_listen s) (s_acc s) (s_popen s) (s_tip s) (s_sent s) (s_served s) (s_tip s) (s_ready s) (s_unconf s)
                 (s_peers s) (s_hold s) (s_held s) (s_ann s) (s_stopcalls s) (s_x s)) [OK; 1; 1; s_tip s]
      else fin s [OK; 0; 0; s_base s]
  | SHeaders n =>
      let base := if s_sent s <? 0 then s_base s else s_sent s in
      if alive s then
        let w1 := deliver s w [KCall; KOut] in
        fin (Scn w1 (s_listen s) (s_acc s) (s_popen s) (s_base s) (base + n) (s_served s) (s_tip s) (s_ready s) (s_unconf s)
                 (s_peers s) (s_hold s) (s_held s) (s_ann s) (s_stopcalls s) (s_x s)) [OK; n]
      else fin (Scn w (s_listen s) (s_acc s) (s_popen s) (s_base s) (base + n) (s_served s) (s_tip s) (s_ready s) (s_unconf s)
                    (s_peers s) (s_hold s) (s_held s) (s_ann s) (s_stopcalls s) (s_x s)) [OK; 0]
  | SBlocks k =>
      let s1 := iter (Z.to_nat k) serve_block s in
      fin s1 [OK; s_tip s1 - s_tip s]
  | SSync =>
      if alive s then
        let w1 := deliver s w [KCall; KOut; KOut; KCall] in
        let w2 := deliver s w1 [KOut] in
        fin (Scn w2 (s_listen s) (s_acc s) (s_popen s) (s_base s) (s_sent s) (s_served s) (s_tip s) true (s_unconf s)
                 (s_peers s) (s_hold s) (s_held s) (s_ann s) (s_stopcalls s) (s_x s)) [OK; 1]
      else fin s [OK; 0]
  | STx t rel =>
      if alive s && s_ready s then
        if rel then
          if (s_hold s =? 1) || (s_hold s =? 100) then
            (* the consumer takes it and is parked in the held call *)
            let s0 := Scn w (s_listen s) (s_acc s) (s_popen s) (s_base s) (s_sent s) (s_served s) (s_tip s) (s_ready s)
                          (if s_hold s =? 1 then s_unconf s + 1 else s_unconf s)
                          (s_peers s) (s_hold s) 1 (s_ann s) (s_stopcalls s) (add_seen s t) in
            fin (with_w s0 (deliver s0 w [KTx])) [OK; b2z (s_hold s =? 1)]
          else
            (* the harness then pings and pushes a marker tx through the API: when the marker has been taken,
               this tx has been processed; a tx the repository already tracks is not delivered again *)
            let w1 := api_call s (deliver s (deliver s w [KTx]) [KOut]) in
            if seen s t then fin (with_w s w1) [OK; 0]
            else fin (Scn w1 (s_listen s) (s_acc s) (s_popen s) (s_base s) (s_sent s) (s_served s) (s_tip s) (s_ready s)
                          (s_unconf s + 1) (s_peers s) (s_hold s) (s_held s) (s_ann s) (s_stopcalls s) (add_seen s t)) [OK; 1]
        else
          fin (with_w s (deliver s (deliver s w [KTx]) [KOut])) [OK; 0]
      else if alive s then fin (with_w s (deliver s (deliver s w []) [KOut])) [OK; 0]
      else fin s [OK; 0]
  | SBurst n =>
      let w1 := iter (Z.to_nat n) (fun w0 => if alive (with_w s w0) then deliver s w0 [KTx] else w0) w in
      let full := (scap <=? x_len (w_ch w1)) && at_send CTx (t_mi (w_thr w1)) in
      fin (with_w s w1) [OK; b2z full]
  | SPing =>
      if alive s then fin (with_w s (deliver s w [KOut])) [OK; 1] else fin s [OK; 0]
  | SAddr n =>
      if alive s then
        let w1 := deliver s (deliver s w [KCall]) [KOut] in
        fin (Scn w1 (s_listen s) (s_acc s) (s_popen s) (s_base s) (s_sent s) (s_served s) (s_tip s) (s_ready s) (s_unconf s)
                 (s_peers s + n) (s_hold s) (s_held s) (s_ann s) (s_stopcalls s) (s_x s)) [OK; s_peers s + n]
      else fin s [OK; s_peers s]
  | SClose =>
      let w1 := if s_popen s && (w_gen w =? s_acc s) then sapply w APeerClose else w in
      let s1 := Scn w1 (s_listen s) (s_acc s) false (s_base s) (s_sent s) (s_served s) (s_tip s) false (s_unconf s)
                    (s_peers s) (s_hold s) (s_held s) (s_ann s) (s_stopcalls s) (s_x s) in
      fin (with_w s1 (ssettle s1 w1)) [OK]
  | SCloseStop =>
      (* the peer closes / resets; the application calls Stop exactly when the run loop is inside the
         shutdown that precedes the reconnect (restart requested, connection already closed by Run) *)
      if s_popen s && (w_gen w =? s_acc s) then
        let w1 := sapply (sapply w APeerClose) (AStep MI KEnd 0) in        (* the read fails: restart() *)
        let w2 := sapply (sapply w1 (ARun true)) (ARun true) in            (* "Stopping"; connection closed *)
        let hit := needs w2 && stopping w2 && match w_conn w2 with CNone => true | _ => false end in
        let s1 := Scn w2 (s_listen s) (s_acc s) false (s_base s) (s_sent s) (s_served s) (s_tip s) false (s_unconf s)
                      (s_peers s) (s_hold s) (s_held s) (s_ann s) (s_stopcalls s) (s_x s) in
        let w3 := ssettle s1 (sapply (sapply w2 AStopFlag) AStopReq) in
        fin_stop (with_w s1 w3) [OK; b2z hit; b2z (stopped w3); b2z (stopped w3); b2z (w_gen w <? w_gen w3)]
      else fin s [OK; 0; 0; 0; 0]
  | SSilence => fin s [OK]
  | SAge =>
      (* the clock passes the request time-outs: monitorRequestTimeouts restarts unless the node is in sync *)
      if negb (s_ready s) && match t_rt (w_thr w) with TLive PTop _ => negb (stopping w) | _ => false end then
        let w1 := sapply (sapply w (AStep RT KEnd 1)) (AStep RT KFail 0) in
        let s1 := Scn w1 (s_listen s) (s_acc s) (s_popen s) (s_base s) (s_sent s) (s_served s) (s_tip s) false (s_unconf s)
                      (s_peers s) (s_hold s) (s_held s) (s_ann s) (s_stopcalls s) (s_x s) in
        fin (with_w s1 (ssettle s1 w1)) [OK; 1]
      else fin s [OK; 0]
  | SWaitRestart => fin s [OK; 1]
  | SHold k =>
      fin (Scn w (s_listen s) (s_acc s) (s_popen s) (s_base s) (s_sent s) (s_served s) (s_tip s) (s_ready s) (s_unconf s)
               (s_peers s) k (s_held s) (s_ann s) (s_stopcalls s) (s_x s)) [OK]
  | SRelease e =>
      let x := s_x s in
      let w1 := if s_held s =? 1 then sapply w (AStep PU (if e then KFail else KEnd) 0)
                else if s_held s =? 2 then
                  (if e then sapply w (AStep PB KFail 0)                                (* ProcessBlock fails: processBlocks returns *)
                   else sapply (sapply w (AStep PB KCall 0)) (AStep PB KEnd 0))
                else w in
      let u := if (s_held s =? 1) && (s_hold s =? 100) then s_unconf s + 1 else s_unconf s in
      (* the tx of a block parked in the fetcher is delivered once the fetcher answers *)
      let seen1 := if (s_held s =? 2) && negb e && (0 <=? x_ptx x) then x_seen x ++ [x_ptx x] else x_seen x in
      let s1 := Scn w1 (s_listen s) (s_acc s) (s_popen s) (s_base s) (s_sent s) (s_served s) (s_tip s) (s_ready s) u
                    (s_peers s) 0 0 (s_ann s) (s_stopcalls s)
                    (SExt seen1 (x_apin x) (x_apiok x) (x_apierr x) 0 (-1) (x_burst x) (x_inv x) (x_u x) (x_uask x)) in
      let w2 := ssettle s1 w1 in
      (* monitorIncoming now reads what the peer had sent meanwhile *)
      let w3 := iter (Z.to_nat (x_pend x)) (fun w0 => if alive (with_w s1 w0) then deliver s1 w0 [KTx] else w0) w2 in
      fin (with_w s1 w3) [OK]
  | SStop =>
      let w1 := ssettle s (sapply (sapply w AStopFlag) AStopReq) in
      fin_stop (with_w s w1) [OK; b2z (stopped w1); b2z (stopped w1)]
  | SStopAsync =>
      let w1 := ssettle s (sapply (sapply w AStopFlag) AStopReq) in
      fin_stop (with_w s w1) [OK; b2z (stopped w1)]
  | SStopWait =>
      let w1 := ssettle s w in
      fin_stop (with_w s w1) [OK; b2z (stopped w1); b2z (stopped w1)]
  | SQuiet =>
      fin s [OK; if s_stopcalls s <? 0 then -1 else d_calls (w_dat w) - s_stopcalls s; 0]
  | SStored =>
      if stopped w && (0 <=? s_stopcalls s) then
        if d_disk (w_dat w) =? d_mem (w_dat w) then
          fin s [OK; s_tip s; s_tip s; s_tip s; 1; s_unconf s; s_unconf s; 1; s_peers s; s_peers s]
        else fin s [OK; -2]
      else fin s [OK; -1]
  | SAnnounced => fin s (OK :: enc_ann (s_ann s))
  | SCounts => fin s [OK; n_in (w_cnt w); n_proc (w_cnt w)]
  | SDrain =>
      (* NOT a step of the system: the test harness empties the tx channel to end a hung scenario *)
      let had := 0 <? x_len (w_ch w) in
      fin (with_w s (ssettle s (set_xlen w 0))) [OK; b2z had]
  | SSleep => fin s [OK]
  | SApiTx t rel =>
      let o := x_open (w_ch w) in
      if negb o then fin (with_w s (api_call s w)) [OK; 1; 0]
      else if rel && negb (seen s t) then
        if (s_hold s =? 1) || (s_hold s =? 100) then
          let s0 := Scn w (s_listen s) (s_acc s) (s_popen s) (s_base s) (s_sent s) (s_served s) (s_tip s) (s_ready s)
                        (if s_hold s =? 1 then s_unconf s + 1 else s_unconf s)
                        (s_peers s) (s_hold s) 1 (s_ann s) (s_stopcalls s) (add_seen s t) in
          fin (with_w s0 (api_call s0 w)) [OK; 0; b2z (s_hold s =? 1)]
        else
          fin (Scn (api_call s w) (s_listen s) (s_acc s) (s_popen s) (s_base s) (s_sent s) (s_served s) (s_tip s) (s_ready s)
                   (s_unconf s + 1) (s_peers s) (s_hold s) (s_held s) (s_ann s) (s_stopcalls s) (add_seen s t)) [OK; 0; 1]
      else fin (with_w s (api_call s w)) [OK; 0; 0]
  | SApiFill n =>
      let '(w1, ok, err) := api_calls (Z.to_nat n) s w 0 0 in
      fin (with_x (with_w s w1) (SExt (x_seen (s_x s)) n ok err (x_pend (s_x s)) (x_ptx (s_x s)) (x_burst (s_x s)) (x_inv (s_x s)) (x_u (s_x s)) (x_uask (s_x s)))) [OK; ok + err; b2z (negb (ap_idle w1))]
  | SApiResult =>
      let x := s_x s in
      if ap_idle w then
        (* the call that was waiting has returned (it was queued); the goroutine makes its remaining calls *)
        let waited := if x_apiok x + x_apierr x <? x_apin x then 1 else 0 in
        let '(w1, ok, err) := api_calls (Z.to_nat (x_apin x - x_apiok x - x_apierr x - waited)) s w (x_apiok x + waited) (x_apierr x) in
        fin (with_x (with_w s w1) (SExt (x_seen x) (x_apin x) ok err (x_pend x) (x_ptx x) (x_burst x) (x_inv x) (x_u x) (x_uask x))) [OK; b2z (ap_idle w1); ok; err; 0]
      else fin s [OK; 0; x_apiok x; x_apierr x; 0]
  | SBlockInv =>
      if alive s then
        let w1 := deliver s (deliver s w [KCall]) [KOut] in
        fin (Scn w1 (s_listen s) (s_acc s) (s_popen s) (s_base s) (s_sent s) (s_served s) (s_tip s) false (s_unconf s)
                 (s_peers s) (s_hold s) (s_held s) (s_ann s) (s_stopcalls s) (s_x s)) [OK; 0]
      else fin s [OK; b2z (s_ready s)]
  | STxBlock t rel =>
      if alive s then
        let base := if s_sent s <? 0 then s_base s else s_sent s in
        let w1 := deliver s (deliver s w [KCall; KOut]) [] in       (* headers -> getdata ; the block arrives *)
        let h := s_tip s + 1 in
        let new := rel && negb (seen s t) in
        match t_pb (w_thr w1) with
        | TLive PTop _ =>
            if stopping w1 || negb (s_held s =? 0) then fin (with_w s w1) [OK; 1; 0; 0] else
            let w2 := sapply w1 (AStep PB KEnd 4) in
            if (s_hold s =? 3) || ((s_hold s =? 100) && new) then
              (* parked inside HandleHeaders, or (after it) inside the output fetcher for the new relevant tx *)
              let w3 := if s_hold s =? 3 then w2 else sapply w2 (AStep PB KCall 0) in
              let x := s_x s in
              fin (Scn w3 (s_listen s) (s_acc s) (s_popen s) (s_base s) (base + 1) (s_served s + 1) h (s_ready s) (s_unconf s)
                       (s_peers s) (s_hold s) 2 (s_ann s ++ [h]) (s_stopcalls s)
                       (SExt (x_seen x) (x_apin x) (x_apiok x) (x_apierr x) (x_pend x) (if new then t else -1) (x_burst x) (x_inv x) (x_u x) (x_uask x)))
                  [OK; 1; 1; 0]
            else
              let w3 := ssettle s (sapply (sapply (sapply w2 (AStep PB KCall 0)) (AStep PB KCall 0)) (AStep PB KEnd 0)) in
              fin (Scn w3 (s_listen s) (s_acc s) (s_popen s) (s_base s) (base + 1) (s_served s + 1) h (s_ready s) (s_unconf s)
                       (s_peers s) (s_hold s) (s_held s) (s_ann s ++ [h]) (s_stopcalls s)
                       (if new then add_seen s t else s_x s))
                  [OK; 1; 1; b2z new]
        | _ => fin (with_w s w1) [OK; 1; 0; 0]      (* processBlocks is gone: the block is never processed *)
        end
      else fin s [OK; 0; 0; 0]
  | SBurstRel n =>
      let x := s_x s in
      let '(w1, pend) := iter (Z.to_nat n) (fun wp => let '(w0, p0) := wp in
                                                       if alive (with_w s w0) then (deliver s w0 [KTx], p0) else (w0, p0 + 1))
                              (w, x_pend x) in
      let full := (scap <=? x_len (w_ch w1)) && at_send CTx (t_mi (w_thr w1)) in
      fin (Scn w1 (s_listen s) (s_acc s) (s_popen s) (s_base s) (s_sent s) (s_served s) (s_tip s) (s_ready s) (s_unconf s + n)
               (s_peers s) (s_hold s) (s_held s) (s_ann s) (s_stopcalls s)
               (SExt (x_seen x) (x_apin x) (x_apiok x) (x_apierr x) pend (x_ptx x) (x_burst x + n) (x_inv x) (x_u x) (x_uask x))) [OK; b2z full]
  | SDelivered k => fin s [OK; zlen (x_seen (s_x s)) + x_burst (s_x s)]
  | SInv t =>
      if alive s && s_ready s then
        let l := inv_check (inv_announce t (x_inv (s_x s))) in
        let w1 := deliver s (deliver s (deliver s w [KOut]) [KOut]) [KOut] in     (* inv (-> getdata), two pings *)
        fin (with_inv (with_w s w1) l) [OK; inv_count t l]
      else fin s [OK; inv_count t (x_inv (s_x s))]
  | STxAge => fin (with_inv s (inv_age (x_inv (s_x s)))) [OK]
  | SGetData t =>
      if alive s then
        let l := if s_ready s then inv_check (x_inv (s_x s)) else x_inv (s_x s) in
        let w1 := deliver s (deliver s w [KOut; KOut]) [KOut] in
        fin (with_inv (with_w s w1) l) [OK; 1; inv_count t l]
      else fin s [OK; 0; inv_count t (x_inv (s_x s))]
  | SUCount n => fin (with_u s (mstep false false (su s) (AMWant (Z.to_nat n)))) [OK]
  | SUPeer k =>
      (* 1 good (score 5), 2 fresh (never checked), 3 slow dial, 4 silent, 5 good, not stored: told later *)
      let a := UAddr k (if (k =? 2) || (k =? 5) then 0 else 5) (negb (k =? 2)) false false true in
      let s1 := with_u s (mstep false false (su s) (AMAddr a)) in
      fin (Scn (s_w s1) (s_listen s1) (s_acc s1) (s_popen s1) (s_base s1) (s_sent s1) (s_served s1) (s_tip s1) (s_ready s1) (s_unconf s1)
               (if k =? 5 then s_peers s1 else s_peers s1 + 1) (s_hold s1) (s_held s1) (s_ann s1) (s_stopcalls s1) (s_x s1)) [OK]
  | SUAddr i =>
      match upeer (su s) i with
      | Some a =>
          if alive s then
            let w1 := deliver s (deliver s w [KCall]) [KOut] in
            let m := su s in
            let s1 := with_u (with_w s w1) (mset_addrs m (upd a a_tell (m_addrs m))) in
            fin (Scn (s_w s1) (s_listen s1) (s_acc s1) (s_popen s1) (s_base s1) (s_sent s1) (s_served s1) (s_tip s1) (s_ready s1) (s_unconf s1)
                     (s_peers s1 + 1) (s_hold s1) (s_held s1) (s_ann s1) (s_stopcalls s1) (s_x s1)) [OK]
          else fin s [OK]
      | None => fin s [OK]
      end
  | SUWaitConn i => let m := utime (su s) in fin (with_u s m) [OK; b2z (u_connected m i)]
  | SUWaitSeen i =>
      let m := utime (su s) in
      fin (with_u s m) [OK; b2z (match upeer m i with Some a => u_seen m a | None => false end)]
  | SUConns i => fin s [OK; match upeer (su s) i with Some a => u_conn_count (su s) a | None => 0 end]
  | SUListed i =>
      match upeer (su s) i with
      | Some a => fin s [OK; b2z (negb (m_lock (su s))); b2z (u_listed (su s) a)]
      | None => fin s [OK; 0; 0]
      end
  | SURelease i =>
      match upeer (su s) i with
      | Some a => fin (with_u s (mstep false false (su s) (AMRelease a))) [OK]
      | None => fin s [OK]
      end
  | SUClose i =>
      match upeer (su s) i with
      | Some a =>
          let m1 := mstep false false (su s) (AMClose a) in
          let m2 := match find_node a 0 (m_nodes m1) with Some (j, _) => mstep false false m1 (ANodeEnd j) | None => m1 end in
          fin (with_u s m2) [OK]
      | None => fin s [OK]
      end
  | SUInv i t =>
      let m := su s in
      match upeer m i with
      | Some a =>
          match find_node a 0 (m_nodes m) with
          | Some (j, _) =>
              if s_ready s then
                if inv_due t (x_inv (s_x s)) then
                  let ask := ph_set (ukey a t) (uask_get (ukey a t) (x_uask (s_x s)) + 1) (x_uask (s_x s)) in
                  fin (with_uask (with_inv s (inv_asked t (x_inv (s_x s)))) ask) [OK; 1; uask_get (ukey a t) ask]
                else fin (with_u s (mstep false false m (AMInv j t))) [OK; 1; uask_get (ukey a t) (x_uask (s_x s))]
              else fin s [OK; 1; uask_get (ukey a t) (x_uask (s_x s))]
          | None => fin s [OK; 0; uask_get (ukey a t) (x_uask (s_x s))]
          end
      | None => fin s [OK; 0; 0]
      end
  | SUGetData i t =>
      let m := su s in
      match upeer m i with
      | Some a =>
          match find_node a 0 (m_nodes m) with
          | Some (j, n) =>
              (* the node's tracker check: every remembered announcement whose request window has passed is asked for *)
              let due := filter (fun t' => inv_due t' (x_inv (s_x s))) (n_trk n) in
              let ask := fold_left (fun l t' => ph_set (ukey a t') (uask_get (ukey a t') l + 1) l) due (x_uask (s_x s)) in
              let inv := fold_left (fun l t' => inv_asked t' l) due (x_inv (s_x s)) in
              fin (with_uask (with_inv (with_u s (mstep false false m (AMCheck j due))) inv) ask) [OK; 1; uask_get (ukey a t) ask]
          | None => fin s [OK; 0; uask_get (ukey a t) (x_uask (s_x s))]
          end
      | None => fin s [OK; 0; 0]
      end
  | SWaitScan v =>
      let m := su s in
      let m1 := if v then utime m
                else match m_pc m with MScan => usettle_m (mstep false false m ATimer) | _ => utime m end in
      fin (with_u s m1) [OK; b2z (Bool.eqb (m_flag m1) v)]
  | SBroadcast t =>
      if stopping w || stopped w then fin s [OK; 1]
      else fin (with_u s (mstep false false (su s) AMBcast)) [OK; 0]
  | SCountsU => fin s [OK; u_running (su s)]
  | SRestart =>
      (* a new process on the same storage: what was saved is what it knows *)
      let s1 := Scn sw_init (s_listen s) 0 false (-100) (-1) (s_tip s) (s_tip s) false (s_unconf s)
                    (s_peers s) 0 0 (s_ann s) (-1) (s_x s) in
      (* the untrusted side of a new Node: the stored addresses with their scores, nothing used, nothing running *)
      let m := su s in
      let m0 := MSt MTop false false false false false (m_want m)
                    (map (fun a => UAddr (a_kind a) (a_score a) (a_checked a) false (a_rel a) (a_open a)) (m_addrs m)) [] false in
      fin (with_u (with_w s1 (ssettle s1 sw_init)) m0) [OK]
  end.

(* the run loop's state drives the monitor: a stop request or a lost connection stops it (it stops its nodes and
   waits for them), the restart starts it again; it looks at the node's in-sync flag; a processed block's
   clean-up reaches the listed nodes *)
Definition conn_open (w : sw) : bool := match w_conn w with COpen => true | _ => false end.
Definition u_sync (s0 s1 : scn) (o : sop) (ob : obs) : scn :=
  let w0 := s_w s0 in
  let w1 := s_w s1 in
  let m := su s1 in
  let m0 := match o, ob with
            | STxBlock t _, [_; _; ann; _] => if ann =? 1 then mstep false false m (AMBlock [t]) else m
            | _, _ => m
            end in
  let inv := match o, ob with
             | STxBlock t _, [_; _; ann; _] => if ann =? 1 then inv_confirm t (x_inv (s_x s1)) else x_inv (s_x s1)
             | _, _ => x_inv (s_x s1)
             end in
  let halted := stopping w1 || stopped w1 in
  let down := halted || negb (w_gen w1 =? w_gen w0) || negb (conn_open w1) in
  let m1 := if down && negb (is_mdone m0) then usettle_m (mstep false false m0 AMStop) else m0 in
  let m2 := if negb halted && is_mdone m1 then mstep false false m1 AMRestart else m1 in
  let m3 := mstep false false m2 (AMReady (s_ready s1 && conn_open w1 && negb halted)) in
  with_u (with_inv s1 inv) m3.

Definition sstep (s : scn) (o : sop) : scn * obs :=
  match o with
  | SRestart => sstep0 s o
  | _ => let '(s1, ob) := sstep0 s o in (u_sync s s1 o ob, ob)
  end.

Fixpoint srun_from (s : scn) (ops : list sop) : list obs :=
  match ops with
  | [] => []
  | o :: ops' => let '(s1, ob) := sstep s o in ob :: srun_from s1 ops'
  end.
Definition srun (ops : list sop) : list obs := srun_from scn_init ops.

(* ---- the property over the observations of a scenario ----
   901 a handler was invoked (or was still running) after Stop returned
   902 Stop did not return within the bound although no callback, fetcher or storage call was being held
   903 after Stop returned, the stored chain / unconfirmed set / peers differ from the final in-memory ones,
       or the stored tip is not the last height announced to the handlers
   904 a height was announced twice, or a height was skipped (also across a reconnect)
   905 Stop returned while a handler callback was still being held
   906 after a reconnect the node did not resume from its tip (version height / locator)
   907 the node connected again after Stop was requested
   908 a call of the public API (Node.HandleTx) panicked
   909 a call of the public API did not return although nothing was being held
   910 a relevant tx was delivered to the handlers as a new tx twice (also across a restart on the same storage)
   911 fewer distinct new-tx notifications than relevant txs received from the peer while in sync
   912 a tx announced twice by the trusted peer and not delivered was not asked for again at the peer's next
       activity after the request window (C14)
   913 an untrusted peer was asked for a tx it had announced after a block confirming that tx was processed (C14)
   914 an untrusted peer whose connection is up is not in the node's list of untrusted nodes
   897 malformed trace *)
Fixpoint contiguous_from (h : Z) (l : list Z) : bool :=
  match l with
  | hh :: id :: l' => (hh =? h) && (id =? h) && contiguous_from (h + 1) l'
  | [] => true
  | _ => false
  end.

(* untrusted peers in the monitor's table: key (peer + 2) * 100000 + t holds 10 + requests seen when the peer announced
   t, 20 + requests once a block confirmed t after that; key (peer + 2) * 100000 + 99999 = 1: the peer's connection is up *)
Definition mkey (i t : Z) : Z := (i + 2) * 100000 + t.
Definition ckey (i : Z) : Z := (i + 2) * 100000 + 99999.
Definition ph_confirm (t : Z) (ph : list (Z * Z)) : list (Z * Z) :=
  map (fun e => if (100000 <=? fst e) && (fst e mod 100000 =? t) && (10 <=? snd e) && (snd e <? 20) then (fst e, snd e + 10) else e) ph.
Definition ph_down (ph : list (Z * Z)) : list (Z * Z) :=
  filter (fun e => negb ((100000 <=? fst e) && (fst e mod 100000 =? 99999))) ph.
Definition down_op (o : sop) : bool :=
  match o with
  | SStop | SStopAsync | SClose | SCloseStop | SRestart | SAge | SRelease true | SSilence => true
  | _ => false
  end.

Fixpoint c19_monitor_from (i : Z) (held : bool) (tip : Z) (dl : list Z) (ph : list (Z * Z)) (ops : list sop) (tr : list obs) : option (Z * obs) :=
  match ops, tr with
  | [], [] => None
  | o :: ops', ob :: tr' =>
      let ph := if down_op o then ph_down ph else ph in
      let next h t := c19_monitor_from (i + 1) h t dl ph ops' tr' in
      let next_d h t d := c19_monitor_from (i + 1) h t d ph ops' tr' in
      let next_p p := c19_monitor_from (i + 1) held tip dl p ops' tr' in
      match o, ob with
      | SHold _, _ => next true tip
      | SRelease _, _ => next false tip
      | SStop, [_; ret; _] => if (ret =? 0) && negb held then Some (i, [902]) else next held tip
      | SStopWait, [_; ret; _] => if (ret =? 0) && negb held then Some (i, [902]) else next held tip
      | SCloseStop, [_; hit; ret; _; reconn] =>
          if (hit =? 1) && (reconn =? 1) then Some (i, [907])
          else if (hit =? 1) && (ret =? 0) && negb held then Some (i, [902]) else next held tip
      | SStopAsync, [_; ret] => if (ret =? 1) && held then Some (i, [905]) else next held tip
      | SQuiet, [_; calls; inflight] =>
          if (0 <? calls) || (0 <? inflight) && (0 <=? calls) then Some (i, [901]) else next held tip
      | SStored, [_; dt; mt; at_; sh; du; mu; su; dp; mp] =>
          if (dt =? mt) && (dt =? at_) && (sh =? 1) && (du =? mu) && (su =? 1) && (dp =? mp) then next held tip
          else Some (i, [903])
      | SStored, [_; x] => if x =? -2 then Some (i, [903]) else next held tip
      | SAnnounced, _ :: l =>
          (* blocks processed behind a held tx are announced after the step that delivered them: the announced
             heights are where the node's tip is *)
          if contiguous_from 1 l then next held (Z.max tip (zlen l / 2)) else Some (i, [904])
      | SBlocks _, [_; n] => next held (tip + n)
      | STxBlock t _, [_; _; ann; _] =>
          c19_monitor_from (i + 1) held (tip + ann) dl (if ann =? 1 then ph_confirm t ph else ph) ops' tr'
      | SUWaitConn p, [_; c] => if c =? 1 then next_p (ph_set (ckey p) 1 ph) else next_p ph
      | SUListed p, [_; free; listed] =>
          if (ph_get (ckey p) ph =? 1) && (free =? 1) && (listed =? 0) then Some (i, [914]) else next_p ph
      | SUClose p, _ => next_p (filter (fun e => negb (fst e / 100000 =? p + 2)) ph)
      | SUInv p t, [_; pong; n] => if pong =? 1 then next_p (ph_set (mkey p t) (10 + n) ph) else next_p ph
      | SUGetData p t, [_; pong; n] =>
          let q := ph_get (mkey p t) ph in
          if (pong =? 1) && (20 <=? q) && (q - 20 <? n) then Some (i, [913]) else next_p ph
      | STx t true, [_; d] =>
          if d =? 1 then (if existsb (Z.eqb t) dl then Some (i, [910]) else next_d held tip (t :: dl)) else next held tip
      | SApiTx t true, [_; _; d] =>
          if d =? 1 then (if existsb (Z.eqb t) dl then Some (i, [910]) else next_d held tip (t :: dl)) else next held tip
      | SInv t, [_; n] =>
          if 0 <? n then next_p (ph_set t (if ph_get t ph =? 0 then 1 else if ph_get t ph =? 1 then 2 else ph_get t ph) ph)
          else next held tip
      | STxAge, _ => next_p (map (fun e => if snd e =? 2 then (fst e, 3) else e) ph)
      | SGetData t, [_; pong; n] =>
          if (pong =? 1) && (ph_get t ph =? 3) then (if n <? 2 then Some (i, [912]) else next_p (ph_set t 1 ph))
          else next held tip
      | SDelivered k, [_; n] => if n <? k then Some (i, [911]) else next held tip
      | SApiResult, [_; fin; _; _; panics] =>
          if 0 <? panics then Some (i, [908]) else if (fin =? 0) && negb held then Some (i, [909]) else next held tip
      | SAccept, [_; got; last] => if (got =? 1) && negb (last =? tip) then Some (i, [906]) else next held tip
      | SVersion, [_; _; gh; loc] => if (gh =? 1) && negb (loc =? tip) then Some (i, [906]) else next held tip
      | _, _ => next held tip
      end
  | _, _ => Some (i, [897])
  end.
Definition c19_monitor : checker sop := fun ops tr => c19_monitor_from 0 false 0 [] [] ops tr.


(* ================================================================================================ *)
(* The untrusted node (untrusted_node.go): UntrustedNode.Run is the same phased protocol in small -
   its monitorIncoming and monitorRequestTimeouts are the incoming goroutines, its sendOutgoing (the
   same loop as Node.sendOutgoing: after a failed write it keeps emptying the queue) is the processing
   goroutine, its own 100-slot outgoing queue is the channel, Stop only sets its stopping flag.  The
   scenarios of harness component "untrusted" (a real UntrustedNode against a peer that never reads and
   keeps pinging) are therefore run on the same transition system: MI, RT, SO and the outgoing channel
   are the untrusted node's; the other goroutines have nothing to do and leave at the stop.
   "Run returned" is the run loop having finished. *)
Inductive uop := UStart | UFill | UReset | UStop | UCounts | UDrain.

Record uscn := UScn { u_w : sw; u_parked : bool }.   (* parked: sendOutgoing is blocked in the socket write *)

Definition usettle (u : uscn) (w : sw) : sw := settle 900 false false false false (u_parked u) w.
Definition ubsettle (u : uscn) (w : sw) : sw := settle 900 false false false true (u_parked u) w.
Definition udeliver (u : uscn) (w : sw) (k : kind) : sw :=
  let w1 := ubsettle u (sapply w APeerMsg) in
  usettle u (ubsettle u (sapply w1 (AStep MI k 0))).
Definition ulive (s : tstate) : Z := match s with TLive _ _ => 1 | _ => 0 end.

Definition ustep (u : uscn) (o : uop) : uscn * obs :=
  let w := u_w u in
  match o with
  | UStart =>
      (* connect (the dial succeeds once), goroutines start; version exchange: verack + header request queued and written *)
      let w0 := settle 900 true false false false false w in
      let w1 := udeliver u w0 KOut in
      (UScn w1 false, [OK; b2z (0 <? w_gen w1); 1])
  | UFill =>
      (* the peer does not read: the first pong's write blocks; pings until the queue is full *)
      let u1 := UScn w true in
      let w1 := iter 102 (fun w0 => udeliver u1 w0 KOut) w in
      (UScn w1 true, [OK; b2z ((scap <=? o_len (w_ch w1)) && at_send COut (t_mi (w_thr w1)))])
  | UReset =>
      (* the peer resets the connection: the blocked write fails; the sender goes on emptying the queue *)
      let w1 := if u_parked u then sapply w (AStep SO KFail 0) else w in
      let u1 := UScn w1 false in
      (UScn (usettle u1 (sapply w1 APeerClose)) false, [OK])
  | UStop =>
      let w1 := usettle u (sapply (sapply w AStopFlag) AStopReq) in      (* stopping; Run closes the connection *)
      let w2 := if u_parked u then sapply w1 (AStep SO KFail 0) else w1 in   (* ... which fails the blocked write *)
      let u1 := UScn w2 false in
      let w3 := usettle u1 w2 in
      (UScn w3 false, [OK; b2z (stopped w3)])
  | UCounts => (u, [OK; ulive (t_mi (w_thr w)) + ulive (t_rt (w_thr w)); ulive (t_so (w_thr w))])
  | UDrain =>
      let had := 0 <? o_len (w_ch w) in
      (UScn (usettle u (set_ch_len w COut 0)) (u_parked u), [OK; b2z had])
  end.

Fixpoint urun_from (u : uscn) (ops : list uop) : list obs :=
  match ops with
  | [] => []
  | o :: ops' => let '(u1, ob) := ustep u o in ob :: urun_from u1 ops'
  end.
Definition urun (ops : list uop) : list obs := urun_from (UScn sw_init false) ops.

(* 902 the untrusted node's Run did not return within the bound after its Stop *)
Fixpoint c19u_monitor_from (i : Z) (ops : list uop) (tr : list obs) : option (Z * obs) :=
  match ops, tr with
  | [], [] => None
  | UStop :: ops', [_; ret] :: tr' => if ret =? 0 then Some (i, [902]) else c19u_monitor_from (i + 1) ops' tr'
  | _ :: ops', _ :: tr' => c19u_monitor_from (i + 1) ops' tr'
  | _, _ => Some (i, [897])
  end.
Definition c19u_monitor : checker uop := fun ops tr => c19u_monitor_from 0 ops tr.
