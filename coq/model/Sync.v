(* Model of header / block synchronisation with the trusted peer:
     HeadersHandler.Handle + checkStartHeight     internal/handlers/headers.go
     BlockHandler.Handle                          internal/handlers/block.go
     processBlocks (one iteration) + the chain part of ProcessBlock   internal/spynode/blocks.go
     Node.check, buildHeaderRequest               internal/spynode/node.go, outgoing.go
     State flags, CheckTimeouts, Reset            internal/state/state.go, timeouts.go
   The block repository is used through its abstract interface (a list of headers, genesis first),
   which is what C09's refinement theorem justifies; the request window is model/Requests.v.
   Executable definitions only.  A header is (id, prev); a block body is valid or not (its
   transactions hash to the header's merkle root or not). *)
From V.lib Require Import Base.
From V.model Require Import Requests.

Definition hdr := (Z * Z)%type.      (* (id, prev) *)

Record sync := Sync {
  chain : list hdr;                  (* BlockRepository, abstract *)
  rq : rstate;                       (* block request window *)
  valid_of : list (Z * bool);        (* for each buffered block: does its body match the merkle root *)
  ready : bool;                      (* isInSync *)
  pending_sync : bool;
  was_in_sync : bool;
  notified : bool;
  start_height : Z;                  (* -1 until the start block is found *)
  start_hash : Z;                    (* config.StartHash *)
  version_received : bool;
  handshake_complete : bool;
  sent_sendheaders : bool;
  addrs_requested : bool;
  headers_requested : option Z;      (* time of the outstanding getheaders *)
  connected : option Z;
  req_times : list (Z * Z);          (* request time per requested block *)
  now : Z;                           (* clock, seconds *)
}.

Definition genesis_hdr : hdr := (0, -1).

Definition s_init (start : Z) : sync :=
  Sync [genesis_hdr] (r_init 0) [] false false false false (if start =? 0 then 0 else -1) start
       false false false false None None [] 0.

Definition tip (s : sync) : Z := match last (chain s) with Some h => fst h | None => -99 end.
Definition height (s : sync) : Z := zlen (chain s) - 1.
Definition contains (s : sync) (id : Z) : bool := existsb (fun h => fst h =? id) (chain s).
Definition height_of (s : sync) (id : Z) : option Z :=
  (fix go (c : list hdr) (i : Z) := match c with
                                    | [] => None
                                    | h :: c' => if fst h =? id then Some i else go c' (i + 1)
                                    end) (chain s) 0.

Definition is_requested (r : rstate) (h : Z) : bool := existsb (fun x => fst x =? h) (requested r).
Definition is_to_be_requested (r : rstate) (h : Z) : bool := existsb (fun x => x =? h) (to_request r).
Definition total_requests (r : rstate) : Z := zlen (requested r) + zlen (to_request r).
Definition requests_empty (r : rstate) : bool := total_requests r =? 0.

(* field updates *)
Definition upd_chain (s : sync) c := Sync c (rq s) (valid_of s) (ready s) (pending_sync s) (was_in_sync s) (notified s) (start_height s) (start_hash s) (version_received s) (handshake_complete s) (sent_sendheaders s) (addrs_requested s) (headers_requested s) (connected s) (req_times s) (now s).
Definition upd_rq (s : sync) r := Sync (chain s) r (valid_of s) (ready s) (pending_sync s) (was_in_sync s) (notified s) (start_height s) (start_hash s) (version_received s) (handshake_complete s) (sent_sendheaders s) (addrs_requested s) (headers_requested s) (connected s) (req_times s) (now s).
Definition upd_ready (s : sync) b := Sync (chain s) (rq s) (valid_of s) b (pending_sync s) (was_in_sync s) (notified s) (start_height s) (start_hash s) (version_received s) (handshake_complete s) (sent_sendheaders s) (addrs_requested s) (headers_requested s) (connected s) (req_times s) (now s).
Definition upd_pending (s : sync) b := Sync (chain s) (rq s) (valid_of s) (ready s) b (was_in_sync s) (notified s) (start_height s) (start_hash s) (version_received s) (handshake_complete s) (sent_sendheaders s) (addrs_requested s) (headers_requested s) (connected s) (req_times s) (now s).
Definition upd_was (s : sync) b := Sync (chain s) (rq s) (valid_of s) (ready s) (pending_sync s) b (notified s) (start_height s) (start_hash s) (version_received s) (handshake_complete s) (sent_sendheaders s) (addrs_requested s) (headers_requested s) (connected s) (req_times s) (now s).
Definition upd_start (s : sync) h := Sync (chain s) (rq s) (valid_of s) (ready s) (pending_sync s) (was_in_sync s) (notified s) h (start_hash s) (version_received s) (handshake_complete s) (sent_sendheaders s) (addrs_requested s) (headers_requested s) (connected s) (req_times s) (now s).
Definition upd_hreq (s : sync) t := Sync (chain s) (rq s) (valid_of s) (ready s) (pending_sync s) (was_in_sync s) (notified s) (start_height s) (start_hash s) (version_received s) (handshake_complete s) (sent_sendheaders s) (addrs_requested s) t (connected s) (req_times s) (now s).
Definition upd_valid (s : sync) v := Sync (chain s) (rq s) v (ready s) (pending_sync s) (was_in_sync s) (notified s) (start_height s) (start_hash s) (version_received s) (handshake_complete s) (sent_sendheaders s) (addrs_requested s) (headers_requested s) (connected s) (req_times s) (now s).
Definition upd_times (s : sync) t := Sync (chain s) (rq s) (valid_of s) (ready s) (pending_sync s) (was_in_sync s) (notified s) (start_height s) (start_hash s) (version_received s) (handshake_complete s) (sent_sendheaders s) (addrs_requested s) (headers_requested s) (connected s) t (now s).
(* State.ClearInSync: in sync, was in sync and pending sync are all cleared (fix 814efe5) *)
Definition clear_in_sync (s : sync) : sync := upd_pending (upd_was (upd_ready s false) false) false.

Section WithLimits.
Variable MAXR LIM : Z.

(* AddBlockRequest + bookkeeping of the request time *)
Definition request_block (s : sync) (prev h : Z) : sync * bool :=
  let '(r1, res) := add_block_request MAXR LIM (rq s) prev h in
  match res with
  | Ok true => (upd_times (upd_rq s r1) ((h, now s) :: req_times s), true)
  | _ => (upd_rq s r1, false)
  end.

(* checkStartHeight: returns (state, request the block?) *)
Definition check_start_height (s : sync) (h : hdr) : sync * bool :=
  if start_height s =? -1 then
    if start_hash s =? fst h then
      (upd_rq (upd_start s (height s + 1)) (set_last_hash (rq s) (snd h)), true)
    else  (* before the start block: just add the header *)
      (upd_rq (upd_chain s (chain s ++ [h])) (set_last_hash (rq s) (fst h)), false)
  else (s, true).

Definition take_chain (s : sync) (h : Z) : sync := upd_chain s (take (Z.to_nat (h + 1)) (chain s)).

(* the loop of HeadersHandler.Handle.  acc = block hashes to request (getdata);
   result None = unknown header: `return nil, nil` (accumulated getdata dropped) *)
Fixpoint headers_loop (s : sync) (last_hash : Z) (hs : list hdr) (acc : list Z) (modified : bool)
  : sync * option (list Z) * bool :=
  match hs with
  | [] => (s, Some acc, modified)
  | h :: hs' =>
      let id := fst h in let prev := snd h in
      if last_hash =? prev then
        let '(s1, request) := check_start_height s h in
        let '(s2, acc1) := if request
                           then let '(s2, send) := request_block s1 prev id in (s2, if send then acc ++ [id] else acc)
                           else (s1, acc) in
        headers_loop s2 id hs' acc1 true
      else if id =? last_hash then headers_loop s last_hash hs' acc modified
      else if contains s id || is_requested (rq s) id || is_to_be_requested (rq s) id
      then headers_loop s last_hash hs' acc modified
      else if is_requested (rq s) prev || is_to_be_requested (rq s) prev then
        (* reorg in pending blocks *)
        let s1 := upd_rq s (clear_after (rq s) prev) in
        let '(s2, send) := request_block s1 prev id in
        headers_loop s2 id hs' (if send then acc ++ [id] else acc) true
      else
        match height_of s prev with
        | Some rh =>
            if rh =? height s then
              (* reorg on latest block: requests cleared, this header is not added *)
              let s1 := upd_rq (clear_in_sync s) (clear_all (rq s)) in
              headers_loop s1 last_hash hs' acc modified
            else
              (* reorg in processed blocks: revert to the fork point *)
              let s1 := upd_rq (clear_in_sync s) (clear_all (rq s)) in
              let s2 := take_chain s1 rh in
              let s3 := upd_rq s2 (set_last_hash (rq s2) (tip s2)) in
              let '(s4, request) := check_start_height s3 h in
              let '(s5, acc1) := if request
                                 then let '(s5, send) := request_block s4 prev id in (s5, if send then acc ++ [id] else acc)
                                 else (s4, acc) in
              headers_loop s5 id hs' acc1 true
        | None => (clear_in_sync s, None, modified)
            (* unknown header: `return nil, nil` (accumulated getdata dropped); the node is behind the
               peer, ClearInSync makes the periodic check poll with a locator again (fix a4501ac) *)
        end
  end.

Definition handle_headers (s : sync) (hs : list hdr) : sync * option (list Z) :=
  let last_hash := last_hash (rq s) in
  if negb (ready s) && (match hs with
                        | [] => true
                        | [h] => last_hash =? fst h
                        | _ => false
                        end) then
    let s1 := upd_pending s true in
    let s2 := if start_height s1 =? -1 then upd_ready s1 true
              else if requests_empty (rq s1) then upd_ready s1 true else s1 in
    (upd_hreq s2 None, Some [])
  else
    let '(s1, res, modified) := headers_loop s last_hash hs [] false in
    match res with
    | None => (s1, None)
    | Some acc => ((if modified then upd_hreq s1 None else s1), Some acc)
    end.

(* BlockHandler.Handle: AddBlock (unrequested blocks are ignored) *)
Definition handle_block (s : sync) (id : Z) (valid : bool) : sync * bool :=
  let '(r1, ok) := add_block (rq s) id 1 in
  if ok then (upd_valid (upd_rq s r1) ((id, valid) :: filter (fun e => fst e ≠ id) (valid_of s)), true)
  else (s, false).

(* the chain part of ProcessBlock: 0 added, 1 benign refusal (known / not next / bad merkle root) *)
Definition process_block (s : sync) (h : hdr) (valid : bool) : sync * Z :=
  if contains s (fst h) then (s, 1) else
  if negb (snd h =? tip s) then (s, 1) else
  if negb valid then (s, 1) else
  let s1 := upd_chain s (chain s ++ [h]) in
  let s2 := if negb (ready s1) && pending_sync s1 && requests_empty (rq s1) then upd_ready s1 true else s1 in
  (s2, 0).

(* drain GetNextBlockToRequest *)
Fixpoint request_more (fuel : nat) (s : sync) (acc : list Z) : sync * list Z :=
  match fuel with
  | O => (s, acc)
  | S f =>
      let '(r1, res) := get_next MAXR LIM (rq s) in
      match res with
      | Some (h, _) => request_more f (upd_times (upd_rq s r1) ((h, now s) :: req_times s)) (acc ++ [h])
      | None => (s, acc)
      end
  end.

(* one iteration of processBlocks (no refeeder): parent_of gives the header of a popped block *)
Definition process_next (parent_of : Z -> Z) (s : sync) : sync * option (Z * Z) * list Z :=
  let '(r1, popped) := next_block (rq s) in
  match popped with
  | None => (s, None, [])
  | Some id =>
      let s1 := upd_rq s r1 in
      let valid := match find (fun e => fst e =? id) (valid_of s1) with Some e => snd e | None => false end in
      let '(s2, code) := process_block s1 (id, parent_of id) valid in
      let '(s3, reqs) := request_more (Z.to_nat (MAXR + 1)) s2 [] in
      (s3, Some (id, code), reqs)
  end.

(* buildHeaderRequest(delta, max = 50): the block locator *)
Definition hash_at (s : sync) (h : Z) : option Z :=
  if h <? 0 then None else match chain s !! Z.to_nat h with Some x => Some (fst x) | None => None end.

Fixpoint locator_loop (fuel : nat) (s : sync) (delta : Z) (acc : list Z) : list Z :=
  match fuel with
  | O => acc
  | S f =>
      if delta >? height s then acc else
      match hash_at s (height s - delta) with
      | None => acc
      | Some h =>
          let acc1 := acc ++ [h] in
          if zlen acc1 >? 50 then acc1 else
          if height s <=? delta then acc1 else
          locator_loop f s (if delta =? 0 then 1 else delta * 2) acc1
      end
  end.

Definition locator (s : sync) (delta : Z) : list Z :=
  let first := match block_request_hash (rq s) delta with Ok (Some h) => [h] | _ => [] end in
  let l := locator_loop 64 s delta first in
  if zlen l =? 0 then (match hash_at s 0 with Some h => [h] | None => [] end) else l.

(* Node.check: outgoing messages as a list of tagged items *)
Inductive out :=
| OutGetHeaders (loc : list Z)
| OutSendHeaders
| OutGetAddr
| OutInSync.           (* HandleInSync delivered to handlers *)

Definition check (s : sync) : sync * list out :=
  if negb (version_received s) then (s, []) else
  let '(s1, o1) :=
    if negb (handshake_complete s)
    then (Sync (chain s) (rq s) (valid_of s) (ready s) (pending_sync s) (was_in_sync s) (notified s)
               (start_height s) (start_hash s) (version_received s) true (sent_sendheaders s)
               (addrs_requested s) (Some (now s)) (connected s) (req_times s) (now s),
          [OutGetHeaders (locator s 0)])
    else (s, []) in
  if ready s1 then
    let o2 := if negb (sent_sendheaders s1) then [OutSendHeaders] else [] in
    let o3 := if negb (addrs_requested s1) then [OutGetAddr] else [] in
    (* notified only when no announced block is outstanding (fix 488f33b) *)
    let o4 := if negb (notified s1) && requests_empty (rq s1) then [OutInSync] else [] in
    (Sync (chain s1) (rq s1) (valid_of s1) (ready s1) (pending_sync s1) true (notified s1 || requests_empty (rq s1))
          (start_height s1) (start_hash s1) (version_received s1) (handshake_complete s1) true true
          (headers_requested s1) (connected s1) (req_times s1) (now s1),
     o1 ++ o2 ++ o3 ++ o4)
  else if (match headers_requested s1 with None => true | Some _ => false end)
          && (total_requests (rq s1) <? 5) then
    (upd_hreq s1 (Some (now s1)), o1 ++ [OutGetHeaders (locator s1 1)])
  else (s1, o1).

End WithLimits.

(* CheckTimeouts: true = an error is returned (the node restarts the connection) *)
Definition timed_out (HT HDT BT : Z) (s : sync) : bool :=
  (negb (handshake_complete s) && match connected s with Some t => now s - t >? HT | None => false end)
  || (match headers_requested s with Some t => now s - t >? HDT | None => false end)
  || existsb (fun x => match snd x with
                       | None => match find (fun e => fst e =? fst x) (req_times s) with
                                 | Some e => now s - snd e >? BT
                                 | None => false
                                 end
                       | Some _ => false
                       end) (requested (rq s)).

(* State.Reset + MarkConnected (a new connection to the trusted peer) *)
Definition reconnect (s : sync) : sync :=
  Sync (chain s) (reset (rq s)) [] false false false (notified s) (start_height s) (start_hash s)
       false false false (addrs_requested s) None (Some (now s)) [] (now s).

(* a new process on the same storage (everything was saved): Node.load *)
Definition restart_node (s : sync) : sync :=
  let c := chain s in
  let t := match last c with Some h => fst h | None => -99 end in
  let sh := (fix go (c : list hdr) (i : Z) := match c with
                                              | [] => -1
                                              | h :: c' => if fst h =? start_hash s then i else go c' (i + 1)
                                              end) c 0 in
  Sync c (r_init t) [] false false false false sh (start_hash s) false false false false None (Some (now s)) [] (now s).

(* untrusted connection: header verification (UntrustedHeadersHandler) *)
Definition untrusted_headers (DELTA : Z) (s : sync) (verified : bool) (hs : list hdr) : bool * bool :=
  (* returns (verified', error) *)
  if verified then (true, false) else
  match hs with
  | [] => (false, true)
  | h :: rest =>
      match height_of s (fst h) with
      | None => (false, true)
      | Some ht =>
          if ht <? height s - DELTA - 1 then (false, true) else
          let linked := (fix go (prev : Z) (l : list hdr) := match l with
                                                             | [] => true
                                                             | x :: l' => (snd x =? prev) && go (fst x) l'
                                                             end) (fst h) rest in
          if linked then (true, false) else (false, true)
      end
  end.

(* ---------------------------------------------------------------------------------------- *)
Inductive op :=
| OVersion
| OHeaders (hs : list hdr)
| OBlockMsg (id : Z) (valid : bool)
| OProcess
| OCheck
| OAdvance (dt : Z)
| OTimeouts
| OReconnect
| ORestartNode
| OUBlockMsg (id : Z) (valid : bool)      (* block message on an untrusted connection *)
| OUHeaders (hs : list hdr)               (* headers message on an untrusted connection *)
| OUTx (t : Z)                            (* tx message on an untrusted connection *)
| OUInv (t : Z).                          (* inv message on an untrusted connection *)

Record world := World { w_sync : sync; w_uverified : bool }.

Fixpoint linked_from (prev : Z) (c : list hdr) : bool :=
  match c with
  | [] => true
  | h :: c' => (snd h =? prev) && linked_from (fst h) c'
  end.

Fixpoint nodup_ids (c : list hdr) : bool :=
  match c with
  | [] => true
  | h :: c' => negb (existsb (fun x => fst x =? fst h) c') && nodup_ids c'
  end.

(* digest appended to every observation:
   ready, pending sync, start height, state last hash, #requested, #to request,
   linked?, hash<->height inverse?, chain length, chain ids *)
Definition digest (s : sync) : list Z :=
  [b2z (ready s); b2z (pending_sync s); start_height s; last_hash (rq s);
   zlen (requested (rq s)); zlen (to_request (rq s));
   b2z (match chain s with [] => true | h :: c' => linked_from (fst h) c' end);
   b2z (nodup_ids (chain s)); zlen (chain s)] ++ map fst (chain s).

Definition enc_out (o : out) : list Z :=
  match o with
  | OutGetHeaders loc => 1 :: zlen loc :: loc
  | OutSendHeaders => [2]
  | OutGetAddr => [3]
  | OutInSync => [4]
  end.

Section Step.
Variable MAXR LIM HT HDT BT DELTA : Z.
Variable parent_of : Z -> Z.

Definition step (w : world) (o : op) : world * obs :=
  let s := w_sync w in
  (* every observation is: outcome code, digest of the state after the step, payload *)
  let ret s1 (ob : list Z) := (World s1 (w_uverified w), hd 0 ob :: digest s1 ++ tl ob) in
  match o with
  | OVersion =>
      ret (Sync (chain s) (rq s) (valid_of s) (ready s) (pending_sync s) (was_in_sync s) (notified s)
                (start_height s) (start_hash s) true (handshake_complete s) (sent_sendheaders s)
                (addrs_requested s) (headers_requested s) (connected s) (req_times s) (now s)) [OK]
  | OHeaders hs =>
      let '(s1, res) := handle_headers MAXR LIM s hs in
      ret s1 (match res with
              | Some reqs => OK :: 1 :: zlen reqs :: reqs
              | None => [OK; 0]            (* unknown header: nothing is sent *)
              end)
  | OBlockMsg id valid => let '(s1, ok) := handle_block s id valid in ret s1 [OK]
  | OProcess =>
      let '(s1, popped, reqs) := process_next MAXR LIM parent_of s in
      ret s1 (match popped with
              | None => [OK; 0]
              | Some (id, code) =>
                  (* code 0: the block was added and announced: HandleHeaders(height, id) *)
                  OK :: 1 :: id :: code :: (if code =? 0 then [height s1; id] else []) ++ zlen reqs :: reqs
              end)
  | OCheck => let '(s1, outs) := check s in ret s1 (OK :: concat (map enc_out outs))
  | OAdvance dt =>
      ret (Sync (chain s) (rq s) (valid_of s) (ready s) (pending_sync s) (was_in_sync s) (notified s)
                (start_height s) (start_hash s) (version_received s) (handshake_complete s) (sent_sendheaders s)
                (addrs_requested s) (headers_requested s) (connected s) (req_times s) (now s + dt)) [OK]
  | OTimeouts => if timed_out HT HDT BT s then ret (reconnect s) [OK; 1] else ret s [OK; 0]
  | OReconnect => ret (reconnect s) [OK]
  | ORestartNode => (World (restart_node s) false, OK :: digest (restart_node s))   (* new process: untrusted connections are new too *)
  | OUBlockMsg id valid => ret s [OK]           (* untrusted connections have no block handler *)
  | OUHeaders hs =>
      let '(v, err) := untrusted_headers DELTA s (w_uverified w) hs in
      (World s v, (if err then ERR else OK) :: digest s ++ [b2z v])
  (* before the untrusted connection is verified its inv / tx messages are dropped; afterwards they
     enter the transaction pipeline (model/TxFlow.v, source SUntrusted) - here only the gate *)
  | OUTx t => (w, OK :: digest s ++ [b2z (w_uverified w)])
  | OUInv t => (w, OK :: digest s ++ [b2z (w_uverified w)])
  end.

Fixpoint run_from (w : world) (ops : list op) : list obs :=
  match ops with
  | [] => []
  | o :: ops' => let '(w1, ob) := step w o in ob :: run_from w1 ops'
  end.

End Step.

Definition table_fn (tbl : list (Z * Z)) (x : Z) : Z :=
  match find (fun e => fst e =? x) tbl with Some e => snd e | None => x - 1 end.
(* (an id outside the table has the parent id - 1, so that the parent function of a table whose parents are
   smaller than their children is acyclic: the rank hypothesis of the theorems is satisfiable with rk = id) *)

(* the harness starts from a fresh node: load on empty storage, connection just made *)
Definition run (MAXR LIM HT HDT BT DELTA : Z) (parents : list (Z * Z)) (start : Z) (ops : list op) : list obs :=
  let s0 := s_init start in
  let s0 := Sync (chain s0) (rq s0) (valid_of s0) (ready s0) (pending_sync s0) (was_in_sync s0) (notified s0)
                 (start_height s0) (start_hash s0) false false false false None (Some 0) [] 0 in
  run_from MAXR LIM HT HDT BT DELTA (table_fn parents) (World s0 false) ops.
