(* Property monitor for C02 (and the chain part of C12): reads the operations and the digests /
   announcements observed after every step. *)
From V.lib Require Import Base.
From V.model Require Import Requests Sync.

(* observation = code :: [ready; pending; start; lasthash; nreq; ntoreq; linked; inverse; L] ++ ids(L) ++ payload *)
Record dg := DG { d_ready : bool; d_linked : bool; d_inverse : bool; d_nreq : Z; d_start : Z; d_chain : list Z; d_payload : list Z }.

Definition parse_obs (ob : obs) : option dg :=
  match ob with
  | _ :: r :: _ :: st :: _ :: nreq :: _ :: lk :: inv :: L :: rest =>
      if (L <? 0) || (zlen rest <? L) then None
      else Some (DG (negb (r =? 0)) (negb (lk =? 0)) (negb (inv =? 0)) nreq st
                    (take (Z.to_nat L) rest) (drop (Z.to_nat L) rest))
  | _ => None
  end.

Fixpoint is_prefix (a b : list Z) : bool :=
  match a, b with
  | [], _ => true
  | x :: a', y :: b' => (x =? y) && is_prefix a' b'
  | _, _ => false
  end.

Fixpoint common_prefix (a b : list Z) : list Z :=
  match a, b with
  | x :: a', y :: b' => if x =? y then x :: common_prefix a' b' else []
  | _, _ => []
  end.

Fixpoint zeq (a b : list Z) : bool :=
  match a, b with
  | [], [] => true
  | x :: a', y :: b' => (x =? y) && zeq a' b'
  | _, _ => false
  end.

(* code of the objection or 0.  pstart = the start height in the digest BEFORE the step (-1: start block
   not found yet; -2: no digest seen yet, the first step) *)
Definition c02_step (MAXR : Z) (pstart : Z) (prev : list Z) (o : op) (d : dg) : Z :=
  if negb (d_linked d) then 201 else                       (* a stored block's parent is not the block below it *)
  if negb (d_inverse d) then 202 else                      (* height->hash and hash->height are not inverse *)
  if d_nreq d >? MAXR then 203 else                        (* more than ten requested blocks outstanding *)
  match o with
  | OProcess =>
      match d_payload d with
      | 1 :: id :: 0 :: h :: id' :: _ =>                   (* block added and announced *)
          if negb (id =? id') then 211 else
          if negb (h =? zlen prev) then 212 else           (* announced height is not tip + 1 *)
          if negb (zeq (d_chain d) (prev ++ [id])) then 213 else 0   (* not added on top of the tip *)
      | _ => if negb (zeq (d_chain d) prev) then 214 else 0  (* the chain changed without an announcement *)
      end
  | OHeaders _ =>
      (* the chain may be reverted to a fork point (never below genesis); everything kept is a prefix of
         what was there *)
      if zlen (common_prefix prev (d_chain d)) <? 1 then 221 else
      (* once the start block is found a headers message only ever REVERTS: every block above the fork
         point enters through a process step (requested, processed, announced at fork+1, fork+2, ...) *)
      if (0 <=? pstart) && negb (is_prefix (d_chain d) prev) then 222 else
      (* before that it may also store bare headers - but only below the start block: in the message
         that finds the start block at height s nothing is stored at height >= s *)
      if (pstart =? -1) && (0 <=? d_start d) && (d_start d <? zlen (d_chain d)) then 223 else 0
  | _ => if negb (zeq (d_chain d) prev) then 231 else 0     (* no other step touches the chain *)
  end.

Fixpoint c02_from (MAXR : Z) (pstart : Z) (prev : list Z) (i : Z) (ops : list op) (tr : list obs) : option (Z * obs) :=
  match ops, tr with
  | o :: ops', ob :: tr' =>
      match parse_obs ob with
      | None => Some (i, [299])
      | Some d =>
          let code := c02_step MAXR pstart prev o d in
          if negb (code =? 0) then Some (i, [code]) else c02_from MAXR (d_start d) (d_chain d) (i + 1) ops' tr'
      end
  | [], [] => None
  | _, _ => Some (i, [297])
  end.

Definition c02_monitor (MAXR : Z) : checker op := fun ops tr => c02_from MAXR (-2) [0] 0 ops tr.

(* C12 (chain part): steps of untrusted connections change nothing the trusted sync depends on *)
Fixpoint c12_from (prev : list Z) (i : Z) (ops : list op) (tr : list obs) : option (Z * obs) :=
  match ops, tr with
  | o :: ops', ob :: tr' =>
      let this := match ob with _ :: rest => take (9 + Z.to_nat (nth 8 rest 0)) rest | [] => [] end in
      match o with
      | OUBlockMsg _ _ | OUHeaders _ | OUTx _ | OUInv _ =>
          if negb (zeq this prev) && negb (i =? 0) then Some (i, [301]) else c12_from this (i + 1) ops' tr'
      | _ => c12_from this (i + 1) ops' tr'
      end
  | [], [] => None
  | _, _ => Some (i, [397])
  end.

Definition c12_monitor : checker op := fun ops tr => c12_from [] 0 ops tr.

(* Histories: every header mentioned comes from one block tree given by parent_of, with a rank
   (height in the tree) that strictly increases from parent to child; 0 is genesis. *)
Definition op_headers (o : op) : list hdr :=
  match o with OHeaders hs | OUHeaders hs => hs | _ => [] end.

Definition sync_valid (parent_of : Z -> Z) (rk : Z -> Z) (ops : list op) : Prop :=
  (forall id, id <> 0 -> rk (parent_of id) < rk id) /\
  Forall (fun o => Forall (fun h => fst h <> 0 /\ snd h = parent_of (fst h)) (op_headers o)) ops /\
  Forall (fun o => match o with OBlockMsg id _ | OUBlockMsg id _ => id <> 0 | _ => True end) ops.

(* the world after a history (same initial state as `run`) *)
Definition w_init (start : Z) : world :=
  let s0 := s_init start in
  World (Sync (chain s0) (rq s0) (valid_of s0) (ready s0) (pending_sync s0) (was_in_sync s0) (notified s0)
              (start_height s0) (start_hash s0) false false false false None (Some 0) [] 0) false.

Definition w_after (MAXR LIM HT HDT BT DELTA : Z) (parents : list (Z * Z)) (start : Z) (ops : list op) : world :=
  fold_left (fun w o => fst (step MAXR LIM HT HDT BT DELTA (table_fn parents) w o)) ops (w_init start).

Definition chain_ok (c : list hdr) : Prop :=
  (exists c', c = genesis_hdr :: c') /\
  linked_from (-1) c = true /\
  nodup_ids c = true.

(* trusted / untrusted split of a history *)
Definition is_untrusted_op (o : op) : bool :=
  match o with OUBlockMsg _ _ | OUHeaders _ | OUTx _ | OUInv _ => true | _ => false end.

Fixpoint trusted_part {A} (ops : list op) (xs : list A) : list A :=
  match ops, xs with
  | o :: ops', x :: xs' => if is_untrusted_op o then trusted_part ops' xs' else x :: trusted_part ops' xs'
  | _, _ => []
  end.

(* C12 (gating): an untrusted connection's inv / tx messages are processed only after it was verified,
   and it is verified only by a headers message whose first header is on the node's chain no more
   than DELTA + 1 below the tip and whose headers link to each other - judged by the monitor itself
   from the chain in the digest.
   302 an inv / tx of an unverified untrusted connection was processed (or one of a verified one dropped)
   303 the connection's verified flag after a headers message is not what the rule says *)
Fixpoint index_of (id : Z) (c : list Z) (i : Z) : option Z :=
  match c with
  | [] => None
  | x :: c' => if x =? id then Some i else index_of id c' (i + 1)
  end.

Definition verify_rule (DELTA : Z) (c : list Z) (hs : list hdr) : bool :=
  match hs with
  | [] => false
  | h :: rest =>
      match index_of (fst h) c 0 with
      | None => false
      | Some ht => if ht <? (zlen c - 1) - DELTA - 1 then false else linked_from (fst h) rest
      end
  end.

Fixpoint gate_from (DELTA : Z) (ver : bool) (i : Z) (ops : list op) (tr : list obs) : option (Z * obs) :=
  match ops, tr with
  | o :: ops', ob :: tr' =>
      match parse_obs ob with
      | None => Some (i, [399])
      | Some d =>
          match o with
          | OUHeaders hs =>
              let v' := ver || verify_rule DELTA (d_chain d) hs in
              if zeq (d_payload d) [b2z v'] then gate_from DELTA v' (i + 1) ops' tr' else Some (i, [303])
          | OUTx _ | OUInv _ =>
              if zeq (d_payload d) [b2z ver] then gate_from DELTA ver (i + 1) ops' tr' else Some (i, [302])
          | ORestartNode => gate_from DELTA false (i + 1) ops' tr'
          | _ => gate_from DELTA ver (i + 1) ops' tr'
          end
      end
  | [], [] => None
  | _, _ => Some (i, [397])
  end.

Definition c12_gate_monitor (DELTA : Z) : checker op := fun ops tr => gate_from DELTA false 0 ops tr.
