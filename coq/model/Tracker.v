(* Model of announced-transaction requests (property C14):
     MemPool.AddRequest                              internal/state/mempool.go (model/MemPool.v)
     InvHandler / UntrustedInvHandler                internal/handlers/inventory.go, untrusted_inventory.go
     TxTracker.Add / Remove / RemoveList / Check     internal/state/tx_tracker.go
     Node.check -> txTracker.Check, CleanupBlock     internal/spynode/node.go, untrusted_node.go
   Connection 0 is the trusted one; connections 1.. are (verified) untrusted ones; they share the
   mempool.  Executable definitions only. *)
From V.lib Require Import Base.
From V.model Require Import MemPool.

Record tstate := TS {
  tmp : mempool;
  trackers : list (list Z);     (* per connection: tracked txids (a set; kept sorted) *)
  tnow : Z;
}.

Definition t_init (nconn : nat) : tstate := TS mp_init (replicate nconn []) 0.

Fixpoint insert_sorted (x : Z) (l : list Z) : list Z :=
  match l with
  | [] => [x]
  | y :: l' => if x <? y then x :: l else if x =? y then l else y :: insert_sorted x l'
  end.

Definition tracker_of (s : tstate) (c : nat) : list Z := default [] (trackers s !! c).
Definition set_tracker (s : tstate) (c : nat) (l : list Z) : tstate :=
  TS (tmp s) (<[c := l]> (trackers s)) (tnow s).

(* inv handler of connection c for one txid: returns whether a getdata goes out *)
Definition inv_step (s : tstate) (c : nat) (t : Z) : tstate * bool :=
  let '(m1, (have, req)) := add_request (tmp s) (tnow s) t (Nat.eqb c 0) in
  let s1 := TS m1 (trackers s) (tnow s) in
  if have then (s1, false)
  else if req then (s1, true)
  else (set_tracker s1 c (insert_sorted t (tracker_of s1 c)), false).

(* TxTracker.Check of connection c: (the Go map is iterated in random order; requests for different
   txids do not influence each other, so the canonical order is the sorted one) *)
Fixpoint check_loop (m : mempool) (now : Z) (l : list Z) (keep req : list Z) : mempool * list Z * list Z :=
  match l with
  | [] => (m, keep, req)
  | t :: l' =>
      let '(m1, (have, r)) := add_request m now t false in
      if have then check_loop m1 now l' keep req
      else if r then check_loop m1 now l' keep (req ++ [t])
      else check_loop m1 now l' (keep ++ [t]) req
  end.

Definition tracker_check (s : tstate) (c : nat) : tstate * list Z :=
  let '(m1, keep, req) := check_loop (tmp s) (tnow s) (tracker_of s c) [] [] in
  (set_tracker (TS m1 (trackers s) (tnow s)) c keep, req).

(* the body of t arrives (from any connection) and is processed: mempool add; the TRUSTED
   connection's tracker forgets it at once, the others when their next check finds it held *)
Definition body_step (s : tstate) (t : Z) (body : list Z) (trusted : bool) : tstate :=
  let '(m1, _) := add_transaction (tmp s) (tnow s) t body trusted in
  set_tracker (TS m1 (trackers s) (tnow s)) 0 (filter (fun x => x ≠ t) (tracker_of s 0)).

(* a processed block confirms txids: removed from the mempool, forgotten by every tracker *)
Definition confirm_step (s : tstate) (ts : list Z) : tstate :=
  let m1 := fold_left (fun m t => fst (remove_transaction m t)) ts (tmp s) in
  TS m1 (map (filter (fun x => negb (mem x ts) = true)) (trackers s)) (tnow s).

Inductive op :=
| OInv (c : nat) (t : Z)
| OCheck (c : nat)
| OBody (t : Z) (body : list Z) (trusted : bool)
| OConfirm (ts : list Z)
| OAdvance (dt : Z)
| OTracked (c : nat).         (* verif accessor *)

Definition step (s : tstate) (o : op) : tstate * obs :=
  match o with
  | OInv c t => let '(s1, req) := inv_step s c t in (s1, [OK; b2z req])
  | OCheck c => let '(s1, req) := tracker_check s c in (s1, OK :: req)
  | OBody t body tr => (body_step s t body tr, [OK])
  | OConfirm ts => (confirm_step s ts, [OK])
  | OAdvance dt => (TS (tmp s) (trackers s) (tnow s + dt), [OK])
  | OTracked c => (s, OK :: tracker_of s c)
  end.

Fixpoint run_from (s : tstate) (ops : list op) : list obs :=
  match ops with
  | [] => []
  | o :: ops' => let '(s1, ob) := step s o in ob :: run_from s1 ops'
  end.

Definition run (nconn : nat) (ops : list op) : list obs := run_from (t_init nconn) ops.

(* ---------------------------------------------------------------------------------------- *)
(* Property monitor: reads operations and observed getdata requests only. *)
Record tm := TM {
  k_last : list (Z * Z);        (* txid -> time of the last getdata for it (while the request is active) *)
  k_held : list Z;              (* txids whose body is held *)
  k_tracked : list (nat * Z);   (* (connection, txid): announced by that connection while another request was active *)
  k_clock : Z;
  k_confirmed : list Z;         (* confirmed in a processed block and not announced again since *)
}.

Definition last_req (m : tm) (t : Z) : option Z :=
  match find (fun e => fst e =? t) (k_last m) with Some e => Some (snd e) | None => None end.

Definition set_last (m : tm) (t : Z) : list (Z * Z) :=
  (t, k_clock m) :: filter (fun e => fst e ≠ t) (k_last m).

Definition active (m : tm) (t : Z) : bool :=
  match last_req m t with Some t0 => k_clock m - t0 <=? REQ_WINDOW | None => false end.

Definition untrack (c : nat) (t : Z) (l : list (nat * Z)) : list (nat * Z) :=
  filter (fun e => negb (Nat.eqb (fst e) c && (snd e =? t)) = true) l.

(* a getdata for t goes out now *)
Definition on_request (m : tm) (t : Z) : Z * tm :=
  let code := if mem t (k_held m) then 401          (* requested although the body is held *)
              else if active m t then 402           (* second request within the three-second window *)
              else 0 in
  (code, TM (set_last m t) (k_held m) (k_tracked m) (k_clock m) (k_confirmed m)).

Definition c14_step (m : tm) (o : op) (ob : obs) : Z * tm :=
  let m := match o with
           | OInv _ t => TM (k_last m) (k_held m) (k_tracked m) (k_clock m) (filter (fun x => x ≠ t) (k_confirmed m))
           | _ => m
           end in
  match o, ob with
  | OInv c t, [_; req] =>
      if negb (req =? 0) then
        let '(code, m1) := on_request m t in
        (code, TM (k_last m1) (k_held m1) (untrack c t (k_tracked m1)) (k_clock m1) (k_confirmed m1))
      else
        (* not requested: the body is held, or another request is active within the window *)
        if mem t (k_held m) then (0, m)
        else if active m t
        then (0, TM (k_last m) (k_held m) ((c, t) :: untrack c t (k_tracked m)) (k_clock m) (k_confirmed m))
        else (403, m)                               (* announced, not held, nobody asked: must be requested *)
  | OCheck c, _ :: reqs =>
      (* everything this connection tracks whose window expired without a body is requested now *)
      let due := filter (fun e => (Nat.eqb (fst e) c && negb (mem (snd e) (k_held m)) && negb (active m (snd e))) = true)
                        (k_tracked m) in
      if existsb (fun e => negb (mem (snd e) reqs)) due then (405, m) else
      (* nothing confirmed in a processed block (and not announced again since) is asked for *)
      if existsb (fun t => mem t (k_confirmed m)) reqs then (407, m) else
      let '(code, m1) := fold_left (fun '(code, m) t => if code =? 0 then on_request m t else (code, m)) reqs (0, m) in
      (code, TM (k_last m1) (k_held m1)
                (filter (fun e => negb (Nat.eqb (fst e) c && (mem (snd e) reqs || mem (snd e) (k_held m))) = true) (k_tracked m1))
                (k_clock m1) (k_confirmed m1))
  | OBody t body _, _ =>
      (0, TM (filter (fun e => fst e ≠ t) (k_last m))
             (if (zlen body =? 0) || mem t (k_held m) then k_held m else t :: k_held m)
             (untrack 0 t (k_tracked m)) (k_clock m) (k_confirmed m))
  | OConfirm ts, _ =>
      (0, TM (filter (fun e => negb (mem (fst e) ts) = true) (k_last m))
             (filter (fun x => negb (mem x ts) = true) (k_held m))
             (filter (fun e => negb (mem (snd e) ts) = true) (k_tracked m)) (k_clock m) (ts ++ k_confirmed m))
  | OAdvance dt, _ => (0, TM (k_last m) (k_held m) (k_tracked m) (k_clock m + dt) (k_confirmed m))
  | OTracked c, _ :: l =>
      (* confirmed_forgotten: no connection still tracks a transaction confirmed in a processed block
         (unless it was announced again afterwards) *)
      ((if existsb (fun t => mem t (k_confirmed m)) l then 406 else 0), m)
  | _, _ => (499, m)
  end.

Fixpoint c14_from (m : tm) (i : Z) (ops : list op) (tr : list obs) : option (Z * obs) :=
  match ops, tr with
  | o :: ops', ob :: tr' =>
      let '(code, m1) := c14_step m o ob in
      if negb (code =? 0) then Some (i, [code]) else c14_from m1 (i + 1) ops' tr'
  | [], [] => None
  | _, _ => Some (i, [497])
  end.

Definition c14_monitor : checker op := fun ops tr => c14_from (TM [] [] [] 0 []) 0 ops tr.

(* histories: connection numbers exist, the clock does not run backwards, a transaction body has at
   least one input (a zero-input body is never recognised as held by the mempool - recorded as a
   precondition), and a txid always comes with the same body *)
Definition c14_valid (nconn : nat) (ops : list op) : bool :=
  forallb (fun o => match o with
                    | OInv c _ | OCheck c | OTracked c => (c <? nconn)%nat
                    | OAdvance dt => 0 <=? dt
                    | OBody _ body _ => negb (zlen body =? 0)
                    | _ => true
                    end) ops.
