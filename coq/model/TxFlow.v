(* Model of the transaction pipeline of the node (after the fix: commits):
     processUnconfirmedTx / fetchSpentOutputs   internal/spynode/transactions.go
     ProcessBlock (transaction part)            internal/spynode/blocks.go
     one iteration of checkTxDelays             internal/spynode/node.go
     TxRepository unconfirmed set               internal/storage/transactions.go, unconfirmed.go
   reorganisation by the headers handler      internal/handlers/headers.go (revert of chain, per-height files, in-sync)
     tx state store                             internal/storage/tx.go
     trusted / untrusted / local entry points   internal/handlers/transaction.go, untrusted_transaction.go
   Executable definitions only.  Relevance (the subscription filter, C08) is a boolean carried by
   each transaction; a transaction body is the list of outpoints it spends; outpoint o is output
   (o mod 10) of transaction (o / 10); universe transaction p has (nouts p) outputs (3, or 5 when p mod 4 = 3) and output k of
   transaction p carries the value 10 p + k, so that a spent output is identified by its outpoint id. *)
From V.lib Require Import Base.
From V.model Require Import MemPool.

Definition NOUTS : Z := 3.
Definition nouts (p : Z) : Z := if p mod 4 =? 3 then 5 else NOUTS.

Record tstate := TState {
  s_safe : bool; s_unsafe : bool; s_cancel : bool;
  s_depth : Z;                 (* UnconfirmedDepth *)
  s_proof : option Z;          (* merkle proof: the block it is for *)
  s_outs : list Z;             (* spent outputs, per input *)
  s_body : list Z;             (* the stored transaction itself (client.Tx.Tx): the outpoints it spends *)
}.

Record utx := UTx { u_time : Z; u_unsafe : bool; u_safe : bool; u_trusted : bool }.

Record node := Node {
  mp : mempool;
  unconf : gmap Z utx;             (* TxRepository.unconfirmed *)
  states : gmap Z tstate;          (* stored tx states (written through to storage) *)
  blocktxs : gmap Z (list Z);      (* per-height relevant txids *)
  chain : list Z;                  (* block ids, genesis first *)
  insync : bool;                   (* state.IsReady *)
  now : Z;                         (* clock, ms *)
  delay : Z;                       (* config.SafeTxDelay *)
}.

Definition n_init (delay : Z) : node := Node mp_init ∅ ∅ ∅ [0] false 0 delay.

(* events delivered to handlers *)
Inductive event :=
| ETx (t : Z) (s : tstate)
| EUpdate (t : Z) (s : tstate)
| EHeaders (height b : Z).

Definition enc_state (s : tstate) : list Z :=
  [b2z (s_safe s); b2z (s_unsafe s); b2z (s_cancel s); s_depth s;
   match s_proof s with Some b => b | None => -1 end].

Definition enc_event (e : event) : list Z :=
  match e with
  | ETx t s => 1 :: t :: enc_state s ++ zlen (s_outs s) :: s_outs s
  | EUpdate t s => 2 :: t :: enc_state s
  | EHeaders h b => [3; h; b]
  end.

Definition enc_events (es : list event) : list Z := concat (map enc_event es).

Definition set_mp (n : node) (m : mempool) : node :=
  Node m (unconf n) (states n) (blocktxs n) (chain n) (insync n) (now n) (delay n).
Definition set_unconf (n : node) (u : gmap Z utx) : node :=
  Node (mp n) u (states n) (blocktxs n) (chain n) (insync n) (now n) (delay n).
Definition set_states (n : node) (s : gmap Z tstate) : node :=
  Node (mp n) (unconf n) s (blocktxs n) (chain n) (insync n) (now n) (delay n).
Definition set_blocktxs (n : node) (b : gmap Z (list Z)) : node :=
  Node (mp n) (unconf n) (states n) b (chain n) (insync n) (now n) (delay n).

(* fetchSpentOutputs: stored parent first, fetcher otherwise (answers in order), coinbase and
   out-of-range indexes of a stored parent give the zero output *)
Definition spent_outputs (n : node) (body : list Z) : list Z :=
  map (fun o => if o <? 0 then 0 else
                match states n !! (o / 10) with
                | Some _ => if o mod 10 <? nouts (o / 10) then o else 0
                | None => o
                end) body.

(* the conflict loop of processUnconfirmedTx *)
Fixpoint mark_conflicts (n : node) (cs : list Z) (acc : list event) : node * list event :=
  match cs with
  | [] => (n, acc)
  | c :: cs' =>
      match unconf n !! c with
      | None => mark_conflicts n cs' acc                       (* MarkUnsafe: not relevant *)
      | Some u =>
          let n1 := set_unconf n (<[c := UTx (u_time u) true (u_safe u) (u_trusted u)]> (unconf n)) in
          match states n1 !! c with
          | None => mark_conflicts n1 cs' acc                  (* FetchTxState failed: continue *)
          | Some s =>
              let s1 := TState false true (s_cancel s) (s_depth s) (s_proof s) (s_outs s) (s_body s) in
              mark_conflicts (set_states n1 (<[c := s1]> (states n1))) cs' (acc ++ [EUpdate c s1])
          end
      end
  end.

Definition in_chain (n : node) (b : Z) : bool := mem b (chain n).

(* processUnconfirmedTx(TxData{Msg, Trusted, Safe, -1}) *)
Definition process_unconfirmed (n : node) (t : Z) (body : list Z) (rel trusted safe : bool)
  : node * list event :=
  let '(m1, (conflicts, trusted1, added)) := add_transaction (mp n) (now n) t body trusted in
  let n := set_mp n m1 in
  if negb added then (n, []) else
  let trusted := trusted || trusted1 in
  let '(n, evs) := mark_conflicts n conflicts [] in
  if negb rel then (set_unconf n (delete t (unconf n)), evs) else
  match unconf n !! t with
  | Some u =>   (* TxRepository.Add: already there -> not added; newly safe is notified *)
      let u1 := UTx (u_time u) (u_unsafe u) (u_safe u || safe) (u_trusted u || trusted) in
      let n := set_unconf n (<[t := u1]> (unconf n)) in
      if negb (zlen conflicts =? 0) then
        (* markTxUnsafe(t): delivered earlier, no longer in the mempool (restart), conflict known now *)
        let n := set_unconf n (<[t := UTx (u_time u1) true (u_safe u1) (u_trusted u1)]> (unconf n)) in
        match states n !! t with
        | None => (n, evs)
        | Some s =>
            let s1 := TState false true (s_cancel s) (s_depth s) (s_proof s) (s_outs s) (s_body s) in
            (set_states n (<[t := s1]> (states n)), evs ++ [EUpdate t s1])
        end
      else if safe && negb (u_safe u) then
        match states n !! t with
        | None => (n, evs)
        | Some s =>
            if s_safe s || s_unsafe s || s_cancel s then (n, evs) else
            let s1 := TState true (s_unsafe s) (s_cancel s) (s_depth s) (s_proof s) (s_outs s) (s_body s) in
            (set_states n (<[t := s1]> (states n)), evs ++ [EUpdate t s1])
        end
      else (n, evs)
  | None =>
      let n := set_unconf n (<[t := UTx (now n) false safe trusted]> (unconf n)) in
      let newly_safe := safe in
      let existing := states n !! t in
      let confirmed := match existing with
                       | Some s => match s_proof s with Some b => in_chain n b | None => false end
                       | None => false
                       end in
      if confirmed then
        (* already delivered with its confirmation: it is taken out of the mempool again (only transactions
           that were judged not relevant stay in the mempool without being in the unconfirmed set) *)
        (set_mp (set_unconf n (delete t (unconf n))) (fst (remove_transaction (mp n) t)), evs)
      else
        let s0 := match existing with
                  | Some s => s
                  | None => TState false false false 0 None (spent_outputs n body) body
                  end in
        let depth := match s_proof s0 with None => 1 | Some _ => s_depth s0 end in
        let s1 := if negb (zlen conflicts =? 0)
                  then TState false true (s_cancel s0) depth (s_proof s0) (s_outs s0) (s_body s0)
                  else
                    (* a state that was unsafe or cancelled (it was stored before the block that confirmed the
                       transaction was orphaned) is never made safe *)
                    TState ((safe || newly_safe) && negb (s_unsafe s0 || s_cancel s0)) (s_unsafe s0) (s_cancel s0)
                           depth (s_proof s0) (s_outs s0) (s_body s0) in
        (set_states n (<[t := s1]> (states n)), evs ++ [ETx t s1])
  end.

(* ---- ProcessBlock ---- *)

(* a transaction of a block: id, body, relevant *)
Definition btx := (Z * list Z * bool)%type.

Definition remove_one (x : Z) (l : list Z) : bool * list Z :=
  if mem x l then (true, (fix go l := match l with
                                      | [] => []
                                      | y :: l' => if y =? x then l' else y :: go l'
                                      end) l)
  else (false, l).

(* cancel loop for one block transaction; None = ProcessBlock fails (fetch tx state) *)
Fixpoint cancel_conflicts (n : node) (t : Z) (unc : list Z) (cs : list Z) (safe : bool) (acc : list event)
  : option (node * bool * list event) :=
  match cs with
  | [] => Some (n, safe, acc)
  | c :: cs' =>
      if c =? t then cancel_conflicts n t unc cs' safe acc else
      if mem c unc then
        match states n !! c with
        | None => None
        | Some s =>
            let s1 := TState false true true (s_depth s) (s_proof s) (s_outs s) (s_body s) in
            cancel_conflicts (set_states n (<[c := s1]> (states n))) t unc cs' false (acc ++ [EUpdate c s1])
        end
      else cancel_conflicts n t unc cs' false acc
  end.

Definition add_blocktx (n : node) (h t : Z) : node :=
  let l := default [] (blocktxs n !! h) in
  if mem t l then n else set_blocktxs n (<[h := l ++ [t]]> (blocktxs n)).

Definition remove_blocktx (n : node) (h t : Z) : node :=
  match blocktxs n !! h with
  | Some l => if mem t l then set_blocktxs n (<[h := snd (remove_one t l)]> (blocktxs n)) else n
  | None => n
  end.

(* first loop over the block's transactions.
   pending : (txid, body, is_new, is_safe) in registration order *)
Fixpoint block_txs (n : node) (h : Z) (unc : list Z) (txs : list btx)
         (pending : list (Z * list Z * bool * bool)) (acc : list event)
  : option (node * list Z * list (Z * list Z * bool * bool) * list event) :=
  match txs with
  | [] => Some (n, unc, pending, acc)
  | (t, body, rel) :: txs' =>
      let '(in_unc, unc1) := remove_one t unc in
      let '(n1, in_mp) := if insync n then let '(m, b) := remove_transaction (mp n) t in (set_mp n m, b)
                          else (n, false) in
      let '(m2, cs) := conflicting (mp n1) body in
      let n2 := set_mp n1 m2 in
      match cancel_conflicts n2 t unc1 cs true acc with
      | None => None
      | Some (n3, is_safe, acc1) =>
          if in_unc then block_txs n3 h unc1 txs' (pending ++ [(t, body, false, true)]) acc1
          else if negb in_mp then
            (if rel then block_txs (add_blocktx n3 h t) h unc1 txs' (pending ++ [(t, body, true, is_safe)]) acc1
             else block_txs (remove_blocktx n3 h t) h unc1 txs' pending acc1)
          else block_txs n3 h unc1 txs' pending acc1
      end
  end.

(* second loop: notifications with proofs *)
Fixpoint block_notify (n : node) (b : Z) (pending : list (Z * list Z * bool * bool)) (acc : list event)
  : option (node * list event) :=
  match pending with
  | [] => Some (n, acc)
  | (t, body, is_new, is_safe) :: p' =>
      if is_new then
        (* delivered before (its block was orphaned) and unsafe or cancelled then: never reported safe *)
        let sf := is_safe && negb (match states n !! t with Some so => s_unsafe so || s_cancel so | None => false end) in
        let s := TState sf (negb sf) false 0 (Some b) (spent_outputs n body) body in
        block_notify (set_states n (<[t := s]> (states n))) b p' (acc ++ [ETx t s])
      else
        match states n !! t with
        | None => None
        | Some s =>
            let ok := negb (s_unsafe s) && is_safe in
            let s1 := TState ok (negb ok) (s_cancel s) 0 (Some b) (s_outs s) (s_body s) in
            block_notify (set_states n (<[t := s1]> (states n))) b p' (acc ++ [EUpdate t s1])
        end
  end.

Definition sorted_keys {A} (m : gmap Z A) : list Z := map fst (sort_kv (map_to_list m)).

Definition restrict_unconf (u : gmap Z utx) (keep : list Z) : gmap Z utx :=
  filter (fun kv => mem (fst kv) keep = true) u.

(* ProcessBlock(block b with parent prev, transactions txs, merkle-valid flag) *)
Definition process_block (n : node) (b prev : Z) (txs : list btx) (valid : bool) : node * obs :=
  if in_chain n b then (n, [ERR]) else
  if negb (default (-99) (last (chain n)) =? prev) then (n, [ERR]) else
  if negb valid then (n, [ERR]) else
  let n := Node (mp n) (unconf n) (states n) (blocktxs n) (chain n ++ [b]) (insync n) (now n) (delay n) in
  let h := zlen (chain n) - 1 in
  let unc := sorted_keys (unconf n) in
  match block_txs n h unc txs [] [EHeaders h b] with
  | None => (n, [ERR])   (* note: state changes of the aborted loop are not modelled further *)
  | Some (n1, unc1, pending, acc) =>
      match block_notify n1 b pending acc with
      | None => (n1, [ERR])
      | Some (n2, acc2) =>
          (set_unconf n2 (restrict_unconf (unconf n2) unc1), OK :: enc_events acc2)
      end
  end.

(* ---- a competing header (handlers/headers.go), then its block ---- *)

(* the chain up to and including block x (the first occurrence) *)
Fixpoint upto (x : Z) (l : list Z) : list Z :=
  match l with
  | [] => []
  | y :: l' => if y =? x then [y] else y :: upto x l'
  end.

(* Revert to the held block prev: the headers above it are dropped from the block repository, the per-height
   tx id files above it are removed, in-sync is cleared.  The stored tx states (flags, merkle proof,
   depth), the mempool and the unconfirmed set are NOT touched. *)
Definition revert (n : node) (prev : Z) : node :=
  let c := upto prev (chain n) in
  let top := zlen c - 1 in
  Node (mp n) (unconf n) (states n) (filter (fun kv => fst kv <=? top = true) (blocktxs n)) c false (now n) (delay n).

(* the observation of a reorg step: code, in sync, chain height, tip, notifications *)
Definition reorg_obs (n : node) (ob : obs) : obs :=
  match ob with
  | c :: rest => c :: b2z (insync n) :: (zlen (chain n) - 1) :: default (-99) (last (chain n)) :: rest
  | [] => []
  end.

(* the header of block b (parent prev) is announced by the trusted peer, then the block is supplied and
   processed (what processBlocks does with a requested block).  In the order of the headers handler:
   b is the tip: "headers in sync" when the node is not in sync, otherwise ignored;
   prev is the tip: the ordinary next block;  b is held: ignored;
   prev is held below the tip: the chain is reverted to prev, then the block is processed on it (a block
   that is then refused leaves the chain reverted);  prev unknown: in-sync is cleared. *)
Definition process_reorg (n : node) (b prev : Z) (txs : list btx) (valid : bool) : node * obs :=
  let tip := default (-99) (last (chain n)) in
  if b =? tip then
    let n1 := Node (mp n) (unconf n) (states n) (blocktxs n) (chain n) true (now n) (delay n) in
    (n1, reorg_obs n1 [ERR])
  else if prev =? tip then
    let '(n1, ob) := process_block n b prev txs valid in (n1, reorg_obs n1 ob)
  else if in_chain n b then (n, reorg_obs n [ERR])
  else if in_chain n prev then
    let '(n1, ob) := process_block (revert n prev) b prev txs valid in (n1, reorg_obs n1 ob)
  else
    let n1 := Node (mp n) (unconf n) (states n) (blocktxs n) (chain n) false (now n) (delay n) in
    (n1, reorg_obs n1 [ERR]).

(* one iteration of checkTxDelays *)
Fixpoint delay_loop (n : node) (cutoff : Z) (keys : list Z) (acc : list event) : node * list event :=
  match keys with
  | [] => (n, acc)
  | t :: keys' =>
      match unconf n !! t with
      | None => delay_loop n cutoff keys' acc
      | Some u =>
          if negb (u_safe u) && negb (u_unsafe u) && (u_time u <? cutoff)
             && (u_trusted u || is_trusted (mp n) t) then
            let n1 := set_unconf n (<[t := UTx (u_time u) (u_unsafe u) true (u_trusted u)]> (unconf n)) in
            match states n1 !! t with
            | None => delay_loop n1 cutoff keys' acc
            | Some s =>
                if s_unsafe s || s_cancel s then delay_loop n1 cutoff keys' acc else
                let s1 := TState true (s_unsafe s) (s_cancel s) (s_depth s) (s_proof s) (s_outs s) (s_body s) in
                delay_loop (set_states n1 (<[t := s1]> (states n1))) cutoff keys' (acc ++ [EUpdate t s1])
            end
          else delay_loop n cutoff keys' acc
      end
  end.

Definition delay_check (n : node) : node * list event :=
  if negb (insync n) then (n, []) else
  delay_loop n (now n - delay n) (sorted_keys (unconf n)) [].

(* clean restart: everything persisted is kept; the sync flag starts cleared; the mempool is not stored: load
   puts the stored transactions of the unconfirmed set back into it (not trusted-flagged, time = now), so that
   conflicts with them are still detected.  The order in which they enter the outpoint index is the iteration
   order of a Go map; the harness normalises it to ascending txid (it only decides the order of the
   notifications within a later step). *)
Definition reload (n : node) : mempool :=
  fold_left (fun m t => match states n !! t with
                        | Some s => fst (add_transaction m (now n) t (s_body s) false)
                        | None => m
                        end) (sorted_keys (unconf n)) mp_init.

Definition restart (n : node) : node :=
  Node (reload n) (unconf n) (states n) (blocktxs n) (chain n) false (now n) (delay n).

(* ---------------------------------------------------------------------------------------- *)
Inductive src := STrusted | SUntrusted | SLocal.

Inductive op :=
| OTx (t : Z) (body : list Z) (rel : bool) (s : src)     (* a transaction body arrives *)
| OInv (t : Z) (trusted : bool)                          (* inventory announcement (AddRequest) *)
| OBlock (b prev : Z) (txs : list btx) (valid : bool)    (* ProcessBlock *)
| OReorg (b prev : Z) (txs : list btx) (valid : bool)    (* header through the headers handler (reorg), then ProcessBlock *)
| ODelayCheck
| OAdvance (dt : Z)
| OSetInSync (b : bool)
| ORestart
| OGetTx (t : Z)
| OUnconf                                                (* verif accessor: the unconfirmed set *)
| OBlockTxs (h : Z).                                     (* verif accessor: the per-height tx id file *)

Definition enc_utx (kv : Z * utx) : list Z :=
  [fst kv; b2z (u_unsafe (snd kv)); b2z (u_safe (snd kv)); b2z (u_trusted (snd kv))].

Definition step (n : node) (o : op) : node * obs :=
  match o with
  | OTx t body rel s =>
      (* the trusted tx handler drops transactions unless in sync; local submissions always enter *)
      match s with
      | SLocal => let '(n1, evs) := process_unconfirmed n t body rel true true in (n1, OK :: enc_events evs)
      | STrusted => if insync n
                    then let '(n1, evs) := process_unconfirmed n t body rel true false in (n1, OK :: enc_events evs)
                    else (n, [OK])
      | SUntrusted =>
          (* the untrusted handlers are gated on their own connection being verified (the harness
             verifies it), not on the node being in sync *)
          let '(n1, evs) := process_unconfirmed n t body rel false false in (n1, OK :: enc_events evs)
      end
  | OInv t trusted =>
      if insync n || negb trusted then
        let '(m1, (have, req)) := add_request (mp n) (now n) t trusted in
        (* observable: a getdata for t goes out / t is put on the connection's tracker *)
        (set_mp n m1, [OK; b2z req; b2z (negb have && negb req)])
      else (n, [OK; 0; 0])
  | OBlock b prev txs valid => process_block n b prev txs valid
  | OReorg b prev txs valid => process_reorg n b prev txs valid
  | ODelayCheck => let '(n1, evs) := delay_check n in (n1, OK :: enc_events evs)
  | OAdvance dt => (Node (mp n) (unconf n) (states n) (blocktxs n) (chain n) (insync n) (now n + dt) (delay n), [OK])
  | OSetInSync b => (Node (mp n) (unconf n) (states n) (blocktxs n) (chain n) b (now n) (delay n), [OK])
  | ORestart => (restart n, [OK])
  | OGetTx t => (n, match states n !! t with Some _ => [OK; t] | None => [ERR] end)
  | OUnconf => (n, OK :: concat (map enc_utx (sort_kv (map_to_list (unconf n)))))
  | OBlockTxs h => (n, OK :: default [] (blocktxs n !! h))
  end.

Fixpoint run_from (n : node) (ops : list op) : list obs :=
  match ops with
  | [] => []
  | o :: ops' => let '(n1, ob) := step n o in ob :: run_from n1 ops'
  end.

Definition run (delay : Z) (ops : list op) : list obs := run_from (n_init delay) ops.
