(* Property monitors for the transaction pipeline (C03, C05 node level, C06, C07, C11).
   A monitor reads the operations and the observed notifications only; it keeps its own abstract
   bookkeeping (which unconfirmed bodies are held, what was delivered, what is known about each
   transaction) and objects to the first step that contradicts a property. *)
From V.lib Require Import Base.
From V.model Require Import MemPool MemPoolSpec TxFlow.

(* decoded notification *)
Record ev := Ev {
  e_kind : Z;          (* 1 new tx, 2 update, 3 headers, 4 in sync *)
  e_t : Z; e_safe : bool; e_unsafe : bool; e_cancel : bool; e_depth : Z; e_proof : Z;
  e_outs : list Z;
}.

Definition zb (z : Z) : bool := negb (z =? 0).

Fixpoint dec_events (fuel : nat) (l : list Z) : option (list ev) :=
  match fuel with
  | O => None
  | S f =>
    match l with
    | [] => Some []
    | 1 :: t :: sa :: us :: ca :: d :: p :: n :: rest =>
        if (n <? 0) || (zlen rest <? n) then None else
        match dec_events f (drop (Z.to_nat n) rest) with
        | Some es => Some (Ev 1 t (zb sa) (zb us) (zb ca) d p (take (Z.to_nat n) rest) :: es)
        | None => None
        end
    | 2 :: t :: sa :: us :: ca :: d :: p :: rest =>
        match dec_events f rest with
        | Some es => Some (Ev 2 t (zb sa) (zb us) (zb ca) d p [] :: es)
        | None => None
        end
    | 3 :: h :: b :: rest =>
        match dec_events f rest with
        | Some es => Some (Ev 3 h false false false 0 b [] :: es)
        | None => None
        end
    | 4 :: rest =>
        match dec_events f rest with
        | Some es => Some (Ev 4 0 false false false 0 0 [] :: es)
        | None => None
        end
    | _ => None
    end
  end.

Definition decode_obs (ob : obs) : option (Z * list ev) :=
  match ob with
  | [] => None
  | c :: rest => match dec_events (S (length rest)) rest with Some es => Some (c, es) | None => None end
  end.

(* abstract bookkeeping *)
Record ms := MS {
  m_pool : pool;               (* unconfirmed bodies the node holds (MemPoolSpec.pool) *)
  m_delivered : list Z;        (* delivered as new at some point *)
  m_live : list Z;             (* delivered, unconfirmed, still tracked *)
  m_seen : list (Z * Z);       (* first-seen time of live transactions *)
  m_vouched : list Z;          (* trusted peer sent or announced it (as far as the node still knows) *)
  m_conflicted : list Z;       (* a conflicting transaction is known *)
  m_unsafe : list Z;           (* reported unsafe or cancelled *)
  m_safe : list Z;             (* reported safe while unconfirmed *)
  m_local : list Z;
  m_clock : Z;
  m_insync : bool;
  m_chain : list Z;
  m_vnow : list Z;             (* vouching the node still knows about (announcements are forgotten at restart) *)
  m_vpersist : list Z;         (* delivered as new from the trusted peer or locally: survives a restart *)
}.

Definition ms_init : ms := MS [] [] [] [] [] [] [] [] [] 0 false [0] [] [].

Definition lookup_seen (m : ms) (t : Z) : option Z :=
  match find (fun e => fst e =? t) (m_seen m) with Some e => Some (snd e) | None => None end.

Definition remove_z (t : Z) (l : list Z) : list Z := filter (fun x => x ≠ t) l.
Definition add_z (t : Z) (l : list Z) : list Z := if mem t l then l else l ++ [t].

Definition shares_b (a b : list Z) : bool := existsb (fun o => mem o b) a.

(* held transactions other than t sharing an outpoint with body *)
Definition conflicting_held (p : pool) (t : Z) (body : list Z) : list Z :=
  map fst (filter (fun e => (negb (fst e =? t) && shares_b body (snd e)) = true) p).

Definition evs_for (es : list ev) (kind t : Z) : list ev :=
  filter (fun e => ((e_kind e =? kind) && (e_t e =? t)) = true) es.

(* ---- checks on every notification (C07 flags, stickiness, safe warranted / once; C03 soundness) ---- *)

Definition expected_out (o : Z) (got : Z) : bool :=
  if o <? 0 then got =? 0
  else if o mod 10 <? NOUTS then got =? o
  else (got =? o) || (got =? 0).

Fixpoint outs_ok (body outs : list Z) : bool :=
  match body, outs with
  | [], [] => true
  | o :: b', g :: o' => expected_out o g && outs_ok b' o'
  | _, _ => false
  end.

(* rel_of / body_of: what the operation of this step says about transaction t *)
Definition op_tx_info (o : op) (t : Z) : option (list Z * bool) :=
  match o with
  | OTx t' body rel _ => if t' =? t then Some (body, rel) else None
  | OBlock _ _ txs _ =>
      match find (fun x => fst (fst x) =? t) txs with
      | Some (_, body, rel) => Some (body, rel)
      | None => None
      end
  | _ => None
  end.

(* check one event against the bookkeeping; code of the objection or 0 *)
Definition check_event (delay : Z) (m : ms) (o : op) (e : ev) : Z :=
  if (e_kind e =? 3) || (e_kind e =? 4) then 0 else
  if e_safe e && e_unsafe e then 101 else                          (* C07: safe and unsafe both set *)
  if e_cancel e && negb (e_unsafe e) then 102 else                 (* C07: cancelled implies unsafe *)
  if e_safe e && mem (e_t e) (m_unsafe m) then 103 else            (* C07/C05: safe after unsafe *)
  if (e_kind e =? 1) then
    match op_tx_info o (e_t e) with
    | None => 111                                                  (* C03: delivered out of nowhere *)
    | Some (body, rel) =>
        if negb rel then 112 else                                  (* C03: non-matching tx delivered *)
        if mem (e_t e) (m_delivered m) then 113 else               (* C03: delivered as new twice *)
        if negb (outs_ok body (e_outs e)) then 114 else            (* C03: spent outputs *)
        match o with
        | OTx _ _ _ SLocal => 0
        | OTx _ _ _ _ => if e_safe e && (e_proof e =? -1) then 126 else 0   (* C07: safe on arrival, not local *)
        | _ => 0
        end
    end
  else
    if negb (mem (e_t e) (m_delivered m)) then 115 else            (* C03: update for a tx never delivered *)
    (* C07: an unconfirmed safe report must be warranted and unique *)
    if e_safe e && (e_proof e =? -1) then
      if mem (e_t e) (m_safe m) then 121 else                      (* safe reported twice *)
      if mem (e_t e) (m_local m) || (match o with OTx t' _ _ SLocal => t' =? e_t e | _ => false end) then 0 else
      if negb (mem (e_t e) (m_vouched m)) then 122 else            (* not vouched by the trusted peer *)
      if mem (e_t e) (m_conflicted m) then 123 else                (* conflict known *)
      match lookup_seen m (e_t e) with
      | Some t0 => if m_clock m - t0 <? delay then 124 else 0      (* delay not elapsed *)
      | None => 125
      end
    else 0.

Definition first_bad (delay : Z) (m : ms) (o : op) (es : list ev) : Z :=
  fold_left (fun acc e => if acc =? 0 then check_event delay m o e else acc) es 0.

(* bookkeeping after the notifications of a step *)
Definition note_event (m : ms) (e : ev) : ms :=
  if (e_kind e =? 3) || (e_kind e =? 4) then m else
  let t := e_t e in
  let unsafe' := if e_unsafe e || e_cancel e then add_z t (m_unsafe m) else m_unsafe m in
  let safe' := if e_safe e && (e_proof e =? -1) then add_z t (m_safe m) else m_safe m in
  let delivered' := if e_kind e =? 1 then add_z t (m_delivered m) else m_delivered m in
  let confirmed := negb (e_proof e =? -1) in
  let live' := if confirmed then remove_z t (m_live m)
               else if e_kind e =? 1 then add_z t (m_live m) else m_live m in
  let seen' := if (e_kind e =? 1) && negb confirmed then (t, m_clock m) :: m_seen m else m_seen m in
  MS (m_pool m) delivered' live' seen' (m_vouched m) (m_conflicted m) unsafe' safe' (m_local m)
     (m_clock m) (m_insync m) (m_chain m) (m_vnow m) (m_vpersist m).

(* ---- per-operation expectations ---- *)

Definition has_ev (es : list ev) (f : ev -> bool) : bool := existsb f es.
Definition count_ev (es : list ev) (f : ev -> bool) : Z := zlen (filter (fun e => f e = true) es).

(* an unconfirmed body is processed (the node is in sync, or the tx is local) *)
Definition tx_step (delay : Z) (m : ms) (t : Z) (body : list Z) (rel : bool) (s : src) (es : list ev)
  : Z * ms :=
  let processed := match s with STrusted => m_insync m | _ => true end in
  if negb processed then ((if negb (zlen es =? 0) then 131 else 0), m) else   (* nothing before in sync *)
  let vouched' := match s with SUntrusted => m_vouched m | _ => add_z t (m_vouched m) end in
  let local' := match s with SLocal => add_z t (m_local m) | _ => m_local m end in
  let vnow' := match s with SUntrusted => m_vnow m | _ => add_z t (m_vnow m) end in
  if held (m_pool m) t then
    (0, MS (m_pool m) (m_delivered m) (m_live m) (m_seen m) vouched' (m_conflicted m) (m_unsafe m)
           (m_safe m) (m_local m) (m_clock m) (m_insync m) (m_chain m) vnow' (m_vpersist m))
  else
    let cs := conflicting_held (m_pool m) t body in
    let pool' := if zlen body =? 0 then m_pool m else m_pool m ++ [(t, body)] in
    let conflicted' := if zlen cs =? 0 then m_conflicted m
                       else fold_left (fun l c => add_z c l) cs (add_z t (m_conflicted m)) in
    let delivered_now := has_ev es (fun e => (e_kind e =? 1) && (e_t e =? t)) in
    let vpersist' := match s with
                     | SUntrusted => m_vpersist m
                     | _ => if delivered_now then add_z t (m_vpersist m) else m_vpersist m
                     end in
    let m' := MS pool' (m_delivered m) (m_live m) (m_seen m) vouched' conflicted' (m_unsafe m)
                 (m_safe m) local' (m_clock m) (m_insync m) (m_chain m) vnow' vpersist' in
    (* C05: the new tx, if delivered now, and every live conflicting tx are reported unsafe *)
    let bad_new := has_ev es (fun e => (e_kind e =? 1) && (e_t e =? t) && negb (zlen cs =? 0) && negb (e_unsafe e)) in
    let bad_old := existsb (fun c => mem c (m_live m) &&
                                     negb (has_ev es (fun e => (e_kind e =? 2) && (e_t e =? c) && e_unsafe e))) cs in
    (* C03: a matching tx first seen now is delivered now *)
    let must_deliver := rel && negb (mem t (m_delivered m)) in
    let bad_missing := must_deliver && negb (has_ev es (fun e => (e_kind e =? 1) && (e_t e =? t))) in
    (* C05: a delivered, still unconfirmed tx that is seen again (it left the mempool at a restart)
       and now conflicts with a held one is reported unsafe as well *)
    let bad_self := mem t (m_live m) && negb (zlen cs =? 0) &&
                    negb (has_ev es (fun e => (e_kind e =? 2) && (e_t e =? t) && e_unsafe e)) in
    ((if bad_new then 141 else if bad_old then 142 else if bad_missing then 143 else if bad_self then 144 else 0), m').

(* a block is processed successfully *)
Definition block_step (m : ms) (b : Z) (txs : list btx) (es : list ev) : Z * ms :=
  let height := zlen (m_chain m) in
  let hdr_ok := match es with e :: _ => (e_kind e =? 3) && (e_t e =? height) && (e_proof e =? b) | [] => false end in
  if negb hdr_ok then (151, m) else                                  (* C06/C02: the chain advances, announced first *)
  (* walk the block's transactions, evicting conflicting held transactions *)
  let '(code, pool', conflicted') :=
    fold_left (fun '(code, p, cf) x =>
      let '(t, body, rel) := x in
      let p1 := remove_tx p t in
      let cs := conflicting_held p1 t body in
      (* C06: each live conflicting tx gets exactly one cancelled+unsafe update, and is evicted *)
      let bad := existsb (fun c => mem c (m_live m) &&
                   negb (count_ev es (fun e => (e_kind e =? 2) && (e_t e =? c) && e_cancel e && e_unsafe e) =? 1)) cs in
      ((if (code =? 0) && bad then 152 else code), fold_left remove_tx cs p1,
       fold_left (fun l c => add_z c l) cs cf))
      txs (0, m_pool m, m_conflicted m) in
  (* C03/C04/C11: each matching tx of the block is notified with a proof for this block, as new if
     never delivered, as an update otherwise *)
  let bad_tx := existsb (fun x =>
      let '(t, body, rel) := x in
      rel && negb (if mem t (m_delivered m)
                   then has_ev es (fun e => (e_kind e =? 2) && (e_t e =? t) && (e_proof e =? b) && (e_depth e =? 0))
                   else has_ev es (fun e => (e_kind e =? 1) && (e_t e =? t) && (e_proof e =? b) && (e_depth e =? 0))))
      txs in
  ((if negb (code =? 0) then code else if bad_tx then 153 else 0),
   MS pool' (m_delivered m) (m_live m) (m_seen m) (m_vouched m) conflicted' (m_unsafe m) (m_safe m)
      (m_local m) (m_clock m) (m_insync m) (m_chain m ++ [b]) (m_vnow m) (m_vpersist m)).

(* the delay checker runs: every live tx whose conditions hold is reported safe now (C07 liveness) *)
Definition delay_step (delay : Z) (m : ms) (es : list ev) : Z :=
  if negb (m_insync m) then (if negb (zlen es =? 0) then 161 else 0) else
  if existsb (fun t =>
       mem t (m_vnow m) && negb (mem t (m_conflicted m)) && negb (mem t (m_unsafe m)) &&
       negb (mem t (m_safe m)) &&
       match lookup_seen m t with Some t0 => m_clock m - t0 >? delay | None => false end &&
       negb (has_ev es (fun e => (e_kind e =? 2) && (e_t e =? t) && e_safe e)))
     (m_live m)
  then 162 else 0.

Definition carries_events (o : op) : bool :=
  match o with OTx _ _ _ _ | OBlock _ _ _ _ | ODelayCheck => true | _ => false end.

Definition monitor_step (delay : Z) (m : ms) (o : op) (ob : obs) : Z * ms :=
  match (if carries_events o then decode_obs ob else Some (hd (-1) ob, [])) with
  | None => (199, m)
  | Some (c, es) =>
      let bad := first_bad delay m o es in
      if negb (bad =? 0) then (bad, m) else
      let '(code, m1) :=
        match o with
        | OTx t body rel s => if c =? OK then tx_step delay m t body rel s es else (198, m)
        | OBlock b prev txs valid =>
            if c =? OK then block_step m b txs es
            else ((if negb (zlen es =? 0) then 154 else 0), m)         (* a refused block delivers nothing *)
        | ODelayCheck => (delay_step delay m es, m)
        | OInv t trusted =>
            (0, if trusted && m_insync m
                then MS (m_pool m) (m_delivered m) (m_live m) (m_seen m) (add_z t (m_vouched m)) (m_conflicted m)
                        (m_unsafe m) (m_safe m) (m_local m) (m_clock m) (m_insync m) (m_chain m)
                        (add_z t (m_vnow m)) (m_vpersist m)
                else m)
        | OAdvance dt => (0, MS (m_pool m) (m_delivered m) (m_live m) (m_seen m) (m_vouched m) (m_conflicted m)
                               (m_unsafe m) (m_safe m) (m_local m) (m_clock m + dt) (m_insync m) (m_chain m)
                               (m_vnow m) (m_vpersist m))
        | OSetInSync b => (0, MS (m_pool m) (m_delivered m) (m_live m) (m_seen m) (m_vouched m) (m_conflicted m)
                                (m_unsafe m) (m_safe m) (m_local m) (m_clock m) b (m_chain m) (m_vnow m) (m_vpersist m))
        | ORestart =>
            (* the node forgets held bodies and announcements; what it delivered stays delivered *)
            (0, MS [] (m_delivered m) (m_live m) (m_seen m) (m_vouched m) (m_conflicted m)
                   (m_unsafe m) (m_safe m) (m_local m) (m_clock m) false (m_chain m) (m_vpersist m) (m_vpersist m))
        | OGetTx t => ((if mem t (m_delivered m) && negb (c =? OK) then 171 else 0), m)  (* C11: stored copy *)
        | OUnconf => (0, m)
        end in
      (code, fold_left note_event es m1)
  end.

Fixpoint monitor_from (delay : Z) (m : ms) (i : Z) (ops : list op) (tr : list obs) : option (Z * obs) :=
  match ops, tr with
  | o :: ops', ob :: tr' =>
      let '(code, m1) := monitor_step delay m o ob in
      if negb (code =? 0) then Some (i, [code]) else monitor_from delay m1 (i + 1) ops' tr'
  | [], [] => None
  | _, _ => Some (i, [197])
  end.

Definition txflow_monitor (delay : Z) : checker op := fun ops tr => monitor_from delay ms_init 0 ops tr.

(* ---------------------------------------------------------------------------------------- *)
(* Histories the theorems quantify over (executable, so that generated cases can be checked to be
   inside the hypothesis): *)

Definition mentions (o : op) : list (Z * list Z * bool) :=
  match o with
  | OTx t body rel _ => [(t, body, rel)]
  | OBlock _ _ txs _ => txs
  | _ => []
  end.

Fixpoint zlist_eq (a b : list Z) : bool :=
  match a, b with
  | [], [] => true
  | x :: a', y :: b' => (x =? y) && zlist_eq a' b'
  | _, _ => false
  end.

Fixpoint nodupb (l : list Z) : bool :=
  match l with [] => true | x :: l' => negb (mem x l') && nodupb l' end.

(* a txid always comes with the same body and relevance (it is the hash of the body) *)
Definition consistent (tbl : list (Z * list Z * bool)) : bool :=
  forallb (fun e => forallb (fun e' =>
     if fst (fst e) =? fst (fst e')
     then zlist_eq (snd (fst e)) (snd (fst e')) && Bool.eqb (snd e) (snd e') else true) tbl) tbl.

(* transactions of one block: distinct, no two spend a common outpoint *)
Fixpoint pairwise_disjoint (txs : list (Z * list Z * bool)) : bool :=
  match txs with
  | [] => true
  | (t, body, _) :: txs' =>
      forallb (fun x => negb (fst (fst x) =? t) && negb (shares_b body (snd (fst x)))) txs'
      && pairwise_disjoint txs'
  end.

Definition block_ids (ops : list op) : list Z :=
  flat_map (fun o => match o with OBlock b _ _ _ => [b] | _ => [] end) ops.

Definition block_txids (ops : list op) : list Z :=
  flat_map (fun o => match o with OBlock _ _ txs _ => map (fun x => fst (fst x)) txs | _ => [] end) ops.

Definition block_msgs (ops : list op) : list (Z * list (Z * list Z * bool)) :=
  flat_map (fun o => match o with OBlock b _ txs _ => [(b, txs)] | _ => [] end) ops.

Definition blocks_consistent (l : list (Z * list (Z * list Z * bool))) : bool :=
  forallb (fun e => forallb (fun e' =>
     if fst e =? fst e' then zlist_eq (map (fun y => fst (fst y)) (snd e)) (map (fun y => fst (fst y)) (snd e'))
     else true) l) l.

Fixpoint dedup_blocks (l : list (Z * list (Z * list Z * bool))) : list (Z * list (Z * list Z * bool)) :=
  match l with
  | [] => []
  | e :: l' => e :: filter (fun e' => fst e' ≠ fst e) (dedup_blocks l')
  end.

Definition flow_valid (delay : Z) (ops : list op) : bool :=
  (0 <=? delay)
  && consistent (flat_map mentions ops)
  && forallb (fun e => nodupb (snd (fst e))) (flat_map mentions ops)
  && forallb (fun o => match o with
                       | OAdvance dt => 0 <=? dt
                       | OBlock b _ txs _ => (0 <? b) && pairwise_disjoint txs   (* 0 is genesis; -1 encodes "no proof" *)
                       | _ => true
                       end) ops
  && blocks_consistent (block_msgs ops)               (* a block id always comes with the same content *)
  && nodupb (flat_map (fun x => map (fun y => fst (fst y)) (snd x)) (dedup_blocks (block_msgs ops))).
                                     (* a transaction is in at most one block (no reorg here);
                                        the same block may be sent any number of times *)

(* the monitor never objects with a code of the given set *)
Definition never_objects (delay : Z) (codes : list Z) (ops : list op) : Prop :=
  forall i c, txflow_monitor delay ops (run delay ops) = Some (i, [c]) -> ~ In c codes.
