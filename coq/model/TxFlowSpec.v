(* Property monitors for the transaction pipeline (C03, C05 node level, C06, C07, C11).
   A monitor reads the operations and the observed notifications only; it keeps its own abstract
   bookkeeping (which unconfirmed bodies are held, what was delivered, what is known about each
   transaction) and objects to the first step that contradicts a property. *)
From V.lib Require Import Base.
From V.model Require Import MemPool MemPoolSpec TxFlow.

(* decoded notification *)
Record ev := Ev {
  e_kind : Z;          (* 1 new tx, 2 update, 3 headers, 4 in sync *)
  e_t : Z; e_safe : bool; e_unsafe : bool; e_cancel : bool; e_depth : Z; e_proof : Z;
  e_outs : list Z;
}.

Definition zb (z : Z) : bool := negb (z =? 0).

Fixpoint dec_events (fuel : nat) (l : list Z) : option (list ev) :=
  match fuel with
  | O => None
  | S f =>
    match l with
    | [] => Some []
    | 1 :: t :: sa :: us :: ca :: d :: p :: n :: rest =>
        if (n <? 0) || (zlen rest <? n) then None else
        match dec_events f (drop (Z.to_nat n) rest) with
        | Some es => Some (Ev 1 t (zb sa) (zb us) (zb ca) d p (take (Z.to_nat n) rest) :: es)
        | None => None
        end
    | 2 :: t :: sa :: us :: ca :: d :: p :: rest =>
        match dec_events f rest with
        | Some es => Some (Ev 2 t (zb sa) (zb us) (zb ca) d p [] :: es)
        | None => None
        end
    | 3 :: h :: b :: rest =>
        match dec_events f rest with
        | Some es => Some (Ev 3 h false false false 0 b [] :: es)
        | None => None
        end
    | 4 :: rest =>
        match dec_events f rest with
        | Some es => Some (Ev 4 0 false false false 0 0 [] :: es)
        | None => None
        end
    | _ => None
    end
  end.

Definition decode_obs (ob : obs) : option (Z * list ev) :=
  match ob with
  | [] => None
  | c :: rest => match dec_events (S (length rest)) rest with Some es => Some (c, es) | None => None end
  end.

(* abstract bookkeeping *)
Record ms := MS {
  m_pool : pool;               (* unconfirmed bodies the node holds (MemPoolSpec.pool) *)
  m_delivered : list Z;        (* delivered as new at some point *)
  m_live : list Z;             (* delivered, unconfirmed, still tracked *)
  m_seen : list (Z * Z);       (* first-seen time of live transactions *)
  m_vouched : list Z;          (* trusted peer sent or announced it (as far as the node still knows) *)
  m_conflicted : list Z;       (* a conflicting transaction is known *)
  m_unsafe : list Z;           (* reported unsafe or cancelled *)
  m_safe : list Z;             (* reported safe while unconfirmed *)
  m_local : list Z;
  m_clock : Z;
  m_insync : bool;
  m_chain : list Z;
  m_vnow : list Z;             (* vouching the node still knows about (announcements are forgotten at restart) *)
  m_vpersist : list Z;         (* delivered as new from the trusted peer or locally: survives a restart *)
  m_proofs : list (Z * Z);     (* the block of the last merkle proof notified for a transaction (newest first) *)
  m_body : list (Z * list Z);  (* the bodies of the transactions that were processed as unconfirmed (newest first) *)
}.

Definition ms_init : ms := MS [] [] [] [] [] [] [] [] [] 0 false [0] [] [] [] [].

Definition lookup_body (m : ms) (t : Z) : option (list Z) :=
  match find (fun e => fst e =? t) (m_body m) with Some e => Some (snd e) | None => None end.

(* After a restart the node holds the bodies of the transactions it tracks as unconfirmed again (load puts them
   back into the mempool, in ascending txid order - see TxFlow.reload). *)
Definition sort_z (l : list Z) : list Z := map fst (sort_kv (map (fun t => (t, tt)) l)).
Definition reload_pool (m : ms) : pool :=
  omap (fun t => match lookup_body m t with
                 | Some b => if zlen b =? 0 then None else Some (t, b)
                 | None => None
                 end) (sort_z (m_live m)).

Definition lookup_proof (m : ms) (t : Z) : option Z :=
  match find (fun e => fst e =? t) (m_proofs m) with Some e => Some (snd e) | None => None end.

(* the last proof notified for t is for a block of the chain *)
Definition confirmed_m (m : ms) (t : Z) : bool :=
  match lookup_proof m t with Some p => mem p (m_chain m) | None => false end.

(* Reorganisations.  A notification is "unconfirmed" when it carries no merkle proof or the proof of a block
   that is not (no longer) in the chain the monitor follows.  A delivered transaction is in limbo when the block
   that confirmed it was orphaned and it has not been notified again since: it is not tracked as unconfirmed and
   its last proof is for a block outside the chain.  Such a transaction (and no other) may be delivered as new
   once more - by a re-announcement or by a block of the new branch; from then on it is an unconfirmed
   (or confirmed) transaction like any other. *)
Definition limbo (m : ms) (t : Z) : bool :=
  negb (mem t (m_live m)) &&
  match lookup_proof m t with Some p => negb (mem p (m_chain m)) | None => false end.

(* the block an operation processes *)
Definition op_block (o : op) : option Z :=
  match o with OBlock b _ _ _ | OReorg b _ _ _ => Some b | _ => None end.

(* the notification is for an unconfirmed transaction: no proof, or the proof of a block that is neither in
   the chain nor the block this step processes *)
Definition ev_unconf (m : ms) (o : op) (e : ev) : bool :=
  negb (mem (e_proof e) (m_chain m)) &&
  match op_block o with Some b => negb (e_proof e =? b) | None => true end.

Definition lookup_seen (m : ms) (t : Z) : option Z :=
  match find (fun e => fst e =? t) (m_seen m) with Some e => Some (snd e) | None => None end.

Definition remove_z (t : Z) (l : list Z) : list Z := filter (fun x => x ≠ t) l.
Definition add_z (t : Z) (l : list Z) : list Z := if mem t l then l else l ++ [t].

Definition shares_b (a b : list Z) : bool := existsb (fun o => mem o b) a.

(* held transactions other than t sharing an outpoint with body *)
Definition conflicting_held (p : pool) (t : Z) (body : list Z) : list Z :=
  map fst (filter (fun e => (negb (fst e =? t) && shares_b body (snd e)) = true) p).

Definition evs_for (es : list ev) (kind t : Z) : list ev :=
  filter (fun e => ((e_kind e =? kind) && (e_t e =? t)) = true) es.

(* ---- checks on every notification (C07 flags, stickiness, safe warranted / once; C03 soundness) ---- *)

Definition expected_out (o : Z) (got : Z) : bool :=
  if o <? 0 then got =? 0
  else if o mod 10 <? nouts (o / 10) then got =? o
  else (got =? o) || (got =? 0).

Fixpoint outs_ok (body outs : list Z) : bool :=
  match body, outs with
  | [], [] => true
  | o :: b', g :: o' => expected_out o g && outs_ok b' o'
  | _, _ => false
  end.

(* rel_of / body_of: what the operation of this step says about transaction t *)
Definition op_tx_info (o : op) (t : Z) : option (list Z * bool) :=
  match o with
  | OTx t' body rel _ => if t' =? t then Some (body, rel) else None
  | OBlock _ _ txs _ | OReorg _ _ txs _ =>
      match find (fun x => fst (fst x) =? t) txs with
      | Some (_, body, rel) => Some (body, rel)
      | None => None
      end
  | _ => None
  end.

(* check one event against the bookkeeping; code of the objection or 0 *)
Definition check_event (delay : Z) (m : ms) (o : op) (e : ev) : Z :=
  if (e_kind e =? 3) || (e_kind e =? 4) then 0 else
  if e_safe e && e_unsafe e then 101 else                          (* C07: safe and unsafe both set *)
  if e_cancel e && negb (e_unsafe e) then 102 else                 (* C07: cancelled implies unsafe *)
  if e_safe e && mem (e_t e) (m_unsafe m) then 103 else            (* C07/C05: safe after unsafe *)
  if (e_kind e =? 1) then
    match op_tx_info o (e_t e) with
    | None => 111                                                  (* C03: delivered out of nowhere *)
    | Some (body, rel) =>
        if negb rel then 112 else                                  (* C03: non-matching tx delivered *)
        if mem (e_t e) (m_delivered m) && negb (limbo m (e_t e)) then 113 else   (* C03: delivered as new twice
                                                                       (allowed once more after its block was orphaned) *)
        if negb (outs_ok body (e_outs e)) then 114 else            (* C03: spent outputs *)
        match o with
        | OTx _ _ _ SLocal => 0
        | OTx _ _ _ _ => if e_safe e && ev_unconf m o e then 126 else 0   (* C07/C12: safe on arrival, not local;
                                                 also for a re-announced transaction whose block was orphaned *)
        | _ => 0
        end
    end
  else
    if negb (mem (e_t e) (m_delivered m)) then 115 else            (* C03: update for a tx never delivered *)
    (* C07: an unconfirmed safe report must be warranted and unique *)
    if e_safe e && ev_unconf m o e then
      if mem (e_t e) (m_safe m) then 121 else                      (* safe reported twice *)
      if mem (e_t e) (m_local m) || (match o with OTx t' _ _ SLocal => t' =? e_t e | _ => false end) then 0 else
      if negb (mem (e_t e) (m_vouched m)) then 122 else            (* not vouched by the trusted peer *)
      if mem (e_t e) (m_conflicted m) then 123 else                (* conflict known *)
      match lookup_seen m (e_t e) with
      | Some t0 => if m_clock m - t0 <? delay then 124 else 0      (* delay not elapsed *)
      | None => 125
      end
    else 0.

Definition first_bad (delay : Z) (m : ms) (o : op) (es : list ev) : Z :=
  fold_left (fun acc e => if acc =? 0 then check_event delay m o e else acc) es 0.

(* bookkeeping after the notifications of a step *)
Definition note_event (m : ms) (e : ev) : ms :=
  if (e_kind e =? 3) || (e_kind e =? 4) then m else
  let t := e_t e in
  (* m is the bookkeeping after the step's own update: for a block step the chain already holds the block *)
  let confirmed := mem (e_proof e) (m_chain m) in
  let unsafe' := if e_unsafe e || e_cancel e then add_z t (m_unsafe m) else m_unsafe m in
  (* a new-transaction notification starts the life of an unconfirmed transaction (again, after its block was
     orphaned): what was reported for it as unconfirmed before does not count any more *)
  let safe0 := if e_kind e =? 1 then remove_z t (m_safe m) else m_safe m in
  let safe' := if e_safe e && negb confirmed then add_z t safe0 else safe0 in
  let delivered' := if e_kind e =? 1 then add_z t (m_delivered m) else m_delivered m in
  let live' := if confirmed then remove_z t (m_live m)
               else if e_kind e =? 1 then add_z t (m_live m) else m_live m in
  let seen' := if (e_kind e =? 1) && negb confirmed then (t, m_clock m) :: m_seen m else m_seen m in
  let proofs' := if e_proof e =? -1 then m_proofs m else (t, e_proof e) :: m_proofs m in
  MS (m_pool m) delivered' live' seen' (m_vouched m) (m_conflicted m) unsafe' safe' (m_local m)
     (m_clock m) (m_insync m) (m_chain m) (m_vnow m) (m_vpersist m) proofs' (m_body m).

(* ---- per-operation expectations ---- *)

Definition has_ev (es : list ev) (f : ev -> bool) : bool := existsb f es.
Definition count_ev (es : list ev) (f : ev -> bool) : Z := zlen (filter (fun e => f e = true) es).

(* an unconfirmed body is processed (the node is in sync, or the tx is local) *)
Definition tx_step (delay : Z) (m : ms) (t : Z) (body : list Z) (rel : bool) (s : src) (es : list ev)
  : Z * ms :=
  let processed := match s with STrusted => m_insync m | _ => true end in
  if negb processed then ((if negb (zlen es =? 0) then 131 else 0), m) else   (* nothing before in sync *)
  let vouched' := match s with SUntrusted => m_vouched m | _ => add_z t (m_vouched m) end in
  let local' := match s with SLocal => add_z t (m_local m) | _ => m_local m end in
  let vnow' := match s with SUntrusted => m_vnow m | _ => add_z t (m_vnow m) end in
  if held (m_pool m) t then
    (0, MS (m_pool m) (m_delivered m) (m_live m) (m_seen m) vouched' (m_conflicted m) (m_unsafe m)
           (m_safe m) (m_local m) (m_clock m) (m_insync m) (m_chain m) vnow' (m_vpersist m) (m_proofs m) (m_body m))
  else
    let cs := conflicting_held (m_pool m) t body in
    (* a transaction that was delivered with its confirmation in a block of the chain is not held (the node
       takes it out of the mempool again), and a conflict seen while it is confirmed is recorded for the
       conflicting unconfirmed transactions only *)
    let cf := confirmed_m m t in
    let pool' := if cf || (zlen body =? 0) then m_pool m else m_pool m ++ [(t, body)] in
    let conflicted' := if zlen cs =? 0 then m_conflicted m
                       else fold_left (fun l c => add_z c l) cs (if cf then m_conflicted m else add_z t (m_conflicted m)) in
    let delivered_now := has_ev es (fun e => (e_kind e =? 1) && (e_t e =? t)) in
    let vpersist' := match s with
                     | SUntrusted => m_vpersist m
                     | _ => if delivered_now then add_z t (m_vpersist m) else m_vpersist m
                     end in
    let m' := MS pool' (m_delivered m) (m_live m) (m_seen m) vouched' conflicted' (m_unsafe m)
                 (m_safe m) local' (m_clock m) (m_insync m) (m_chain m) vnow' vpersist' (m_proofs m)
                 ((t, body) :: m_body m) in
    (* C05: the new tx, if delivered now, and every live conflicting tx are reported unsafe *)
    let bad_new := has_ev es (fun e => (e_kind e =? 1) && (e_t e =? t) && negb (zlen cs =? 0) && negb (e_unsafe e)) in
    let bad_old := existsb (fun c => mem c (m_live m) &&
                                     negb (has_ev es (fun e => (e_kind e =? 2) && (e_t e =? c) && e_unsafe e))) cs in
    (* C03: a matching tx first seen now is delivered now *)
    let must_deliver := rel && negb (mem t (m_delivered m)) in
    let bad_missing := must_deliver && negb (has_ev es (fun e => (e_kind e =? 1) && (e_t e =? t))) in
    (* C05: a delivered, still unconfirmed tx that is seen again (it left the mempool at a restart)
       and now conflicts with a held one is reported unsafe as well *)
    let bad_self := mem t (m_live m) && negb (zlen cs =? 0) &&
                    negb (has_ev es (fun e => (e_kind e =? 2) && (e_t e =? t) && e_unsafe e)) in
    ((if bad_new then 141 else if bad_old then 142 else if bad_missing then 143 else if bad_self then 144 else 0), m').

(* a block is processed successfully *)
Definition block_step (m : ms) (b : Z) (txs : list btx) (es : list ev) : Z * ms :=
  let height := zlen (m_chain m) in
  let hdr_ok := match es with e :: _ => (e_kind e =? 3) && (e_t e =? height) && (e_proof e =? b) | [] => false end in
  if negb hdr_ok then (151, m) else                                  (* C06/C02: the chain advances, announced first *)
  (* walk the block's transactions, evicting conflicting held transactions *)
  let '(code, pool', conflicted') :=
    fold_left (fun '(code, p, cf) x =>
      let '(t, body, rel) := x in
      let p1 := remove_tx p t in
      let cs := conflicting_held p1 t body in
      (* C06: each live conflicting tx gets exactly one cancelled+unsafe update, and is evicted *)
      let bad := existsb (fun c => mem c (m_live m) &&
                   negb (count_ev es (fun e => (e_kind e =? 2) && (e_t e =? c) && e_cancel e && e_unsafe e) =? 1)) cs in
      ((if (code =? 0) && bad then 152 else code), fold_left remove_tx cs p1,
       fold_left (fun l c => add_z c l) cs cf))
      txs (0, m_pool m, m_conflicted m) in
  (* C03/C04/C11: each matching tx of the block is notified with a proof for this block, as new if
     never delivered (or in limbo: the block that confirmed it was orphaned and it was not seen since),
     as an update otherwise *)
  let bad_tx := existsb (fun x =>
      let '(t, body, rel) := x in
      rel && negb (if mem t (m_delivered m) && negb (limbo m t)
                   then has_ev es (fun e => (e_kind e =? 2) && (e_t e =? t) && (e_proof e =? b) && (e_depth e =? 0))
                   else has_ev es (fun e => (e_kind e =? 1) && (e_t e =? t) && (e_proof e =? b) && (e_depth e =? 0))))
      txs in
  ((if negb (code =? 0) then code else if bad_tx then 153 else 0),
   MS pool' (m_delivered m) (m_live m) (m_seen m) (m_vouched m) conflicted' (m_unsafe m) (m_safe m)
      (m_local m) (m_clock m) (m_insync m) (m_chain m ++ [b]) (m_vnow m) (m_vpersist m) (m_proofs m) (m_body m)).

(* the delay checker runs: every live tx whose conditions hold is reported safe now (C07 liveness) *)
Definition delay_step (delay : Z) (m : ms) (es : list ev) : Z :=
  if negb (m_insync m) then (if negb (zlen es =? 0) then 161 else 0) else
  (* C07 (safe reported once) / C11: the delay check only notifies about unconfirmed transactions - never about one
     whose merkle proof is for a block of the chain (e.g. from a stale copy of the unconfirmed set after a restart) *)
  if has_ev es (fun e => ((e_kind e =? 1) || (e_kind e =? 2)) && mem (e_proof e) (m_chain m)) then 127 else
  if existsb (fun t =>
       mem t (m_vnow m) && negb (mem t (m_conflicted m)) && negb (mem t (m_unsafe m)) &&
       negb (mem t (m_safe m)) &&
       match lookup_seen m t with Some t0 => m_clock m - t0 >? delay | None => false end &&
       negb (has_ev es (fun e => (e_kind e =? 2) && (e_t e =? t) && e_safe e)))
     (m_live m)
  then 162 else 0.

Definition carries_events (o : op) : bool :=
  match o with OTx _ _ _ _ | OBlock _ _ _ _ | OReorg _ _ _ _ | ODelayCheck => true | _ => false end.

(* the observation of a reorg step carries the in-sync flag, the chain height and the tip after the code *)
Definition obs_events (o : op) (ob : obs) : obs :=
  match o with
  | OReorg _ _ _ _ => match ob with c :: _ :: _ :: _ :: rest => c :: rest | _ => [] end
  | _ => ob
  end.

Definition set_insync (m : ms) (b : bool) : ms :=
  MS (m_pool m) (m_delivered m) (m_live m) (m_seen m) (m_vouched m) (m_conflicted m)
     (m_unsafe m) (m_safe m) (m_local m) (m_clock m) b (m_chain m) (m_vnow m) (m_vpersist m) (m_proofs m) (m_body m).

(* The chain is reverted to the held block prev.  The transactions whose confirming block is orphaned are in
   limbo from now on.  What the node knew about them as unconfirmed transactions (local submission, vouching
   by the trusted peer as far as the liveness of the safe report is concerned) ended with their confirmation:
   after the orphaning they are reported safe only under the rules for any unconfirmed transaction, from what
   happens from now on.  In-sync is cleared. *)
Definition revert_ms (m : ms) (prev : Z) : ms :=
  let c := upto prev (m_chain m) in
  let orphaned := fun t => match lookup_proof m t with Some p => mem p (m_chain m) && negb (mem p c) | None => false end in
  let keep := fun l : list Z => filter (fun t => orphaned t = false) l in
  MS (m_pool m) (m_delivered m) (m_live m) (m_seen m) (m_vouched m) (m_conflicted m) (m_unsafe m) (m_safe m)
     (keep (m_local m)) (m_clock m) false c (keep (m_vnow m)) (keep (m_vpersist m)) (m_proofs m) (m_body m).

(* what the headers handler does with the header of block b on parent prev: the bookkeeping after it and
   whether the block is then requested and processed *)
Definition header_step (m : ms) (b prev : Z) : ms * bool :=
  let tip := default (-99) (last (m_chain m)) in
  if b =? tip then (set_insync m true, false)              (* the tip again: headers in sync *)
  else if prev =? tip then (m, true)                        (* the next block *)
  else if mem b (m_chain m) then (m, false)                 (* held already *)
  else if mem prev (m_chain m) then (revert_ms m prev, true)   (* a competing header: reorganisation *)
  else (set_insync m false, false).                         (* unknown parent *)

Definition pre_step (m : ms) (o : op) : ms * bool :=
  match o with OReorg b prev _ _ => header_step m b prev | _ => (m, true) end.

Definition monitor_step (delay : Z) (m : ms) (o : op) (ob : obs) : Z * ms :=
  match (if carries_events o then decode_obs (obs_events o ob) else Some (hd (-1) ob, [])) with
  | None => (199, m)
  | Some (c, es) =>
      let '(m0, proc) := pre_step m o in
      let bad := first_bad delay m0 o es in
      if negb (bad =? 0) then (bad, m) else
      let '(code, m1) :=
        match o with
        | OTx t body rel s => if c =? OK then tx_step delay m t body rel s es else (198, m)
        | OBlock b prev txs valid =>
            if c =? OK then block_step m b txs es
            else ((if negb (zlen es =? 0) then 154 else 0), m)         (* a refused block delivers nothing *)
        | OReorg b prev txs valid =>
            if proc then
              (if c =? OK then block_step m0 b txs es
               else ((if negb (zlen es =? 0) then 154 else 0), m0))     (* refused after the revert: the revert stays *)
            else ((if c =? OK then 155 else if negb (zlen es =? 0) then 154 else 0), m0)
                                                  (* C06/C02: a header that neither extends nor forks the chain is not processed *)
        | ODelayCheck => (delay_step delay m es, m)
        | OInv t trusted =>
            (0, if trusted && m_insync m
                then MS (m_pool m) (m_delivered m) (m_live m) (m_seen m) (add_z t (m_vouched m)) (m_conflicted m)
                        (m_unsafe m) (m_safe m) (m_local m) (m_clock m) (m_insync m) (m_chain m)
                        (add_z t (m_vnow m)) (m_vpersist m) (m_proofs m) (m_body m)
                else m)
        | OAdvance dt => (0, MS (m_pool m) (m_delivered m) (m_live m) (m_seen m) (m_vouched m) (m_conflicted m)
                               (m_unsafe m) (m_safe m) (m_local m) (m_clock m + dt) (m_insync m) (m_chain m)
                               (m_vnow m) (m_vpersist m) (m_proofs m) (m_body m))
        | OSetInSync b => (0, set_insync m b)
        | ORestart =>
            (* the node forgets announcements and the bodies of transactions it does not track; what it
               delivered stays delivered.  128 (C07 / C11): the restarted node's tracked set does not carry the
               first-seen times that were saved (to the stored precision, a millisecond) *)
            ((if c =? OK then 0 else 128), MS (reload_pool m) (m_delivered m) (m_live m) (m_seen m) (m_vouched m) (m_conflicted m)
                   (m_unsafe m) (m_safe m) (m_local m) (m_clock m) false (m_chain m) (m_vpersist m) (m_vpersist m)
                   (m_proofs m) (m_body m))
        | OGetTx t => ((if mem t (m_delivered m) && negb (c =? OK) then 171 else 0), m)  (* C11: stored copy *)
        | OUnconf | OBlockTxs _ => (0, m)
        end in
      (code, fold_left note_event es m1)
  end.

Fixpoint monitor_from (delay : Z) (m : ms) (i : Z) (ops : list op) (tr : list obs) : option (Z * obs) :=
  match ops, tr with
  | o :: ops', ob :: tr' =>
      let '(code, m1) := monitor_step delay m o ob in
      if negb (code =? 0) then Some (i, [code]) else monitor_from delay m1 (i + 1) ops' tr'
  | [], [] => None
  | _, _ => Some (i, [197])
  end.

Definition txflow_monitor (delay : Z) : checker op := fun ops tr => monitor_from delay ms_init 0 ops tr.

(* Observation, not a property: a notification for an unconfirmed transaction that still carries a merkle
   proof - the proof of the orphaned block that once confirmed it (today's code keeps the stored proof and
   depth 0 when such a transaction is announced again, is reported safe by the delay check, unsafe or
   cancelled).  C04 speaks of the notification for the inclusion in a block only, so this is recorded (181),
   not judged. *)
Definition step_events (o : op) (ob : obs) : list ev :=
  if carries_events o then match decode_obs (obs_events o ob) with Some (_, es) => es | None => [] end else [].

Fixpoint stale_from (delay : Z) (m : ms) (i : Z) (ops : list op) (tr : list obs) : option (Z * obs) :=
  match ops, tr with
  | o :: ops', ob :: tr' =>
      let m0 := fst (pre_step m o) in
      if existsb (fun e => ((e_kind e =? 1) || (e_kind e =? 2)) && negb (e_proof e =? -1) && ev_unconf m0 o e)
                 (step_events o ob)
      then Some (i, [181])
      else stale_from delay (snd (monitor_step delay m o ob)) (i + 1) ops' tr'
  | _, _ => None
  end.

Definition txflow_stale_monitor (delay : Z) : checker op := fun ops tr => stale_from delay ms_init 0 ops tr.

(* ---------------------------------------------------------------------------------------- *)
(* Histories the theorems quantify over (executable, so that generated cases can be checked to be
   inside the hypothesis): *)

Definition mentions (o : op) : list (Z * list Z * bool) :=
  match o with
  | OTx t body rel _ => [(t, body, rel)]
  | OBlock _ _ txs _ | OReorg _ _ txs _ => txs
  | _ => []
  end.

Fixpoint zlist_eq (a b : list Z) : bool :=
  match a, b with
  | [], [] => true
  | x :: a', y :: b' => (x =? y) && zlist_eq a' b'
  | _, _ => false
  end.

Fixpoint nodupb (l : list Z) : bool :=
  match l with [] => true | x :: l' => negb (mem x l') && nodupb l' end.

(* a txid always comes with the same body and relevance (it is the hash of the body) *)
Definition consistent (tbl : list (Z * list Z * bool)) : bool :=
  forallb (fun e => forallb (fun e' =>
     if fst (fst e) =? fst (fst e')
     then zlist_eq (snd (fst e)) (snd (fst e')) && Bool.eqb (snd e) (snd e') else true) tbl) tbl.

(* transactions of one block: distinct, no two spend a common outpoint *)
Fixpoint pairwise_disjoint (txs : list (Z * list Z * bool)) : bool :=
  match txs with
  | [] => true
  | (t, body, _) :: txs' =>
      forallb (fun x => negb (fst (fst x) =? t) && negb (shares_b body (snd (fst x)))) txs'
      && pairwise_disjoint txs'
  end.

(* block messages: id, parent, validity, transactions *)
Definition block_msgs (ops : list op) : list (Z * Z * bool * list (Z * list Z * bool)) :=
  flat_map (fun o => match o with OBlock b p txs v | OReorg b p txs v => [(b, p, v, txs)] | _ => [] end) ops.

(* a block id always comes with the same parent, validity and transactions (it is the hash of the header) *)
Definition blocks_consistent (l : list (Z * Z * bool * list (Z * list Z * bool))) : bool :=
  forallb (fun e => forallb (fun e' =>
     let '(b, p, v, txs) := e in let '(b', p', v', txs') := e' in
     if b =? b' then (p =? p') && Bool.eqb v v' &&
                     zlist_eq (map (fun y => fst (fst y)) txs) (map (fun y => fst (fst y)) txs')
     else true) l) l.

(* The part of the hypothesis that follows the run of the model (model/TxFlow.v is tied to the code by the
   correspondence check, so this is a statement about histories of the real node): *)

(* the stored state of t carries the proof of a block of the chain the node holds *)
Definition confirmed (n : node) (t : Z) : bool :=
  match states n !! t with
  | Some s => match s_proof s with Some b => in_chain n b | None => false end
  | None => false
  end.

(* the node on which the block of a block / reorg step is processed (None: the header is not followed) *)
Definition header_node (n : node) (o : op) : option node :=
  match o with
  | OBlock _ _ _ _ => Some n
  | OReorg b prev _ _ =>
      let tip := default (-99) (last (chain n)) in
      if b =? tip then None else if prev =? tip then Some n else if in_chain n b then None
      else if in_chain n prev then Some (revert n prev) else None
  | _ => None
  end.

Definition accepts (n : node) (b prev : Z) (valid : bool) : bool :=
  negb (in_chain n b) && (default (-99) (last (chain n)) =? prev) && valid.

(* a block the node accepts holds no transaction that is confirmed in the chain it extends (a chain holds a
   transaction once); after a reorganisation the transactions of the orphaned blocks may be confirmed again *)
Definition op_ok (n : node) (o : op) : bool :=
  match o, header_node n o with
  | (OBlock b prev txs valid | OReorg b prev txs valid), Some n' =>
      if accepts n' b prev valid then forallb (fun x => negb (confirmed n' (fst (fst x)))) txs else true
  | _, _ => true
  end.

Fixpoint hyp_from (n : node) (ops : list op) : bool :=
  match ops with
  | [] => true
  | o :: ops' => op_ok n o && hyp_from (fst (step n o)) ops'
  end.

Definition flow_valid (delay : Z) (ops : list op) : bool :=
  (0 <=? delay)
  && consistent (flat_map mentions ops)
  && forallb (fun e => nodupb (snd (fst e))) (flat_map mentions ops)
  && forallb (fun o => match o with
                       | OAdvance dt => 0 <=? dt
                       | OBlock b _ txs _ | OReorg b _ txs _ => (0 <? b) && pairwise_disjoint txs
                                                              (* 0 is genesis; -1 encodes "no proof" *)
                       | _ => true
                       end) ops
  && blocks_consistent (block_msgs ops)               (* a block id always comes with the same content *)
  && hyp_from (n_init delay) ops.

(* the monitor never objects with a code of the given set *)
Definition never_objects (delay : Z) (codes : list Z) (ops : list op) : Prop :=
  forall i c, txflow_monitor delay ops (run delay ops) = Some (i, [c]) -> ~ In c codes.
