(* Proofs about the crash points of the block repository model (property C10):
   - the mutation lists of model/BlockRepoCrash.v are faithful to model/BlockRepo.v;
   - the store after ANY prefix of the mutations of ANY operation of a valid history is the
     chunking of a prefix of the chain before or after that operation, hence loads to it. *)
From V.lib Require Import Base.
From V.model Require Import BlockRepo BlockRepoSpec BlockRepoCrash.
From V.gen Require Import Consts.
From V.proofs Require Import BlockRepo_Proofs.
From Coq Require Import ZifyBool ZifyNat.

Local Open Scope Z_scope.

(* ---------------------------------------------------------------------------------------- *)
(* Mutation lists and their images                                                           *)

Lemma apply_muts_cons (st : gmap Z (list header)) m ms :
  apply_muts st (m :: ms) = apply_muts (apply_mut st m) ms.
Proof. reflexivity. Qed.

Lemma apply_muts_app (st : gmap Z (list header)) ms1 ms2 :
  apply_muts st (ms1 ++ ms2) = apply_muts (apply_muts st ms1) ms2.
Proof. unfold apply_muts. apply fold_left_app. Qed.

Lemma images_head (P : gmap Z (list header) -> Prop) st ms :
  Forall P (prefixes_images st ms) -> P st.
Proof.
  intros HF. destruct ms as [|m ms]; cbn [prefixes_images] in HF;
    apply Forall_cons in HF as [Hs _]; exact Hs.
Qed.

Lemma images_last (P : gmap Z (list header) -> Prop) ms : forall st,
  Forall P (prefixes_images st ms) -> P (apply_muts st ms).
Proof.
  induction ms as [|m ms IH]; intros st HF.
  - apply (images_head P st []). exact HF.
  - rewrite apply_muts_cons. apply IH. cbn [prefixes_images] in HF.
    apply Forall_cons in HF as [_ HF]. exact HF.
Qed.

Lemma images_app (P : gmap Z (list header) -> Prop) ms1 ms2 : forall st,
  Forall P (prefixes_images st ms1) ->
  Forall P (prefixes_images (apply_muts st ms1) ms2) ->
  Forall P (prefixes_images st (ms1 ++ ms2)).
Proof.
  induction ms1 as [|m ms1 IH]; intros st H1 H2.
  - exact H2.
  - cbn [app prefixes_images]. cbn [prefixes_images] in H1.
    apply Forall_cons in H1 as [Hs H1]. constructor; [exact Hs|].
    apply IH; [exact H1|]. rewrite apply_muts_cons in H2. exact H2.
Qed.

(* ---------------------------------------------------------------------------------------- *)
(* The mutation lists are faithful                                                           *)

Lemma remove_muts_faithful K rm_err fuel : forall (st : gmap Z (list header)) rh t,
  apply_muts st (remove_muts K rm_err st fuel rh t) = snd (remove_files K rm_err st fuel rh t).
Proof.
  induction fuel as [|fuel IH]; intros st rh t; cbn [remove_muts remove_files]; [reflexivity|].
  destruct (rh >=? t); [|reflexivity]. unfold store in *.
  destruct (st !! path K (rh + K)) as [hs|] eqn:E.
  - rewrite apply_muts_cons. cbn [apply_mut]. apply IH.
  - destruct rm_err; [reflexivity|apply IH].
Qed.

Lemma revert_muts_faithful K rm_err r (st : gmap Z (list header)) t :
  apply_muts st (revert_muts K rm_err r st t) = snd (revert K rm_err r st t).
Proof.
  unfold revert_muts, revert.
  destruct (t >? height r) eqn:E1; [reflexivity|]. destruct (t <? 0) eqn:E2; [reflexivity|].
  cbn [orb].
  destruct (collect_hashes K r (save K r st) (Z.to_nat (height r - t)) (height r))
    as [removed|e|]; try reflexivity.
  pose proof (remove_muts_faithful K rm_err (Z.to_nat (godiv (height r) K + 1)) (save K r st)
                (godiv (height r) K * K - 1) t) as Hrm.
  destruct (remove_files K rm_err (save K r st) (Z.to_nat (godiv (height r) K + 1))
              (godiv (height r) K * K - 1) t) as [[rh|] st2]; cbn [snd] in Hrm.
  - unfold store in *. destruct (st2 !! path K (rh + K)) as [data|] eqn:E3.
    + destruct ((t - rh <? K) && (zlen data >? t - rh)) eqn:E4; cbn [snd].
      * rewrite apply_muts_cons. cbn [apply_mut]. rewrite apply_muts_app.
        change (<[path K (height r):=lasth r]> st) with (save K r st). rewrite Hrm. reflexivity.
      * rewrite apply_muts_cons. exact Hrm.
    + cbn [snd]. rewrite apply_muts_cons. exact Hrm.
  - cbn [snd]. rewrite apply_muts_cons. exact Hrm.
Qed.

Lemma add_n_muts_faithful K n : forall r (st : gmap Z (list header)) id prev,
  apply_muts st (add_n_muts K r st n id prev) = snd (add_n K r st n id prev).
Proof.
  induction n as [|n IH]; intros r st id prev; cbn [add_n_muts add_n]; [reflexivity|].
  unfold add. destruct (zlen (lasth r) =? K) eqn:E.
  - cbn [app]. rewrite apply_muts_cons. apply IH.
  - cbn [app]. apply IH.
Qed.

Theorem mutations_faithful :
  forall (K : Z) (rm_err : bool) (s : repo * store) (o : op),
    0 < K -> apply_muts (snd s) (op_muts K rm_err s o) = snd (fst (step K rm_err s o)).
Proof.
  intros K rm_err [r st] o _. cbn [snd].
  destruct o as [id prev time|first n|t| | | | |id|id|h|h|h|h|h maxc| ];
    cbn [op_muts step fst snd]; try reflexivity.
  - (* OAdd *)
    unfold add. destruct (zlen (lasth r) =? K); reflexivity.
  - (* OAddN *)
    apply add_n_muts_faithful.
  - (* ORevert *)
    rewrite revert_muts_faithful. destruct (revert K rm_err r st t) as [[x r1] st1]. reflexivity.
  - (* OLoad *)
    destruct (load K st); reflexivity.
Qed.

(* ---------------------------------------------------------------------------------------- *)
(* Prefix stores: the store is the chunking of the first n headers of c                      *)

Definition pstore (K : Z) (st : gmap Z (list header)) (c : list header) (n : Z) : Prop :=
  0 <= n <= zlen c /\ forall i, st !! i = file_at K (take (Z.to_nat n) c) i.

Lemma R_pstore K r st a : 0 < K -> R K r st a -> pstore K st (chain a) (saved a).
Proof.
  intros HK [Hne Hnd Hh Hs Hl Hhs Hst].
  destruct (fidx_bounds K (chain a) HK Hne) as (Hf0 & HfK0 & Hfb).
  split; [lia|exact Hst].
Qed.

Lemma pstore_app K st c ext n : pstore K st c n -> pstore K st (c ++ ext) n.
Proof.
  intros [Hn Hst]. split.
  - rewrite zlen_app. pose proof (zlen_nonneg ext). lia.
  - intros i. rewrite Hst. rewrite take_app_le by (unfold zlen in *; lia). reflexivity.
Qed.

(* a repository representing the fully persisted chain p (only used to reuse load_R) *)
Lemma R_of_prefix K p (st : gmap Z (list header)) :
  0 < K -> p <> [] -> NoDup (map hid p) -> (forall i, st !! i = file_at K p i) ->
  R K (Repo (zlen p - 1) (drop (Z.to_nat (fidx K p * K)) p) (add_heights ∅ p 0)) st
      (AState p (zlen p)).
Proof.
  intros HK Hne Hnd Hst. destruct (fidx_bounds K p HK Hne) as (Hf0 & HfK0 & Hfb).
  constructor; cbn [chain saved height lasth heights].
  - exact Hne.
  - exact Hnd.
  - reflexivity.
  - lia.
  - reflexivity.
  - intros id. rewrite find_id_from. apply (add_heights_spec p [] ∅).
    + intros id'. rewrite lookup_empty. reflexivity.
    + exact Hnd.
  - intros i. rewrite Hst. rewrite take_ge by (unfold zlen; lia). reflexivity.
Qed.

Lemma load_prefix K p (st : gmap Z (list header)) :
  0 < K -> p <> [] -> NoDup (map hid p) -> (forall i, st !! i = file_at K p i) ->
  exists r', load K st = Ok r' /\ R K r' st (AState p (zlen p)).
Proof.
  intros HK Hne Hnd Hst.
  destruct (load_R K _ st _ HK (R_of_prefix K p st HK Hne Hnd Hst)) as (r' & Hl & HR).
  exists r'. split; [exact Hl|]. cbn [saved chain] in HR. pose proof (zlen_pos p Hne) as Hp.
  destruct (zlen p =? 0) eqn:E; [lia|].
  rewrite take_ge in HR by (unfold zlen; lia). exact HR.
Qed.

Lemma load_empty K (st : gmap Z (list header)) :
  0 < K -> (forall i, st !! i = None) ->
  exists r', load K st = Ok r' /\ R K r' st (AState [genesis] 0).
Proof.
  intros HK Hst.
  assert (HR : R K (fst init_state) st a_init).
  { destruct (R_init K HK) as [H1 H2 H3 H4 H5 H6 H7]. constructor; try assumption.
    intros i. rewrite Hst. symmetry. apply file_at_None; [exact HK|].
    cbn [a_init chain saved]. rewrite take_0. change (zlen []) with 0.
    destruct (Z.lt_ge_cases i 0); [left; lia|right; nia]. }
  destruct (load_R K _ st _ HK HR) as (r' & Hl & HR'). exists r'. split; [exact Hl|exact HR'].
Qed.

(* a prefix store of a chain that starts with the genesis header loads to a non-empty prefix *)
Lemma pstore_loadable K (st : gmap Z (list header)) c n :
  0 < K -> NoDup (map hid c) -> (exists c', c = genesis :: c') -> pstore K st c n ->
  exists r' n' m, load K st = Ok r' /\ 1 <= n' <= zlen c /\
                  R K r' st (AState (take (Z.to_nat n') c) m).
Proof.
  intros HK Hnd [c' Hc] [Hn Hst].
  destruct (decide (n = 0)) as [Hn0|Hn0].
  - subst n. destruct (load_empty K st HK) as (r' & Hl & HR).
    { intros i. rewrite Hst. apply file_at_None; [exact HK|].
      change (Z.to_nat 0) with 0%nat. rewrite take_0. change (zlen []) with 0.
      destruct (Z.lt_ge_cases i 0); [left; lia|right; nia]. }
    exists r', 1, 0. split; [exact Hl|]. subst c. split; [|exact HR].
    rewrite zlen_cons. pose proof (zlen_nonneg c'). lia.
  - set (p := take (Z.to_nat n) c) in *.
    assert (Hzp : zlen p = n) by (subst p; rewrite zlen_take; lia).
    destruct (load_prefix K p st HK) as (r' & Hl & HR).
    + intros Heq. rewrite Heq in Hzp. change (zlen []) with 0 in Hzp. lia.
    + apply NoDup_map_take. exact Hnd.
    + exact Hst.
    + exists r', n, (zlen p). split; [exact Hl|]. split; [lia|exact HR].
Qed.

(* ---------------------------------------------------------------------------------------- *)
(* Images of the single operations                                                           *)

(* the image is a prefix store of the chain before or after the operation *)
Definition pimg (K : Z) (before after : list header) (st' : gmap Z (list header)) : Prop :=
  exists c n, (c = before \/ c = after) /\ pstore K st' c n.

Lemma save_pstore K r st a :
  0 < K -> R K r st a -> pstore K (save K r st) (chain a) (zlen (chain a)).
Proof.
  intros HK HR. apply (R_pstore K r _ _ HK (save_R K r st a HK HR)).
Qed.

Lemma spec_addn_chain K k : forall a id prev,
  exists ext, chain (spec_addn K k a id prev) = chain a ++ ext.
Proof.
  induction k as [|k IH]; intros a id prev; cbn [spec_addn].
  - exists []. rewrite app_nil_r. reflexivity.
  - match goal with |- context [spec_addn K k ?a1 ?i ?p] => destruct (IH a1 i p) as [ext Hext] end.
    cbn [chain] in Hext. eexists. rewrite Hext, <- app_assoc. reflexivity.
Qed.

Lemma addn_images K k : forall r (st : gmap Z (list header)) a id prev,
  0 < K -> R K r st a -> fresh_range (chain a) k id = true ->
  Forall (fun st' => exists n, pstore K st' (chain (spec_addn K k a id prev)) n)
         (prefixes_images st (add_n_muts K r st k id prev)).
Proof.
  induction k as [|k IH]; intros r st a id prev HK HR Hfr; cbn [add_n_muts spec_addn].
  - cbn [prefixes_images]. constructor; [|constructor]. exists (saved a).
    apply (R_pstore K r st a HK HR).
  - cbn [fresh_range] in Hfr. apply andb_true_iff in Hfr as [Hf Hr].
    pose proof (add_R K r st a (Header id prev (time_of_id id)) HK HR Hf) as HR1.
    set (a1 := AState (chain a ++ [Header id prev (time_of_id id)])
                      (if Z.rem (zlen (chain a)) K =? 0 then zlen (chain a) else saved a)) in *.
    destruct (spec_addn_chain K k a1 (id + 1) id) as [ext Hext].
    assert (Hst : exists n, pstore K st (chain (spec_addn K k a1 (id + 1) id)) n).
    { exists (saved a). rewrite Hext. subst a1. cbn [chain]. rewrite <- app_assoc.
      apply pstore_app. apply (R_pstore K r st a HK HR). }
    assert (Hfr1 : fresh_range (chain a1) k (id + 1) = true).
    { subst a1. cbn [chain]. apply fresh_range_app; [cbn [hid]; lia|exact Hr]. }
    pose proof (IH _ _ a1 (id + 1) id HK HR1 Hfr1) as HI.
    unfold add in *. destruct (zlen (lasth r) =? K) eqn:E; cbn [fst snd app] in *.
    + cbn [prefixes_images]. constructor; [exact Hst|]. exact HI.
    + exact HI.
Qed.

(* the images of Revert's second loop: files 0..g' of the chunking of the whole chain *)
Lemma remove_muts_images K rm_err c fuel : forall (st : gmap Z (list header)) g t,
  0 < K -> 0 <= t -> t / K <= g -> g * K < zlen c ->
  (forall i, st !! i = if i <=? g then file_at K c i else None) ->
  Forall (fun st' : gmap Z (list header) =>
            exists g', t / K <= g' <= g /\
              forall i, st' !! i = if i <=? g' then file_at K c i else None)
         (prefixes_images st (remove_muts K rm_err st fuel (g * K - 1) t)).
Proof.
  induction fuel as [|fuel IH]; intros st g t HK Ht Hg Hgc Hst.
  - cbn [remove_muts prefixes_images]. constructor; [|constructor]. exists g. split; [lia|exact Hst].
  - pose proof (div_bounds t K HK) as Hb. pose proof (div_nonneg t K HK Ht) as Hf0.
    set (f' := t / K) in *. cbn [remove_muts].
    destruct (g * K - 1 >=? t) eqn:E.
    + assert (Hlt : f' < g) by (apply (mul_lt_K_inv f' g K HK); lia).
      assert (Hp : path K (g * K - 1 + K) = g).
      { unfold path. rewrite godiv_div by nia. apply div_unique_bounds; lia. }
      rewrite Hp. unfold store in *. rewrite Hst.
      destruct (g <=? g) eqn:E2; [|lia]. rewrite file_at_Some by lia.
      cbn [prefixes_images apply_mut]. unfold store in *. constructor.
      * exists g. split; [lia|exact Hst].
      * replace (g * K - 1 - K) with ((g - 1) * K - 1) by lia.
        eapply Forall_impl.
        -- apply (IH (delete g st) (g - 1) t HK Ht); fold f'; [lia|lia|].
           intros i. destruct (decide (i = g)) as [->|Hne].
           ++ rewrite lookup_delete. destruct (g <=? g - 1) eqn:E3; [lia|reflexivity].
           ++ rewrite lookup_delete_ne by congruence. rewrite Hst.
              destruct (i <=? g) eqn:E3; destruct (i <=? g - 1) eqn:E4; try lia; reflexivity.
        -- intros st' (g' & Hg' & Hst'). exists g'. fold f' in Hg'. split; [lia|exact Hst'].
    + cbn [prefixes_images]. constructor; [|constructor]. exists g. split; [lia|exact Hst].
Qed.

Lemma files_upto_pstore K c (st : gmap Z (list header)) g :
  0 < K -> 0 <= g -> g * K < zlen c ->
  (forall i, st !! i = if i <=? g then file_at K c i else None) ->
  pstore K st c (Z.min ((g + 1) * K) (zlen c)).
Proof.
  intros HK Hg Hgc Hst. assert (HgK : 0 <= g * K) by nia. split; [lia|].
  intros i. rewrite Hst. destruct (i <=? g) eqn:E.
  - destruct (Z.lt_ge_cases i 0) as [Hi|Hi]; [rewrite !file_at_None by lia; reflexivity|].
    destruct (Z.le_gt_cases ((g + 1) * K) (zlen c)) as [Hle|Hgt].
    + rewrite Z.min_l by lia. symmetry.
      pose proof (mul_le_mono_K (i + 1) (g + 1) K HK ltac:(lia)).
      apply file_at_take_full; lia.
    + rewrite Z.min_r by lia. rewrite take_ge by (unfold zlen; lia). reflexivity.
  - symmetry. apply file_at_None; [exact HK|]. right. rewrite zlen_take.
    pose proof (mul_le_mono_K (g + 1) i K HK ltac:(lia)). lia.
Qed.

(* the images of a Revert: the store before, the images of the second loop started on the saved
   store, and the final store *)
Lemma revert_muts_images K rm_err (P : gmap Z (list header) -> Prop) r
      (st : gmap Z (list header)) t :
  P st ->
  Forall P (prefixes_images (save K r st)
              (remove_muts K rm_err (save K r st) (Z.to_nat (godiv (height r) K + 1))
                           (godiv (height r) K * K - 1) t)) ->
  P (apply_muts st (revert_muts K rm_err r st t)) ->
  Forall P (prefixes_images st (revert_muts K rm_err r st t)).
Proof.
  intros Hst Hrm Hfin. unfold revert_muts in *.
  set (rms := remove_muts K rm_err (save K r st) (Z.to_nat (godiv (height r) K + 1))
                          (godiv (height r) K * K - 1) t) in *.
  set (w0 := MWrite (path K (height r)) (lasth r)) in *.
  pose proof (images_head P _ _ Hrm) as Hs1.
  assert (Hw0 : Forall P (prefixes_images st (w0 :: rms))).
  { cbn [prefixes_images]. constructor; [exact Hst|exact Hrm]. }
  destruct ((t >? height r) || (t <? 0)); [constructor; [exact Hst|constructor]|].
  destruct (collect_hashes K r (save K r st) (Z.to_nat (height r - t)) (height r))
    as [removed|e|];
    try (cbn [prefixes_images]; constructor; [exact Hst|constructor; [exact Hs1|constructor]]).
  destruct (remove_files K rm_err (save K r st) (Z.to_nat (godiv (height r) K + 1))
              (godiv (height r) K * K - 1) t) as [[rh|] st2]; [|exact Hw0].
  unfold store in *. destruct (st2 !! path K (rh + K)) as [data|]; [|exact Hw0].
  destruct ((t - rh <? K) && (zlen data >? t - rh)); [|exact Hw0].
  rewrite app_comm_cons in *. apply images_app; [exact Hw0|].
  cbn [prefixes_images]. constructor; [apply images_last; exact Hw0|].
  constructor; [|constructor]. rewrite apply_muts_app in Hfin. exact Hfin.
Qed.

Lemma revert_images K rm_err r (st : gmap Z (list header)) a t :
  0 < K -> R K r st a ->
  Forall (pimg K (chain a) (chain (fst (spec_step K a (ORevert t)))))
         (prefixes_images st (revert_muts K rm_err r st t)).
Proof.
  intros HK HR. pose proof (R_pstore K r st a HK HR) as Hps.
  assert (Hst : pimg K (chain a) (chain (fst (spec_step K a (ORevert t)))) st).
  { exists (chain a), (saved a). split; [left; reflexivity|exact Hps]. }
  pose proof (R_height _ _ _ _ HR) as Hh. pose proof (R_ne _ _ _ _ HR) as Hne.
  destruct ((t >? height r) || (t <? 0)) eqn:E.
  - unfold revert_muts. rewrite E. cbn [prefixes_images]. constructor; [exact Hst|constructor].
  - apply revert_muts_images; [exact Hst| |].
    + (* the second loop *)
      pose proof (save_pstore K r st a HK HR) as [_ Hst1].
      rewrite take_ge in Hst1 by (unfold zlen; lia).
      set (c := chain a) in *.
      destruct (fidx_bounds K c HK Hne) as (Hf0 & HfK0 & Hfb).
      rewrite (godiv_div (height r) K) by lia. rewrite Hh. fold (fidx K c).
      set (f := fidx K c) in *.
      pose proof (div_bounds t K HK) as Hb.
      assert (Hff : t / K <= f).
      { assert (t / K < f + 1) by (apply (mul_lt_K_inv (t / K) (f + 1) K HK); lia). lia. }
      eapply Forall_impl.
      * apply (remove_muts_images K rm_err c (Z.to_nat (f + 1)) (save K r st) f t HK);
          [lia|exact Hff|lia|].
        intros i. rewrite Hst1. destruct (i <=? f) eqn:E3; [reflexivity|].
        pose proof (mul_le_mono_K (f + 1) i K HK ltac:(lia)). apply file_at_None; lia.
      * intros st' (g' & Hg' & Hst'). pose proof (div_nonneg t K HK ltac:(lia)) as Hd0.
        pose proof (mul_le_mono_K g' f K HK ltac:(lia)).
        exists c, (Z.min ((g' + 1) * K) (zlen c)). split; [left; reflexivity|].
        apply files_upto_pstore; [exact HK|lia|lia|exact Hst'].
    + (* the final store *)
      rewrite revert_muts_faithful.
      destruct (revert_R K rm_err r st a t HK HR ltac:(lia)) as (r' & st' & Hrev & HR').
      rewrite Hrev. cbn [snd]. cbn [spec_step]. unfold tip_height.
      destruct ((t >? zlen (chain a) - 1) || (t <? 0)) eqn:E2; [lia|]. cbn [fst chain].
      eexists _, _. split; [right; reflexivity|].
      apply (R_pstore K r' st' _ HK HR').
Qed.

Lemma op_images K rm_err r (st : gmap Z (list header)) a o :
  0 < K -> R K r st a -> op_valid a o = true ->
  Forall (pimg K (chain a) (chain (fst (spec_step K a o))))
         (prefixes_images st (op_muts K rm_err (r, st) o)).
Proof.
  intros HK HR Hv. pose proof (R_pstore K r st a HK HR) as Hps.
  assert (Hst : forall after, pimg K (chain a) after st).
  { intros after. exists (chain a), (saved a). split; [left; reflexivity|exact Hps]. }
  assert (Hsv : forall after, pimg K (chain a) after (save K r st)).
  { intros after. exists (chain a), (zlen (chain a)). split; [left; reflexivity|].
    apply (save_pstore K r st a HK HR). }
  destruct o as [id prev time|first n|t| | | | |id|id|h|h|h|h|h maxc| ];
    try solve [cbn [op_muts prefixes_images]; constructor; [apply Hst|apply Forall_nil_2]].
  - (* OAdd *)
    cbn [op_muts]. destruct (zlen (lasth r) =? K); cbn [prefixes_images apply_mut].
    + constructor; [apply Hst|]. constructor; [apply Hsv|constructor].
    + constructor; [apply Hst|constructor].
  - (* OAddN *)
    destruct (last_hash_spec K r st a HK HR) as (x & Hlast & Hlh).
    rewrite spec_step_addn. cbn [op_muts fst]. rewrite Hlast, Hlh.
    eapply Forall_impl; [apply (addn_images K (Z.to_nat n) r st a first (hid x) HK HR Hv)|].
    intros st' [m Hm]. eexists _, m. split; [right; reflexivity|exact Hm].
  - (* ORevert *)
    cbn [op_muts]. apply revert_images; assumption.
  - (* OSave *)
    cbn [op_muts prefixes_images apply_mut].
    constructor; [apply Hst|]. constructor; [apply Hsv|constructor].
Qed.

(* ---------------------------------------------------------------------------------------- *)
(* Along valid histories the chain always starts with the genesis header                     *)

Lemma head_step K r st a o :
  0 < K -> R K r st a -> (exists c', chain a = genesis :: c') ->
  exists c', chain (fst (spec_step K a o)) = genesis :: c'.
Proof.
  intros HK HR [c' Hc].
  destruct o as [id prev time|first n|t| | | | |id|id|h|h|h|h|h maxc| ];
    try (cbn [spec_step fst]; exists c'; exact Hc).
  - cbn [spec_step fst chain]. rewrite Hc. eexists. reflexivity.
  - rewrite spec_step_addn. cbn [fst].
    match goal with |- context [spec_addn K ?k ?a1 ?i ?p] =>
      destruct (spec_addn_chain K k a1 i p) as [ext Hext] end.
    rewrite Hext, Hc. eexists. reflexivity.
  - cbn [spec_step]. destruct ((t >? tip_height (chain a)) || (t <? 0)) eqn:E;
      cbn [fst chain]; [exists c'; exact Hc|].
    rewrite Hc. replace (Z.to_nat (t + 1)) with (S (Z.to_nat t)) by lia. cbn [take].
    eexists. reflexivity.
  - cbn [spec_step fst]. destruct (saved a =? 0) eqn:E; cbn [chain]; [eexists; reflexivity|].
    pose proof (R_pstore K r st a HK HR) as [Hs _]. rewrite Hc.
    replace (Z.to_nat (saved a)) with (S (Z.to_nat (saved a - 1))) by lia. cbn [take].
    eexists. reflexivity.
Qed.

(* ---------------------------------------------------------------------------------------- *)
(* Main theorems                                                                             *)

Lemma crash_gen K rm_err :
  0 < K -> forall ops r st a,
    R K r st a -> (exists c', chain a = genesis :: c') -> valid_from K a ops = true ->
    Forall (fun img =>
              let '(st', before, after) := img in
              exists r' c n m,
                (c = before \/ c = after) /\
                load K st' = Ok r' /\ 1 <= n <= zlen c /\
                R K r' st' (AState (take (Z.to_nat n) c) m))
           (crash_images K rm_err (r, st) a ops).
Proof.
  intros HK. induction ops as [|o ops IH]; intros r st a HR Hhd Hv; [constructor|].
  cbn [crash_images valid_from] in *. apply andb_true_iff in Hv as [Hv1 Hv2].
  destruct (step_R K rm_err r st a o HK HR Hv1) as (r1 & st1 & Hstep & HR1).
  pose proof (head_step K r st a o HK HR Hhd) as Hhd1.
  pose proof (op_images K rm_err r st a o HK HR Hv1) as Him.
  rewrite Hstep. cbn [fst snd]. apply Forall_app. split.
  - apply List.Forall_map. eapply Forall_impl; [exact Him|].
    intros st' (c & n & Hc & Hp).
    assert (Hcc : NoDup (map hid c) /\ exists c', c = genesis :: c').
    { destruct Hc as [->| ->]; (split; [eapply R_nodup; eassumption|assumption]). }
    destruct Hcc as [Hnd Hh].
    destruct (pstore_loadable K st' c n HK Hnd Hh Hp) as (r' & n' & m & Hl & Hn' & HR').
    exists r', c, n', m. split; [exact Hc|]. split; [exact Hl|]. split; [exact Hn'|exact HR'].
  - apply (IH r1 st1 _ HR1 Hhd1 Hv2).
Qed.

Theorem crash_prefix_loadable :
  forall (K : Z) (rm_err : bool) (ops : list op),
    0 < K -> valid K ops = true ->
    Forall (fun img =>
              let '(st', before, after) := img in
              exists r' c n m,
                (c = before \/ c = after) /\
                load K st' = Ok r' /\ 1 <= n <= zlen c /\
                R K r' st' (AState (take (Z.to_nat n) c) m))
           (crash_images K rm_err init_state a_init ops).
Proof.
  intros K rm_err ops HK Hv.
  apply (crash_gen K rm_err HK ops (fst init_state) (snd init_state) a_init).
  - apply R_init. exact HK.
  - exists []. reflexivity.
  - exact Hv.
Qed.

Theorem crash_prefix_loadable_real :
  forall (rm_err : bool) (ops : list op),
    valid blocksPerKey ops = true ->
    Forall (fun img =>
              let '(st', before, after) := img in
              exists r' c n m,
                (c = before \/ c = after) /\
                load blocksPerKey st' = Ok r' /\ 1 <= n <= zlen c /\
                R blocksPerKey r' st' (AState (take (Z.to_nat n) c) m))
           (crash_images blocksPerKey rm_err init_state a_init ops).
Proof.
  intros rm_err ops Hv. apply crash_prefix_loadable; [unfold blocksPerKey; lia|exact Hv].
Qed.
