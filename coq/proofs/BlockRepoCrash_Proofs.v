From V.lib Require Import Base.
From V.model Require Import BlockRepo BlockRepoSpec BlockRepoCrash.
From V.proofs Require Import BlockRepo_Proofs.
