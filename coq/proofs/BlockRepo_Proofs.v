(* Proofs about the block repository model (property C09): the executable model of
   internal/storage/blocks.go refines the abstract list-of-headers specification. *)
From V.lib Require Import Base.
From V.model Require Import BlockRepo BlockRepoSpec.
From V.gen Require Import Consts.
From Coq Require Import ZifyBool ZifyNat.

Local Open Scope Z_scope.

(* ---------------------------------------------------------------------------------------- *)
(* Arithmetic helpers                                                                        *)

Lemma godiv_div a b : 0 <= a -> 0 < b -> godiv a b = a / b.
Proof. intros. unfold godiv. apply Z.quot_div_nonneg; lia. Qed.

Lemma gomod_mod a b : 0 <= a -> 0 < b -> gomod a b = a mod b.
Proof. intros. unfold gomod. apply Z.rem_mod_nonneg; lia. Qed.

Lemma div_bounds a K : 0 < K -> (a / K) * K <= a < (a / K + 1) * K.
Proof.
  intros HK. pose proof (Z.div_mod a K ltac:(lia)) as H1.
  pose proof (Z.mod_pos_bound a K HK) as H2. nia.
Qed.

Lemma div_unique_bounds a K q : 0 < K -> q * K <= a < (q + 1) * K -> a / K = q.
Proof.
  intros HK Hq. symmetry. apply (Z.div_unique a K q (a - q * K)); lia.
Qed.

Lemma div_nonneg a K : 0 < K -> 0 <= a -> 0 <= a / K.
Proof. intros. apply Z.div_pos; lia. Qed.

Lemma mul_le_mono_K i f K : 0 < K -> i <= f -> i * K <= f * K.
Proof. intros. nia. Qed.

Lemma mul_lt_K_inv i f K : 0 < K -> i * K < f * K -> i < f.
Proof. intros. nia. Qed.

Lemma mod_eq_sub a K : 0 < K -> a mod K = a - (a / K) * K.
Proof. intros. pose proof (Z.div_mod a K ltac:(lia)). lia. Qed.

(* ---------------------------------------------------------------------------------------- *)
(* List helpers                                                                              *)

Lemma zlen_nil {A} : zlen (@nil A) = 0.
Proof. reflexivity. Qed.

Lemma zlen_cons {A} (x : A) l : zlen (x :: l) = 1 + zlen l.
Proof. unfold zlen. cbn [length]. lia. Qed.

Lemma zlen_app {A} (l k : list A) : zlen (l ++ k) = zlen l + zlen k.
Proof. unfold zlen. rewrite app_length. lia. Qed.

Lemma zlen_nonneg {A} (l : list A) : 0 <= zlen l.
Proof. unfold zlen. lia. Qed.

Lemma zlen_pos {A} (l : list A) : l <> [] -> 0 < zlen l.
Proof. destruct l; [congruence|]. rewrite zlen_cons. pose proof (zlen_nonneg l). lia. Qed.

Lemma zlen_take {A} (l : list A) n : zlen (take n l) = Z.min (Z.of_nat n) (zlen l).
Proof. unfold zlen. rewrite take_length. lia. Qed.

Lemma zlen_drop {A} (l : list A) n : zlen (drop n l) = Z.max 0 (zlen l - Z.of_nat n).
Proof. unfold zlen. rewrite drop_length. lia. Qed.

Lemma take_drop_take {A} (k a n : nat) (c : list A) :
  take k (drop a (take n c)) = take (min k (n - a)) (drop a c).
Proof.
  rewrite !take_drop_commute, take_take.
  destruct (decide (a <= n)%nat) as [Hle|Hgt].
  - f_equal. f_equal. lia.
  - rewrite !drop_ge; auto; rewrite take_length; lia.
Qed.

Lemma index_ok {A} (l : list A) i x : 0 <= i -> l !! Z.to_nat i = Some x -> index l i = Ok x.
Proof.
  intros Hi Hl. unfold index. destruct (i <? 0) eqn:E; [lia|]. rewrite Hl. reflexivity.
Qed.

Lemma last_drop {A} (l : list A) n : (n < length l)%nat -> last (drop n l) = last l.
Proof.
  intros Hn. rewrite !last_lookup, lookup_drop, drop_length. f_equal. lia.
Qed.

(* ---------------------------------------------------------------------------------------- *)
(* find_id                                                                                   *)

Fixpoint find_from (c : list header) (id i : Z) : option Z :=
  match c with
  | [] => None
  | h :: c' => if hid h =? id then Some i else find_from c' id (i + 1)
  end.

Lemma find_id_from c id : find_id c id = find_from c id 0.
Proof.
  unfold find_id. generalize 0. induction c as [|x c IH]; intros i; [reflexivity|].
  cbn [find_from]. destruct (hid x =? id); [reflexivity|]. apply IH.
Qed.

Lemma find_from_app c h id i :
  find_from (c ++ [h]) id i =
  match find_from c id i with
  | Some j => Some j
  | None => if hid h =? id then Some (i + zlen c) else None
  end.
Proof.
  revert i. induction c as [|x c IH]; intros i; cbn [app find_from].
  - rewrite zlen_nil. replace (i + 0) with i by lia. reflexivity.
  - destruct (hid x =? id); [reflexivity|]. rewrite IH, zlen_cons.
    replace (i + 1 + zlen c) with (i + (1 + zlen c)) by lia. reflexivity.
Qed.

Lemma find_from_None c id i : find_from c id i = None <-> id ∉ map hid c.
Proof.
  revert i. induction c as [|x c IH]; intros i; cbn [map find_from].
  - split; [intros _; apply not_elem_of_nil|reflexivity].
  - rewrite not_elem_of_cons. destruct (hid x =? id) eqn:E.
    + split; [discriminate|]. intros [Hne _]. lia.
    + rewrite IH. split; [intros Hn; split; [lia|exact Hn]|intros [_ Hn]; exact Hn].
Qed.

Lemma find_from_Some c id i j :
  find_from c id i = Some j ->
  i <= j < i + zlen c /\ exists h, c !! Z.to_nat (j - i) = Some h /\ hid h = id.
Proof.
  revert i. induction c as [|x c IH]; intros i; cbn [find_from]; [discriminate|].
  rewrite zlen_cons. pose proof (zlen_nonneg c) as Hc.
  destruct (hid x =? id) eqn:E.
  - intros [= <-]. split; [lia|]. exists x. replace (i - i) with 0 by lia. split; [reflexivity|lia].
  - intros Hf. apply IH in Hf as [Hb (h & Hl & Hh)]. split; [lia|]. exists h. split; [|exact Hh].
    replace (Z.to_nat (j - i)) with (S (Z.to_nat (j - (i + 1)))) by lia. exact Hl.
Qed.

Lemma find_from_nodup c i (j : nat) h :
  NoDup (map hid c) -> c !! j = Some h -> find_from c (hid h) i = Some (i + Z.of_nat j).
Proof.
  revert i j. induction c as [|x c IH]; intros i j Hnd Hl; [discriminate|].
  cbn [map] in Hnd. apply NoDup_cons in Hnd as [Hx Hnd]. cbn [find_from].
  destruct j as [|j]; cbn in Hl.
  - injection Hl as ->. rewrite Z.eqb_refl. f_equal. lia.
  - destruct (hid x =? hid h) eqn:E.
    + exfalso. apply Hx. apply Z.eqb_eq in E. rewrite E.
      apply elem_of_list_fmap_1. eapply elem_of_list_lookup_2; eauto.
    + rewrite (IH (i + 1) j Hnd Hl). f_equal. lia.
Qed.

Lemma find_from_take c id i (m : nat) :
  find_from (take m c) id i =
  match find_from c id i with
  | Some j => if j <? i + Z.of_nat m then Some j else None
  | None => None
  end.
Proof.
  revert i m. induction c as [|x c IH]; intros i m.
  - rewrite take_nil. reflexivity.
  - destruct m as [|m].
    + rewrite take_0. destruct (find_from (x :: c) id i) as [j|] eqn:E; [|reflexivity].
      apply find_from_Some in E as [Hb _]. destruct (j <? i + Z.of_nat 0) eqn:E2; [lia|reflexivity].
    + cbn [take find_from]. destruct (hid x =? id).
      * destruct (i <? i + Z.of_nat (S m)) eqn:E2; [reflexivity|lia].
      * rewrite IH. destruct (find_from c id (i + 1)) as [j|]; [|reflexivity].
        replace (i + 1 + Z.of_nat m) with (i + Z.of_nat (S m)) by lia. reflexivity.
Qed.

Lemma fresh_None c id : fresh c id = true <-> find_id c id = None.
Proof.
  unfold fresh. rewrite negb_true_iff, bool_decide_eq_false, <- eq_None_not_Some. reflexivity.
Qed.

(* ---------------------------------------------------------------------------------------- *)
(* The refinement invariant                                                                  *)

(* the content of file i when the persisted prefix of the chain is p *)
Definition file_at (K : Z) (p : list header) (i : Z) : option (list header) :=
  if (i <? 0) || (zlen p <=? i * K) then None
  else Some (take (Z.to_nat K) (drop (Z.to_nat (i * K)) p)).

(* index of the newest file *)
Definition fidx (K : Z) (c : list header) : Z := (zlen c - 1) / K.

Record R (K : Z) (r : repo) (st : store) (a : astate) : Prop := mkR {
  R_ne : chain a <> [];
  R_nodup : NoDup (map hid (chain a));
  R_height : height r = zlen (chain a) - 1;
  R_saved : fidx K (chain a) * K <= saved a <= zlen (chain a);
  R_lasth : lasth r = drop (Z.to_nat (fidx K (chain a) * K)) (chain a);
  R_heights : forall id, heights r !! id = find_id (chain a) id;
  R_store : forall i, st !! i = file_at K (take (Z.to_nat (saved a)) (chain a)) i;
}.

Lemma fidx_bounds K c :
  0 < K -> c <> [] ->
  0 <= fidx K c /\ 0 <= fidx K c * K /\ fidx K c * K <= zlen c - 1 < (fidx K c + 1) * K.
Proof.
  intros HK Hne. pose proof (zlen_pos c Hne) as Hp. unfold fidx.
  pose proof (div_bounds (zlen c - 1) K HK) as Hb.
  pose proof (div_nonneg (zlen c - 1) K HK ltac:(lia)) as Hn.
  split; [exact Hn|]. split; [nia|exact Hb].
Qed.

Lemma fidx_unique K c q : 0 < K -> q * K <= zlen c - 1 < (q + 1) * K -> fidx K c = q.
Proof. intros HK Hq. unfold fidx. apply div_unique_bounds; assumption. Qed.

Lemma file_at_None K p i : 0 < K -> i < 0 \/ zlen p <= i * K -> file_at K p i = None.
Proof.
  intros HK Hi. unfold file_at.
  destruct ((i <? 0) || (zlen p <=? i * K)) eqn:E; [reflexivity|lia].
Qed.

Lemma file_at_Some K p i :
  0 <= i -> i * K < zlen p ->
  file_at K p i = Some (take (Z.to_nat K) (drop (Z.to_nat (i * K)) p)).
Proof.
  intros Hi Hl. unfold file_at.
  destruct ((i <? 0) || (zlen p <=? i * K)) eqn:E; [lia|reflexivity].
Qed.

Lemma R_init K : 0 < K -> R K (fst init_state) (snd init_state) a_init.
Proof.
  intros HK. assert (Hf : fidx K [genesis] = 0).
  { apply fidx_unique; [exact HK|]. change (zlen [genesis]) with 1. lia. }
  constructor; cbn [init_state a_init fst snd chain saved height lasth heights].
  - discriminate.
  - cbn. apply NoDup_singleton.
  - reflexivity.
  - rewrite Hf. change (zlen [genesis]) with 1. lia.
  - rewrite Hf. reflexivity.
  - intros id. rewrite find_id_from. cbn [find_from genesis hid].
    destruct (0 =? id) eqn:E.
    + apply Z.eqb_eq in E. subst id. apply lookup_singleton.
    + apply lookup_singleton_ne. lia.
  - intros i. unfold store. rewrite lookup_empty. symmetry. apply file_at_None; [exact HK|].
    rewrite take_0. change (zlen []) with 0. destruct (Z.lt_ge_cases i 0); [left; lia|right; nia].
Qed.

(* ---------------------------------------------------------------------------------------- *)
(* Queries                                                                                   *)

(* Where the header of height h is found: in lastHeaders or in a full older file. *)
Lemma R_lookup K r st a h x :
  0 < K -> R K r st a -> 0 <= h -> chain a !! Z.to_nat h = Some x ->
  ((height r - h <? zlen (lasth r)) = true /\
   index (lasth r) (zlen (lasth r) - 1 - (height r - h)) = Ok x) \/
  ((height r - h <? zlen (lasth r)) = false /\
   exists hs, read K st h = Ok hs /\ (zlen hs =? K) = true /\ index hs (gomod h K) = Ok x).
Proof.
  intros HK [Hne Hnd Hh Hs Hl Hhs Hst] Hh0 Hx.
  set (c := chain a) in *. set (n := saved a) in *.
  destruct (fidx_bounds K c HK Hne) as (Hf0 & HfK0 & Hfb). set (f := fidx K c) in *.
  pose proof (lookup_lt_Some _ _ _ Hx) as Hlt.
  assert (Hzl : zlen (lasth r) = zlen c - f * K) by (rewrite Hl, zlen_drop; lia).
  rewrite Hzl.
  destruct (height r - h <? zlen c - f * K) eqn:E3; [left|right]; (split; [reflexivity|]).
  - apply index_ok; [unfold zlen in *; lia|]. rewrite Hl, lookup_drop, <- Hx. f_equal.
    unfold zlen in *. lia.
  - pose proof (div_bounds h K HK) as Hg. pose proof (div_nonneg h K HK Hh0) as Hg0.
    set (g := h / K) in *.
    assert (Hgf : g + 1 <= f) by (assert (g < f); [apply (mul_lt_K_inv g f K HK)|]; lia).
    pose proof (mul_le_mono_K (g + 1) f K HK Hgf) as HgK.
    assert (HgK0 : 0 <= g * K) by nia.
    unfold read, path. rewrite godiv_div by lia. fold g. rewrite Hst.
    rewrite file_at_Some; [|lia|rewrite zlen_take; lia].
    eexists. split; [reflexivity|]. split.
    + rewrite zlen_take, zlen_drop, zlen_take. lia.
    + rewrite gomod_mod by lia. pose proof (Z.mod_pos_bound h K HK) as Hm.
      pose proof (mod_eq_sub h K HK) as Hme. fold g in Hme.
      apply index_ok; [lia|].
      rewrite lookup_take by lia. rewrite lookup_drop. rewrite lookup_take by lia.
      rewrite <- Hx. f_equal. lia.
Qed.

Lemma at_height_Some c h x : at_height c h = Some x -> 0 <= h /\ c !! Z.to_nat h = Some x.
Proof. unfold at_height. destruct (h <? 0) eqn:E; [discriminate|]. intros H. split; [lia|exact H]. Qed.

Lemma at_height_None c h : at_height c h = None -> h < 0 \/ zlen c <= h.
Proof.
  unfold at_height. destruct (h <? 0) eqn:E; [lia|]. intros H%lookup_ge_None.
  unfold zlen. lia.
Qed.

Lemma get_header_spec K r st a h :
  0 < K -> R K r st a ->
  get_header K r st h = match at_height (chain a) h with Some x => Ok x | None => Err EGeneric end.
Proof.
  intros HK HR. pose proof (R_height _ _ _ _ HR) as Hh. unfold get_header.
  destruct (at_height (chain a) h) as [x|] eqn:E.
  - apply at_height_Some in E as [Hh0 Hx]. pose proof (lookup_lt_Some _ _ _ Hx) as Hlt.
    destruct (h >? height r) eqn:E1; [unfold zlen in *; lia|].
    destruct (h <? 0) eqn:E2; [lia|].
    destruct (R_lookup K r st a h x HK HR Hh0 Hx) as [[-> ->]|[-> (hs & -> & -> & ->)]]; reflexivity.
  - apply at_height_None in E.
    destruct (h >? height r) eqn:E1; [reflexivity|].
    destruct (h <? 0) eqn:E2; [reflexivity|lia].
Qed.

Lemma get_hash_spec K r st a h :
  0 < K -> R K r st a ->
  get_hash K r st h = match at_height (chain a) h with Some x => Ok (hid x) | None => Err EGeneric end.
Proof.
  intros HK HR. unfold get_hash. rewrite (get_header_spec K r st a h HK HR).
  destruct (at_height (chain a) h); reflexivity.
Qed.

Lemma get_time_spec K r st a h :
  0 < K -> R K r st a ->
  get_time K r st h = Ok (match at_height (chain a) h with Some x => htime x | None => 0 end).
Proof.
  intros HK HR. pose proof (R_height _ _ _ _ HR) as Hh. unfold get_time.
  destruct (at_height (chain a) h) as [x|] eqn:E.
  - apply at_height_Some in E as [Hh0 Hx]. pose proof (lookup_lt_Some _ _ _ Hx) as Hlt.
    destruct ((h >? height r) || (h <? 0)) eqn:E1; [unfold zlen in *; lia|].
    destruct (R_lookup K r st a h x HK HR Hh0 Hx) as [[-> ->]|[-> (hs & -> & -> & ->)]]; reflexivity.
  - apply at_height_None in E.
    destruct ((h >? height r) || (h <? 0)) eqn:E1; [reflexivity|lia].
Qed.

Lemma last_hash_spec K r st a :
  0 < K -> R K r st a ->
  exists x, last (chain a) = Some x /\ last_hash r = Ok (hid x).
Proof.
  intros HK [Hne Hnd Hh Hs Hl Hhs Hst].
  set (c := chain a) in *.
  destruct (fidx_bounds K c HK Hne) as (Hf0 & HfK0 & Hfb). set (f := fidx K c) in *.
  pose proof (zlen_pos c Hne) as Hp.
  assert (Hlt : (Z.to_nat (f * K) < length c)%nat) by (unfold zlen in *; lia).
  assert (Hzl : zlen (lasth r) = zlen c - f * K) by (rewrite Hl, zlen_drop; lia).
  destruct (last c) as [x|] eqn:E.
  2:{ rewrite last_lookup in E. apply lookup_ge_None in E. unfold zlen in *. lia. }
  exists x. split; [reflexivity|]. unfold last_hash.
  rewrite (index_ok (lasth r) _ x); [reflexivity|lia|].
  rewrite <- E, <- (last_drop c _ Hlt), <- Hl, last_lookup. f_equal. unfold zlen. lia.
Qed.

Lemma get_headers_loop_spec K r st a fuel i :
  0 < K -> R K r st a -> 0 <= i ->
  get_headers_loop K r st fuel i = Ok (take fuel (drop (Z.to_nat i) (chain a))).
Proof.
  intros HK HR. revert i. induction fuel as [|fuel IH]; intros i Hi.
  - rewrite take_0. reflexivity.
  - cbn [get_headers_loop]. unfold header_at. destruct (i =? -1) eqn:E; [lia|].
    rewrite (get_header_spec K r st a i HK HR).
    destruct (at_height (chain a) i) as [x|] eqn:E2.
    + apply at_height_Some in E2 as [_ Hx]. rewrite IH by lia. cbn [res_bind].
      replace (Z.to_nat (i + 1)) with (S (Z.to_nat i)) by lia.
      rewrite (drop_S _ _ _ Hx). reflexivity.
    + apply at_height_None in E2. rewrite drop_ge by (unfold zlen in *; lia).
      rewrite take_nil. reflexivity.
Qed.

Lemma get_headers_spec K r st a h maxc :
  0 < K -> R K r st a ->
  get_headers K r st h maxc =
  let start := if h =? -1 then Z.max 0 (zlen (chain a) - maxc) else h in
  Ok (h, start, if start <? 0 then [] else take (Z.to_nat maxc) (drop (Z.to_nat start) (chain a))).
Proof.
  intros HK HR. pose proof (R_height _ _ _ _ HR) as Hh. unfold get_headers. rewrite Hh.
  replace (zlen (chain a) - 1 - maxc + 1) with (zlen (chain a) - maxc) by lia.
  set (start := if h =? -1 then Z.max 0 (zlen (chain a) - maxc) else h). cbv zeta.
  assert (Hs1 : start <> -1) by (subst start; destruct (h =? -1) eqn:E; lia).
  destruct (start <? 0) eqn:E.
  - destruct (Z.to_nat (Z.min maxc (zlen (chain a) - 1 + 2))) as [|fuel]; [reflexivity|].
    cbn [get_headers_loop]. unfold header_at. destruct (start =? -1) eqn:E1; [lia|].
    rewrite (get_header_spec K r st a start HK HR). unfold at_height. rewrite E. reflexivity.
  - rewrite (get_headers_loop_spec K r st a _ start HK HR) by lia. cbn [res_bind].
    f_equal. f_equal.
    destruct (Z.le_gt_cases maxc (zlen (chain a) - 1 + 2)) as [Hle|Hgt].
    + rewrite Z.min_l by lia. reflexivity.
    + rewrite Z.min_r by lia. rewrite !take_ge; [reflexivity| |]; rewrite drop_length;
        unfold zlen in *; lia.
Qed.

(* ---------------------------------------------------------------------------------------- *)
(* Save and Add                                                                              *)

Lemma file_at_take_full K c n i :
  0 < K -> 0 <= i -> (i + 1) * K <= n -> n <= zlen c ->
  file_at K (take (Z.to_nat n) c) i = file_at K c i.
Proof.
  intros HK Hi Hn Hc. assert (0 <= i * K) by nia.
  rewrite !file_at_Some; [|lia|lia|lia|rewrite zlen_take; lia].
  rewrite take_drop_take. do 2 f_equal. lia.
Qed.

Lemma save_R K r st a :
  0 < K -> R K r st a -> R K r (save K r st) (AState (chain a) (zlen (chain a))).
Proof.
  intros HK [Hne Hnd Hh Hs Hl Hhs Hst].
  set (c := chain a) in *. set (n := saved a) in *.
  destruct (fidx_bounds K c HK Hne) as (Hf0 & HfK0 & Hfb).
  constructor; cbn [chain saved]; fold c; try assumption.
  - lia.
  - intros i. unfold save, path. rewrite Hh, godiv_div by lia. fold (fidx K c).
    set (f := fidx K c) in *. rewrite take_ge by (unfold zlen; lia).
    unfold store in *. destruct (decide (i = f)) as [->|Hne'].
    + rewrite lookup_insert, file_at_Some by lia. rewrite Hl. f_equal. symmetry.
      apply take_ge. rewrite drop_length. unfold zlen in *. lia.
    + rewrite lookup_insert_ne by congruence. rewrite Hst.
      destruct (Z.lt_ge_cases i 0) as [Hi|Hi]; [rewrite !file_at_None by lia; reflexivity|].
      destruct (Z.lt_ge_cases i f) as [Hlt|Hge].
      * pose proof (mul_le_mono_K (i + 1) f K HK ltac:(lia)).
        apply file_at_take_full; lia.
      * pose proof (mul_le_mono_K (f + 1) i K HK ltac:(lia)).
        rewrite !file_at_None; [reflexivity|lia|lia|lia|]. right. rewrite zlen_take. lia.
Qed.

Lemma rem_boundary K z f :
  0 < K -> 0 <= z -> f * K <= z - 1 < (f + 1) * K ->
  (Z.rem z K =? 0) = (z - f * K =? K).
Proof.
  intros HK Hz Hf. rewrite Z.rem_mod_nonneg by lia.
  destruct (z - f * K =? K) eqn:E.
  - replace z with ((f + 1) * K) by lia. rewrite Z.mod_mul by lia. reflexivity.
  - rewrite <- (Z.mod_unique z K f (z - f * K)); lia.
Qed.

Lemma add_core K r st a h :
  0 < K -> R K r st a -> fresh (chain a) (hid h) = true ->
  (zlen (lasth r) = K -> saved a = zlen (chain a)) ->
  R K (Repo (height r + 1) ((if zlen (lasth r) =? K then [] else lasth r) ++ [h])
            (<[hid h := height r + 1]> (heights r)))
      st (AState (chain a ++ [h]) (saved a)).
Proof.
  intros HK [Hne Hnd Hh Hs Hl Hhs Hst] Hfr Hsv.
  set (c := chain a) in *. set (n := saved a) in *.
  destruct (fidx_bounds K c HK Hne) as (Hf0 & HfK0 & Hfb). set (f := fidx K c) in *.
  assert (Hzl : zlen (lasth r) = zlen c - f * K) by (rewrite Hl, zlen_drop; lia).
  apply fresh_None in Hfr. rewrite find_id_from in Hfr.
  assert (Hf' : fidx K (c ++ [h]) = if zlen (lasth r) =? K then f + 1 else f).
  { apply fidx_unique; [exact HK|]. rewrite zlen_app. change (zlen [h]) with 1.
    destruct (zlen (lasth r) =? K) eqn:E; lia. }
  constructor; cbn [chain saved height lasth heights]; fold c; fold n.
  - intros Heq. apply app_eq_nil in Heq as [_ Heq]. discriminate.
  - rewrite map_app. apply NoDup_app. split; [exact Hnd|]. split.
    + intros x Hx Hx'. apply elem_of_list_singleton in Hx'. subst x.
      apply (proj1 (find_from_None c (hid h) 0)); assumption.
    + apply NoDup_singleton.
  - rewrite zlen_app. change (zlen [h]) with 1. lia.
  - rewrite Hf', zlen_app. change (zlen [h]) with 1.
    destruct (zlen (lasth r) =? K) eqn:E; [|lia]. specialize (Hsv ltac:(lia)). lia.
  - rewrite Hf'. destruct (zlen (lasth r) =? K) eqn:E.
    + replace (Z.to_nat ((f + 1) * K)) with (length c) by (unfold zlen in *; lia).
      rewrite drop_app. reflexivity.
    + rewrite drop_app_le by (unfold zlen in *; lia). rewrite Hl. reflexivity.
  - intros id. rewrite find_id_from, find_from_app, <- find_id_from, <- Hhs.
    destruct (decide (hid h = id)) as [<-|Hne'].
    + rewrite lookup_insert, Hhs, find_id_from, Hfr, Z.eqb_refl. f_equal. lia.
    + rewrite lookup_insert_ne by exact Hne'. destruct (heights r !! id); [reflexivity|].
      destruct (hid h =? id) eqn:E; [lia|reflexivity].
  - intros i. rewrite Hst. rewrite take_app_le by (unfold zlen in *; lia). reflexivity.
Qed.

Lemma add_R K r st a h :
  0 < K -> R K r st a -> fresh (chain a) (hid h) = true ->
  R K (fst (add K r st h)) (snd (add K r st h))
      (AState (chain a ++ [h])
              (if Z.rem (zlen (chain a)) K =? 0 then zlen (chain a) else saved a)).
Proof.
  intros HK HR Hfr. pose proof HR as [Hne Hnd Hh Hs Hl Hhs Hst].
  destruct (fidx_bounds K (chain a) HK Hne) as (Hf0 & HfK0 & Hfb).
  assert (Hzl : zlen (lasth r) = zlen (chain a) - fidx K (chain a) * K)
    by (rewrite Hl, zlen_drop; lia).
  rewrite (rem_boundary K (zlen (chain a)) (fidx K (chain a))); [|lia|apply zlen_nonneg|lia].
  rewrite <- Hzl. unfold add. destruct (zlen (lasth r) =? K) eqn:E; cbn [fst snd].
  - pose proof (save_R K r st a HK HR) as HR1.
    pose proof (add_core K r (save K r st) _ h HK HR1 Hfr) as HR2.
    cbn [chain saved] in HR2. rewrite E in HR2. apply HR2. reflexivity.
  - pose proof (add_core K r st a h HK HR Hfr) as HR2. rewrite E in HR2. apply HR2. lia.
Qed.

Definition spec_addn (K : Z) : nat -> astate -> Z -> Z -> astate :=
  fix go (k : nat) (a : astate) (id prev : Z) : astate :=
    match k with
    | O => a
    | S k' =>
      let c := chain a in
      go k' (AState (c ++ [Header id prev (time_of_id id)])
                    (if Z.rem (zlen c) K =? 0 then zlen c else saved a)) (id + 1) id
    end.

Lemma spec_step_addn K a first n :
  spec_step K a (OAddN first n) =
  (spec_addn K (Z.to_nat n) a first (match last (chain a) with Some h => hid h | None => -88 end),
   [OK]).
Proof. reflexivity. Qed.

Lemma fresh_range_app c h k id :
  hid h < id -> fresh_range c k id = true -> fresh_range (c ++ [h]) k id = true.
Proof.
  revert id. induction k as [|k IH]; intros id Hlt; cbn [fresh_range]; [reflexivity|].
  rewrite !andb_true_iff. intros [Hf Hr]. split; [|apply IH; [lia|exact Hr]].
  apply fresh_None. apply fresh_None in Hf. rewrite find_id_from in *.
  rewrite find_from_app, Hf. destruct (hid h =? id) eqn:E; [lia|reflexivity].
Qed.

Lemma add_n_R K k : forall r st a id prev,
  0 < K -> R K r st a -> fresh_range (chain a) k id = true ->
  R K (fst (add_n K r st k id prev)) (snd (add_n K r st k id prev)) (spec_addn K k a id prev).
Proof.
  induction k as [|k IH]; intros r st a id prev HK HR Hfr; cbn [add_n spec_addn]; [exact HR|].
  cbn [fresh_range] in Hfr. apply andb_true_iff in Hfr as [Hf Hr].
  pose proof (add_R K r st a (Header id prev (time_of_id id)) HK HR Hf) as HR1.
  destruct (add K r st (Header id prev (time_of_id id))) as [r1 st1]. cbn [fst snd] in HR1.
  cbv zeta. apply IH; [exact HK|exact HR1|]. cbn [chain].
  apply fresh_range_app; [cbn [hid]; lia|exact Hr].
Qed.

(* ---------------------------------------------------------------------------------------- *)
(* Revert                                                                                    *)

Lemma collect_hashes_spec K r st a fuel : forall h,
  0 < K -> R K r st a -> h <= height r -> 0 <= h - Z.of_nat fuel + 1 ->
  exists l, collect_hashes K r st fuel h = Ok l /\
    forall id, id ∈ l <->
      exists (j : nat) x, h - Z.of_nat fuel < Z.of_nat j <= h /\ chain a !! j = Some x /\ hid x = id.
Proof.
  induction fuel as [|fuel IH]; intros h HK HR Hh Hlo.
  - exists []. split; [reflexivity|]. intros id. split; [intros Hin; inversion Hin|].
    intros (j & x & Hb & _). lia.
  - cbn [collect_hashes]. rewrite (get_hash_spec K r st a h HK HR).
    pose proof (R_height _ _ _ _ HR) as Hht.
    assert (Hlt : (Z.to_nat h < length (chain a))%nat) by (unfold zlen in *; lia).
    destruct (lookup_lt_is_Some_2 _ _ Hlt) as [x Hx].
    unfold at_height. destruct (h <? 0) eqn:E; [lia|]. rewrite Hx. cbn [res_bind].
    destruct (IH (h - 1) HK HR ltac:(lia) ltac:(lia)) as (l & -> & Hl). cbn [res_bind].
    exists (hid x :: l). split; [reflexivity|]. intros id. rewrite elem_of_cons, Hl. split.
    + intros [->|(j & y & Hb & Hy & Hid)].
      * exists (Z.to_nat h), x. split; [lia|]. split; [exact Hx|reflexivity].
      * exists j, y. split; [lia|]. split; assumption.
    + intros (j & y & Hb & Hy & Hid). destruct (decide (Z.of_nat j = h)) as [Heq|Hne].
      * left. replace j with (Z.to_nat h) in Hy by lia. congruence.
      * right. exists j, y. split; [lia|]. split; assumption.
Qed.

Lemma delete_all_in ks (m : gmap Z Z) id : id ∈ ks -> delete_all ks m !! id = None.
Proof.
  induction ks as [|k ks IH]; intros Hin; [inversion Hin|]. cbn [delete_all foldr].
  destruct (decide (k = id)) as [->|Hne]; [apply lookup_delete|].
  rewrite lookup_delete_ne by exact Hne. apply IH. apply elem_of_cons in Hin as [->|Hin]; congruence.
Qed.

Lemma delete_all_notin ks (m : gmap Z Z) id : id ∉ ks -> delete_all ks m !! id = m !! id.
Proof.
  induction ks as [|k ks IH]; intros Hin; [reflexivity|]. cbn [delete_all foldr].
  apply not_elem_of_cons in Hin as [Hne Hin].
  rewrite lookup_delete_ne by congruence. apply IH. exact Hin.
Qed.

Lemma remove_files_spec K rm_err c fuel : forall (st : gmap Z (list header)) g t,
  0 < K -> 0 <= t -> t / K <= g -> g * K < zlen c ->
  (forall i, st !! i = if i <=? g then file_at K c i else None) ->
  (Z.to_nat (g - t / K) < fuel)%nat ->
  exists st' : gmap Z (list header),
    remove_files K rm_err st fuel (g * K - 1) t = (Some (t / K * K - 1), st') /\
    forall i, st' !! i = if i <=? t / K then file_at K c i else None.
Proof.
  induction fuel as [|fuel IH]; intros st g t HK Ht Hg Hgc Hst Hfuel; [lia|].
  pose proof (div_bounds t K HK) as Hb. pose proof (div_nonneg t K HK Ht) as Hf0.
  set (f' := t / K) in *. cbn [remove_files].
  destruct (g * K - 1 >=? t) eqn:E.
  - assert (Hlt : f' < g) by (apply (mul_lt_K_inv f' g K HK); lia).
    assert (Hp : path K (g * K - 1 + K) = g).
    { unfold path. rewrite godiv_div by nia. apply div_unique_bounds; lia. }
    rewrite Hp. unfold store in *. rewrite Hst.
    destruct (g <=? g) eqn:E2; [|lia]. rewrite file_at_Some by lia.
    replace (g * K - 1 - K) with ((g - 1) * K - 1) by lia.
    apply IH; fold f'; [exact HK|exact Ht|lia|lia| |lia].
    intros i. destruct (decide (i = g)) as [->|Hne].
    + rewrite lookup_delete. destruct (g <=? g - 1) eqn:E3; [lia|reflexivity].
    + rewrite lookup_delete_ne by congruence. rewrite Hst.
      destruct (i <=? g) eqn:E3; destruct (i <=? g - 1) eqn:E4; try lia; reflexivity.
  - assert (Heq : g = f').
    { assert (g < f' + 1) by (apply (mul_lt_K_inv g (f' + 1) K HK); lia). lia. }
    subst g. exists st. split; [reflexivity|exact Hst].
Qed.

Lemma NoDup_map_take (c : list header) n : NoDup (map hid c) -> NoDup (map hid (take n c)).
Proof.
  intros Hnd. rewrite <- (take_drop n c), map_app in Hnd. apply NoDup_app in Hnd as [Hnd _].
  exact Hnd.
Qed.

Lemma R_after_revert K c t lasth' (hts : gmap Z Z) (st3 : gmap Z (list header)) :
  0 < K -> c <> [] -> NoDup (map hid c) -> 0 <= t < zlen c ->
  lasth' = drop (Z.to_nat (t / K * K)) (take (Z.to_nat (t + 1)) c) ->
  (forall id, hts !! id = find_id (take (Z.to_nat (t + 1)) c) id) ->
  (forall i, st3 !! i = if i =? t / K then Some lasth'
                        else if i <? t / K then file_at K c i else None) ->
  R K (Repo t lasth' hts) st3 (AState (take (Z.to_nat (t + 1)) c) (t + 1)).
Proof.
  intros HK Hne Hnd Ht Hl Hhs Hst.
  pose proof (div_bounds t K HK) as Hb. pose proof (div_nonneg t K HK ltac:(lia)) as Hf0.
  set (c' := take (Z.to_nat (t + 1)) c) in *.
  assert (Hzc : zlen c' = t + 1) by (subst c'; rewrite zlen_take; lia).
  assert (Hf : fidx K c' = t / K) by (unfold fidx; rewrite Hzc; f_equal; lia).
  set (f' := t / K) in *. assert (0 <= f' * K) by nia.
  constructor; cbn [chain saved height lasth heights]; try rewrite Hf; try rewrite Hzc.
  - intros Heq. rewrite Heq in Hzc. change (zlen []) with 0 in Hzc. lia.
  - apply NoDup_map_take. exact Hnd.
  - lia.
  - lia.
  - exact Hl.
  - exact Hhs.
  - intros i. rewrite Hst. rewrite (take_ge c') by (unfold zlen in *; lia).
    destruct (i =? f') eqn:E1.
    + apply Z.eqb_eq in E1. subst i. rewrite file_at_Some by lia. f_equal. rewrite Hl.
      symmetry. apply take_ge. rewrite drop_length. unfold zlen in *. lia.
    + destruct (i <? f') eqn:E2.
      * destruct (Z.lt_ge_cases i 0) as [Hi|Hi]; [rewrite !file_at_None by lia; reflexivity|].
        pose proof (mul_le_mono_K (i + 1) f' K HK ltac:(lia)).
        symmetry. apply file_at_take_full; lia.
      * pose proof (mul_le_mono_K (f' + 1) i K HK ltac:(lia)).
        symmetry. apply file_at_None; lia.
Qed.

Lemma revert_R K rm_err r st a t :
  0 < K -> R K r st a -> 0 <= t <= zlen (chain a) - 1 ->
  exists r' st', revert K rm_err r st t = (Ok tt, r', st') /\
    R K r' st' (AState (take (Z.to_nat (t + 1)) (chain a)) (t + 1)).
Proof.
  intros HK HR Ht. pose proof (save_R K r st a HK HR) as HR1.
  destruct HR as [Hne Hnd Hh _ Hl Hhs _]. pose proof (R_store _ _ _ _ HR1) as Hst1.
  cbn [chain saved] in Hst1. set (c := chain a) in *.
  destruct (fidx_bounds K c HK Hne) as (Hf0 & HfK0 & Hfb).
  pose proof (div_bounds t K HK) as Hb. pose proof (div_nonneg t K HK ltac:(lia)) as Hf'0.
  unfold revert. destruct (t >? height r) eqn:E1; [lia|]. destruct (t <? 0) eqn:E2; [lia|].
  set (st1 := save K r st) in *.
  destruct (collect_hashes_spec K r st1 _ (Z.to_nat (height r - t)) (height r) HK HR1
              ltac:(lia) ltac:(lia)) as (removed & -> & Hrem).
  cbn [chain] in Hrem. fold c in Hrem.
  rewrite (godiv_div (height r) K) by lia. rewrite Hh. fold (fidx K c). set (f := fidx K c) in *.
  rewrite take_ge in Hst1 by (unfold zlen; lia).
  assert (Hff : t / K <= f).
  { assert (t / K < f + 1) by (apply (mul_lt_K_inv (t / K) (f + 1) K HK); lia). lia. }
  destruct (remove_files_spec K rm_err c (Z.to_nat (f + 1)) st1 f t HK ltac:(lia) Hff ltac:(lia))
    as (st2 & -> & Hst2).
  { intros i. rewrite Hst1. destruct (i <=? f) eqn:E3; [reflexivity|].
    pose proof (mul_le_mono_K (f + 1) i K HK ltac:(lia)). apply file_at_None; lia. }
  { lia. }
  set (f' := t / K) in *. assert (0 <= f' * K) by nia.
  assert (Hp : path K (f' * K - 1 + K) = f').
  { unfold path. rewrite godiv_div by lia. apply div_unique_bounds; lia. }
  rewrite Hp. pose proof (Hst2 f') as Hd. destruct (f' <=? f') eqn:E3; [|lia].
  rewrite file_at_Some in Hd by lia. unfold store in *. rewrite Hd.
  set (data := take (Z.to_nat K) (drop (Z.to_nat (f' * K)) c)) in *.
  set (cnt := t - (f' * K - 1)).
  assert (Hzd : zlen data = Z.min K (zlen c - f' * K))
    by (subst data; rewrite zlen_take, zlen_drop; lia).
  assert (Htk : take (Z.to_nat cnt) data =
                drop (Z.to_nat (f' * K)) (take (Z.to_nat (t + 1)) c)).
  { subst data. rewrite take_take, take_drop_commute. do 2 f_equal. lia. }
  assert (Hhts : forall id, delete_all removed (heights r) !! id =
                            find_id (take (Z.to_nat (t + 1)) c) id).
  { intros id. rewrite find_id_from, find_from_take.
    destruct (decide (id ∈ removed)) as [Hin|Hnin].
    - rewrite delete_all_in by exact Hin. apply Hrem in Hin as (j & x & Hj & Hx & <-).
      rewrite (find_from_nodup c 0 j x Hnd Hx).
      destruct (0 + Z.of_nat j <? 0 + Z.of_nat (Z.to_nat (t + 1))) eqn:E4; [lia|reflexivity].
    - rewrite delete_all_notin by exact Hnin. rewrite Hhs, find_id_from.
      destruct (find_from c id 0) as [z|] eqn:E4; [|reflexivity].
      destruct (z <? 0 + Z.of_nat (Z.to_nat (t + 1))) eqn:E5; [reflexivity|].
      exfalso. apply Hnin. apply Hrem. apply find_from_Some in E4 as (Hz & x & Hx & Hid).
      exists (Z.to_nat (z - 0)), x. split; [lia|]. split; assumption. }
  destruct ((cnt <? K) && (zlen data >? cnt)) eqn:E4.
  - eexists _, _. split; [reflexivity|].
    apply R_after_revert; try assumption; try lia.
    intros i. fold f'. rewrite Htk. destruct (i =? f') eqn:E5.
    + apply Z.eqb_eq in E5. subst i. apply lookup_insert.
    + rewrite lookup_insert_ne by lia. rewrite Hst2.
      destruct (i <=? f') eqn:E6; destruct (i <? f') eqn:E7; try lia; reflexivity.
  - eexists _, _. split; [reflexivity|].
    assert (Hdd : data = take (Z.to_nat cnt) data).
    { symmetry. apply take_ge. unfold zlen in *. lia. }
    rewrite Hdd at 1. rewrite Htk.
    apply R_after_revert; try assumption; try lia; try reflexivity.
    intros i. fold f'. rewrite <- Htk, <- Hdd. destruct (i =? f') eqn:E5.
    + apply Z.eqb_eq in E5. subst i. exact Hd.
    + rewrite Hst2.
      destruct (i <=? f') eqn:E6; destruct (i <? f') eqn:E7; try lia; reflexivity.
Qed.

(* ---------------------------------------------------------------------------------------- *)
(* The list of stored files                                                                  *)

Definition nfiles (K n : Z) : Z := (n + K - 1) / K.

Lemma nfiles_spec K n i : 0 < K -> 0 <= n -> (i < nfiles K n <-> i * K < n).
Proof.
  intros HK Hn. unfold nfiles. pose proof (div_bounds (n + K - 1) K HK) as Hb.
  set (q := (n + K - 1) / K) in *. split; intros Hi.
  - pose proof (mul_le_mono_K i (q - 1) K HK ltac:(lia)). lia.
  - apply (mul_lt_K_inv i q K HK). lia.
Qed.

Lemma nfiles_nonneg K n : 0 < K -> 0 <= n -> 0 <= nfiles K n.
Proof.
  intros HK Hn. pose proof (proj2 (nfiles_spec K n (-1) HK Hn) ltac:(lia)). lia.
Qed.

Definition chunk (K : Z) (p : list header) (j : nat) : list header :=
  take (Z.to_nat K) (drop (Z.to_nat (Z.of_nat j * K)) p).

Definition file_list (K : Z) (p : list header) : list (Z * list header) :=
  map (fun j : nat => (Z.of_nat j, chunk K p j)) (seq 0 (Z.to_nat (nfiles K (zlen p)))).

Lemma store_perm K p (st : gmap Z (list header)) :
  0 < K -> (forall i, st !! i = file_at K p i) -> map_to_list st ≡ₚ file_list K p.
Proof.
  intros HK Hst. pose proof (zlen_nonneg p) as Hp.
  pose proof (nfiles_nonneg K (zlen p) HK Hp) as Hnf.
  apply NoDup_Permutation.
  - apply NoDup_map_to_list.
  - unfold file_list.
    assert (Hinj : Inj (=) (=) (fun j : nat => (Z.of_nat j, chunk K p j))).
    { intros x y [= Hxy _]. lia. }
    apply (NoDup_fmap_2 (fun j : nat => (Z.of_nat j, chunk K p j))). apply NoDup_seq.
  - intros [i x]. rewrite elem_of_map_to_list, Hst. unfold file_list.
    change (map ?f ?l) with (f <$> l). rewrite elem_of_list_fmap. split.
    + unfold file_at. destruct ((i <? 0) || (zlen p <=? i * K)) eqn:E; [discriminate|].
      intros [= <-]. exists (Z.to_nat i). split.
      * unfold chunk. replace (Z.of_nat (Z.to_nat i)) with i by lia. reflexivity.
      * apply elem_of_seq. pose proof (proj2 (nfiles_spec K (zlen p) i HK Hp)). lia.
    + intros (j & [= -> ->] & Hj). apply elem_of_seq in Hj.
      pose proof (proj1 (nfiles_spec K (zlen p) (Z.of_nat j) HK Hp) ltac:(lia)).
      rewrite file_at_Some by lia. reflexivity.
Qed.

Lemma store_size K p (st : gmap Z (list header)) :
  0 < K -> (forall i, st !! i = file_at K p i) -> Z.of_nat (size st) = nfiles K (zlen p).
Proof.
  intros HK Hst. pose proof (zlen_nonneg p) as Hp.
  pose proof (nfiles_nonneg K (zlen p) HK Hp) as Hnf.
  unfold size, map_size. rewrite (Permutation_length (store_perm K p st HK Hst)).
  unfold file_list. rewrite map_length, seq_length. lia.
Qed.

Lemma insert_kv_comm {A} (a b : Z * A) l :
  fst a <> fst b -> insert_kv a (insert_kv b l) = insert_kv b (insert_kv a l).
Proof.
  intros Hne. induction l as [|x l IH].
  - cbn [insert_kv]. destruct (fst a <=? fst b) eqn:E1; destruct (fst b <=? fst a) eqn:E2;
      try lia; reflexivity.
  - cbn [insert_kv].
    destruct (fst b <=? fst x) eqn:E1; destruct (fst a <=? fst x) eqn:E2; cbn [insert_kv];
      rewrite ?E1, ?E2;
      try (destruct (fst a <=? fst b) eqn:E3); try (destruct (fst b <=? fst a) eqn:E4);
      try lia; try reflexivity.
    all: f_equal; exact IH.
Qed.

Lemma sort_kv_perm {A} (l1 l2 : list (Z * A)) :
  NoDup (l1.*1) -> l1 ≡ₚ l2 -> sort_kv l1 = sort_kv l2.
Proof.
  intros Hnd Hp. unfold sort_kv. apply (foldr_permutation (=) insert_kv [] l1 l2); [|exact Hp].
  intros j1 a1 j2 a2 b Hj H1 H2. apply insert_kv_comm. intros Heq. apply Hj.
  apply (NoDup_lookup (l1.*1) j1 j2 (fst a1) Hnd).
  - rewrite list_lookup_fmap, H1. reflexivity.
  - rewrite list_lookup_fmap, H2, Heq. reflexivity.
Qed.

Lemma sort_kv_seq {A} (g : nat -> A) m : forall s,
  sort_kv (map (fun j : nat => (Z.of_nat j, g j)) (seq s m)) =
  map (fun j : nat => (Z.of_nat j, g j)) (seq s m).
Proof.
  unfold sort_kv. induction m as [|m IH]; intros s; cbn [seq map foldr]; [reflexivity|].
  rewrite IH. destruct m as [|m]; cbn [seq map insert_kv fst]; [reflexivity|].
  destruct (Z.of_nat s <=? Z.of_nat (S s)) eqn:E; [reflexivity|lia].
Qed.

Lemma files_of_list K p : forall m s fuel,
  0 < K -> (m <= fuel)%nat -> Z.of_nat s + Z.of_nat m = nfiles K (zlen p) ->
  flat_map (fun kv : Z * list header => [fst kv; zlen (snd kv)])
           (map (fun j : nat => (Z.of_nat j, chunk K p j)) (seq s m)) =
  files_of K fuel (Z.of_nat s) (zlen p - Z.of_nat s * K).
Proof.
  pose proof (zlen_nonneg p) as Hp.
  induction m as [|m IH]; intros s fuel HK Hfuel Hs.
  - cbn [seq map flat_map].
    assert (~ Z.of_nat s * K < zlen p).
    { intros Hlt. apply (nfiles_spec K (zlen p) _ HK Hp) in Hlt. lia. }
    destruct fuel as [|fuel]; [reflexivity|]. cbn [files_of].
    destruct (zlen p - Z.of_nat s * K <=? 0) eqn:E; [reflexivity|lia].
  - destruct fuel as [|fuel]; [lia|]. cbn [seq map flat_map files_of fst snd app].
    assert (Hlt : Z.of_nat s * K < zlen p) by (apply (nfiles_spec K (zlen p) _ HK Hp); lia).
    destruct (zlen p - Z.of_nat s * K <=? 0) eqn:E; [lia|].
    assert (0 <= Z.of_nat s * K) by nia.
    f_equal. f_equal.
    + unfold chunk. rewrite zlen_take, zlen_drop. lia.
    + rewrite (IH (S s) fuel HK ltac:(lia) ltac:(lia)). f_equal; lia.
Qed.

Lemma files_obs_spec K r st a :
  0 < K -> R K r st a -> files_obs st = files_of K (Z.to_nat (saved a)) 0 (saved a).
Proof.
  intros HK [Hne Hnd Hh Hs Hl Hhs Hst].
  destruct (fidx_bounds K (chain a) HK Hne) as (Hf0 & HfK0 & Hfb).
  set (p := take (Z.to_nat (saved a)) (chain a)) in *.
  assert (Hzp : zlen p = saved a) by (subst p; rewrite zlen_take; lia).
  pose proof (zlen_nonneg p) as Hp. pose proof (nfiles_nonneg K (zlen p) HK Hp) as Hnf.
  unfold files_obs. unfold store in *.
  rewrite (sort_kv_perm _ _ (NoDup_fst_map_to_list st) (store_perm K p st HK Hst)).
  unfold file_list. rewrite sort_kv_seq.
  rewrite (files_of_list K p _ 0%nat (Z.to_nat (saved a)) HK); [rewrite Hzp; f_equal; lia| |lia].
  destruct (Z.lt_ge_cases (zlen p) (nfiles K (zlen p))) as [Hlt|Hge]; [|lia].
  pose proof (proj1 (nfiles_spec K (zlen p) (nfiles K (zlen p) - 1) HK Hp) ltac:(lia)). nia.
Qed.

(* ---------------------------------------------------------------------------------------- *)
(* Load                                                                                      *)

Lemma take_plus {A} (a b : nat) (l : list A) : take (a + b) l = take a l ++ take b (drop a l).
Proof.
  revert l. induction a as [|a IH]; intros l; [reflexivity|].
  destruct l as [|x l]; [rewrite !take_nil, drop_nil, take_nil; reflexivity|].
  cbn [Nat.add take drop app]. f_equal. apply IH.
Qed.

Lemma add_heights_spec : forall hs pre (m : gmap Z Z),
  (forall id, m !! id = find_from pre id 0) -> NoDup (map hid (pre ++ hs)) ->
  forall id, add_heights m hs (zlen pre) !! id = find_from (pre ++ hs) id 0.
Proof.
  induction hs as [|x hs IH]; intros pre m Hm Hnd id; cbn [add_heights].
  - rewrite app_nil_r. apply Hm.
  - replace (zlen pre + 1) with (zlen (pre ++ [x])) by (rewrite zlen_app; reflexivity).
    replace (pre ++ x :: hs) with ((pre ++ [x]) ++ hs) in * by (rewrite <- app_assoc; reflexivity).
    apply IH; [|exact Hnd]. intros id'. rewrite find_from_app, <- Hm.
    destruct (decide (hid x = id')) as [<-|Hne].
    + rewrite lookup_insert. rewrite Hm.
      assert (Hnone : find_from pre (hid x) 0 = None).
      { apply find_from_None. rewrite !map_app in Hnd. apply NoDup_app in Hnd as [Hnd _].
        apply NoDup_app in Hnd as (_ & Hd & _). intros Hin. apply (Hd _ Hin).
        cbn [map]. apply elem_of_list_here. }
      rewrite Hnone, Z.eqb_refl. f_equal; lia.
    + rewrite lookup_insert_ne by exact Hne. destruct (m !! id'); [reflexivity|].
      destruct (hid x =? id') eqn:E; [lia|reflexivity].
Qed.

Lemma load_loop_spec K p (st : gmap Z (list header)) :
  0 < K -> (forall i, st !! i = file_at K p i) -> NoDup (map hid p) ->
  forall fuel g prev r,
    0 <= g ->
    height r = Z.min (g * K) (zlen p) - 1 ->
    (forall id, heights r !! id = find_from (take (Z.to_nat (Z.min (g * K) (zlen p))) p) id 0) ->
    (g = 0 -> r = new_repo) ->
    (0 < g -> (g - 1) * K < zlen p /\
              lasth r = take (Z.to_nat K) (drop (Z.to_nat ((g - 1) * K)) p)) ->
    prev = (if g =? 0 then -1 else Z.min (g * K) (zlen p) - (g - 1) * K) ->
    zlen p - g * K <= (Z.of_nat fuel - 1) * K -> (1 <= fuel)%nat ->
    exists g' r', load_loop K st fuel g prev r = Ok (g', r') /\ 0 <= g' /\
      (g' = 0 -> r' = new_repo /\ zlen p = 0) /\
      (0 < g' -> (g' - 1) * K < zlen p <= g' * K /\ height r' = zlen p - 1 /\
                 lasth r' = take (Z.to_nat K) (drop (Z.to_nat ((g' - 1) * K)) p) /\
                 forall id, heights r' !! id = find_from p id 0).
Proof.
  intros HK Hst Hnd. pose proof (zlen_nonneg p) as Hp.
  induction fuel as [|fuel IH]; intros g prev r Hg Hht Hhs Hg0 Hg1 Hprev Hfuel Hf1; [lia|].
  assert (HgK : 0 <= g * K) by nia.
  cbn [load_loop]. unfold read, path. rewrite godiv_div by lia. rewrite Z.div_mul by lia.
  unfold store in *. rewrite Hst.
  destruct (Z.le_gt_cases (zlen p) (g * K)) as [Hle|Hgt].
  - rewrite file_at_None by lia. exists g, r. split; [reflexivity|]. split; [exact Hg|].
    rewrite Z.min_r in * by lia. split.
    + intros ->. split; [apply Hg0; reflexivity|lia].
    + intros Hpos. destruct (Hg1 Hpos) as [Hlo Hla]. split; [lia|]. split; [exact Hht|].
      split; [exact Hla|]. intros id. rewrite Hhs, take_ge by (unfold zlen; lia). reflexivity.
  - rewrite file_at_Some by lia. rewrite Z.min_l in * by lia.
    set (hs := take (Z.to_nat K) (drop (Z.to_nat (g * K)) p)) in *.
    assert (Hzh : zlen hs = Z.min K (zlen p - g * K))
      by (subst hs; rewrite zlen_take, zlen_drop; lia).
    destruct (zlen hs =? 0) eqn:E0; [lia|].
    assert (Hpv : negb (prev =? -1) && negb (prev =? K) = false).
    { subst prev. destruct (g =? 0) eqn:E; [reflexivity|].
      replace (g * K - (g - 1) * K) with K by lia. rewrite Z.eqb_refl, andb_false_r. reflexivity. }
    rewrite Hpv.
    assert (Hmin : Z.min ((g + 1) * K) (zlen p) = g * K + zlen hs) by lia.
    assert (Htk : take (Z.to_nat (g * K + zlen hs)) p = take (Z.to_nat (g * K)) p ++ hs).
    { subst hs. rewrite <- take_plus.
      destruct (Z.le_gt_cases ((g + 1) * K) (zlen p)) as [Hle'|Hgt'].
      - f_equal. lia.
      - rewrite !take_ge; [reflexivity| |]; unfold zlen in *; lia. }
    apply IH.
    + lia.
    + rewrite Hmin. cbn [height]. destruct (g =? 0) eqn:E; [|lia].
      assert (g = 0) by lia. subst g. lia.
    + intros id. rewrite Hmin, Htk. cbn [heights].
      replace (height r + 1) with (zlen (take (Z.to_nat (g * K)) p)) by (rewrite zlen_take; lia).
      apply add_heights_spec; [exact Hhs|]. rewrite <- Htk. apply NoDup_map_take. exact Hnd.
    + lia.
    + intros _. replace (g + 1 - 1) with g by lia. split; [lia|reflexivity].
    + destruct (g + 1 =? 0) eqn:E; [lia|]. rewrite Hmin. replace (g + 1 - 1) with g by lia. lia.
    + lia.
    + assert (0 < Z.of_nat fuel * K) by lia. nia.
Qed.

Lemma load_R K r st a :
  0 < K -> R K r st a ->
  exists r', load K st = Ok r' /\
    R K r' st (if saved a =? 0 then AState [genesis] 0
               else AState (take (Z.to_nat (saved a)) (chain a)) (saved a)).
Proof.
  intros HK [Hne Hnd Hh Hs Hl Hhs Hst]. unfold store in *.
  destruct (fidx_bounds K (chain a) HK Hne) as (Hf0 & HfK0 & Hfb).
  set (c := chain a) in *. set (n := saved a) in *.
  set (p := take (Z.to_nat n) c) in *.
  assert (Hzp : zlen p = n) by (subst p; rewrite zlen_take; lia).
  assert (Hndp : NoDup (map hid p)) by (apply NoDup_map_take; exact Hnd).
  pose proof (store_size K p st HK Hst) as Hsz.
  assert (Hfuel : zlen p - 0 * K <= (Z.of_nat (S (size st)) - 1) * K).
  { replace (Z.of_nat (S (size st)) - 1) with (nfiles K (zlen p)) by lia.
    pose proof (nfiles_spec K (zlen p) (nfiles K (zlen p)) HK ltac:(lia)). lia. }
  destruct (load_loop_spec K p st HK Hst Hndp (S (size st)) 0 (-1) new_repo)
    as (g' & r' & Hload & Hg' & Hz & Hpos); try reflexivity; try lia.
  { change (height new_repo) with (-1). pose proof (zlen_nonneg p). lia. }
  { intros id. change (heights new_repo) with (∅ : gmap Z Z). rewrite lookup_empty.
    pose proof (zlen_nonneg p).
    replace (Z.to_nat ((0 * K) `min` zlen p)) with 0%nat by lia. reflexivity. }
  unfold load. unfold store. rewrite Hload. destruct (g' =? 0) eqn:E.
  - assert (g' = 0) by lia. subst g'. destruct (Hz eq_refl) as [-> Hn0].
    eexists. split; [reflexivity|]. destruct (n =? 0) eqn:E2; [|lia].
    pose proof (R_init K HK) as HRi. destruct HRi as [H1 H2 H3 H4 H5 H6 H7].
    constructor; try assumption.
    intros i. cbn [chain saved]. rewrite Hst, take_0. fold p.
    rewrite !file_at_None; [reflexivity|exact HK| |exact HK|]; change (zlen []) with 0;
      (destruct (Z.lt_ge_cases i 0); [left; lia|right; nia]).
  - destruct (Hpos ltac:(lia)) as (Hb & Hht & Hla & Hhts). exists r'. split; [reflexivity|].
    assert (Hg1 : 0 <= (g' - 1) * K) by nia.
    destruct (n =? 0) eqn:E2; [lia|]. fold p.
    assert (Hf : fidx K p = g' - 1) by (apply fidx_unique; [exact HK|lia]).
    constructor; cbn [chain saved]; rewrite ?Hf.
    + intros Heq. rewrite Heq in Hzp. change (zlen []) with 0 in Hzp. lia.
    + exact Hndp.
    + exact Hht.
    + lia.
    + rewrite Hla. apply take_ge. rewrite drop_length. unfold zlen in *. nia.
    + intros id. rewrite Hhts, find_id_from. reflexivity.
    + intros i. rewrite Hst. f_equal. symmetry. apply take_ge. unfold zlen in *. lia.
Qed.

(* ---------------------------------------------------------------------------------------- *)
(* One step of the model against one step of the specification                               *)

Lemma revert_reject_unchanged :
  forall (K : Z) (rm_err : bool) (r : repo) (st : store) (t : Z),
    t > height r \/ t < 0 -> revert K rm_err r st t = (Err EGeneric, r, st).
Proof.
  intros K rm_err r st t Ht. unfold revert.
  destruct (t >? height r) eqn:E1; [reflexivity|].
  destruct (t <? 0) eqn:E2; [reflexivity|lia].
Qed.

Lemma step_R K rm_err r st a o :
  0 < K -> R K r st a -> op_valid a o = true ->
  exists r' st', step K rm_err (r, st) o = ((r', st'), snd (spec_step K a o)) /\
                 R K r' st' (fst (spec_step K a o)).
Proof.
  intros HK HR Hv. pose proof (R_height _ _ _ _ HR) as Hh.
  destruct o as [id prev time|first n|t| | | | |id|id|h|h|h|h|h maxc| ].
  - (* OAdd *)
    exists (fst (add K r st (Header id prev time))), (snd (add K r st (Header id prev time))).
    cbn [step spec_step fst snd]. rewrite <- surjective_pairing. split; [reflexivity|].
    apply (add_R K r st a (Header id prev time) HK HR). exact Hv.
  - (* OAddN *)
    destruct (last_hash_spec K r st a HK HR) as (x & Hlast & Hlh).
    rewrite spec_step_addn. cbn [step fst snd]. rewrite Hlast, Hlh.
    exists (fst (add_n K r st (Z.to_nat n) first (hid x))),
           (snd (add_n K r st (Z.to_nat n) first (hid x))).
    rewrite <- surjective_pairing. split; [reflexivity|].
    apply add_n_R; [exact HK|exact HR|exact Hv].
  - (* ORevert *)
    cbn [step spec_step]. unfold tip_height.
    destruct ((t >? zlen (chain a) - 1) || (t <? 0)) eqn:E.
    + rewrite revert_reject_unchanged by lia. exists r, st. split; [reflexivity|exact HR].
    + destruct (revert_R K rm_err r st a t HK HR ltac:(lia)) as (r' & st' & -> & HR').
      exists r', st'. split; [reflexivity|exact HR'].
  - (* OSave *)
    exists r, (save K r st). split; [reflexivity|]. apply save_R; assumption.
  - (* OLoad *)
    destruct (load_R K r st a HK HR) as (r' & Hl & HR'). cbn [step spec_step fst snd].
    rewrite Hl. exists r', st. split; [reflexivity|exact HR'].
  - (* OLastHeight *)
    exists r, st. split; [|exact HR]. cbn [step spec_step snd]. unfold tip_height. rewrite Hh.
    reflexivity.
  - (* OLastHash *)
    destruct (last_hash_spec K r st a HK HR) as (x & Hlast & Hlh).
    exists r, st. split; [|exact HR]. cbn [step spec_step snd]. rewrite Hlast, Hlh. reflexivity.
  - (* OContains *)
    exists r, st. split; [|exact HR]. cbn [step spec_step snd].
    rewrite (R_heights _ _ _ _ HR). reflexivity.
  - (* OHeight *)
    exists r, st. split; [|exact HR]. cbn [step spec_step snd].
    rewrite (R_heights _ _ _ _ HR). reflexivity.
  - (* OHash *)
    exists r, st. split; [|exact HR]. cbn [step spec_step snd].
    rewrite (get_hash_spec K r st a h HK HR). destruct (at_height (chain a) h); reflexivity.
  - (* OBlockHash *)
    exists r, st. split; [|exact HR]. cbn [step spec_step snd]. unfold block_hash, tip_height.
    rewrite (get_hash_spec K r st a _ HK HR), Hh.
    destruct (at_height (chain a) (if h =? -1 then zlen (chain a) - 1 else h)); reflexivity.
  - (* OTime *)
    exists r, st. split; [|exact HR]. cbn [step spec_step snd].
    rewrite (get_time_spec K r st a h HK HR). destruct (at_height (chain a) h); reflexivity.
  - (* OHeaderAt *)
    exists r, st. split; [|exact HR]. cbn [step spec_step snd]. unfold header_at, tip_height.
    rewrite (get_header_spec K r st a _ HK HR), Hh.
    destruct (at_height (chain a) (if h =? -1 then zlen (chain a) - 1 else h)); reflexivity.
  - (* OGetHeaders *)
    exists r, st. split; [|exact HR]. cbn [step spec_step snd].
    rewrite (get_headers_spec K r st a h maxc HK HR). reflexivity.
  - (* OFiles *)
    exists r, st. split; [|exact HR]. cbn [step spec_step snd].
    rewrite (files_obs_spec K r st a HK HR). reflexivity.
Qed.

(* ---------------------------------------------------------------------------------------- *)
(* Main theorems                                                                             *)

Lemma run_from_refines K rm_err :
  0 < K -> forall ops r st a,
    R K r st a -> valid_from K a ops = true ->
    run_from K rm_err (r, st) ops = spec_run_from K a ops.
Proof.
  intros HK. induction ops as [|o ops IH]; intros r st a HR Hv; [reflexivity|].
  cbn [run_from spec_run_from valid_from] in *. apply andb_true_iff in Hv as [Hv1 Hv2].
  destruct (step_R K rm_err r st a o HK HR Hv1) as (r' & st' & -> & HR').
  destruct (spec_step K a o) as [a1 ob]. cbn [fst snd] in *. f_equal. apply IH; assumption.
Qed.

Theorem repo_refines :
  forall (K : Z) (rm_err : bool) (ops : list op),
    0 < K -> valid K ops = true -> run K rm_err ops = spec_run K ops.
Proof.
  intros K rm_err ops HK Hv. unfold run, spec_run.
  pose proof (R_init K HK) as HR. destruct init_state as [r0 st0].
  apply run_from_refines; assumption.
Qed.

Theorem repo_refines_real :
  forall (rm_err : bool) (ops : list op),
    valid blocksPerKey ops = true -> run blocksPerKey rm_err ops = spec_run blocksPerKey ops.
Proof.
  intros rm_err ops Hv. apply repo_refines; [unfold blocksPerKey; lia|exact Hv].
Qed.

Lemma spec_obs_no_panic K a o : chain a <> [] -> snd (spec_step K a o) <> [PANIC].
Proof.
  intros Hne. unfold PANIC.
  destruct o as [id prev time|first n|t| | | | |id|id|h|h|h|h|h maxc| ];
    try (rewrite spec_step_addn); cbn [spec_step snd]; unfold OK, ERR; try discriminate.
  - destruct ((t >? tip_height (chain a)) || (t <? 0)); discriminate.
  - destruct (last (chain a)) as [x|] eqn:E; [discriminate|].
    apply last_None in E. contradiction.
  - destruct (find_id (chain a) id); discriminate.
  - destruct (at_height (chain a) h); discriminate.
  - destruct (at_height (chain a) (if h =? -1 then tip_height (chain a) else h)); discriminate.
  - destruct (at_height (chain a) h); discriminate.
  - destruct (at_height (chain a) (if h =? -1 then tip_height (chain a) else h)); discriminate.
Qed.

Lemma spec_run_no_panic K (rm_err : bool) :
  0 < K -> forall ops r st a,
    R K r st a -> valid_from K a ops = true ->
    Forall (fun o => o <> [PANIC]) (spec_run_from K a ops).
Proof.
  intros HK. induction ops as [|o ops IH]; intros r st a HR Hv; [constructor|].
  cbn [spec_run_from valid_from] in *. apply andb_true_iff in Hv as [Hv1 Hv2].
  destruct (step_R K rm_err r st a o HK HR Hv1) as (r' & st' & _ & HR').
  pose proof (spec_obs_no_panic K a o (R_ne _ _ _ _ HR)) as Hnp.
  destruct (spec_step K a o) as [a1 ob]. cbn [fst snd] in *.
  constructor; [exact Hnp|]. apply (IH r' st' a1); assumption.
Qed.

Theorem queries_total :
  forall (K : Z) (rm_err : bool) (ops : list op),
    0 < K -> valid K ops = true -> Forall (fun o => o <> [PANIC]) (run K rm_err ops).
Proof.
  intros K rm_err ops HK Hv. rewrite (repo_refines K rm_err ops HK Hv). unfold spec_run.
  pose proof (R_init K HK) as HR. destruct init_state as [r0 st0].
  apply (spec_run_no_panic K rm_err HK ops r0 st0); assumption.
Qed.

(* ---------------------------------------------------------------------------------------- *)
(* What the specification says                                                               *)

Theorem spec_save_load_id :
  forall (K : Z) (a : astate), chain a <> [] ->
    chain (fst (spec_step K (fst (spec_step K a OSave)) OLoad)) = chain a.
Proof.
  intros K a Hne. cbn [spec_step fst chain saved]. pose proof (zlen_pos _ Hne) as Hp.
  destruct (zlen (chain a) =? 0) eqn:E; [lia|]. cbn [chain].
  apply take_ge. unfold zlen. lia.
Qed.

Theorem spec_revert :
  forall (K : Z) (a : astate) (t : Z),
    (0 <= t <= tip_height (chain a) ->
       spec_step K a (ORevert t) = (AState (take (Z.to_nat (t + 1)) (chain a)) (t + 1), [OK])) /\
    (~ 0 <= t <= tip_height (chain a) -> spec_step K a (ORevert t) = (a, [ERR])).
Proof.
  intros K a t. cbn [spec_step].
  destruct ((t >? tip_height (chain a)) || (t <? 0)) eqn:E; split; intros Ht;
    try reflexivity; lia.
Qed.

Theorem spec_getheaders :
  forall (K : Z) (a : astate) (h maxc : Z), 0 <= h -> 0 <= maxc ->
    snd (spec_step K a (OGetHeaders h maxc)) =
      OK :: h :: Z.land h 4294967295 :: map hid (take (Z.to_nat maxc) (drop (Z.to_nat h) (chain a))).
Proof.
  intros K a h maxc Hh Hm. cbn [spec_step snd].
  destruct (h =? -1) eqn:E; [lia|]. destruct (h <? 0) eqn:E2; [lia|]. reflexivity.
Qed.
