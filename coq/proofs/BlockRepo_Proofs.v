(* Proofs about the block repository model (property C09): the executable model of
   internal/storage/blocks.go refines the abstract list-of-headers specification. *)
From V.lib Require Import Base.
From V.model Require Import BlockRepo BlockRepoSpec.
From V.gen Require Import Consts.
From Coq Require Import ZifyBool ZifyNat.

Local Open Scope Z_scope.

(* ---------------------------------------------------------------------------------------- *)
(* Arithmetic helpers                                                                        *)

Lemma godiv_div a b : 0 <= a -> 0 < b -> godiv a b = a / b.
Proof. intros. unfold godiv. apply Z.quot_div_nonneg; lia. Qed.

Lemma gomod_mod a b : 0 <= a -> 0 < b -> gomod a b = a mod b.
Proof. intros. unfold gomod. apply Z.rem_mod_nonneg; lia. Qed.

Lemma div_bounds a K : 0 < K -> (a / K) * K <= a < (a / K + 1) * K.
Proof.
  intros HK. pose proof (Z.div_mod a K ltac:(lia)) as H1.
  pose proof (Z.mod_pos_bound a K HK) as H2. nia.
Qed.

Lemma div_unique_bounds a K q : 0 < K -> q * K <= a < (q + 1) * K -> a / K = q.
Proof.
  intros HK Hq. symmetry. apply (Z.div_unique a K q (a - q * K)); lia.
Qed.

Lemma div_nonneg a K : 0 < K -> 0 <= a -> 0 <= a / K.
Proof. intros. apply Z.div_pos; lia. Qed.

Lemma mul_le_mono_K i f K : 0 < K -> i <= f -> i * K <= f * K.
Proof. intros. nia. Qed.

Lemma mul_lt_K_inv i f K : 0 < K -> i * K < f * K -> i < f.
Proof. intros. nia. Qed.

Lemma mod_eq_sub a K : 0 < K -> a mod K = a - (a / K) * K.
Proof. intros. pose proof (Z.div_mod a K ltac:(lia)). lia. Qed.

(* ---------------------------------------------------------------------------------------- *)
(* List helpers                                                                              *)

Lemma zlen_nil {A} : zlen (@nil A) = 0.
Proof. reflexivity. Qed.

Lemma zlen_cons {A} (x : A) l : zlen (x :: l) = 1 + zlen l.
Proof. unfold zlen. cbn [length]. lia. Qed.

Lemma zlen_app {A} (l k : list A) : zlen (l ++ k) = zlen l + zlen k.
Proof. unfold zlen. rewrite app_length. lia. Qed.

Lemma zlen_nonneg {A} (l : list A) : 0 <= zlen l.
Proof. unfold zlen. lia. Qed.

Lemma zlen_pos {A} (l : list A) : l <> [] -> 0 < zlen l.
Proof. destruct l; [congruence|]. rewrite zlen_cons. pose proof (zlen_nonneg l). lia. Qed.

Lemma zlen_take {A} (l : list A) n : zlen (take n l) = Z.min (Z.of_nat n) (zlen l).
Proof. unfold zlen. rewrite take_length. lia. Qed.

Lemma zlen_drop {A} (l : list A) n : zlen (drop n l) = Z.max 0 (zlen l - Z.of_nat n).
Proof. unfold zlen. rewrite drop_length. lia. Qed.

Lemma take_drop_take {A} (k a n : nat) (c : list A) :
  take k (drop a (take n c)) = take (min k (n - a)) (drop a c).
Proof.
  rewrite !take_drop_commute, take_take.
  destruct (decide (a <= n)%nat) as [Hle|Hgt].
  - f_equal. f_equal. lia.
  - rewrite !drop_ge; auto; rewrite take_length; lia.
Qed.

Lemma index_ok {A} (l : list A) i x : 0 <= i -> l !! Z.to_nat i = Some x -> index l i = Ok x.
Proof.
  intros Hi Hl. unfold index. destruct (i <? 0) eqn:E; [lia|]. rewrite Hl. reflexivity.
Qed.

Lemma last_drop {A} (l : list A) n : (n < length l)%nat -> last (drop n l) = last l.
Proof.
  intros Hn. rewrite !last_lookup, lookup_drop, drop_length. f_equal. lia.
Qed.

(* ---------------------------------------------------------------------------------------- *)
(* find_id                                                                                   *)

Fixpoint find_from (c : list header) (id i : Z) : option Z :=
  match c with
  | [] => None
  | h :: c' => if hid h =? id then Some i else find_from c' id (i + 1)
  end.

Lemma find_id_from c id : find_id c id = find_from c id 0.
Proof.
  unfold find_id. generalize 0. induction c as [|x c IH]; intros i; [reflexivity|].
  cbn [find_from]. destruct (hid x =? id); [reflexivity|]. apply IH.
Qed.

Lemma find_from_app c h id i :
  find_from (c ++ [h]) id i =
  match find_from c id i with
  | Some j => Some j
  | None => if hid h =? id then Some (i + zlen c) else None
  end.
Proof.
  revert i. induction c as [|x c IH]; intros i; cbn [app find_from].
  - rewrite zlen_nil. replace (i + 0) with i by lia. reflexivity.
  - destruct (hid x =? id); [reflexivity|]. rewrite IH, zlen_cons.
    replace (i + 1 + zlen c) with (i + (1 + zlen c)) by lia. reflexivity.
Qed.

Lemma find_from_None c id i : find_from c id i = None <-> id ∉ map hid c.
Proof.
  revert i. induction c as [|x c IH]; intros i; cbn [map find_from].
  - split; [intros _; apply not_elem_of_nil|reflexivity].
  - rewrite not_elem_of_cons. destruct (hid x =? id) eqn:E.
    + split; [discriminate|]. intros [Hne _]. lia.
    + rewrite IH. split; [intros Hn; split; [lia|exact Hn]|intros [_ Hn]; exact Hn].
Qed.

Lemma find_from_Some c id i j :
  find_from c id i = Some j ->
  i <= j < i + zlen c /\ exists h, c !! Z.to_nat (j - i) = Some h /\ hid h = id.
Proof.
  revert i. induction c as [|x c IH]; intros i; cbn [find_from]; [discriminate|].
  rewrite zlen_cons. pose proof (zlen_nonneg c) as Hc.
  destruct (hid x =? id) eqn:E.
  - intros [= <-]. split; [lia|]. exists x. replace (i - i) with 0 by lia. split; [reflexivity|lia].
  - intros Hf. apply IH in Hf as [Hb (h & Hl & Hh)]. split; [lia|]. exists h. split; [|exact Hh].
    replace (Z.to_nat (j - i)) with (S (Z.to_nat (j - (i + 1)))) by lia. exact Hl.
Qed.

Lemma find_from_nodup c i (j : nat) h :
  NoDup (map hid c) -> c !! j = Some h -> find_from c (hid h) i = Some (i + Z.of_nat j).
Proof.
  revert i j. induction c as [|x c IH]; intros i j Hnd Hl; [discriminate|].
  cbn [map] in Hnd. apply NoDup_cons in Hnd as [Hx Hnd]. cbn [find_from].
  destruct j as [|j]; cbn in Hl.
  - injection Hl as ->. rewrite Z.eqb_refl. f_equal. lia.
  - destruct (hid x =? hid h) eqn:E.
    + exfalso. apply Hx. apply Z.eqb_eq in E. rewrite E.
      apply elem_of_list_fmap_1. eapply elem_of_list_lookup_2; eauto.
    + rewrite (IH (i + 1) j Hnd Hl). f_equal. lia.
Qed.

Lemma find_from_take c id i (m : nat) :
  find_from (take m c) id i =
  match find_from c id i with
  | Some j => if j <? i + Z.of_nat m then Some j else None
  | None => None
  end.
Proof.
  revert i m. induction c as [|x c IH]; intros i m.
  - rewrite take_nil. reflexivity.
  - destruct m as [|m].
    + rewrite take_0. destruct (find_from (x :: c) id i) as [j|] eqn:E; [|reflexivity].
      apply find_from_Some in E as [Hb _]. destruct (j <? i + Z.of_nat 0) eqn:E2; [lia|reflexivity].
    + cbn [take find_from]. destruct (hid x =? id).
      * destruct (i <? i + Z.of_nat (S m)) eqn:E2; [reflexivity|lia].
      * rewrite IH. destruct (find_from c id (i + 1)) as [j|]; [|reflexivity].
        replace (i + 1 + Z.of_nat m) with (i + Z.of_nat (S m)) by lia. reflexivity.
Qed.

Lemma fresh_None c id : fresh c id = true <-> find_id c id = None.
Proof.
  unfold fresh. rewrite negb_true_iff, bool_decide_eq_false, <- eq_None_not_Some. reflexivity.
Qed.
