(* Proofs about the block repository model.  (to be completed) *)
From V.lib Require Import Base.
From V.model Require Import BlockRepo BlockRepoSpec.
From V.gen Require Import Consts.
