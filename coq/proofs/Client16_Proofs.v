(* Proofs for C16: response routing of the remote client model agrees with the protocol's meaning
   (`answers`), for every pending list and message; the monitor of ClientSpec.v never objects to
   the model's trace; the outputs lookup returns, per outpoint and in order, that outpoint's value. *)
From V.lib Require Import Base.
From V.model Require Import Client ClientSpec.
From V.proofs Require Import Client_Proofs.

Definition tolive (p : pend) : live := Live (p_h p) (p_kind p) (p_key p) (p_call p) (p_short p).
Definition ans (m : smsg) (p : pend) : bool := answers m (p_kind p) (p_key p).

Lemma take_first_ext f g l : (forall p, f p = g p) -> take_first f l = take_first g l.
Proof.
  intros H. induction l as [|p l IH]; [reflexivity|]. cbn. rewrite H, IH. reflexivity.
Qed.

Lemma take_first_false l : take_first (fun _ => false) l = (None, l).
Proof. induction l as [|p l IH]; [reflexivity|]. cbn. rewrite IH. reflexivity. Qed.

Lemma mem_z_in x l : mem_z x l = true <-> In x l.
Proof.
  unfold mem_z. rewrite existsb_exists. split.
  - intros (y & Hy & E). apply Z.eqb_eq in E. subst. exact Hy.
  - intros H. exists x. split; [exact H|apply Z.eqb_refl].
Qed.

Lemma konly7_reject key code l : take_first (konly 7) l = take_first (ans (MReject 7 key code)) l.
Proof.
  apply take_first_ext. intros p. unfold konly, ans, answers. rewrite (Z.eqb_sym 7).
  destruct (p_kind p =? 7); reflexivity.
Qed.

(* the routing code picks the first pending request that the message answers *)
Lemma route_answers m l :
  route m l = let '(r, l') := take_first (ans m) l in
              (r, l', match m, r with MHeaders _ _, None => true | _, _ => false end).
Proof.
  destruct m as [id k|id k| |k|reqh n|key| |k|kind key|kind key code|]; cbn [route];
    try (rewrite (take_first_ext (ans _) (fun _ => false)) by (intros p; reflexivity);
         rewrite take_first_false; reflexivity).
  - rewrite (take_first_ext (kk 5 reqh) (ans (MHeaders reqh n))) by (intros p; reflexivity).
    destruct (take_first _ l) as [[p|] l']; reflexivity.
  - rewrite (take_first_ext (kk 6 key) (ans (MHeader key))) by (intros p; reflexivity).
    destruct (take_first _ l) as [[p|] l']; reflexivity.
  - rewrite (take_first_ext (konly 7) (ans MFee)) by (intros p; reflexivity).
    destruct (take_first _ l) as [[p|] l']; reflexivity.
  - rewrite (take_first_ext (kk 4 k) (ans (MBaseTx k))) by (intros p; reflexivity).
    destruct (take_first _ l) as [[p|] l']; reflexivity.
  - (* accept *)
    destruct (key =? -1) eqn:Ek.
    + rewrite (take_first_ext (ans (MAccept kind key)) (fun _ => false)), take_first_false; [reflexivity|].
      intros p. unfold ans, answers. rewrite Ek. cbn. rewrite andb_false_r. reflexivity.
    + destruct (mem_z kind [1; 2; 3; 8; 9; 10]) eqn:Em.
      * rewrite (take_first_ext (kk kind key) (ans (MAccept kind key))).
        { destruct (take_first _ l) as [[p|] l']; reflexivity. }
        intros p. unfold kk, ans, answers. rewrite Ek. cbn [negb andb].
        rewrite (Z.eqb_sym kind). destruct (p_kind p =? kind) eqn:E; cbn [andb]; [|reflexivity].
        apply Z.eqb_eq in E. rewrite E, Em, andb_true_r. reflexivity.
      * rewrite (take_first_ext (ans (MAccept kind key)) (fun _ => false)), take_first_false; [reflexivity|].
        intros p. unfold ans, answers. destruct (kind =? p_kind p) eqn:E; cbn [andb]; [|reflexivity].
        apply Z.eqb_eq in E. rewrite <- E, Em, !andb_false_r. reflexivity.
  - (* reject *)
    destruct (key =? -1) eqn:Ek.
    + destruct (kind =? 7) eqn:E7.
      * apply Z.eqb_eq in E7. subst kind. rewrite (konly7_reject key code).
        destruct (take_first (ans (MReject 7 key code)) l) as [[p|] l']; reflexivity.
      * rewrite (take_first_ext (ans (MReject kind key code)) (fun _ => false)), take_first_false; [reflexivity|].
        intros p. unfold ans, answers. rewrite Ek. destruct (kind =? p_kind p) eqn:E; cbn [andb]; [|reflexivity].
        apply Z.eqb_eq in E. rewrite <- E, E7. reflexivity.
    + destruct (kind =? 7) eqn:E7.
      * apply Z.eqb_eq in E7. subst kind. rewrite (konly7_reject key code).
        destruct (take_first (ans (MReject 7 key code)) l) as [[p|] l']; reflexivity.
      * destruct (mem_z kind [1; 2; 3; 4; 6; 8; 9; 10]) eqn:Em.
        -- rewrite (take_first_ext (kk kind key) (ans (MReject kind key code))).
           { destruct (take_first _ l) as [[p|] l']; reflexivity. }
           intros p. unfold kk, ans, answers. rewrite Ek. cbn [negb andb].
           rewrite (Z.eqb_sym kind). destruct (p_kind p =? kind) eqn:E; cbn [andb]; [|reflexivity].
           apply Z.eqb_eq in E. rewrite E, E7, Em, andb_true_r. reflexivity.
        -- rewrite (take_first_ext (ans (MReject kind key code)) (fun _ => false)), take_first_false; [reflexivity|].
           intros p. unfold ans, answers. destruct (kind =? p_kind p) eqn:E; cbn [andb]; [|reflexivity].
           apply Z.eqb_eq in E. rewrite <- E, E7, Em, !andb_false_r. reflexivity.
Qed.

Lemma first_answered_map m l :
  first_answered m (map tolive l) =
  let '(r, l') := take_first (ans m) l in (option_map tolive r, map tolive l').
Proof.
  induction l as [|p l IH]; [reflexivity|]. cbn [map first_answered take_first]. unfold ans at 1.
  cbn [tolive l_kind l_key]. destruct (answers m (p_kind p) (p_key p)); [reflexivity|].
  rewrite IH. fold (ans m). destruct (take_first (ans m) l) as [r l']. reflexivity.
Qed.

Lemma take_first_some f l p l' : take_first f l = (Some p, l') -> f p = true.
Proof.
  revert l'. induction l as [|x l IH]; intros l'; cbn; [discriminate|].
  destruct (f x) eqn:E; [intros [= <- _]; exact E|].
  destruct (take_first f l) as [r l'']. intros [= -> _]. eapply IH. reflexivity.
Qed.

Lemma take_first_none f l l' : take_first f l = (None, l') -> l' = l.
Proof.
  revert l'. induction l as [|x l IH]; intros l'; cbn; [intros [= <-]; reflexivity|].
  destruct (f x); [discriminate|]. destruct (take_first f l) as [r l''] eqn:E.
  intros [= -> <-]. f_equal. apply IH. reflexivity.
Qed.

(* a call returns what the protocol says the answering message means *)
Lemma call_result_expected m kind key : answers m kind key = true -> call_result kind m = expected_result kind m.
Proof.
  destruct m as [id k|id k| |k|reqh n|h| |k|k h|k h code|]; cbn; try discriminate; try reflexivity.
  - intros H. apply andb_true_iff in H. destruct H as [H _]. rewrite H. reflexivity.
  - intros H. apply andb_true_iff in H. destruct H as [H _]. rewrite H. reflexivity.
  - intros H. rewrite H. reflexivity.
  - intros H. apply andb_true_iff in H. destruct H as [H _]. rewrite H. reflexivity.
  - intros H. apply andb_true_iff in H. destruct H as [_ H]. unfold mem_z in H. rewrite H. reflexivity.
Qed.

(* what handling a server message does to the pending list and the call results *)
Lemma handle_msg_pend s m s1 e d : handle_msg s m = (s1, e, d) ->
  c_nh s1 = c_nh s /\
  if c_acc s then
    let '(r, l') := take_first (ans m) (c_pend s) in
    c_pend s1 = l' /\ d = match r with Some p => [p_h p] | None => [] end /\
    c_results s1 = c_results s ++ match r with
                                  | Some p => if p_call p then [(p_h p, expected_result (p_kind p) m)] else []
                                  | None => [] end
  else s1 = s /\ d = [].
Proof.
  assert (Henq : forall x ev, c_pend (fst (enqueue x ev)) = c_pend x /\ c_results (fst (enqueue x ev)) = c_results x
                               /\ c_nh (fst (enqueue x ev)) = c_nh x).
  { intros x ev. unfold enqueue. destruct (_ <? _); cbn; auto. }
  assert (Hdl : forall x x1 d1 nf, deliver x m = (x1, d1, nf) ->
            c_nh x1 = c_nh x /\
            let '(r, l') := take_first (ans m) (c_pend x) in
            c_pend x1 = l' /\ d1 = match r with Some p => [p_h p] | None => [] end /\
            c_results x1 = c_results x ++ match r with
                                          | Some p => if p_call p then [(p_h p, expected_result (p_kind p) m)] else []
                                          | None => [] end).
  { intros x x1 d1 nf. unfold deliver. rewrite route_answers.
    destruct (take_first (ans m) (c_pend x)) as [r l'] eqn:Et. destruct r as [p|].
    - pose proof (take_first_some _ _ _ _ Et) as Hans. unfold ans in Hans.
      rewrite (call_result_expected _ _ _ Hans).
      destruct (p_call p); intros [= <- <- _]; cbn; rewrite ?app_nil_r; auto.
    - intros [= <- <- _]. rewrite app_nil_r. rewrite (take_first_none _ _ _ Et). auto. }
  assert (Hnone : forall x, (forall p, ans m p = false) ->
            let '(r, l') := take_first (ans m) (c_pend x) in
            c_pend x = l' /\ @nil Z = match r with Some p => [p_h p] | None => [] end /\
            c_results x = c_results x ++ match r with
                                         | Some p => if p_call p then [(p_h p, expected_result (p_kind p) m)] else []
                                         | None => [] end).
  { intros x Hf. rewrite (take_first_ext (ans m) (fun _ => false)) by exact Hf.
    rewrite take_first_false, app_nil_r. auto. }
  unfold handle_msg. destruct (c_acc s) eqn:Ea; cbn [negb andb].
  2:{ destruct (gated_through m) eqn:Eg; cbn [negb]; [|intros [= <- _ <-]; auto].
      destruct m; try discriminate; cbn [negb]; intros [= <- _ <-]; auto. }
  destruct m as [id k|id k| |k|reqh n|key| |k|kind key|kind key code|].
  - destruct (c_next s =? id).
    + destruct (enqueue s (1, id)) as [x b] eqn:E. pose proof (Henq s (1, id)) as (P1 & P2 & P3). rewrite E in P1, P2, P3. cbn [fst] in *.
      intros [= <- _ <-]. pose proof (Hnone s (fun p => eq_refl)) as Hn.
      destruct (take_first _ (c_pend s)) as [r l']. destruct Hn as (N1 & N2 & N3).
      destruct b; cbn; rewrite ?P1, ?P2, ?P3; auto.
    + intros [= <- _ <-]. split; [reflexivity|]. apply (Hnone s). reflexivity.
  - destruct (c_next s =? id).
    + destruct (enqueue s (2, id)) as [x b] eqn:E. pose proof (Henq s (2, id)) as (P1 & P2 & P3). rewrite E in P1, P2, P3. cbn [fst] in *.
      intros [= <- _ <-]. pose proof (Hnone s (fun p => eq_refl)) as Hn.
      destruct (take_first _ (c_pend s)) as [r l']. destruct Hn as (N1 & N2 & N3).
      destruct b; cbn; rewrite ?P1, ?P2, ?P3; auto.
    + intros [= <- _ <-]. split; [reflexivity|]. apply (Hnone s). reflexivity.
  - pose proof (Henq s (4, 0)) as (P1 & P2 & P3). intros [= <- _ <-]. rewrite P1, P2, P3.
    split; [reflexivity|]. apply (Hnone s). reflexivity.
  - pose proof (Henq s (6, 0)) as (P1 & P2 & P3). intros [= <- _ <-]. rewrite P1, P2, P3.
    split; [reflexivity|]. apply (Hnone s). reflexivity.
  - destruct (deliver s (MHeaders reqh n)) as [[x d1] nf] eqn:E. destruct (Hdl _ _ _ _ E) as (D0 & D).
    destruct nf.
    + pose proof (Henq x (3, reqh)) as (P1 & P2 & P3). intros [= <- _ <-]. rewrite P1, P2, P3. auto.
    + intros [= <- _ <-]. auto.
  - destruct (deliver s (MHeader key)) as [[x d1] nf] eqn:E. destruct (Hdl _ _ _ _ E) as (D0 & D).
    intros [= <- _ <-]. auto.
  - destruct (deliver s MFee) as [[x d1] nf] eqn:E. destruct (Hdl _ _ _ _ E) as (D0 & D).
    pose proof (Henq x (7, 0)) as (P1 & P2 & P3). intros [= <- _ <-]. rewrite P1, P2, P3. auto.
  - destruct (deliver s (MBaseTx k)) as [[x d1] nf] eqn:E. destruct (Hdl _ _ _ _ E) as (D0 & D).
    intros [= <- _ <-]. auto.
  - destruct (deliver s (MAccept kind key)) as [[x d1] nf] eqn:E. destruct (Hdl _ _ _ _ E) as (D0 & D).
    intros [= <- _ <-]. auto.
  - destruct (deliver s (MReject kind key code)) as [[x d1] nf] eqn:E. destruct (Hdl _ _ _ _ E) as (D0 & D).
    intros [= <- _ <-]. auto.
  - intros [= <- _ <-]. split; [reflexivity|]. apply (Hnone s). reflexivity.
Qed.

(* ---------------------------------------------------------------------------------------- *)
(* outputs lookup *)
Definition val (p : Z * Z) : Z := 10 * fst p + snd p.
Definition okp (known : list Z) (p : Z * Z) : bool := mem_z (fst p) known && (snd p <? NOUT).

(* slots already filled hold the right value of a valid outpoint *)
Fixpoint slots_ok (known : list Z) (ops : list (Z * Z)) (slots : list (option Z)) : Prop :=
  match ops, slots with
  | [], [] => True
  | p :: ops', sl :: slots' =>
      match sl with Some v => v = val p /\ okp known p = true | None => True end /\ slots_ok known ops' slots'
  | _, _ => False
  end.

(* the outpoints whose slot is still empty *)
Fixpoint pending_ops (ops : list (Z * Z)) (slots : list (option Z)) : list (Z * Z) :=
  match ops, slots with
  | p :: ops', None :: slots' => p :: pending_ops ops' slots'
  | _ :: ops', _ :: slots' => pending_ops ops' slots'
  | _, _ => []
  end.

Lemma fill_same_spec known k : mem_z k known = true -> forall rest slots,
  slots_ok known rest slots ->
  match fill_same k rest slots with
  | None => exists p, In p (pending_ops rest slots) /\ okp known p = false
  | Some slots' =>
      slots_ok known rest slots' /\
      (forall p, In p (pending_ops rest slots') -> In p (pending_ops rest slots)) /\
      (forall p, In p (pending_ops rest slots) -> okp known p = false -> In p (pending_ops rest slots'))
  end.
Proof.
  intros Hk. induction rest as [|[k' i'] rest IH]; intros slots Hok.
  - destruct slots; cbn in *; [auto|destruct Hok].
  - destruct slots as [|sl slots]; [destruct Hok|]. cbn [slots_ok] in Hok. destruct Hok as [Hsl Hok].
    specialize (IH slots Hok). cbn [fill_same].
    destruct sl as [v|].
    + destruct (fill_same k rest slots) as [r|]; cbn [pending_ops slots_ok].
      * destruct IH as (I1 & I2 & I3). auto.
      * exact IH.
    + destruct (k' =? k) eqn:Ekk.
      * apply Z.eqb_eq in Ekk. subst k'. destruct (NOUT <=? i') eqn:Er.
        -- exists (k, i'). split; [left; reflexivity|]. unfold okp. cbn [fst snd].
           rewrite Hk. cbn. apply Z.ltb_ge. apply Z.leb_le in Er. exact Er.
        -- destruct (fill_same k rest slots) as [r|]; cbn [pending_ops slots_ok].
           ++ destruct IH as (I1 & I2 & I3). split; [|split].
              ** split; [|exact I1]. split; [reflexivity|]. unfold okp. cbn [fst snd]. rewrite Hk. cbn.
                 apply Z.ltb_lt. apply Z.leb_gt in Er. exact Er.
              ** intros p Hp. right. auto.
              ** intros p [<-|Hp] Hbad; [|auto]. exfalso. unfold okp in Hbad. cbn [fst snd] in Hbad.
                 rewrite Hk in Hbad. cbn in Hbad. apply Z.ltb_ge in Hbad. apply Z.leb_gt in Er. lia.
           ++ destruct IH as (p & Hp & Hbad). exists p. split; [right; exact Hp|exact Hbad].
      * destruct (fill_same k rest slots) as [r|]; cbn [pending_ops slots_ok].
        -- destruct IH as (I1 & I2 & I3). split; [auto|]. split.
           ++ intros p [<-|Hp]; [left; reflexivity|right; auto].
           ++ intros p [<-|Hp] Hbad; [left; reflexivity|right; auto].
        -- destruct IH as (p & Hp & Hbad). exists p. split; [right; exact Hp|exact Hbad].
Qed.

Lemma get_outputs_spec known : forall fuel ops slots fetches,
  (length ops < fuel)%nat -> slots_ok known ops slots ->
  let '(_, r, _) := get_outputs fuel ops slots known fetches in
  r = if forallb (okp known) (pending_ops ops slots) then Some (map val ops) else None.
Proof.
  induction fuel as [|fuel IH]; intros ops slots fetches Hlen Hok; [lia|].
  destruct ops as [|[k i] ops].
  - destruct slots; [reflexivity|destruct Hok].
  - destruct slots as [|sl slots]; [destruct Hok|]. cbn [slots_ok] in Hok. destruct Hok as [Hsl Hok].
    cbn [length] in Hlen. cbn [get_outputs].
    destruct sl as [v|].
    + specialize (IH ops slots fetches ltac:(lia) Hok).
      destruct (get_outputs fuel ops slots known fetches) as [[fc r] e]. cbn [pending_ops].
      rewrite IH. destruct Hsl as [-> _]. destruct (forallb _ _); reflexivity.
    + cbn [pending_ops forallb]. unfold okp at 1. cbn [fst snd].
      destruct (mem_z k known) eqn:Ek; cbn [negb andb]; [|reflexivity].
      destruct (NOUT <=? i) eqn:Er.
      { replace (i <? NOUT) with false; [reflexivity|]. symmetry. apply Z.ltb_ge. apply Z.leb_le in Er. exact Er. }
      replace (i <? NOUT) with true by (symmetry; apply Z.ltb_lt; apply Z.leb_gt in Er; exact Er).
      pose proof (fill_same_spec known k Ek ops slots Hok) as Hf.
      destruct (fill_same k ops slots) as [slots''|].
      * destruct Hf as (F1 & F2 & F3).
        specialize (IH ops slots'' (fetches + 1) ltac:(lia) F1).
        destruct (get_outputs fuel ops slots'' known (fetches + 1)) as [[fc r] e]. rewrite IH.
        assert (Hsame : forallb (okp known) (pending_ops ops slots'') = forallb (okp known) (pending_ops ops slots)).
        { destruct (forallb (okp known) (pending_ops ops slots)) eqn:E1.
          - apply forallb_forall. intros p Hp. rewrite forallb_forall in E1. apply E1, F2, Hp.
          - destruct (forallb (okp known) (pending_ops ops slots'')) eqn:E2; [|reflexivity].
            exfalso. assert (Hex : exists p, In p (pending_ops ops slots) /\ okp known p = false).
            { clear -E1. induction (pending_ops ops slots) as [|p l IHl]; [discriminate|]. cbn in E1.
              destruct (okp known p) eqn:Ep; [|exists p; split; [left; reflexivity|exact Ep]].
              destruct (IHl E1) as (q & Hq & Hb). exists q. split; [right; exact Hq|exact Hb]. }
            destruct Hex as (p & Hp & Hb). rewrite forallb_forall in E2.
            rewrite (E2 p (F3 p Hp Hb)) in Hb. discriminate. }
        rewrite Hsame. cbn [andb]. destruct (forallb (okp known) (pending_ops ops slots)); reflexivity.
      * destruct Hf as (p & Hp & Hb).
        replace (forallb (okp known) (pending_ops ops slots)) with false; [reflexivity|].
        symmetry. destruct (forallb _ _) eqn:E; [|reflexivity]. rewrite forallb_forall in E. rewrite (E p Hp) in Hb. discriminate.
Qed.

Lemma slots_ok_none known ops : slots_ok known ops (map (fun _ => None) ops).
Proof. induction ops as [|p ops IH]; cbn; auto. Qed.

Lemma pending_ops_none ops : pending_ops ops (map (fun _ : Z * Z => @None Z) ops) = ops.
Proof. induction ops as [|p ops IH]; cbn; [reflexivity|]. rewrite IH. reflexivity. Qed.

Lemma zip_out_val ops : zip_out ops (map val ops) = flat_map (fun p => [fst p; snd p; 10 * fst p + snd p]) ops.
Proof. induction ops as [|[k i] ops IH]; cbn; [reflexivity|]. rewrite IH. reflexivity. Qed.

Theorem get_outputs_correct : forall ops known,
  let '(_, r, _) := get_outputs (S (length ops)) ops (map (fun _ => None) ops) known 0 in
  match outputs_spec ops known with
  | Some vs => exists ws, r = Some ws /\ zip_out ops ws = vs
  | None => r = None
  end.
Proof.
  intros ops known.
  pose proof (get_outputs_spec known (S (length ops)) ops (map (fun _ => None) ops) 0 ltac:(lia) (slots_ok_none known ops)) as H.
  destruct (get_outputs _ _ _ _ _) as [[fc r] e]. rewrite pending_ops_none in H.
  unfold outputs_spec. fold (okp known).
  change (forallb (fun p => mem_z (fst p) known && (snd p <? NOUT)) ops) with (forallb (okp known) ops).
  destruct (forallb (okp known) ops); [|exact H].
  exists (map val ops). split; [exact H|apply zip_out_val].
Qed.

(* ---------------------------------------------------------------------------------------- *)
(* the monitor never objects to the model *)
Definition R16 (s : cl) (m : m16) : Prop :=
  r_live m = map tolive (c_pend s) /\ r_res m = c_results s /\ r_acc m = c_acc s /\ r_n m = c_nh s.

Lemma live_handles_map l : live_handles (map tolive l) = map p_h l.
Proof. unfold live_handles. rewrite map_map. reflexivity. Qed.

Lemma zlen_map {A B} (f : A -> B) l : zlen (map f l) = zlen l.
Proof. unfold zlen. rewrite map_length. reflexivity. Qed.

Lemma filter_tolive h l :
  filter (fun x => l_h x ≠ h) (map tolive l) = map tolive (filter (fun p => p_h p ≠ h) l).
Proof.
  induction l as [|p l IH]; [reflexivity|]. cbn [map]. rewrite !filter_cons. cbn [tolive l_h].
  destruct (decide (p_h p ≠ h)); cbn [map]; rewrite IH; reflexivity.
Qed.

Lemma find_tolive h l :
  find (fun x => l_h x =? h) (map tolive l) = option_map tolive (find (fun p => p_h p =? h) l).
Proof.
  induction l as [|p l IH]; [reflexivity|]. cbn [map find tolive l_h]. destruct (p_h p =? h); [reflexivity|exact IH].
Qed.

Lemma step16_sim s m o :
  R16 s m -> exists m', step16 m o (snd (step s o)) = (0, m') /\ R16 (fst (step s o)) m'.
Proof.
  intros (H1 & H2 & H3 & H4).
  destruct o as [|a|n|msg| |kind key|h|kind key short|h|ops known].
  - cbn. eexists. split; [reflexivity|]. repeat split; assumption.
  - cbn [step]. unfold handle_accept. destruct (negb (accept_check s a =? 0)); cbn [fst snd step16].
    + eexists. split; [reflexivity|]. rewrite b2z_nz. repeat split; assumption.
    + set (s1 := set_flags s true _). destruct (enqueue_spec s1 (5, 0)) as [[_ ->]|[_ ->]]; cbn [fst snd step16];
        eexists; (split; [reflexivity|]); subst s1; repeat split; cbn; assumption.
  - cbn [step]. destruct (negb (c_conn s)); cbn; eexists; (split; [reflexivity|]); repeat split; assumption.
  - (* server message *)
    cbn [step]. destruct (handle_msg s msg) as [[s1 e] d] eqn:Hh.
    destruct (handle_msg_pend _ _ _ _ _ Hh) as (Hnh & Hp).
    assert (Hacc1 : c_acc s1 = c_acc s) by (destruct (handle_msg_cases _ _ _ _ _ Hh) as (? & _); assumption).
    cbn [fst snd app step16]. rewrite H3.
    destruct (c_acc s) eqn:Ea.
    + rewrite H1, first_answered_map.
      destruct (take_first (ans msg) (c_pend s)) as [r l'] eqn:Et. destruct Hp as (P1 & -> & P3).
      destruct r as [p|]; cbn [option_map].
      * unfold routing_obs, pend_handles. rewrite P1. cbn [app tolive l_h l_call l_kind].
        rewrite zlen_map, live_handles_map.
        change (zlen [p_h p]) with 1. rewrite zlist_eqb_refl.
        eexists. split; [reflexivity|]. split; [|split; [|split]]; cbn; try congruence.
        rewrite P3, H2. destruct (p_call p); [reflexivity|rewrite app_nil_r; reflexivity].
      * unfold routing_obs, pend_handles. rewrite P1. cbn [app].
        rewrite zlen_map, live_handles_map. change (zlen (@nil Z)) with 0. rewrite zlist_eqb_refl.
        eexists. split; [reflexivity|]. rewrite app_nil_r in P3. rewrite (take_first_none _ _ _ Et) in P1.
        repeat split; congruence.
    + destruct Hp as (-> & ->). unfold routing_obs, pend_handles. cbn [app]. rewrite H1, zlen_map, live_handles_map.
      change (zlen (@nil Z)) with 0. rewrite zlist_eqb_refl.
      eexists. split; [reflexivity|]. repeat split; congruence.
  - cbn [step]. destruct (c_queue s) as [|[k id] q']; cbn; eexists; (split; [reflexivity|]); repeat split; assumption.
  - (* pend *)
    cbn. eexists. split; [reflexivity|]. repeat split; cbn; try assumption.
    + rewrite H1, map_app. reflexivity.
    + rewrite H4. reflexivity.
  - (* unpend *)
    cbn [step fst snd step16]. unfold routing_obs, pend_handles. cbn [app]. change (zlen (@nil Z)) with 0.
    rewrite H1, filter_tolive, zlen_map, live_handles_map. cbn [c_pend set_pend]. rewrite zlist_eqb_refl.
    eexists. split; [reflexivity|]. repeat split; cbn; assumption.
  - (* call *)
    cbn [step fst snd step16]. rewrite !Z.eqb_refl. cbn [andb].
    eexists. split; [reflexivity|]. repeat split; cbn; try assumption.
    + rewrite H1, map_app. reflexivity.
    + rewrite H4. reflexivity.
  - (* await *)
    cbn [step]. unfold find_result.
    destruct (find (fun e => fst e =? h) (c_results s)) as [e|] eqn:Ef.
    + cbn [fst snd step16]. unfold lookup_res. rewrite H2, Ef. rewrite zlist_eqb_refl.
      eexists. split; [reflexivity|]. repeat split; assumption.
    + destruct (find (fun p => p_h p =? h) (c_pend s)) as [p|] eqn:Efp.
      * destruct (p_short p) eqn:Esh.
        -- cbn [fst snd app step16]. unfold lookup_res. rewrite H2, Ef, H1, find_tolive, Efp.
           cbn [option_map tolive l_short]. rewrite Esh.
           unfold routing_obs, pend_handles. cbn [app c_pend set_pend]. change (zlen (@nil Z)) with 0.
           rewrite filter_tolive, zlen_map, live_handles_map, zlist_eqb_refl.
           eexists. split; [reflexivity|]. repeat split; cbn; try assumption. all: rewrite ?H2; reflexivity.
        -- cbn [fst snd step16]. unfold lookup_res. rewrite H2, Ef, H1, find_tolive, Efp.
           cbn [option_map tolive l_short]. rewrite Esh. cbn.
           eexists. split; [reflexivity|]. repeat split; assumption.
      * cbn [fst snd step16]. unfold lookup_res. rewrite H2, Ef, H1, find_tolive, Efp. cbn [option_map].
        eexists. split; [reflexivity|]. repeat split; assumption.
  - (* outputs *)
    cbn [step]. destruct (c_acc s) eqn:Ea; cbn [negb].
    2:{ cbn. eexists. split; [reflexivity|]. repeat split; congruence. }
    pose proof (get_outputs_correct ops known) as Hg.
    destruct (get_outputs _ _ _ _ _) as [[fc r] e].
    destruct (outputs_spec ops known) as [vs|] eqn:Es.
    + destruct Hg as (ws & -> & Hz). cbn [fst snd app step16]. rewrite H3. cbn [negb]. rewrite Es, Hz.
      change (OK =? OK) with true. cbn [andb]. rewrite zlist_eqb_refl.
      eexists. split; [reflexivity|]. repeat split; congruence.
    + subst r. cbn [fst snd step16]. rewrite H3. cbn [negb]. rewrite Es. change (ERR =? ERR) with true.
      eexists. split; [reflexivity|]. repeat split; congruence.
Qed.

Lemma mon16_silent : forall ops s m i, R16 s m -> mon16_from m i ops (run_from s ops) = None.
Proof.
  induction ops as [|o ops IH]; intros s m i HR; [reflexivity|].
  cbn [run_from]. destruct (step s o) as [s1 ob] eqn:Hs. cbn [mon16_from].
  destruct (step16_sim s m o HR) as (m' & Hm & HR'). rewrite Hs in Hm, HR'. cbn [fst snd] in Hm, HR'.
  rewrite Hm. cbn. apply IH. exact HR'.
Qed.

Theorem c16_monitor_silent : forall (full : bool) (qcap : Z) (ops : list op),
  c16_monitor ops (run full qcap ops) = None.
Proof. intros. unfold c16_monitor, run. apply mon16_silent. repeat split. Qed.

(* with distinct keys a message answers at most one outstanding request: the response never
   reaches "another call" *)
Definition distinct_keys (l : list live) : Prop :=
  forall i j x y, l !! i = Some x -> l !! j = Some y -> l_kind x = l_kind y -> l_key x = l_key y -> i = j.

Theorem answers_unique : forall m l x y i j,
  distinct_keys l -> (forall z, z ∈ l -> l_kind z = 7 -> l_key z = 0) ->
  l !! i = Some x -> l !! j = Some y ->
  answers m (l_kind x) (l_key x) = true -> answers m (l_kind y) (l_key y) = true -> i = j.
Proof.
  intros m l x y i j Hd H7 Hx Hy Ax Ay.
  assert (Hk : l_kind x = l_kind y /\ l_key x = l_key y).
  { assert (Hx7 := H7 x (elem_of_list_lookup_2 _ _ _ Hx)). assert (Hy7 := H7 y (elem_of_list_lookup_2 _ _ _ Hy)).
    destruct m as [id k|id k| |k|reqh n|h| |k|k h|k h code|]; cbn in Ax, Ay; try discriminate.
    - apply andb_true_iff in Ax, Ay. destruct Ax as [A1 A2], Ay as [B1 B2]. lia.
    - apply andb_true_iff in Ax, Ay. destruct Ax as [A1 A2], Ay as [B1 B2]. lia.
    - apply Z.eqb_eq in Ax, Ay. split; [lia|]. rewrite Hx7, Hy7 by assumption. reflexivity.
    - apply andb_true_iff in Ax, Ay. destruct Ax as [A1 A2], Ay as [B1 B2]. lia.
    - rewrite !andb_true_iff in Ax, Ay. destruct Ax as [[[A1 _] A2] _], Ay as [[[B1 _] B2] _]. lia.
    - apply andb_true_iff in Ax, Ay. destruct Ax as [A1 A2], Ay as [B1 B2].
      apply Z.eqb_eq in A1, B1. split; [lia|].
      destruct (l_kind x =? 7) eqn:E7.
      + apply Z.eqb_eq in E7. rewrite Hx7, Hy7 by lia. reflexivity.
      + assert (E7' : (l_kind y =? 7) = false) by (rewrite <- B1, A1; exact E7). rewrite E7' in B2.
        rewrite !andb_true_iff in A2, B2. destruct A2 as [[_ A2] _], B2 as [[_ B2] _]. lia. }
  destruct Hk. eapply Hd; eauto.
Qed.
