(* Proofs for the remote client model (C16, C17, C18): the property monitors of ClientSpec.v never
   object to the model's own trace, on every operation sequence, plus direct statements. *)
From V.lib Require Import Base.
From V.model Require Import Client ClientSpec.

Local Ltac dmatch :=
  match goal with
  | |- context [match ?x with _ => _ end] => destruct x eqn:?
  | |- context [if ?x then _ else _] => destruct x eqn:?
  end.

Lemma zlist_eqb_refl l : zlist_eqb l l = true.
Proof. induction l as [|x l IH]; cbn; [reflexivity|]. rewrite Z.eqb_refl. exact IH. Qed.

Lemma b2z_nz b : negb (b2z b =? 0) = b.
Proof. destruct b; reflexivity. Qed.

Lemma zlen_app1 {A} (l : list A) x : zlen (l ++ [x]) = zlen l + 1.
Proof. unfold zlen. rewrite app_length. cbn. lia. Qed.

Lemma zlen_grow_neq {A} (l : list A) : (zlen l =? zlen l + 1) = false.
Proof. apply Z.eqb_neq. lia. Qed.

(* ---------------------------------------------------------------------------------------- *)
(* facts about enqueue / deliver *)
Lemma enqueue_spec s e :
  (zlen (c_queue s) <? c_qcap s = true /\ enqueue s e = (set_queue s (c_queue s ++ [e]), true)) \/
  (zlen (c_queue s) <? c_qcap s = false /\ enqueue s e = (s, false)).
Proof. unfold enqueue. destruct (zlen (c_queue s) <? c_qcap s); auto. Qed.

Lemma deliver_frame s m s1 d nf : deliver s m = (s1, d, nf) ->
  c_queue s1 = c_queue s /\ c_next s1 = c_next s /\ c_acc s1 = c_acc s /\ c_qcap s1 = c_qcap s /\
  c_hs s1 = c_hs s /\ c_sess s1 = c_sess s /\ c_full s1 = c_full s /\ c_conn s1 = c_conn s /\ c_nh s1 = c_nh s.
Proof.
  unfold deliver. destruct (route m (c_pend s)) as [[r l'] nf']. destruct r as [p|].
  - destruct (p_call p); intros [= <- <- <-]; cbn; repeat split.
  - intros [= <- <- <-]. repeat split.
Qed.

(* ---------------------------------------------------------------------------------------- *)
(* C17 *)
Definition R17 (qcap : Z) (s : cl) (m : m17) : Prop :=
  g_exp m = c_next s /\ g_q m = c_queue s /\ g_acc m = c_acc s /\ c_qcap s = qcap.

Lemma handle_msg_cases s m s1 e d : handle_msg s m = (s1, e, d) ->
  c_acc s1 = c_acc s /\ c_qcap s1 = c_qcap s /\
  ((c_queue s1 = c_queue s /\ c_next s1 = c_next s /\
    (forall id, is_idmsg m = Some id -> ((id =? c_next s) && c_acc s && (zlen (c_queue s) <? c_qcap s)) = false)) \/
   (c_acc s = true /\ zlen (c_queue s) <? c_qcap s = true /\
    exists v, c_queue s1 = c_queue s ++ [v] /\
      match is_idmsg m with
      | Some id => id = c_next s /\ c_next s1 = id + 1 /\ v = (match m with MTx _ _ => 1 | _ => 2 end, id)
      | None => c_next s1 = c_next s /\ handler_view m = Some v
      end)).
Proof.
  unfold handle_msg.
  destruct (negb (c_acc s) && negb (gated_through m)) eqn:Hg.
  { intros [= <- <- <-]. split; [reflexivity|]. split; [reflexivity|]. left.
    split; [reflexivity|]. split; [reflexivity|]. intros id Hid.
    destruct (c_acc s) eqn:Ea; [|rewrite andb_false_r; reflexivity].
    destruct m; cbn in Hid; try discriminate; cbn in Hg; discriminate. }
  assert (Hacc : c_acc s = true \/ gated_through m = true).
  { destruct (c_acc s); [auto|]. destruct (gated_through m); [auto|discriminate]. }
  destruct m as [id k|id k| |k|reqh n|key| |k|kind key|kind key code|]; cbn [gated_through] in Hacc.
  - (* tx *)
    destruct Hacc as [Hacc|?]; [|discriminate].
    destruct (c_next s =? id) eqn:En.
    + apply Z.eqb_eq in En. destruct (enqueue_spec s (1, id)) as [[Hr ->]|[Hr ->]].
      * intros [= <- <- <-]. cbn. split; [reflexivity|]. split; [reflexivity|]. right.
        split; [exact Hacc|]. split; [exact Hr|]. eexists. split; [reflexivity|]. cbn. auto.
      * intros [= <- <- <-]. split; [reflexivity|]. split; [reflexivity|]. left.
        split; [reflexivity|]. split; [reflexivity|]. intros id' [= <-]. rewrite Hr. apply andb_false_r.
    + intros [= <- <- <-]. split; [reflexivity|]. split; [reflexivity|]. left.
      split; [reflexivity|]. split; [reflexivity|]. intros id' [= <-].
      rewrite Z.eqb_sym, En. reflexivity.
  - (* update *)
    destruct Hacc as [Hacc|?]; [|discriminate].
    destruct (c_next s =? id) eqn:En.
    + apply Z.eqb_eq in En. destruct (enqueue_spec s (2, id)) as [[Hr ->]|[Hr ->]].
      * intros [= <- <- <-]. cbn. split; [reflexivity|]. split; [reflexivity|]. right.
        split; [exact Hacc|]. split; [exact Hr|]. eexists. split; [reflexivity|]. cbn. auto.
      * intros [= <- <- <-]. split; [reflexivity|]. split; [reflexivity|]. left.
        split; [reflexivity|]. split; [reflexivity|]. intros id' [= <-]. rewrite Hr. apply andb_false_r.
    + intros [= <- <- <-]. split; [reflexivity|]. split; [reflexivity|]. left.
      split; [reflexivity|]. split; [reflexivity|]. intros id' [= <-].
      rewrite Z.eqb_sym, En. reflexivity.
  - (* in sync *)
    destruct Hacc as [Hacc|?]; [|discriminate].
    destruct (enqueue_spec s (4, 0)) as [[Hr ->]|[Hr ->]]; intros [= <- <- <-]; cbn;
      (split; [reflexivity|]); (split; [reflexivity|]).
    + right. split; [exact Hacc|]. split; [exact Hr|]. eexists. split; [reflexivity|]. cbn. auto.
    + left. repeat split. intros; discriminate.
  - (* chain tip *)
    destruct Hacc as [Hacc|?]; [|discriminate].
    destruct (enqueue_spec s (6, 0)) as [[Hr ->]|[Hr ->]]; intros [= <- <- <-]; cbn;
      (split; [reflexivity|]); (split; [reflexivity|]).
    + right. split; [exact Hacc|]. split; [exact Hr|]. eexists. split; [reflexivity|]. cbn. auto.
    + left. repeat split. intros; discriminate.
  - (* headers *)
    destruct Hacc as [Hacc|?]; [|discriminate].
    destruct (deliver s (MHeaders reqh n)) as [[s2 d2] nf] eqn:Hd.
    destruct (deliver_frame _ _ _ _ _ Hd) as (F1 & F2 & F3 & F4 & _).
    destruct nf.
    + destruct (enqueue_spec s2 (3, reqh)) as [[Hr ->]|[Hr ->]]; intros [= <- <- <-]; cbn;
        rewrite ?F1, ?F2, ?F3, ?F4; (split; [reflexivity|]); (split; [reflexivity|]).
      * right. split; [exact Hacc|]. rewrite F1, F4 in Hr. split; [exact Hr|].
        eexists. split; [reflexivity|]. cbn. auto.
      * left. repeat split. intros; discriminate.
    + intros [= <- <- <-]. rewrite F1, F2, F3, F4. split; [reflexivity|]. split; [reflexivity|].
      left. repeat split. intros; discriminate.
  - (* header *)
    destruct (deliver s (MHeader key)) as [[s2 d2] nf] eqn:Hd.
    destruct (deliver_frame _ _ _ _ _ Hd) as (F1 & F2 & F3 & F4 & _).
    intros [= <- <- <-]. rewrite F1, F2, F3, F4. split; [reflexivity|]. split; [reflexivity|].
    left. repeat split. intros; discriminate.
  - (* fee quotes *)
    destruct Hacc as [Hacc|?]; [|discriminate].
    destruct (deliver s MFee) as [[s2 d2] nf] eqn:Hd.
    destruct (deliver_frame _ _ _ _ _ Hd) as (F1 & F2 & F3 & F4 & _).
    destruct (enqueue_spec s2 (7, 0)) as [[Hr ->]|[Hr ->]]; intros [= <- <- <-]; cbn;
      rewrite ?F1, ?F2, ?F3, ?F4; (split; [reflexivity|]); (split; [reflexivity|]).
    + right. split; [exact Hacc|]. rewrite F1, F4 in Hr. split; [exact Hr|].
      eexists. split; [reflexivity|]. cbn. auto.
    + left. repeat split. intros; discriminate.
  - (* base tx *)
    destruct (deliver s (MBaseTx k)) as [[s2 d2] nf] eqn:Hd.
    destruct (deliver_frame _ _ _ _ _ Hd) as (F1 & F2 & F3 & F4 & _).
    intros [= <- <- <-]. rewrite F1, F2, F3, F4. split; [reflexivity|]. split; [reflexivity|].
    left. repeat split. intros; discriminate.
  - (* accept *)
    destruct (deliver s (MAccept kind key)) as [[s2 d2] nf] eqn:Hd.
    destruct (deliver_frame _ _ _ _ _ Hd) as (F1 & F2 & F3 & F4 & _).
    intros [= <- <- <-]. rewrite F1, F2, F3, F4. split; [reflexivity|]. split; [reflexivity|].
    left. repeat split. intros; discriminate.
  - (* reject *)
    destruct (negb (c_acc s)).
    + intros [= <- <- <-]. split; [reflexivity|]. split; [reflexivity|]. left. repeat split. intros; discriminate.
    + destruct (deliver s (MReject kind key code)) as [[s2 d2] nf] eqn:Hd.
      destruct (deliver_frame _ _ _ _ _ Hd) as (F1 & F2 & F3 & F4 & _).
      intros [= <- <- <-]. rewrite F1, F2, F3, F4. split; [reflexivity|]. split; [reflexivity|].
      left. repeat split. intros; discriminate.
  - (* ping *)
    intros [= <- <- <-]. split; [reflexivity|]. split; [reflexivity|]. left. repeat split. intros; discriminate.
Qed.

Lemma step17_sim qcap s m o :
  R17 qcap s m ->
  exists m', step17 qcap m o (snd (step s o)) = (0, m') /\ R17 qcap (fst (step s o)) m'.
Proof.
  intros (H1 & H2 & H3 & H4).
  destruct o as [|a|n|msg| |kind key|h|kind key short|h|ops known].
  - (* session *) cbn. eexists. split; [reflexivity|]. repeat split; assumption.
  - (* accept *)
    cbn [step]. unfold handle_accept.
    destruct (negb (accept_check s a =? 0)) eqn:Ee.
    + cbn [fst snd step17]. rewrite H2, zlen_grow_neq, Z.eqb_refl. cbn [orb negb].
      eexists. split; [reflexivity|]. rewrite b2z_nz. repeat split; assumption.
    + set (s1 := set_flags s true (if c_full s then c_hs s else true)).
      destruct (enqueue_spec s1 (5, 0)) as [[Hr Hq]|[Hr Hq]]; rewrite Hq; cbn [fst snd step17].
      * subst s1. cbn [c_queue set_queue set_flags c_acc c_hs]. rewrite H2, zlen_app1, Z.eqb_refl. cbn [orb negb].
        eexists. split; [reflexivity|]. repeat split; cbn; assumption.
      * subst s1. cbn [c_queue set_flags c_acc c_hs]. rewrite H2, zlen_grow_neq, Z.eqb_refl. cbn [orb negb].
        eexists. split; [reflexivity|]. repeat split; cbn; assumption.
  - (* ready *)
    cbn [step]. destruct (negb (c_conn s)).
    + cbn [fst snd step17]. rewrite H1, Z.eqb_refl. cbn. eexists. split; [reflexivity|]. repeat split; assumption.
    + cbn [fst snd step17]. change (0 =? 0) with true. cbv iota. rewrite Z.eqb_refl. eexists. split; [reflexivity|].
      repeat split; cbn; assumption.
  - (* server message *)
    cbn [step]. destruct (handle_msg s msg) as [[s1 e] d] eqn:Hh.
    destruct (handle_msg_cases _ _ _ _ _ Hh) as (Ha & Hc & Hcase).
    cbn [fst snd]. cbn [app step17].
    destruct Hcase as [(Hq & Hn & Hno)|(Hacc & Hroom & v & Hq & Hm)].
    + rewrite Hq, Hn, H2, zlen_grow_neq, Z.eqb_refl. cbn [orb negb andb].
      destruct (is_idmsg msg) as [id|] eqn:Eid.
      * specialize (Hno id eq_refl). rewrite H1, H3, <- H4, Hno, Z.eqb_refl.
        eexists. split; [reflexivity|]. repeat split; congruence.
      * rewrite H1, Z.eqb_refl. cbn [negb]. eexists. split; [reflexivity|]. repeat split; congruence.
    + rewrite Hq, H2, zlen_app1, Z.eqb_refl. cbn [orb negb andb]. rewrite H3, Hacc. cbn [negb].
      destruct (is_idmsg msg) as [id|] eqn:Eid.
      * destruct Hm as (-> & Hn1 & ->). rewrite H1, Z.eqb_refl. cbn [negb]. rewrite Hn1, Z.eqb_refl.
        eexists. split; [reflexivity|]. repeat split; cbn; try congruence.
      * destruct Hm as (Hn1 & Hv). rewrite Hn1, H1, Z.eqb_refl. cbn [negb]. rewrite Hv.
        eexists. split; [reflexivity|]. repeat split; cbn; congruence.
  - (* dequeue *)
    cbn [step]. destruct (c_queue s) as [|[k id] q'] eqn:Eq.
    + cbn [fst snd step17]. rewrite H2. cbn. eexists. split; [reflexivity|]. repeat split; congruence.
    + cbn [fst snd step17]. rewrite H2. rewrite zlist_eqb_refl.
      eexists. split; [reflexivity|]. repeat split; cbn; congruence.
  - cbn. eexists. split; [reflexivity|]. repeat split; assumption.
  - cbn. eexists. split; [reflexivity|]. repeat split; assumption.
  - cbn. eexists. split; [reflexivity|]. repeat split; assumption.
  - (* await *)
    cbn [step]. destruct (find_result s h); [cbn; eexists; split; [reflexivity|]; repeat split; assumption|].
    destruct (find _ (c_pend s)) as [p|]; [destruct (p_short p)|];
      cbn; eexists; (split; [reflexivity|]); repeat split; assumption.
  - (* outputs *)
    cbn [step]. destruct (negb (c_acc s)); [cbn; eexists; split; [reflexivity|]; repeat split; assumption|].
    destruct (get_outputs _ _ _ _ _) as [[fc r] e]. destruct r;
      cbn; eexists; (split; [reflexivity|]); repeat split; assumption.
Qed.

Lemma mon17_silent qcap : forall ops s m i,
  R17 qcap s m -> mon17_from qcap m i ops (run_from s ops) = None.
Proof.
  induction ops as [|o ops IH]; intros s m i HR; [reflexivity|].
  cbn [run_from]. destruct (step s o) as [s1 ob] eqn:Hs. cbn [mon17_from].
  destruct (step17_sim qcap s m o HR) as (m' & Hm & HR'). rewrite Hs in Hm, HR'. cbn [fst snd] in Hm, HR'.
  rewrite Hm. cbn. apply IH. exact HR'.
Qed.

Theorem c17_monitor_silent : forall (full : bool) (qcap : Z) (ops : list op),
  c17_monitor qcap ops (run full qcap ops) = None.
Proof.
  intros. unfold c17_monitor, run. apply mon17_silent. repeat split.
Qed.

(* direct statements *)
Lemma gate_holds : forall s id k,
  id <> c_next s ->
  fst (step s (OMsg (MTx id k))) = s /\ fst (step s (OMsg (MUpdate id k))) = s.
Proof.
  intros s id k Hne. cbn [step]. unfold handle_msg. cbn [gated_through].
  assert (E : (c_next s =? id) = false) by (apply Z.eqb_neq; congruence).
  rewrite E. destruct (negb (c_acc s) && negb false); split; reflexivity.
Qed.

(* ids of tx / update notifications in a handler queue *)
Definition qids (q : list (Z * Z)) : list Z :=
  flat_map (fun e => if (fst e =? 1) || (fst e =? 2) then [snd e] else []) q.

Lemma qids_app q1 q2 : qids (q1 ++ q2) = qids q1 ++ qids q2.
Proof. unfold qids. rewrite !flat_map_concat_map, map_app, concat_app. reflexivity. Qed.

(* consecutive: l = [a; a+1; ...; b-1] *)
Fixpoint consec (a : Z) (l : list Z) : Z :=
  match l with [] => a | x :: l' => if x =? a then consec (a + 1) l' else -1000000 - 1 end.

Definition is_run (a b : Z) (l : list Z) : Prop := l = map (fun i => a + Z.of_nat i) (seq 0 (Z.to_nat (b - a))) /\ a <= b.

Lemma is_run_snoc a b l : is_run a b l -> is_run a (b + 1) (l ++ [b]).
Proof.
  intros [-> Hab]. split; [|lia].
  replace (Z.to_nat (b + 1 - a)) with (S (Z.to_nat (b - a))) by lia.
  rewrite seq_S, map_app. cbn. f_equal. f_equal. lia.
Qed.

Lemma is_run_nil a : is_run a a [].
Proof. split; [|lia]. rewrite Z.sub_diag. reflexivity. Qed.

(* The handlers have received `dl` so far and will still receive the queue: as long as the
   application declares ready with the reported next id (or does not declare ready again), the
   ids of everything delivered and queued are exactly base, base+1, ..., next-1. *)
Definition ready_exact (s : cl) (o : op) : Prop :=
  match o with
  | OReady n => c_conn s = true -> (if n =? 0 then 1 else n) = c_next s
  | _ => True
  end.

Definition deq_id (s : cl) (o : op) : list Z :=
  match o with
  | ODeq => match c_queue s with (k, id) :: _ => if (k =? 1) || (k =? 2) then [id] else [] | [] => [] end
  | _ => []
  end.

Lemma step_run_inv base s dl o :
  is_run base (c_next s) (dl ++ qids (c_queue s)) -> ready_exact s o ->
  is_run base (c_next (fst (step s o))) ((dl ++ deq_id s o) ++ qids (c_queue (fst (step s o)))).
Proof.
  intros Hrun Hre.
  destruct o as [|a|n|msg| |kind key|h|kind key short|h|ops known]; cbn [deq_id]; rewrite ?app_nil_r.
  - exact Hrun.
  - cbn [step]. unfold handle_accept. destruct (negb (accept_check s a =? 0)); cbn [fst]; [exact Hrun|].
    set (s1 := set_flags s true (if c_full s then c_hs s else true)).
    destruct (enqueue_spec s1 (5, 0)) as [[_ ->]|[_ ->]]; cbn [fst]; subst s1; cbn; [|exact Hrun].
    rewrite qids_app. cbn. rewrite app_nil_r. exact Hrun.
  - cbn [step]. destruct (negb (c_conn s)) eqn:Ec; cbn [fst]; [exact Hrun|].
    cbn in Hre. rewrite Hre by (destruct (c_conn s); [reflexivity|discriminate]). cbn. exact Hrun.
  - cbn [step]. destruct (handle_msg s msg) as [[s1 e] d] eqn:Hh. cbn [fst].
    destruct (handle_msg_cases _ _ _ _ _ Hh) as (_ & _ & [(Hq & Hn & _)|(_ & _ & v & Hq & Hm)]).
    + rewrite Hq, Hn. exact Hrun.
    + rewrite Hq, qids_app. destruct (is_idmsg msg) as [id|] eqn:Eid.
      * destruct Hm as (-> & -> & ->). rewrite app_assoc.
        replace (qids [(match msg with MTx _ _ => 1 | _ => 2 end, c_next s)]) with [c_next s]
          by (destruct msg; cbn in Eid; try discriminate; reflexivity).
        apply is_run_snoc. exact Hrun.
      * destruct Hm as (-> & Hv).
        replace (qids [v]) with (@nil Z); [rewrite app_nil_r; exact Hrun|].
        destruct msg; cbn in Hv; try discriminate; inversion Hv; reflexivity.
  - cbn [step]. destruct (c_queue s) as [|[k id] q'] eqn:Eq; cbn [fst]; [rewrite app_nil_r, Eq; exact Hrun|].
    cbn [c_queue set_queue c_next]. cbn [qids flat_map fst snd] in Hrun. fold (qids q') in Hrun.
    rewrite <- app_assoc. exact Hrun.
  - cbn. exact Hrun.
  - cbn. exact Hrun.
  - cbn. exact Hrun.
  - cbn [step]. destruct (find_result s h); [exact Hrun|].
    destruct (find _ (c_pend s)) as [p|]; [destruct (p_short p)|]; cbn; exact Hrun.
  - cbn [step]. destruct (negb (c_acc s)); [exact Hrun|].
    destruct (get_outputs _ _ _ _ _) as [[fc r] e]. destruct r; exact Hrun.
Qed.

(* all ready declarations in ops, run from s, use the reported next id *)
Fixpoint all_ready_exact (s : cl) (ops : list op) : Prop :=
  match ops with
  | [] => True
  | o :: ops' => ready_exact s o /\ all_ready_exact (fst (step s o)) ops'
  end.

Fixpoint delivered_from (s : cl) (ops : list op) : list Z :=
  match ops with
  | [] => []
  | o :: ops' => deq_id s o ++ delivered_from (fst (step s o)) ops'
  end.

Fixpoint final (s : cl) (ops : list op) : cl :=
  match ops with [] => s | o :: ops' => final (fst (step s o)) ops' end.

Lemma resume_exact_from base : forall ops s dl,
  is_run base (c_next s) (dl ++ qids (c_queue s)) -> all_ready_exact s ops ->
  is_run base (c_next (final s ops)) ((dl ++ delivered_from s ops) ++ qids (c_queue (final s ops))).
Proof.
  induction ops as [|o ops IH]; intros s dl Hrun Hall; cbn [final delivered_from].
  - rewrite app_nil_r. exact Hrun.
  - destruct Hall as [Hre Hall]. rewrite app_assoc. apply IH; [|exact Hall].
    apply step_run_inv; assumption.
Qed.

Theorem c17_resume_exact : forall (full : bool) (qcap : Z) (ops : list op),
  all_ready_exact (cl_init full qcap) ops ->
  let s := final (cl_init full qcap) ops in
  is_run 1 (c_next s) (delivered_from (cl_init full qcap) ops ++ qids (c_queue s)).
Proof.
  intros full qcap ops Hall. cbv zeta.
  apply (resume_exact_from 1 ops (cl_init full qcap) []); [|exact Hall].
  cbn. apply is_run_nil.
Qed.

(* ---------------------------------------------------------------------------------------- *)
(* C18 *)
Lemma accept_check_genuine s a : (accept_check s a =? 0) = genuine a (c_sess s).
Proof.
  unfold accept_check, genuine, expected_key, verify, accept_sighash.
  destruct (key_eqb (a_key a) (KDerived SERVER_ROOT (c_sess s))); cbn [negb andb]; [|reflexivity].
  destruct (key_eqb (s_signer (a_sig a)) (a_key a)); cbn [negb andb]; [|reflexivity].
  destruct (acontent_eqb _ _); reflexivity.
Qed.

Theorem accept_iff : forall s a,
  c_acc (fst (step s (OAccept a))) = c_acc s || genuine a (c_sess s).
Proof.
  intros s a. cbn [step]. unfold handle_accept. rewrite <- accept_check_genuine.
  destruct (accept_check s a =? 0); cbn [negb fst].
  - set (s1 := set_flags s true _). destruct (enqueue_spec s1 (5, 0)) as [[_ ->]|[_ ->]]; cbn; rewrite orb_true_r; reflexivity.
  - rewrite orb_false_r. reflexivity.
Qed.

Theorem forged_accept_fails : forall s a,
  genuine a (c_sess s) = false ->
  fst (step s (OAccept a)) = s /\ (hd 0 (snd (step s (OAccept a))) = 1 \/ hd 0 (snd (step s (OAccept a))) = 2).
Proof.
  intros s a Hg. cbn [step]. unfold handle_accept. rewrite <- accept_check_genuine in Hg.
  rewrite Hg. cbn [negb fst snd hd]. split; [reflexivity|].
  unfold accept_check in *. destruct (negb (key_eqb _ _)); [auto|].
  destruct (negb (verify _ _ _)); [auto|]. discriminate.
Qed.

Theorem no_data_before_accept : forall s m,
  c_acc s = false -> fst (step s (OMsg m)) = s.
Proof.
  intros s m Ha. cbn [step]. unfold handle_msg. rewrite Ha. cbn [negb andb].
  destruct (gated_through m) eqn:Eg; cbn [negb].
  - destruct m; try discriminate; reflexivity.
  - reflexivity.
Qed.

Definition R18 (s : cl) (m : m18) : Prop :=
  h_sess m = c_sess s /\ h_acc m = c_acc s /\ h_q m = zlen (c_queue s) /\ h_next m = c_next s /\
  c_hs s = h_ready m || (negb (c_full s) && c_acc s).

Lemma step18_sim s m o :
  R18 s m ->
  exists m', step18 (c_full s) m o (snd (step s o)) = (0, m') /\ R18 (fst (step s o)) m' /\
             c_full (fst (step s o)) = c_full s.
Proof.
  intros (H1 & H2 & H3 & H4 & H5).
  destruct o as [|a|n|msg| |kind key|h|kind key short|h|ops known].
  - cbn. eexists. split; [reflexivity|]. split; [|reflexivity]. repeat split; cbn; try assumption.
    + rewrite H1. reflexivity.
    + rewrite andb_false_r. reflexivity.
  - (* accept *)
    cbn [step]. unfold handle_accept. rewrite accept_check_genuine.
    destruct (genuine a (c_sess s)) eqn:Eg; cbn [negb].
    + set (s1 := set_flags s true (if c_full s then c_hs s else true)).
      assert (Hs1 : forall q, R18 (set_queue s1 q) (M18 (c_sess s) true (h_ready m) (zlen q) (h_next m))).
      { intros q. subst s1. repeat split; cbn; try assumption.
        rewrite H5. destruct (c_full s); cbn; [rewrite orb_false_r; reflexivity|rewrite orb_true_r; reflexivity]. }
      destruct (enqueue_spec s1 (5, 0)) as [[_ Hq]|[_ Hq]]; rewrite Hq; cbn [fst snd step18];
        rewrite H1, Eg, H2, orb_true_r; cbn [b2z Z.eqb negb Bool.eqb andb].
      * subst s1. cbn [c_hs set_queue set_flags c_queue c_full c_acc b2z]. change (1 =? 0) with false. cbn [negb Bool.eqb].
        assert (Ehs : Bool.eqb (negb (b2z (if c_full s then c_hs s else true) =? 0)) (h_ready m || negb (c_full s) && true) = true).
        { rewrite b2z_nz, H5. destruct (c_full s), (h_ready m), (c_acc s); reflexivity. }
        rewrite Ehs. cbn [negb]. eexists. split; [reflexivity|]. split; [|reflexivity].
        apply (Hs1 (c_queue s ++ [(5, 0)])).
      * subst s1. cbn [c_hs set_flags c_queue c_full c_acc b2z]. change (1 =? 0) with false. cbn [negb Bool.eqb].
        assert (Ehs : Bool.eqb (negb (b2z (if c_full s then c_hs s else true) =? 0)) (h_ready m || negb (c_full s) && true) = true).
        { rewrite b2z_nz, H5. destruct (c_full s), (h_ready m), (c_acc s); reflexivity. }
        rewrite Ehs. cbn [negb]. eexists. split; [reflexivity|]. split; [|reflexivity].
        replace (set_flags s true (if c_full s then c_hs s else true)) with
          (set_queue (set_flags s true (if c_full s then c_hs s else true)) (c_queue s)) by (destruct s; reflexivity).
        apply Hs1.
    + cbn [fst snd step18]. rewrite H1, Eg, H2, orb_false_r, b2z_nz, eqb_reflx. cbn [negb].
      assert (E0 : (accept_check s a =? 0) = false) by (rewrite accept_check_genuine; exact Eg).
      rewrite E0. cbn [Bool.eqb negb andb]. rewrite H3, Z.eqb_refl. cbn [negb].
      rewrite b2z_nz, H5, <- H2, eqb_reflx. cbn [negb].
      eexists. split; [reflexivity|]. split; [|reflexivity]. rewrite H2. repeat split; cbn; assumption.
  - (* ready *)
    cbn [step]. destruct (negb (c_conn s)).
    + cbn. eexists. split; [reflexivity|]. split; [|reflexivity]. repeat split; assumption.
    + cbn [snd fst step18]. change (0 =? 0) with true. cbn iota. rewrite Z.eqb_refl. cbn [negb].
      eexists. split; [reflexivity|]. split; [|reflexivity]. repeat split; cbn; assumption.
  - (* server message *)
    cbn [step]. destruct (handle_msg s msg) as [[s1 e] d] eqn:Hh. cbn [fst snd app step18 routing_obs].
    destruct (c_acc s) eqn:Ea.
    + rewrite H2. cbn [negb].
      destruct (handle_msg_cases _ _ _ _ _ Hh) as (Ha1 & _ & _).
      assert (Hfr : c_sess s1 = c_sess s /\ c_full s1 = c_full s /\ c_hs s1 = c_hs s).
      { clear -Hh. unfold handle_msg in Hh. revert Hh.
        destruct (negb (c_acc s) && negb (gated_through msg)); [intros [= <- _ _]; auto|].
        assert (Henq : forall x e b x', enqueue x e = (x', b) -> c_sess x' = c_sess x /\ c_full x' = c_full x /\ c_hs x' = c_hs x).
        { intros x e0 b x'. unfold enqueue. destruct (_ <? _); intros [= <- _]; auto. }
        assert (Hdl : forall x m x' d nf, deliver x m = (x', d, nf) -> c_sess x' = c_sess x /\ c_full x' = c_full x /\ c_hs x' = c_hs x).
        { intros x m0 x' d0 nf H. destruct (deliver_frame _ _ _ _ _ H) as (_ & _ & _ & _ & ? & ? & ? & _). auto. }
        destruct msg as [id k|id k| |k|reqh n|key0|  |k|kind key0|kind key0 code| ].
        - destruct (c_next s =? id); [|intros [= <- _ _]; auto].
          destruct (enqueue s (1, id)) as [x b] eqn:E. destruct (Henq _ _ _ _ E) as (? & ? & ?).
          destruct b; intros [= <- _ _]; cbn; auto.
        - destruct (c_next s =? id); [|intros [= <- _ _]; auto].
          destruct (enqueue s (2, id)) as [x b] eqn:E. destruct (Henq _ _ _ _ E) as (? & ? & ?).
          destruct b; intros [= <- _ _]; cbn; auto.
        - destruct (enqueue s (4, 0)) as [x b] eqn:E. destruct (Henq _ _ _ _ E) as (? & ? & ?). intros [= <- _ _]; auto.
        - destruct (enqueue s (6, 0)) as [x b] eqn:E. destruct (Henq _ _ _ _ E) as (? & ? & ?). intros [= <- _ _]; auto.
        - destruct (deliver s (MHeaders reqh n)) as [[x d0] nf] eqn:E. destruct (Hdl _ _ _ _ _ E) as (? & ? & ?).
          destruct nf; [|intros [= <- _ _]; auto].
          destruct (enqueue x (3, reqh)) as [y b] eqn:E2. destruct (Henq _ _ _ _ E2) as (? & ? & ?).
          intros [= <- _ _]. cbn. split; [congruence|]. split; congruence.
        - destruct (deliver s (MHeader key0)) as [[x d0] nf] eqn:E. destruct (Hdl _ _ _ _ _ E) as (? & ? & ?). intros [= <- _ _]; auto.
        - destruct (deliver s MFee) as [[x d0] nf] eqn:E. destruct (Hdl _ _ _ _ _ E) as (? & ? & ?).
          destruct (enqueue x (7, 0)) as [y b] eqn:E2. destruct (Henq _ _ _ _ E2) as (? & ? & ?).
          intros [= <- _ _]. cbn. split; [congruence|]. split; congruence.
        - destruct (deliver s (MBaseTx k)) as [[x d0] nf] eqn:E. destruct (Hdl _ _ _ _ _ E) as (? & ? & ?). intros [= <- _ _]; auto.
        - destruct (deliver s (MAccept kind key0)) as [[x d0] nf] eqn:E. destruct (Hdl _ _ _ _ _ E) as (? & ? & ?). intros [= <- _ _]; auto.
        - destruct (negb (c_acc s)); [intros [= <- _ _]; auto|].
          destruct (deliver s (MReject kind key0 code)) as [[x d0] nf] eqn:E. destruct (Hdl _ _ _ _ _ E) as (? & ? & ?). intros [= <- _ _]; auto.
        - intros [= <- _ _]; auto. }
      destruct Hfr as (F1 & F2 & F3).
      eexists. split; [reflexivity|]. split; [|exact F2].
      repeat split; cbn; try congruence. all: rewrite ?F3, ?F2, ?Ha1, ?Ea, ?H5, ?Ea; reflexivity.
    + rewrite H2. cbn [negb].
      pose proof (no_data_before_accept s msg Ea) as Hnd. cbn [step] in Hnd. rewrite Hh in Hnd. cbn [fst] in Hnd. subst s1.
      assert (Hd : d = []).
      { clear -Hh Ea. unfold handle_msg in Hh. rewrite Ea in Hh. cbn [negb andb] in Hh.
        destruct (gated_through msg) eqn:Eg; cbn [negb] in Hh; [|inversion Hh; reflexivity].
        destruct msg; try discriminate; rewrite ?Ea in Hh; cbn in Hh; inversion Hh; reflexivity. }
      subst d. cbn [zlen length Z.of_nat app]. rewrite H3, H4, !Z.eqb_refl. cbn.
      eexists. split; [reflexivity|]. split; [|reflexivity]. repeat split; rewrite ?Ea; assumption.
  - (* dequeue *)
    cbn [step]. destruct (c_queue s) as [|[k id] q'] eqn:Eq; cbn [fst snd step18].
    + eexists. split; [reflexivity|]. split; [|reflexivity]. repeat split; try assumption; congruence.
    + assert (Hob : match (if k =? 7 then [] else [k; id]) with [-1] => m | _ => M18 (h_sess m) (h_acc m) (h_ready m) (h_q m - 1) (h_next m) end
                    = M18 (h_sess m) (h_acc m) (h_ready m) (h_q m - 1) (h_next m)).
      { destruct (k =? 7); [reflexivity|]. destruct k as [|p|p]; try reflexivity. destruct p; reflexivity. }
      rewrite Hob. eexists. split; [reflexivity|]. split; [|reflexivity].
      repeat split; cbn; try assumption. rewrite H3. unfold zlen. cbn [length]. lia.
  - cbn. eexists. split; [reflexivity|]. split; [|reflexivity]. repeat split; assumption.
  - cbn. eexists. split; [reflexivity|]. split; [|reflexivity]. repeat split; assumption.
  - cbn. eexists. split; [reflexivity|]. split; [|reflexivity]. repeat split; assumption.
  - cbn [step]. destruct (find_result s h); [cbn; eexists; split; [reflexivity|]; split; [|reflexivity]; repeat split; assumption|].
    destruct (find _ (c_pend s)) as [p|]; [destruct (p_short p)|];
      cbn; eexists; (split; [reflexivity|]); (split; [|reflexivity]); repeat split; assumption.
  - cbn [step]. destruct (negb (c_acc s)); [cbn; eexists; split; [reflexivity|]; split; [|reflexivity]; repeat split; assumption|].
    destruct (get_outputs _ _ _ _ _) as [[fc r] e]. destruct r;
      cbn; eexists; (split; [reflexivity|]); (split; [|reflexivity]); repeat split; assumption.
Qed.

Lemma mon18_silent full : forall ops s m i,
  c_full s = full -> R18 s m -> mon18_from full m i ops (run_from s ops) = None.
Proof.
  induction ops as [|o ops IH]; intros s m i Hf HR; [reflexivity|].
  cbn [run_from]. destruct (step s o) as [s1 ob] eqn:Hs. cbn [mon18_from].
  destruct (step18_sim s m o HR) as (m' & Hm & HR' & Hf'). rewrite Hs in Hm, HR', Hf'. cbn [fst snd] in Hm, HR', Hf'.
  rewrite Hf in Hm. rewrite Hm. cbn. apply IH; [congruence|exact HR'].
Qed.

Theorem c18_monitor_silent : forall (full : bool) (qcap : Z) (ops : list op),
  c18_monitor full ops (run full qcap ops) = None.
Proof.
  intros. unfold c18_monitor, run. apply mon18_silent; [reflexivity|]. repeat split.
  cbn. rewrite andb_false_r. reflexivity.
Qed.
