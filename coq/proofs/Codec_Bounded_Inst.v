(* C20 obligation on the generated reader formats: every decoder of the client protocol is `bounded`
   (no allocation from an unchecked count, nothing unsupported).  Kept in its own file because it is
   the obligation that FAILS while pkg/client/messages.go pre-allocates from wire counts; everything
   else about C20 (meta-theorem, witnesses) is in Codec_Proofs.v / Codec_Inst.v and checks regardless.

   ideal_deps: the decoders of the pinned dependency tokenized/pkg (wire.MsgTx / TxOut) are taken in
   their idealised form; the dependency's real decoder is itself unbounded
   (Codec_Inst.dependency_tx_unbounded) and is reported separately by the hostile run. *)
From Coq Require Import ZArith String List Bool.
From V.model Require Import CodecDSL.
From V.proofs Require Import Codec_Inst.
From V.gen Require Import CodecGen.
Import ListNotations.

Lemma all_readers_bounded : forallb (fun nr => bounded (snd nr)) (readers ideal_deps) = true.
Proof. vm_compute. reflexivity. Qed.

Theorem all_readers_bounded_Forall : Forall (fun nr => bounded (snd nr) = true) (readers ideal_deps).
Proof. apply Forall_forall. apply forallb_forall. exact all_readers_bounded. Qed.
