(* Instantiation of the codec meta-theorems on the GENERATED formats (gen/CodecGen.v, gen/TypeTables.v):
   per-type obligations are boolean and discharged by vm_compute (reflection). *)
From Coq Require Import ZArith String List Bool Lia.
From V.model Require Import CodecDSL.
From V.proofs Require Import Codec_Proofs.
From V.gen Require Import CodecGen TypeTables.
Import ListNotations.
Open Scope Z_scope.

(* ---------------------------------------------------------------------------------------- *)
(* C15: every Serialize/Deserialize pair describes the same wire format *)

Definition sym_ok (e : string * fmt * fmt) : bool :=
  let '(_, w, r) := e in symmetric w r && fmt_ok r.

Lemma all_symmetric_real : forallb sym_ok (all_types real_deps) = true.
Proof. vm_compute. reflexivity. Qed.

Lemma all_symmetric_ideal : forallb sym_ok (all_types ideal_deps) = true.
Proof. vm_compute. reflexivity. Qed.

Lemma message_framing : message_framing_ok = true.
Proof. vm_compute. reflexivity. Qed.

Lemma in_sym_ok : forall D, forallb sym_ok (all_types D) = true ->
  forall n w r, In (n, w, r) (all_types D) -> symmetric w r = true /\ fmt_ok r = true.
Proof.
  intros D H n w r Hin. rewrite forallb_forall in H. specialize (H _ Hin). cbn in H.
  apply andb_prop in H. exact H.
Qed.

Definition is_deps (D : deps) : Prop := D = real_deps \/ D = ideal_deps.

Lemma sym_of_deps : forall D, is_deps D -> forallb sym_ok (all_types D) = true.
Proof. intros D [->| ->]; [apply all_symmetric_real|apply all_symmetric_ideal]. Qed.

Section Inst.
  Variable odec : string -> bytes -> ores.
  Variable ochk : string -> bytes -> Z.
  Hypothesis odec_ext : forall name b rest,
    odec name b = OOk (length b) -> odec name (b ++ rest) = OOk (length b).
  Hypothesis odec_prefix : forall name b p q,
    odec name b = OOk (length b) -> p ++ q = b -> q <> [] -> odec name p = OErr.

  Theorem all_types_roundtrip : forall D, is_deps D -> forall n w r, In (n, w, r) (all_types D) ->
    forall v rest, wf odec ochk r [] v = true ->
    exists a, decode odec ochk r [] (encode w v ++ rest) = DOk v rest a.
  Proof.
    intros D HD n w r Hin v rest Hwf.
    destruct (in_sym_ok D (sym_of_deps D HD) n w r Hin) as [S Hok].
    exact (sym_roundtrip odec ochk odec_ext odec_prefix w r S Hok v rest Hwf).
  Qed.

  Theorem all_types_prefix_fails : forall D, is_deps D -> forall n w r, In (n, w, r) (all_types D) ->
    forall v p q, wf odec ochk r [] v = true -> p ++ q = encode w v -> q <> [] ->
    exists a, decode odec ochk r [] p = DErr a.
  Proof.
    intros D HD n w r Hin v p q Hwf Hpq Hq.
    destruct (in_sym_ok D (sym_of_deps D HD) n w r Hin) as [S Hok].
    exact (sym_prefix_fails odec ochk odec_ext odec_prefix w r S Hok v p q Hwf Hpq Hq).
  Qed.
End Inst.

(* ---------------------------------------------------------------------------------------- *)
(* Message framing: PayloadForType composed with the generated formats *)

Fixpoint find_type (n : string) (l : list (string * fmt * fmt)) : option (fmt * fmt) :=
  match l with
  | [] => None
  | (n', w, r) :: t => if String.eqb n n' then Some (w, r) else find_type n t
  end.

(* (code, reader format) / (code, writer format) for every case of PayloadForType *)
Definition msg_table (D : deps) : list (Z * fmt) :=
  flat_map (fun cn => match find_type (snd cn) (all_types D) with Some (_, r) => [(fst cn, r)] | None => [] end)
           payload_for_type.
Definition msg_wtable (D : deps) : list (Z * fmt) :=
  flat_map (fun cn => match find_type (snd cn) (all_types D) with Some (w, _) => [(fst cn, w)] | None => [] end)
           payload_for_type.

(* the two tables have the same codes in the same order and pointwise symmetric formats *)
Fixpoint tables_sym (a b : list (Z * fmt)) : bool :=
  match a, b with
  | [], [] => true
  | (c1, w) :: a', (c2, r) :: b' => (c1 =? c2) && symmetric w r && tables_sym a' b'
  | _, _ => false
  end.

Lemma tables_sym_real : tables_sym (msg_wtable real_deps) (msg_table real_deps) = true.
Proof. vm_compute. reflexivity. Qed.
Lemma tables_sym_ideal : tables_sym (msg_wtable ideal_deps) (msg_table ideal_deps) = true.
Proof. vm_compute. reflexivity. Qed.

Lemma tables_sym_encode : forall a b, tables_sym a b = true -> forall m, encode_msg a m = encode_msg b m.
Proof.
  induction a as [|[c1 w] a IH]; intros [|[c2 r] b] H m; cbn [tables_sym] in H; try discriminate; auto.
  apply andb_prop in H as [H H3]. apply andb_prop in H as [H1 H2]. apply Z.eqb_eq in H1. subst c2.
  unfold encode_msg in *. cbn [lookup_code].
  destruct (c1 =? fst m) eqn:E.
  - now rewrite (sym_encode w r (snd m) H2).
  - specialize (IH b H3 m). exact IH.
Qed.

Section InstMsg.
  Variable odec : string -> bytes -> ores.
  Variable ochk : string -> bytes -> Z.
  Hypothesis odec_ext : forall name b rest,
    odec name b = OOk (length b) -> odec name (b ++ rest) = OOk (length b).
  Hypothesis odec_prefix : forall name b p q,
    odec name b = OOk (length b) -> p ++ q = b -> q <> [] -> odec name p = OErr.

  (* messages written by Message.Serialize (writer formats) one after the other, read back by iterating
     Message.Deserialize (reader formats) over the single stream *)
  Theorem stream_roundtrip : forall D, is_deps D -> forall ms,
    forallb (wf_msg odec ochk (msg_table D)) ms = true ->
    let bs := flat_map (encode_msg (msg_wtable D)) ms in
    decode_stream odec ochk (msg_table D) (length bs) bs = Some ms.
  Proof.
    intros D HD ms Hwf bs. subst bs.
    assert (E : flat_map (encode_msg (msg_wtable D)) ms = flat_map (encode_msg (msg_table D)) ms).
    { apply flat_map_ext'. apply tables_sym_encode.
      destruct HD as [->| ->]; [apply tables_sym_real|apply tables_sym_ideal]. }
    rewrite E. exact (concat_decodes odec ochk odec_ext odec_prefix (msg_table D) ms Hwf).
  Qed.

  Theorem message_prefix_fails : forall D, is_deps D -> forall m p q,
    wf_msg odec ochk (msg_table D) m = true -> p ++ q = encode_msg (msg_wtable D) m -> q <> [] ->
    exists a, decode_msg odec ochk (msg_table D) p = MErr a.
  Proof.
    intros D HD m p q Hwf Hpq Hq.
    rewrite (tables_sym_encode _ (msg_table D)) in Hpq
      by (destruct HD as [->| ->]; [apply tables_sym_real|apply tables_sym_ideal]).
    exact (msg_prefix_fails odec ochk odec_ext odec_prefix (msg_table D) m p q Hwf Hpq Hq).
  Qed.
End InstMsg.

(* ---------------------------------------------------------------------------------------- *)
(* type tables *)

Section NoDupB.
  Context {A : Type} (eqb : A -> A -> bool) (eqb_eq : forall x y, eqb x y = true <-> x = y).
  Fixpoint nodupb (l : list A) : bool :=
    match l with
    | [] => true
    | x :: t => negb (existsb (eqb x) t) && nodupb t
    end.
  Lemma nodupb_NoDup : forall l, nodupb l = true -> NoDup l.
  Proof.
    induction l as [|x t IH]; intros H; [constructor|].
    cbn in H. apply andb_prop in H as [H1 H2]. constructor; [|auto].
    intros Hin. apply negb_true_iff in H1.
    assert (existsb (eqb x) t = true) by (apply existsb_exists; exists x; split; [auto|now apply eqb_eq]).
    congruence.
  Qed.
  Definition inclb (a b : list A) : bool := forallb (fun x => existsb (eqb x) b) a.
  Lemma inclb_incl : forall a b, inclb a b = true -> incl a b.
  Proof.
    intros a b H x Hin. unfold inclb in H. rewrite forallb_forall in H. specialize (H x Hin).
    apply existsb_exists in H as [y [Hy E]]. apply eqb_eq in E. now subst.
  Qed.
End NoDupB.

Definition pair_zs_eqb (a b : Z * string) : bool := (fst a =? fst b) && String.eqb (snd a) (snd b).
Lemma pair_zs_eqb_eq : forall a b, pair_zs_eqb a b = true <-> a = b.
Proof.
  intros [a1 a2] [b1 b2]. unfold pair_zs_eqb. cbn. split.
  - intros H. apply andb_prop in H as [H1 H2]. apply Z.eqb_eq in H1. apply String.eqb_eq in H2. now subst.
  - intros H. inversion H; subst. now rewrite Z.eqb_refl, String.eqb_refl.
Qed.

Definition codes : list Z := map snd type_codes.

Definition tables_ok : bool :=
  nodupb Z.eqb codes && nodupb String.eqb (map fst type_codes)
  && nodupb Z.eqb (map fst payload_for_type) && nodupb String.eqb (map snd payload_for_type)
  && nodupb Z.eqb (map fst type_names) && nodupb String.eqb (map snd type_names)
  && inclb Z.eqb codes (map fst payload_for_type) && inclb Z.eqb (map fst payload_for_type) codes
  && inclb Z.eqb codes (map fst type_names) && inclb Z.eqb (map fst type_names) codes
  && inclb pair_zs_eqb payload_for_type (map (fun x => (snd x, fst x)) type_of_payload)
  && (length payload_for_type =? length (msg_table real_deps))%nat
  && (length codes =? 37)%nat.

Lemma tables_ok_true : tables_ok = true.
Proof. vm_compute. reflexivity. Qed.

Theorem type_tables_bijective :
  NoDup codes /\ NoDup (map fst payload_for_type) /\ NoDup (map snd payload_for_type) /\
  NoDup (map fst type_names) /\ NoDup (map snd type_names) /\
  incl codes (map fst payload_for_type) /\ incl (map fst payload_for_type) codes /\
  incl codes (map fst type_names) /\ incl (map fst type_names) codes /\
  (forall c n, In (c, n) payload_for_type -> In (n, c) type_of_payload) /\
  length payload_for_type = length (msg_table real_deps) /\
  length codes = 37%nat.
Proof.
  pose proof tables_ok_true as H. unfold tables_ok in H.
  repeat (apply andb_prop in H as [H ?]).
  repeat split.
  - eapply nodupb_NoDup; [apply Z.eqb_eq|eauto].
  - eapply nodupb_NoDup; [apply Z.eqb_eq|eauto].
  - eapply nodupb_NoDup; [apply String.eqb_eq|eauto].
  - eapply nodupb_NoDup; [apply Z.eqb_eq|eauto].
  - eapply nodupb_NoDup; [apply String.eqb_eq|eauto].
  - eapply inclb_incl; [apply Z.eqb_eq|eauto].
  - eapply inclb_incl; [apply Z.eqb_eq|eauto].
  - eapply inclb_incl; [apply Z.eqb_eq|eauto].
  - eapply inclb_incl; [apply Z.eqb_eq|eauto].
  - intros c n Hin.
    pose proof (inclb_incl pair_zs_eqb pair_zs_eqb_eq _ _ H2 (c, n) Hin) as I.
    apply in_map_iff in I as [[n' c'] [E I]]. cbn in E. inversion E; subst. exact I.
Qed.

(* ---------------------------------------------------------------------------------------- *)
(* C20 *)

Definition readers (D : deps) : list (string * fmt) := map (fun e => (fst (fst e), snd e)) (all_types D).

Definition no_odec : string -> bytes -> ores := fun _ _ => OErr.
Definition no_ochk : string -> bytes -> Z := fun _ _ => 0.

(* an unbounded reader has a hostile input of fewer than 100 bytes, computed from its format, on which
   the decoder panics or reserves at least 2^32 bytes *)
Definition refuted_or_bounded (nr : string * fmt) : bool :=
  bounded (snd nr)
  || (let (bs, found) := witness (snd nr) in
      found && (length bs <? 100)%nat && hostile_outcome (decode no_odec no_ochk (snd nr) [] bs)).

Lemma unbounded_refuted_real : forallb refuted_or_bounded (readers real_deps) = true.
Proof. vm_compute. reflexivity. Qed.

Lemma unbounded_refuted_ideal : forallb refuted_or_bounded (readers ideal_deps) = true.
Proof. vm_compute. reflexivity. Qed.

Theorem unbounded_refuted : forall D, is_deps D -> forall n r, In (n, r) (readers D) ->
  bounded r = true \/
  exists bs, (length bs < 100)%nat /\ hostile_outcome (decode no_odec no_ochk r [] bs) = true.
Proof.
  intros D HD n r Hin.
  assert (H : forallb refuted_or_bounded (readers D) = true)
    by (destruct HD as [->| ->]; [apply unbounded_refuted_real|apply unbounded_refuted_ideal]).
  rewrite forallb_forall in H. specialize (H _ Hin). unfold refuted_or_bounded in H. cbn [snd] in H.
  apply orb_prop in H as [H|H]; [left; auto|right].
  destruct (witness r) as [bs found].
  apply andb_prop in H as [H H3]. apply andb_prop in H as [H1 H2].
  exists bs. split; [apply Nat.ltb_lt in H2; auto|auto].
Qed.

(* the pinned dependency's transaction decoder itself reserves memory from claimed counts *)
Lemma dependency_tx_unbounded :
  bounded (d_MsgTx real_deps) = false /\ bounded (d_TxOut real_deps) = false /\
  hostile_outcome (decode no_odec no_ochk (d_MsgTx real_deps) [] (fst (witness (d_MsgTx real_deps)))) = true.
Proof. vm_compute. repeat split; reflexivity. Qed.

Section InstBounded.
  Variable odec : string -> bytes -> ores.
  Variable ochk : string -> bytes -> Z.
  Hypothesis odec_nopanic : forall name bs, odec name bs <> OPanic.
  Hypothesis ochk_nopanic : forall name b, ochk name b = 0 \/ ochk name b = 1.

  Theorem bounded_readers_safe : forall D n r, In (n, r) (readers D) -> bounded r = true ->
    forall bs, decode odec ochk r [] bs <> DPanic /\
      match decode odec ochk r [] bs with
      | DOk _ _ a | DErr a => a <= bound_A r * zlen bs + bound_B r
      | DPanic => True
      end.
  Proof.
    intros D n r _ Hb bs. exact (bounded_no_panic_linear odec ochk odec_nopanic ochk_nopanic r Hb bs).
  Qed.
End InstBounded.
