(* Meta-theorems of the codec DSL (model/CodecDSL.v), proved once by induction on formats.
     roundtrip       wf f v -> decode f (encode f v ++ rest) = DOk v rest _        (exact consumption)
     prefix_fails    every strict prefix of encode f v decodes to DErr (never DOk, never DPanic)
     bounded_sound   bounded f -> for ALL inputs: no DPanic, alloc <= bound_A f * |input| + bound_B f
     concat_decodes  a concatenation of encoded messages decodes to the same sequence
   Equality of values is syntactic equality in the value universe; the harness maps a nil Go slice
   and an empty Go slice to the same VList [] (that identification, and no other, is the "≈" of
   DESIGN.md C15). *)
From Coq Require Import ZArith String List Bool Lia ZifyBool ZifyNat.
From V.model Require Import CodecDSL.
Import ListNotations.
Open Scope Z_scope.

(* ---------------------------------------------------------------------------------------- *)
(* little endian, take *)

Lemma le_enc_length : forall w n, length (le_enc w n) = w.
Proof. induction w; intros; cbn [le_enc length]; auto. Qed.

Lemma le_dec_enc : forall w n, 0 <= n < 256 ^ Z.of_nat w -> le_dec (le_enc w n) = n.
Proof.
  induction w; intros n H.
  - cbn in *. lia.
  - cbn [le_enc le_dec].
    rewrite Nat2Z.inj_succ, Z.pow_succ_r in H by lia.
    rewrite IHw.
    + pose proof (Z.div_mod n 256). lia.
    + split. apply Z.div_pos; lia. apply Z.div_lt_upper_bound; lia.
Qed.

Lemma take_n_app : forall n x r, length x = n -> take_n n (x ++ r) = Some (x, r).
Proof.
  intros n x r H. unfold take_n.
  rewrite app_length.
  destruct (length x + length r <? n)%nat eqn:E; [lia|].
  subst n. rewrite firstn_app, firstn_all, Nat.sub_diag, skipn_app, skipn_all, Nat.sub_diag. cbn.
  now rewrite app_nil_r.
Qed.

Lemma take_n_short : forall n bs, (length bs < n)%nat -> take_n n bs = None.
Proof. intros. unfold take_n. destruct (length bs <? n)%nat eqn:E; auto. lia. Qed.

Lemma take_n_some : forall n bs x r, take_n n bs = Some (x, r) ->
  bs = x ++ r /\ length x = n /\ (length r + n = length bs)%nat.
Proof.
  unfold take_n. intros n bs x r H.
  destruct (length bs <? n)%nat eqn:E; [discriminate|]. inversion H; subst; clear H.
  rewrite firstn_skipn, firstn_length, skipn_length. repeat split; lia.
Qed.

Lemma take_z_app : forall x r, take_z (zlen x) (x ++ r) = Some (x, r).
Proof.
  intros. unfold take_z, zlen. rewrite app_length.
  destruct ((Z.of_nat (length x + length r) <? Z.of_nat (length x)) || (Z.of_nat (length x) <? 0)) eqn:E; [lia|].
  rewrite Nat2Z.id, firstn_app, firstn_all, Nat.sub_diag, skipn_app, skipn_all, Nat.sub_diag. cbn.
  now rewrite app_nil_r.
Qed.

Lemma take_z_short : forall n bs, zlen bs < n -> take_z n bs = None.
Proof. intros. unfold take_z. destruct ((zlen bs <? n) || (n <? 0)) eqn:E; auto. lia. Qed.

Lemma take_z_some : forall n bs x r, take_z n bs = Some (x, r) ->
  bs = x ++ r /\ zlen x = n /\ 0 <= n /\ zlen r + n = zlen bs.
Proof.
  unfold take_z, zlen. intros n bs x r H.
  destruct ((Z.of_nat (length bs) <? n) || (n <? 0)) eqn:E; [discriminate|]. inversion H; subst; clear H.
  rewrite firstn_skipn, firstn_length, skipn_length. repeat split; lia.
Qed.

(* ---------------------------------------------------------------------------------------- *)
(* varint *)

Lemma varint_enc_cases : forall n,
  (n < 253 /\ varint_enc n = [n]) \/
  (253 <= n <= 65535 /\ varint_enc n = 253 :: le_enc 2 n) \/
  (65535 < n <= 4294967295 /\ varint_enc n = 254 :: le_enc 4 n) \/
  (4294967295 < n /\ varint_enc n = 255 :: le_enc 8 n).
Proof.
  intros n. unfold varint_enc.
  destruct (n <? 253) eqn:E1; [left; split; [lia|auto]|].
  destruct (n <=? 65535) eqn:E2; [right; left; split; [lia|auto]|].
  destruct (n <=? 4294967295) eqn:E3; [right; right; left; split; [lia|auto]|].
  right; right; right; split; [lia|auto].
Qed.

Lemma varint_rt : forall n r, 0 <= n < 2 ^ 64 -> varint_dec (varint_enc n ++ r) = Some (n, r).
Proof.
  intros n r H.
  destruct (varint_enc_cases n) as [[H1 E]|[[H1 E]|[[H1 E]|[H1 E]]]]; rewrite E; cbn [app varint_dec].
  - destruct (n =? 255) eqn:A; [lia|]. destruct (n =? 254) eqn:B; [lia|]. destruct (n =? 253) eqn:C; [lia|]. auto.
  - cbn [Z.eqb Pos.eqb]. rewrite take_n_app by apply le_enc_length.
    rewrite le_dec_enc by (cbn; lia). destruct (n <? 253) eqn:A; [lia|auto].
  - cbn [Z.eqb Pos.eqb]. rewrite take_n_app by apply le_enc_length.
    rewrite le_dec_enc by (cbn; lia). destruct (n <? 65536) eqn:A; [lia|auto].
  - cbn [Z.eqb Pos.eqb]. rewrite take_n_app by apply le_enc_length.
    rewrite le_dec_enc by (cbn; lia). destruct (n <? 4294967296) eqn:A; [lia|auto].
Qed.

Lemma varint_enc_length : forall n, (1 <= length (varint_enc n))%nat.
Proof.
  intros n. destruct (varint_enc_cases n) as [[_ E]|[[_ E]|[[_ E]|[_ E]]]]; rewrite E; cbn [length]; lia.
Qed.

Lemma app_eq_cons_prefix : forall (p q : bytes) d t, p ++ q = d :: t -> q <> [] ->
  p = [] \/ exists p', p = d :: p' /\ p' ++ q = t.
Proof.
  intros p q d t H Hq. destruct p as [|x p']; [left; auto|].
  right. cbn in H. inversion H; subst. eauto.
Qed.

Lemma strict_prefix_length : forall (p q t : bytes), p ++ q = t -> q <> [] -> (length p < length t)%nat.
Proof.
  intros p q t H Hq. subst t. rewrite app_length. destruct q; [congruence|]. cbn [length]. lia.
Qed.

Lemma varint_prefix : forall n p q, 0 <= n < 2 ^ 64 -> p ++ q = varint_enc n -> q <> [] -> varint_dec p = None.
Proof.
  intros n p q H Hpq Hq.
  destruct (varint_enc_cases n) as [[H1 E]|[[H1 E]|[[H1 E]|[H1 E]]]]; rewrite E in Hpq;
    destruct (app_eq_cons_prefix _ _ _ _ Hpq Hq) as [->|[p' [-> Hp']]]; auto;
    cbn [varint_dec].
  - destruct p'; [|discriminate]. destruct q; [congruence|discriminate].
  - cbn [Z.eqb Pos.eqb]. rewrite take_n_short; auto.
    pose proof (strict_prefix_length _ _ _ Hp' Hq) as L. now rewrite le_enc_length in L.
  - cbn [Z.eqb Pos.eqb]. rewrite take_n_short; auto.
    pose proof (strict_prefix_length _ _ _ Hp' Hq) as L. now rewrite le_enc_length in L.
  - cbn [Z.eqb Pos.eqb]. rewrite take_n_short; auto.
    pose proof (strict_prefix_length _ _ _ Hp' Hq) as L. now rewrite le_enc_length in L.
Qed.

Lemma varint_dec_len : forall bs v r, varint_dec bs = Some (v, r) -> (length r < length bs)%nat.
Proof.
  intros bs v r H. destruct bs as [|d t]; [discriminate|]. cbn [varint_dec] in H. cbn [length].
  destruct (d =? 255).
  { destruct (take_n 8 t) as [[x r']|] eqn:T; [|discriminate].
    destruct (le_dec x <? 4294967296); [discriminate|]. inversion H; subst.
    apply take_n_some in T. lia. }
  destruct (d =? 254).
  { destruct (take_n 4 t) as [[x r']|] eqn:T; [|discriminate].
    destruct (le_dec x <? 65536); [discriminate|]. inversion H; subst.
    apply take_n_some in T. lia. }
  destruct (d =? 253).
  { destruct (take_n 2 t) as [[x r']|] eqn:T; [|discriminate].
    destruct (le_dec x <? 253); [discriminate|]. inversion H; subst.
    apply take_n_some in T. lia. }
  inversion H; subst. lia.
Qed.

(* ---------------------------------------------------------------------------------------- *)
(* generic facts *)

Lemma firstn_app_exact : forall (b r : bytes), firstn (length b) (b ++ r) = b.
Proof. intros. rewrite firstn_app, firstn_all, Nat.sub_diag. cbn. apply app_nil_r. Qed.

Lemma skipn_app_exact : forall (b r : bytes), skipn (length b) (b ++ r) = r.
Proof. intros. rewrite skipn_app, skipn_all, Nat.sub_diag. reflexivity. Qed.

Lemma flat_map_min_len : forall {A} (e : A -> bytes) l,
  (forall v, In v l -> (1 <= length (e v))%nat) -> (length l <= length (flat_map e l))%nat.
Proof.
  induction l; intros H; cbn [flat_map length]; [lia|].
  rewrite app_length. pose proof (H a (or_introl eq_refl)).
  assert (length l <= length (flat_map e l))%nat by (apply IHl; intros; apply H; now right). lia.
Qed.

Lemma pow2_le_64 : forall bits, 0 <= bits <= 64 -> 2 ^ bits <= 2 ^ 64.
Proof. intros. apply Z.pow_le_mono_r; lia. Qed.

Section Meta.
  Variable odec : string -> bytes -> ores.
  Variable ochk : string -> bytes -> Z.

  (* Assumed behaviour of the opaque dependency decoders (bitcoin.PublicKey, bitcoin.Signature,
     merkle_proof.MerkleProof of tokenized/pkg): a blob they accept completely is also accepted, with
     the same length, when more input follows (they are self-delimiting), and none of its strict
     prefixes is accepted or panics.  Exercised against the real code by the correspondence run. *)
  Hypothesis odec_ext : forall name b rest,
    odec name b = OOk (length b) -> odec name (b ++ rest) = OOk (length b).
  Hypothesis odec_prefix : forall name b p q,
    odec name b = OOk (length b) -> p ++ q = b -> q <> [] -> odec name p = OErr.

  Notation dec := (decode odec ochk).
  Notation wff := (wf odec ochk).

  (* a well-formed value's encoding is at least min_size long *)
  Lemma enc_min : forall f, fmt_ok f = true -> forall env v, wff f env v = true ->
    (min_size f <= length (encode f v))%nat.
  Proof.
    induction f; intros Hok env v Hwf; destruct v; cbn [wf] in Hwf; try discriminate;
      cbn [min_size encode].
    - rewrite le_enc_length. lia.
    - rewrite le_enc_length. lia.
    - cbn. lia.
    - apply varint_enc_length.
    - lia.
    - rewrite app_length. pose proof (varint_enc_length (zlen b)). lia.
    - rewrite app_length. pose proof (varint_enc_length (zlen l)). lia.
    - lia.
    - destruct o; cbn [length]; lia.
    - lia.
    - destruct fs as [|[n' x] fs]; [discriminate|].
      cbn [fmt_ok] in Hok. apply andb_prop in Hok as [Hg Hr].
      apply andb_prop in Hwf as [Hwf Hw2]. apply andb_prop in Hwf as [_ Hw1].
      rewrite app_length. specialize (IHf1 Hg _ _ Hw1). specialize (IHf2 Hr _ _ Hw2). lia.
    - cbn [fmt_ok] in Hok. all: try (eapply IHf; eauto).
    - cbn [fmt_ok] in Hok. eapply IHf; eauto.
    - cbn [fmt_ok] in Hok. eapply IHf; eauto.
    - cbn [fmt_ok] in Hok. eapply IHf; eauto.
    - cbn [fmt_ok] in Hok. eapply IHf; eauto.
    - cbn [fmt_ok] in Hok. eapply IHf; eauto.
    - destruct (odec name b) eqn:E; try discriminate. lia.
  Qed.

  (* ------------------------------------------------------------------------------------ *)
  (* round trip with exact consumption *)

  Lemma repeat_rt : forall g env pe,
    (forall v rest, wff g env v = true -> exists a, dec g env (encode g v ++ rest) = DOk v rest a) ->
    forall l rest fuel, forallb (wff g env) l = true -> (length l <= fuel)%nat ->
    exists a, repeat_dec (dec g env) pe fuel (zlen l) (flat_map (encode g) l ++ rest) = LOk l rest a.
  Proof.
    intros g env pe IH. induction l as [|v l IHl]; intros rest fuel Hwf Hfuel.
    - destruct fuel; cbn; eauto.
    - cbn [forallb] in Hwf. apply andb_prop in Hwf as [Hv Hl].
      destruct fuel as [|fuel]; [cbn in Hfuel; lia|].
      cbn [repeat_dec flat_map]. unfold zlen. cbn [length].
      destruct (Z.of_nat (S (length l)) <=? 0) eqn:E; [lia|].
      rewrite <- app_assoc. destruct (IH v (flat_map (encode g) l ++ rest) Hv) as [a1 ->].
      replace (Z.of_nat (S (length l)) - 1) with (zlen l) by (unfold zlen; lia).
      destruct (IHl rest fuel Hl) as [a2 E2]; [cbn in Hfuel; lia|].
      fold (repeat_dec (dec g env) pe). rewrite E2. eauto.
  Qed.

  Lemma sint_rt : forall w n, (1 <= w)%nat ->
    - (256 ^ Z.of_nat w / 2) <= n < 256 ^ Z.of_nat w / 2 ->
    let u := n mod 256 ^ Z.of_nat w in
    0 <= u < 256 ^ Z.of_nat w /\ (if u <? 256 ^ Z.of_nat w / 2 then u else u - 256 ^ Z.of_nat w) = n.
  Proof.
    intros w n Hw H u. subst u.
    destruct w as [|w']; [lia|].
    rewrite Nat2Z.inj_succ, Z.pow_succ_r in * by lia.
    set (K := 256 ^ Z.of_nat w') in *.
    assert (0 < K) by (apply Z.pow_pos_nonneg; lia).
    replace (256 * K / 2) with (128 * K) in * by (replace (256 * K) with ((128 * K) * 2) by lia; now rewrite Z.div_mul).
    destruct (Z_lt_le_dec n 0).
    - assert (E : n mod (256 * K) = n + 256 * K).
      { replace n with ((n + 256 * K) + (-1) * (256 * K)) at 1 by lia.
        rewrite Z_mod_plus_full. apply Z.mod_small. lia. }
      rewrite E. split; [lia|]. destruct (n + 256 * K <? 128 * K) eqn:A; lia.
    - rewrite Z.mod_small by lia. split; [lia|]. destruct (n <? 128 * K) eqn:A; lia.
  Qed.

  Theorem roundtrip : forall f, fmt_ok f = true -> forall env v rest, wff f env v = true ->
    exists a, dec f env (encode f v ++ rest) = DOk v rest a.
  Proof.
    induction f; intros Hok env v rest Hwf; destruct v; cbn [wf] in Hwf; try discriminate;
      cbn [fmt_ok] in Hok.
    - (* FUInt *) cbn [encode decode]. rewrite take_n_app by apply le_enc_length.
      rewrite le_dec_enc by lia. eauto.
    - (* FSInt *) cbn [encode decode]. rewrite take_n_app by apply le_enc_length.
      destruct (sint_rt w n) as [R1 R2]; [lia|lia|].
      rewrite le_dec_enc by exact R1. cbv zeta. rewrite R2. eauto.
    - (* FBool *) destruct b; cbn; eauto.
    - (* FVarInt *) cbn [encode decode].
      assert (2 ^ bits <= 2 ^ 64) by (apply pow2_le_64; lia).
      rewrite varint_rt by lia. rewrite Z.mod_small by lia. eauto.
    - (* FBytes *) cbn [encode decode]. rewrite take_n_app by lia. eauto.
    - (* FVarBytes *) cbn [encode decode]. rewrite <- app_assoc.
      assert (0 <= zlen b) by (unfold zlen; lia).
      rewrite varint_rt by lia.
      apply andb_prop in Hwf as [Hwf Hc]. apply andb_prop in Hwf as [_ Hs].
      destruct sh as [lim|].
      + apply andb_prop in Hs as [Hl Hm]. apply negb_true_iff in Hl. rewrite Hl.
        destruct (makeslice_limit <? zlen b) eqn:E; [lia|].
        rewrite take_z_app. unfold checked. destruct chk; [rewrite Hc|]; eauto.
      + rewrite take_z_app. unfold checked. destruct chk; [rewrite Hc|]; eauto.
    - (* FList *) cbn [encode decode]. rewrite <- app_assoc.
      assert (0 <= zlen l) by (unfold zlen; lia).
      rewrite varint_rt by lia.
      apply andb_prop in Hwf as [Hwf Hall]. apply andb_prop in Hwf as [_ Hh].
      apply andb_prop in Hok as [Hmin Hokg].
      destruct (list_header sh (zlen l)) eqn:EH; try discriminate.
      destruct (repeat_rt f env (app_cost sh) (fun v r => IHf Hokg env v r) l rest
                  (length (flat_map (encode f) l ++ rest)) Hall) as [a1 E1].
      { rewrite app_length.
        assert (length l <= length (flat_map (encode f) l))%nat.
        { apply flat_map_min_len. intros v Hin.
          pose proof (enc_min f Hokg env v) as M.
          rewrite forallb_forall in Hall. specialize (M (Hall v Hin)). lia. }
        lia. }
      rewrite E1. eauto.
    - (* FListOf *) cbn [encode decode].
      destruct (env_count env path) as [c|] eqn:EC; [|discriminate].
      apply andb_prop in Hwf as [Hc Hall]. apply andb_prop in Hok as [Hmin Hokg].
      assert (c = zlen l) by lia. subst c.
      destruct (repeat_rt f env (elem_cost sh) (fun v r => IHf Hokg env v r) l rest
                  (length (flat_map (encode f) l ++ rest)) Hall) as [a1 E1].
      { rewrite app_length.
        assert (length l <= length (flat_map (encode f) l))%nat.
        { apply flat_map_min_len. intros v Hin.
          pose proof (enc_min f Hokg env v) as M.
          rewrite forallb_forall in Hall. specialize (M (Hall v Hin)). lia. }
        lia. }
      rewrite E1. eauto.
    - (* FOpt *) destruct o as [x|].
      + cbn [encode decode app]. cbn [Z.eqb]. destruct (IHf Hok env x rest Hwf) as [a ->]. eauto.
      + cbn. eauto.
    - (* FNil *) destruct fs; [|discriminate]. cbn. eauto.
    - (* FField *) destruct fs as [|[n' x] fs]; [discriminate|].
      apply andb_prop in Hwf as [Hwf Hw2]. apply andb_prop in Hwf as [Hn Hw1].
      apply andb_prop in Hok as [Hg Hr]. apply String.eqb_eq in Hn. subst n'.
      cbn [encode decode]. rewrite <- app_assoc.
      destruct (IHf1 Hg env x (encode f2 (VStruct fs) ++ rest) Hw1) as [a1 ->].
      destruct (IHf2 Hr ((name, x) :: env) (VStruct fs) rest Hw2) as [a2 ->]. eauto.
    - cbn [encode decode]. eapply IHf; eauto.
    - cbn [encode decode]. eapply IHf; eauto.
    - cbn [encode decode]. eapply IHf; eauto.
    - cbn [encode decode]. eapply IHf; eauto.
    - cbn [encode decode]. eapply IHf; eauto.
    - cbn [encode decode]. eapply IHf; eauto.
    - (* FOpaque *) cbn [encode decode].
      destruct (odec name b) as [n| |] eqn:E; try discriminate.
      apply andb_prop in Hwf as [Hn Hz]. apply Nat.eqb_eq in Hn. subst n.
      rewrite (odec_ext name b rest E).
      apply negb_true_iff in Hz. rewrite Hz. cbn [orb].
      destruct (length (b ++ rest) <? length b)%nat eqn:L; [rewrite app_length in L; lia|].
      rewrite firstn_app_exact, skipn_app_exact. eauto.
  Qed.
End Meta.

(* ---------------------------------------------------------------------------------------- *)
(* C20: bounded formats never panic and allocate at most linearly in the input, on ALL inputs *)

Definition alloc_ok (f : fmt) (bs : bytes) (r : dres) : Prop :=
  match r with
  | DPanic => False
  | DOk _ rest a =>
      (length rest + min_size f <= length bs)%nat /\
      a <= bound_A f * (zlen bs - zlen rest) + bound_B f
  | DErr a => a <= bound_A f * zlen bs + bound_B f
  end.

Lemma small_limit_val : small_limit = 16777216.
Proof. reflexivity. Qed.
Lemma makeslice_limit_val : makeslice_limit = 281474976710656.
Proof. reflexivity. Qed.

Lemma bound_nonneg : forall f, bounded f = true -> 0 <= bound_A f /\ 0 <= bound_B f.
Proof.
  induction f; intros Hb; cbn [bounded bound_A bound_B] in *; try (split; lia).
  - destruct sh as [[m|]|]; rewrite ?small_limit_val; split; lia.
  - destruct sh as [esz [m|]|esz cap]; try discriminate.
    + repeat (apply andb_prop in Hb as [Hb ?]). destruct (IHf H) as [? ?].
      cbn [app_cost]. rewrite small_limit_val. split; lia.
    + repeat (apply andb_prop in Hb as [Hb ?]). destruct (IHf H) as [? ?].
      cbn [app_cost]. rewrite small_limit_val. split; lia.
  - unfold opaque_alloc. split; lia.
Qed.

Lemma repeat_bound : forall (d : bytes -> dres) (Ag Bg pe : Z),
  0 <= Ag -> 0 <= Bg -> 0 <= pe ->
  (forall bs, match d bs with
              | DPanic => False
              | DOk _ r a => (length r + 1 <= length bs)%nat /\ a <= Ag * (zlen bs - zlen r) + Bg
              | DErr a => a <= Ag * zlen bs + Bg
              end) ->
  forall fuel c bs,
    match repeat_dec d pe fuel c bs with
    | LPanic => False
    | LOk _ r a => (length r <= length bs)%nat /\ a <= (Ag + Bg + pe) * (zlen bs - zlen r)
    | LErr a => a <= (Ag + Bg + pe) * zlen bs + Bg
    end.
Proof.
  intros d Ag Bg pe HA HB Hpe Pd. unfold zlen in *.
  induction fuel as [|fuel IH]; intros c bs; cbn [repeat_dec].
  - destruct (c <=? 0); [split; [lia|nia]|nia].
  - destruct (c <=? 0); [split; [lia|nia]|].
    specialize (Pd bs). destruct (d bs) as [v bs' a1|a1|]; [|nia|auto].
    destruct Pd as [L1 B1].
    specialize (IH (c - 1) bs'). fold (repeat_dec d pe) in *.
    destruct (repeat_dec d pe fuel (c - 1) bs') as [l r a2|a2|]; [|nia|auto].
    destruct IH as [L2 B2]. split; [lia|nia].
Qed.

Ltac arith := first [lia | nia].

Section Bounded.
  Variable odec : string -> bytes -> ores.
  Variable ochk : string -> bytes -> Z.

  (* Assumption about the dependency decoders behind FOpaque / checked blocks: they return a
     value or an error.  (The hostile correspondence run tests exactly this on the real code.) *)
  Hypothesis odec_nopanic : forall name bs, odec name bs <> OPanic.
  Hypothesis ochk_nopanic : forall name b, ochk name b = 0 \/ ochk name b = 1.

  Notation dec := (decode odec ochk).

  Theorem bounded_sound : forall f, bounded f = true -> forall env bs, alloc_ok f bs (dec f env bs).
  Proof.
    induction f; intros Hb env bs; pose proof (bound_nonneg _ Hb) as [NA NB];
      cbn [bounded] in Hb; unfold alloc_ok; cbn [decode min_size bound_A bound_B] in *; unfold zlen in *.
    - (* FUInt *) destruct (take_n w bs) as [[x r]|] eqn:T; [|arith].
      apply take_n_some in T. split; arith.
    - (* FSInt *) destruct (take_n w bs) as [[x r]|] eqn:T; [|arith].
      apply take_n_some in T. split; arith.
    - (* FBool *) destruct bs; [arith|]. cbn [length]. split; arith.
    - (* FVarInt *) destruct (varint_dec bs) as [[v r]|] eqn:V; [|arith].
      apply varint_dec_len in V. split; arith.
    - (* FBytes *) destruct (take_n n bs) as [[x r]|] eqn:T; [|arith].
      apply take_n_some in T. split; arith.
    - (* FVarBytes *)
      destruct (varint_dec bs) as [[n r]|] eqn:V; [|destruct sh as [[m|]|]; rewrite ?small_limit_val; arith].
      apply varint_dec_len in V.
      destruct sh as [[m|]|]; try discriminate.
      + cbn [over_limit]. rewrite small_limit_val, makeslice_limit_val in *.
        destruct (m <? n) eqn:E1; [arith|].
        destruct (281474976710656 <? n) eqn:E2; [arith|].
        destruct (take_z n r) as [[x r']|] eqn:T; [|arith].
        apply take_z_some in T. unfold zlen in T. destruct T as (_ & T1 & T2 & T3).
        unfold checked. destruct chk as [nm|].
        * destruct (ochk_nopanic nm x) as [O|O]; rewrite O; cbn [Z.eqb Pos.eqb]; [split; arith|arith].
        * split; arith.
      + destruct (take_z n r) as [[x r']|] eqn:T; [|unfold zlen; arith].
        apply take_z_some in T. unfold zlen in T. destruct T as (_ & T1 & T2 & T3).
        unfold checked. destruct chk as [nm|].
        * destruct (ochk_nopanic nm x) as [O|O]; rewrite O; cbn [Z.eqb Pos.eqb]; [split; arith|arith].
        * split; arith.
    - (* FList *)
      assert (HS : exists esz, 0 <= esz /\ (1 <= min_size f)%nat /\ bounded f = true /\
                    app_cost sh = (match sh with LPre _ _ => 0 | LApp e _ => 2 * e end) /\
                    (forall c, match list_header sh c with
                               | HOk a0 => a0 <= small_limit | HErr => True | HPanic => False end)).
      { destruct sh as [esz [m|]|esz cap]; try discriminate.
        - repeat (apply andb_prop in Hb as [Hb ?]). exists esz. repeat split; try arith; auto.
          intros c. cbn [list_header over_limit]. rewrite small_limit_val, makeslice_limit_val in *.
          destruct (m <? c) eqn:E1; auto.
          destruct (281474976710656 <? c * esz) eqn:E2; arith.
        - repeat (apply andb_prop in Hb as [Hb ?]). exists esz. repeat split; try arith; auto.
          intros c. cbn [list_header]. rewrite small_limit_val in *. arith. }
      destruct HS as (esz & He & Hmin & Hbg & Hac & Hh).
      destruct (bound_nonneg _ Hbg) as [NAg NBg].
      destruct (varint_dec bs) as [[c r]|] eqn:V; [|arith].
      apply varint_dec_len in V. specialize (Hh c).
      destruct (list_header sh c) as [a0| |]; [|arith|auto].
      assert (Hpe : 0 <= app_cost sh) by (rewrite Hac; destruct sh; arith).
      pose proof (repeat_bound (dec f env) (bound_A f) (bound_B f) (app_cost sh) NAg NBg Hpe) as RB.
      unfold zlen in RB.
      specialize (RB (fun bs0 => ltac:(
        pose proof (IHf Hbg env bs0) as P; unfold alloc_ok, zlen in P;
        destruct (dec f env bs0); [destruct P; split; arith|exact P|exact P])) (length r) c r).
      destruct (repeat_dec (dec f env) (app_cost sh) (length r) c r) as [l r' a|a|]; [|arith|auto].
      destruct RB as [L B]. split; [arith|arith].
    - (* FListOf *)
      repeat (apply andb_prop in Hb as [Hb ?]).
      rename H into Hbg. rename H0 into Hmin.
      destruct (bound_nonneg _ Hbg) as [NAg NBg].
      destruct (env_count env path) as [c|]; [|arith].
      assert (Hpe : 0 <= elem_cost sh) by arith.
      pose proof (repeat_bound (dec f env) (bound_A f) (bound_B f) (elem_cost sh) NAg NBg Hpe) as RB.
      unfold zlen in RB.
      specialize (RB (fun bs0 => ltac:(
        pose proof (IHf Hbg env bs0) as P; unfold alloc_ok, zlen in P;
        destruct (dec f env bs0); [destruct P; split; arith|exact P|exact P])) (length bs) c bs).
      destruct (repeat_dec (dec f env) (elem_cost sh) (length bs) c bs) as [l r' a|a|]; [|arith|auto].
      destruct RB as [L B]. split; [arith|arith].
    - (* FOpt *)
      destruct bs as [|b r]; [arith|]. cbn [length].
      destruct (b =? 0); [split; arith|].
      pose proof (IHf Hb env r) as P. unfold alloc_ok, zlen in P.
      destruct (dec f env r) as [v r' a|a|]; [|arith|auto].
      destruct P as [L B]. split; [arith|arith].
    - (* FNil *) split; arith.
    - (* FField *)
      apply andb_prop in Hb as [H1 H2].
      destruct (bound_nonneg _ H1) as [NA1 NB1]. destruct (bound_nonneg _ H2) as [NA2 NB2].
      pose proof (IHf1 H1 env bs) as P1. unfold alloc_ok, zlen in P1.
      destruct (dec f1 env bs) as [v r a1|a1|]; [|arith|auto].
      destruct P1 as [L1 B1].
      pose proof (IHf2 H2 ((name, v) :: env) r) as P2. unfold alloc_ok, zlen in P2.
      destruct (dec f2 ((name, v) :: env) r) as [v2 r' a2|a2|]; [|arith|auto].
      destruct P2 as [L2 B2].
      destruct v2; arith.
    - (* FStruct *) exact (IHf Hb [] bs).
    - (* FOpaque *)
      pose proof (odec_nopanic name bs) as NP.
      destruct (odec name bs) as [n| |]; [|arith|congruence].
      destruct (n =? 0)%nat eqn:E0; cbn [orb]; [arith|].
      destruct (length bs <? n)%nat eqn:E1; [arith|].
      rewrite skipn_length. unfold opaque_alloc in *. split; arith.
    - discriminate.
  Qed.

  (* the statement of C20 for one format: whatever the bytes, no panic, allocation linear in the input *)
  Corollary bounded_no_panic_linear : forall f, bounded f = true -> forall bs,
    dec f [] bs <> DPanic /\
    match dec f [] bs with
    | DOk _ _ a | DErr a => a <= bound_A f * zlen bs + bound_B f
    | DPanic => True
    end.
  Proof.
    intros f Hb bs. pose proof (bounded_sound f Hb [] bs) as P.
    destruct (bound_nonneg _ Hb) as [NA NB]. unfold alloc_ok, zlen in *.
    destruct (dec f [] bs) as [v r a|a|]; [|split; [discriminate|lia]|contradiction].
    destruct P as [L B]. split; [discriminate|nia].
  Qed.
End Bounded.

(* ---------------------------------------------------------------------------------------- *)
(* every strict prefix of a valid encoding is an error (never a value, never a panic) *)

Lemma prefix_split : forall (p q a b : bytes), p ++ q = a ++ b -> q <> [] ->
  (exists q', p ++ q' = a /\ q' <> []) \/ (exists p', p = a ++ p' /\ p' ++ q = b).
Proof.
  induction p as [|x p IH]; intros q a b H Hq.
  - destruct a as [|y a].
    + right. exists []. cbn in *. auto.
    + left. exists (y :: a). split; [reflexivity|discriminate].
  - destruct a as [|y a].
    + right. exists (x :: p). cbn in *. auto.
    + cbn in H. inversion H; subst.
      destruct (IH q a b H2 Hq) as [[q' [E N]]|[p' [E1 E2]]].
      * left. exists q'. split; [cbn; now rewrite E|auto].
      * right. exists p'. split; [cbn; now rewrite E1|auto].
Qed.

Section Prefix.
  Variable odec : string -> bytes -> ores.
  Variable ochk : string -> bytes -> Z.
  Hypothesis odec_ext : forall name b rest,
    odec name b = OOk (length b) -> odec name (b ++ rest) = OOk (length b).
  Hypothesis odec_prefix : forall name b p q,
    odec name b = OOk (length b) -> p ++ q = b -> q <> [] -> odec name p = OErr.

  Notation dec := (decode odec ochk).
  Notation wff := (wf odec ochk).

  Lemma repeat_prefix : forall g env pe,
    (forall v rest, wff g env v = true -> exists a, dec g env (encode g v ++ rest) = DOk v rest a) ->
    (forall v p q, wff g env v = true -> p ++ q = encode g v -> q <> [] -> exists a, dec g env p = DErr a) ->
    forall l p q fuel, forallb (wff g env) l = true -> p ++ q = flat_map (encode g) l -> q <> [] ->
    exists a, repeat_dec (dec g env) pe fuel (zlen l) p = LErr a.
  Proof.
    intros g env pe RT PF. induction l as [|v l IHl]; intros p q fuel Hwf Hpq Hq.
    - cbn in Hpq. apply app_eq_nil in Hpq. destruct Hpq; congruence.
    - cbn [forallb] in Hwf. apply andb_prop in Hwf as [Hv Hl].
      cbn [flat_map] in Hpq. unfold zlen. cbn [length].
      destruct fuel as [|fuel]; cbn [repeat_dec];
        (destruct (Z.of_nat (S (length l)) <=? 0) eqn:E; [lia|]); [eauto|].
      destruct (prefix_split _ _ _ _ Hpq Hq) as [[q' [E1 N]]|[p' [E1 E2]]].
      + destruct (PF v p q' Hv E1 N) as [a ->]. eauto.
      + subst p. destruct (RT v p' Hv) as [a1 ->].
        replace (Z.of_nat (S (length l)) - 1) with (zlen l) by (unfold zlen; lia).
        fold (repeat_dec (dec g env) pe).
        destruct (IHl p' q fuel Hl E2 Hq) as [a2 ->]. eauto.
  Qed.

  Theorem prefix_fails : forall f, fmt_ok f = true -> forall env v p q, wff f env v = true ->
    p ++ q = encode f v -> q <> [] -> exists a, dec f env p = DErr a.
  Proof.
    induction f; intros Hok env v p q Hwf Hpq Hq; destruct v; cbn [wf] in Hwf; try discriminate;
      cbn [fmt_ok] in Hok; cbn [encode] in Hpq.
    - (* FUInt *) cbn [decode]. rewrite take_n_short; eauto.
      pose proof (strict_prefix_length _ _ _ Hpq Hq) as L. now rewrite le_enc_length in L.
    - (* FSInt *) cbn [decode]. rewrite take_n_short; eauto.
      pose proof (strict_prefix_length _ _ _ Hpq Hq) as L. now rewrite le_enc_length in L.
    - (* FBool *)
      destruct (app_eq_cons_prefix _ _ _ _ Hpq Hq) as [->|[p' [-> Hp']]]; [cbn; eauto|].
      apply app_eq_nil in Hp'. destruct Hp'; congruence.
    - (* FVarInt *) cbn [decode].
      assert (2 ^ bits <= 2 ^ 64) by (apply pow2_le_64; lia).
      rewrite (varint_prefix n p q) by (auto; lia). eauto.
    - (* FBytes *) cbn [decode]. rewrite take_n_short; eauto.
      pose proof (strict_prefix_length _ _ _ Hpq Hq) as L. lia.
    - (* FVarBytes *) cbn [decode].
      assert (0 <= zlen b) by (unfold zlen; lia).
      destruct (prefix_split _ _ _ _ Hpq Hq) as [[q' [E1 N]]|[p' [E1 E2]]].
      + rewrite (varint_prefix (zlen b) p q') by (auto; lia). eauto.
      + subst p. rewrite varint_rt by lia.
        apply andb_prop in Hwf as [Hwf Hc]. apply andb_prop in Hwf as [_ Hs].
        pose proof (strict_prefix_length _ _ _ E2 Hq) as L.
        destruct sh as [lim|].
        * apply andb_prop in Hs as [Hl Hm]. apply negb_true_iff in Hl. rewrite Hl.
          destruct (makeslice_limit <? zlen b) eqn:E; [lia|].
          rewrite take_z_short by (unfold zlen; lia). eauto.
        * rewrite take_z_short by (unfold zlen; lia). eauto.
    - (* FList *) cbn [decode].
      assert (0 <= zlen l) by (unfold zlen; lia).
      apply andb_prop in Hwf as [Hwf Hall]. apply andb_prop in Hwf as [Hlen Hh].
      apply andb_prop in Hok as [Hmin Hokg].
      destruct (prefix_split _ _ _ _ Hpq Hq) as [[q' [E1 N]]|[p' [E1 E2]]].
      + rewrite (varint_prefix (zlen l) p q') by (auto; lia). eauto.
      + subst p. rewrite varint_rt by lia.
        destruct (list_header sh (zlen l)) eqn:EH; try discriminate.
        destruct (repeat_prefix f env (app_cost sh)
                    (fun v r => roundtrip odec ochk odec_ext odec_prefix f Hokg env v r)
                    (fun v p0 q0 => IHf Hokg env v p0 q0) l p' q (length p') Hall E2 Hq) as [a1 ->].
        eauto.
    - (* FListOf *) cbn [decode].
      destruct (env_count env path) as [c|] eqn:EC; [|discriminate].
      apply andb_prop in Hwf as [Hc Hall]. apply andb_prop in Hok as [Hmin Hokg].
      assert (c = zlen l) by lia. subst c.
      destruct (repeat_prefix f env (elem_cost sh)
                  (fun v r => roundtrip odec ochk odec_ext odec_prefix f Hokg env v r)
                  (fun v p0 q0 => IHf Hokg env v p0 q0) l p q (length p) Hall Hpq Hq) as [a1 ->].
      eauto.
    - (* FOpt *) destruct o as [x|].
      + destruct (app_eq_cons_prefix _ _ _ _ Hpq Hq) as [->|[p' [-> Hp']]]; [cbn; eauto|].
        cbn [decode]. cbn [Z.eqb]. destruct (IHf Hok env x p' q Hwf Hp' Hq) as [a ->]. eauto.
      + destruct (app_eq_cons_prefix _ _ _ _ Hpq Hq) as [->|[p' [-> Hp']]]; [cbn; eauto|].
        apply app_eq_nil in Hp'. destruct Hp'; congruence.
    - (* FNil *) apply app_eq_nil in Hpq. destruct Hpq; congruence.
    - (* FField *) destruct fs as [|[n' x] fs]; [discriminate|].
      apply andb_prop in Hwf as [Hwf Hw2]. apply andb_prop in Hwf as [Hn Hw1].
      apply andb_prop in Hok as [Hg Hr]. apply String.eqb_eq in Hn. subst n'.
      cbn [decode].
      destruct (prefix_split _ _ _ _ Hpq Hq) as [[q' [E1 N]]|[p' [E1 E2]]].
      + destruct (IHf1 Hg env x p q' Hw1 E1 N) as [a ->]. eauto.
      + subst p.
        destruct (roundtrip odec ochk odec_ext odec_prefix f1 Hg env x p' Hw1) as [a1 ->].
        destruct (IHf2 Hr ((name, x) :: env) (VStruct fs) p' q Hw2 E2 Hq) as [a2 ->]. eauto.
    - cbn [decode]. eapply IHf; eauto.
    - cbn [decode]. eapply IHf; eauto.
    - cbn [decode]. eapply IHf; eauto.
    - cbn [decode]. eapply IHf; eauto.
    - cbn [decode]. eapply IHf; eauto.
    - cbn [decode]. eapply IHf; eauto.
    - (* FOpaque *) cbn [decode].
      destruct (odec name b) as [n| |] eqn:E; try discriminate.
      apply andb_prop in Hwf as [Hn Hz]. apply Nat.eqb_eq in Hn. subst n.
      rewrite (odec_prefix name b p q E Hpq Hq). eauto.
  Qed.
End Prefix.

(* ---------------------------------------------------------------------------------------- *)
(* writer format vs reader format: `symmetric w r` makes them interchangeable for encoding *)

Lemma opt_eqb_Z : forall a b, opt_eqb Z.eqb a b = true -> a = b.
Proof. intros [x|] [y|] H; cbn in H; try discriminate; auto. apply Z.eqb_eq in H. now subst. Qed.

Lemma opt_eqb_str : forall a b, opt_eqb String.eqb a b = true -> a = b.
Proof. intros [x|] [y|] H; cbn in H; try discriminate; auto. apply String.eqb_eq in H. now subst. Qed.

Lemma strs_eqb_eq : forall a b, strs_eqb a b = true -> a = b.
Proof.
  induction a; intros [|y b] H; cbn in H; try discriminate; auto.
  apply andb_prop in H as [H1 H2]. apply String.eqb_eq in H1. subst. f_equal. auto.
Qed.

Lemma lshape_eqb_eq : forall a b, lshape_eqb a b = true -> a = b.
Proof.
  intros [e1 l1|e1 c1] [e2 l2|e2 c2] H; cbn in H; try discriminate;
    apply andb_prop in H as [H1 H2]; apply Z.eqb_eq in H1; subst.
  - apply opt_eqb_Z in H2. now subst.
  - apply Z.eqb_eq in H2. now subst.
Qed.

Lemma bshape_eqb_eq : forall a b, bshape_eqb a b = true -> a = b.
Proof. intros [l1|] [l2|] H; cbn in H; try discriminate; auto. apply opt_eqb_Z in H. now subst. Qed.

Lemma fmt_eqb_eq : forall a b, fmt_eqb a b = true -> a = b.
Proof.
  induction a; intros b H; destruct b; cbn [fmt_eqb] in H; try discriminate.
  - apply Nat.eqb_eq in H. now subst.
  - apply Nat.eqb_eq in H. now subst.
  - reflexivity.
  - apply Z.eqb_eq in H. now subst.
  - apply Nat.eqb_eq in H. now subst.
  - apply andb_prop in H as [H1 H2]. apply bshape_eqb_eq in H1. apply opt_eqb_str in H2. now subst.
  - apply andb_prop in H as [H1 H2]. apply lshape_eqb_eq in H1. apply IHa in H2. now subst.
  - apply andb_prop in H as [H H3]. apply andb_prop in H as [H1 H2].
    apply strs_eqb_eq in H1. apply lshape_eqb_eq in H2. apply IHa in H3. now subst.
  - apply IHa in H. now subst.
  - reflexivity.
  - apply andb_prop in H as [H H3]. apply andb_prop in H as [H1 H2].
    apply String.eqb_eq in H1. apply IHa1 in H2. apply IHa2 in H3. now subst.
  - apply IHa in H. now subst.
  - apply String.eqb_eq in H. now subst.
  - apply String.eqb_eq in H. now subst.
Qed.

Lemma flat_map_ext' : forall {A B} (f g : A -> list B) l, (forall a, f a = g a) -> flat_map f l = flat_map g l.
Proof. intros A B f g l H. induction l; cbn; [auto|]. now rewrite H, IHl. Qed.

Lemma encode_erase : forall f v, encode (erase f) v = encode f v.
Proof.
  induction f; intros v; cbn [erase encode]; auto.
  - destruct v; auto. f_equal. apply flat_map_ext'. auto.
  - destruct v; auto. apply flat_map_ext'. auto.
  - destruct v; auto. destruct o; auto. now rewrite IHf.
  - destruct v; auto. destruct fs as [|[n x] fs]; auto. now rewrite IHf1, IHf2.
Qed.

Lemma sym_encode : forall w r v, symmetric w r = true -> encode w v = encode r v.
Proof.
  intros w r v H. unfold symmetric in H. apply fmt_eqb_eq in H.
  rewrite <- (encode_erase w), <- (encode_erase r). now rewrite H.
Qed.

(* ---------------------------------------------------------------------------------------- *)
(* the instantiable forms: bytes written by the code described by w, read by the code described by r *)

Section Sym.
  Variable odec : string -> bytes -> ores.
  Variable ochk : string -> bytes -> Z.
  Hypothesis odec_ext : forall name b rest,
    odec name b = OOk (length b) -> odec name (b ++ rest) = OOk (length b).
  Hypothesis odec_prefix : forall name b p q,
    odec name b = OOk (length b) -> p ++ q = b -> q <> [] -> odec name p = OErr.

  Theorem sym_roundtrip : forall w r, symmetric w r = true -> fmt_ok r = true ->
    forall v rest, wf odec ochk r [] v = true ->
    exists a, decode odec ochk r [] (encode w v ++ rest) = DOk v rest a.
  Proof.
    intros w r S Hok v rest Hwf. rewrite (sym_encode w r v S).
    exact (roundtrip odec ochk odec_ext odec_prefix r Hok [] v rest Hwf).
  Qed.

  Theorem sym_prefix_fails : forall w r, symmetric w r = true -> fmt_ok r = true ->
    forall v p q, wf odec ochk r [] v = true -> p ++ q = encode w v -> q <> [] ->
    exists a, decode odec ochk r [] p = DErr a.
  Proof.
    intros w r S Hok v p q Hwf Hpq Hq. rewrite (sym_encode w r v S) in Hpq.
    exact (prefix_fails odec ochk odec_ext odec_prefix r Hok [] v p q Hwf Hpq Hq).
  Qed.

  (* ------------------------------------------------------------------------------------ *)
  (* Message framing and streams *)

  Theorem msg_roundtrip : forall tbl m rest, wf_msg odec ochk tbl m = true ->
    exists a, decode_msg odec ochk tbl (encode_msg tbl m ++ rest) = MOk m rest a.
  Proof.
    intros tbl [t v] rest H. unfold wf_msg, encode_msg, decode_msg in *. cbn [fst snd] in *.
    apply andb_prop in H as [Ht H].
    destruct (lookup_code tbl t) as [f|] eqn:L; [|discriminate].
    apply andb_prop in H as [Hok Hwf].
    rewrite <- app_assoc. rewrite varint_rt by lia. rewrite L.
    destruct (roundtrip odec ochk odec_ext odec_prefix f Hok [] v rest Hwf) as [a ->]. eauto.
  Qed.

  Theorem msg_prefix_fails : forall tbl m p q, wf_msg odec ochk tbl m = true ->
    p ++ q = encode_msg tbl m -> q <> [] -> exists a, decode_msg odec ochk tbl p = MErr a.
  Proof.
    intros tbl [t v] p q H Hpq Hq. unfold wf_msg, encode_msg, decode_msg in *. cbn [fst snd] in *.
    apply andb_prop in H as [Ht H].
    destruct (lookup_code tbl t) as [f|] eqn:L; [|discriminate].
    apply andb_prop in H as [Hok Hwf].
    destruct (prefix_split _ _ _ _ Hpq Hq) as [[q' [E1 N]]|[p' [E1 E2]]].
    - rewrite (varint_prefix t p q') by (auto; lia). eauto.
    - subst p. rewrite varint_rt by lia. rewrite L.
      destruct (prefix_fails odec ochk odec_ext odec_prefix f Hok [] v p' q Hwf E2 Hq) as [a ->]. eauto.
  Qed.

  Lemma encode_msg_nonempty : forall tbl m, (1 <= length (encode_msg tbl m))%nat.
  Proof.
    intros. unfold encode_msg. rewrite app_length. pose proof (varint_enc_length (fst m)). lia.
  Qed.

  Lemma concat_decodes_fuel : forall tbl ms fuel, forallb (wf_msg odec ochk tbl) ms = true ->
    (length ms <= fuel)%nat ->
    decode_stream odec ochk tbl fuel (flat_map (encode_msg tbl) ms) = Some ms.
  Proof.
    intros tbl. induction ms as [|m ms IH]; intros fuel Hwf Hfuel.
    - destruct fuel; reflexivity.
    - cbn [forallb] in Hwf. apply andb_prop in Hwf as [Hm Hms].
      cbn [flat_map].
      destruct fuel as [|fuel]; [cbn in Hfuel; lia|].
      remember (encode_msg tbl m ++ flat_map (encode_msg tbl) ms) as bs eqn:Ebs.
      destruct bs as [|b0 bs'].
      { exfalso. pose proof (encode_msg_nonempty tbl m) as L.
        apply (f_equal (@length Z)) in Ebs. rewrite app_length in Ebs. cbn in Ebs. lia. }
      cbn [decode_stream]. rewrite Ebs.
      destruct (msg_roundtrip tbl m (flat_map (encode_msg tbl) ms) Hm) as [a ->].
      rewrite IH; auto. cbn in Hfuel. lia.
  Qed.

  (* any concatenation of encodings of well-formed messages, read from one stream by iterating
     Message.Deserialize, yields the same sequence of messages and consumes the stream exactly *)
  Theorem concat_decodes : forall tbl ms, forallb (wf_msg odec ochk tbl) ms = true ->
    let bs := flat_map (encode_msg tbl) ms in
    decode_stream odec ochk tbl (length bs) bs = Some ms.
  Proof.
    intros tbl ms Hwf bs. apply concat_decodes_fuel; auto.
    apply flat_map_min_len. intros m _. apply encode_msg_nonempty.
  Qed.
End Sym.
