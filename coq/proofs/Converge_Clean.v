(* C01, liveness for worlds in which the connection to the peer has just been (re)established
   (after ANY history): the settling run converges.  Part A: chains of the block tree. *)
From V.lib Require Import Base.
From V.model Require Import Requests Sync SyncSpec Peer.
From V.proofs Require Import Sync_Proofs Converge_Proofs.

Local Open Scope Z_scope.

Section Chains.
Variable parent_of : Z -> Z.
Notation is_chain := (is_chain parent_of).
Notation linked_ids := (linked_ids parent_of).
Notation hdrs_of := (hdrs_of parent_of).

(* position i of a chain: its parent is at position i-1 *)
Lemma linked_ids_lookup c : forall p i x,
  linked_ids p c = true -> c !! i = Some x ->
  x <> 0 /\ parent_of x = match i with O => p | S j => default 0 (c !! j) end.
Proof.
  induction c as [|y c IH]; intros p i x H Hx; [discriminate|].
  cbn [Peer.linked_ids] in H. apply andb_prop in H as [H Hl]. apply andb_prop in H as [Hy Hp].
  apply negb_true_iff in Hy. apply Z.eqb_neq in Hy. apply Z.eqb_eq in Hp.
  destruct i as [|i]; cbn in Hx.
  - injection Hx as <-. auto.
  - destruct (IH _ _ _ Hl Hx) as [Hnz Hpar]. split; [exact Hnz|].
    rewrite Hpar. destruct i as [|j]; reflexivity.
Qed.

Lemma is_chain_lookup B i x :
  is_chain B = true -> B !! (S i) = Some x -> x <> 0 /\ parent_of x = default 0 (B !! i).
Proof.
  destruct B as [|g r]; [discriminate|]. cbn [Peer.is_chain]. destruct g; try discriminate.
  intros H Hx. cbn in Hx. destruct (linked_ids_lookup _ _ _ _ H Hx) as [Hnz Hp]. split; [exact Hnz|].
  rewrite Hp. destruct i; reflexivity.
Qed.

Lemma is_chain_head B : is_chain B = true -> B !! O = Some 0.
Proof. destruct B as [|g r]; [discriminate|]. cbn. destruct g; try discriminate. reflexivity. Qed.

(* a block has one position: two chains agree on where it sits *)
Lemma chain_position B1 B2 : is_chain B1 = true -> is_chain B2 = true ->
  forall i j x, B1 !! i = Some x -> B2 !! j = Some x -> i = j.
Proof.
  intros H1 H2. induction i as [|i IH]; intros j x Hi Hj.
  - rewrite (is_chain_head _ H1) in Hi. injection Hi as <-.
    destruct j as [|j]; [reflexivity|]. destruct (is_chain_lookup _ _ _ H2 Hj) as [Hnz _]. contradiction.
  - destruct (is_chain_lookup _ _ _ H1 Hi) as [Hnz Hp1].
    destruct j as [|j].
    + rewrite (is_chain_head _ H2) in Hj. injection Hj as <-. contradiction.
    + destruct (is_chain_lookup _ _ _ H2 Hj) as [_ Hp2]. f_equal.
      assert (Hlt1 : (i < length B1)%nat) by (apply lookup_lt_Some in Hi; lia).
      assert (Hlt2 : (j < length B2)%nat) by (apply lookup_lt_Some in Hj; lia).
      destruct (lookup_lt_is_Some_2 _ _ Hlt1) as [y Hy].
      destruct (lookup_lt_is_Some_2 _ _ Hlt2) as [z Hz].
      rewrite Hy in Hp1. rewrite Hz in Hp2. cbn in Hp1, Hp2.
      apply (IH j y); [exact Hy|]. rewrite Hz. f_equal. congruence.
Qed.

Lemma chain_NoDup B : is_chain B = true -> NoDup B.
Proof.
  intros H. apply NoDup_alt. intros i j x Hi Hj. eapply chain_position; eauto.
Qed.

Lemma linked_ids_take r : forall k p, linked_ids p r = true -> linked_ids p (take k r) = true.
Proof.
  induction r as [|y r IH]; intros k p H; [destruct k; reflexivity|].
  destruct k as [|k]; [reflexivity|]. cbn [take Peer.linked_ids] in *.
  apply andb_prop in H as [H Hl]. rewrite H. cbn. apply IH. exact Hl.
Qed.

Lemma is_chain_take B k : is_chain B = true -> (1 <= k)%nat -> is_chain (take k B) = true.
Proof.
  destruct B as [|g r]; [discriminate|]. destruct k as [|k]; [lia|]. intros H _.
  cbn [take Peer.is_chain] in *. destruct g; try discriminate. apply linked_ids_take. exact H.
Qed.

End Chains.

(* ---------------------------------------------------------------------------------------- *)
(* Part B: the node's stored chain as a list of ids                                          *)

Section NodeChain.
Variable parent_of : Z -> Z.
Notation hdrs_of := (hdrs_of parent_of).

Definition chain_of (c : list Z) : list hdr :=
  match c with
  | [] => []
  | _ :: r => genesis_hdr :: hdrs_of r
  end.

Lemma hdrs_of_ids l : map fst (hdrs_of l) = l.
Proof. unfold Peer.hdrs_of. rewrite map_map. cbn. apply map_id. Qed.

Lemma hdrs_of_app a b : hdrs_of (a ++ b) = hdrs_of a ++ hdrs_of b.
Proof. unfold Peer.hdrs_of. apply map_app. Qed.

Lemma hdrs_of_length l : length (hdrs_of l) = length l.
Proof. unfold Peer.hdrs_of. apply map_length. Qed.

Lemma chain_of_ids r : map fst (chain_of (0 :: r)) = 0 :: r.
Proof. cbn. rewrite hdrs_of_ids. reflexivity. Qed.

Lemma chain_of_length c : length (chain_of c) = length c.
Proof. destruct c; [reflexivity|]. cbn. rewrite hdrs_of_length. reflexivity. Qed.

Lemma chain_of_snoc c h : c <> [] -> chain_of (c ++ [h]) = chain_of c ++ [(h, parent_of h)].
Proof.
  destruct c as [|g r]; [contradiction|]. intros _. cbn. rewrite hdrs_of_app. reflexivity.
Qed.

Lemma contains_ids s id : contains s id = true <-> In id (map fst (chain s)).
Proof.
  unfold contains. rewrite existsb_exists. split.
  - intros (h & Hin & Hh). apply Z.eqb_eq in Hh. subst id. apply in_map. exact Hin.
  - intros H. apply in_map_iff in H as (h & <- & Hin). exists h. split; [exact Hin|apply Z.eqb_refl].
Qed.

Lemma contains_false s id : ~ In id (map fst (chain s)) -> contains s id = false.
Proof. intros H. destruct (contains s id) eqn:E; [|reflexivity]. apply contains_ids in E. contradiction. Qed.

Lemma last_map {A B} (f : A -> B) l : last (map f l) = option_map f (last l).
Proof.
  induction l as [|a l IH]; [reflexivity|]. destruct l as [|b l]; [reflexivity|].
  change (last (map f (a :: b :: l))) with (last (map f (b :: l))). rewrite IH. reflexivity.
Qed.

Lemma lookup_map {A B} (f : A -> B) l i : (map f l) !! i = option_map f (l !! i).
Proof. revert i. induction l as [|a l IH]; intros [|i]; cbn; auto. Qed.

Lemma tip_last s c x : map fst (chain s) = c -> last c = Some x -> tip s = x.
Proof.
  intros Hc Hl. unfold tip. subst c. rewrite last_map in Hl. unfold hdr in *.
  destruct (@last (Z * Z) (chain s)) as [h|]; cbn in *; [injection Hl as Hl; exact Hl|discriminate].
Qed.

Lemma height_len s c : map fst (chain s) = c -> height s = zlen c - 1.
Proof. intros <-. unfold height, zlen. rewrite map_length. reflexivity. Qed.

Lemma hash_at_ids s i x : (map fst (chain s)) !! i = Some x -> hash_at s (Z.of_nat i) = Some x.
Proof.
  intros H. unfold hash_at. destruct (Z.of_nat i <? 0) eqn:E; [apply Z.ltb_lt in E; lia|].
  rewrite Nat2Z.id. rewrite lookup_map in H. unfold hdr in *. destruct (@lookup nat (Z * Z) (list (Z * Z)) _ i (chain s)) as [h|]; cbn in *; [injection H as H; rewrite H; reflexivity|discriminate].
Qed.

End NodeChain.

(* ---------------------------------------------------------------------------------------- *)
(* Part C: the request window while headers that connect are registered                      *)

Definition lift (l : list Z) : list (Z * option Z) := map (fun h => (h, @None Z)) l.

Definition rids (r : rstate) : list Z := map fst (requested r) ++ to_request r.

Lemma lift_ids l : map fst (lift l) = l.
Proof. unfold lift. rewrite map_map. cbn. apply map_id. Qed.

Lemma lift_app a b : lift (a ++ b) = lift a ++ lift b.
Proof. apply map_app. Qed.

Lemma last_snoc' {A} (l : list A) x : last (l ++ [x]) = Some x.
Proof. apply last_snoc. Qed.

Section Window.
Variables MAXR LIM : Z.

Definition full (r : rstate) : Prop := MAXR <= zlen (requested r).

(* what registering the headers `new` (each the child of the one before, the first the child of the
   window's last hash) does to the window; sent = the ones that went straight to `requested` *)
Record enq (r r' : rstate) (new sent : list Z) : Prop := {
  enq_ids : rids r' = rids r ++ new;
  enq_req : requested r' = requested r ++ lift sent;
  enq_pending : pending r' = pending r;
  enq_saved : last_saved r' = last_saved r;
  enq_win : zlen (requested r) <= MAXR -> zlen (requested r') <= MAXR;
  enq_full : (to_request r = [] \/ full r) -> (to_request r' = [] \/ full r');
  enq_sent_new : forall x, In x sent -> In x new;
}.

Lemma enq_refl r : enq r r [] [].
Proof.
  constructor.
  - rewrite app_nil_r. reflexivity.
  - cbn. rewrite app_nil_r. reflexivity.
  - reflexivity.
  - reflexivity.
  - auto.
  - auto.
  - intros x [].
Qed.

Lemma enq_trans r1 r2 r3 n1 s1 n2 s2 :
  enq r1 r2 n1 s1 -> enq r2 r3 n2 s2 -> enq r1 r3 (n1 ++ n2) (s1 ++ s2).
Proof.
  intros [a1 a2 a3 a4 a5 a6 a7] [b1 b2 b3 b4 b5 b6 b7]. constructor.
  - rewrite b1, a1, app_assoc. reflexivity.
  - rewrite b2, a2, lift_app, app_assoc. reflexivity.
  - congruence.
  - congruence.
  - auto.
  - auto.
  - intros x Hx. apply in_app_iff in Hx as [Hx|Hx]; apply in_app_iff; auto.
Qed.

Lemma last_hash_cases r :
  (exists l, last (to_request r) = Some l /\ last_hash r = l) \/
  (last (to_request r) = None /\ to_request r = [] /\
   ((exists l b, last (requested r) = Some (l, b) /\ last_hash r = l) \/
    (last (requested r) = None /\ requested r = [] /\ last_hash r = last_saved r))).
Proof.
  unfold last_hash. destruct (last (to_request r)) as [l|] eqn:E1.
  - left. exists l. auto.
  - right. split; [reflexivity|]. split; [apply last_None; exact E1|].
    destruct (last (requested r)) as [[l b]|] eqn:E2.
    + left. exists l, b. auto.
    + right. split; [reflexivity|]. split; [apply last_None; exact E2|reflexivity].
Qed.

Lemma over_full r : pending r <= LIM -> over_threshold MAXR LIM r = true -> full r.
Proof.
  unfold over_threshold, full. intros Hp Eo.
  apply orb_prop in Eo as [Eo|Eo]; [rewrite Z.geb_leb in Eo; apply Z.leb_le in Eo; exact Eo|].
  apply Z.gtb_lt in Eo. lia.
Qed.

Lemma not_over r : over_threshold MAXR LIM r = false -> zlen (requested r) < MAXR.
Proof.
  unfold over_threshold. intros Eo. apply orb_false_elim in Eo as [Eo _].
  rewrite Z.geb_leb in Eo. apply Z.leb_gt in Eo. exact Eo.
Qed.

Lemma enq_tail r h : to_request r <> [] ->
  enq r (RState (requested r) (to_request r ++ [h]) (pending r) (last_saved r)) [h] [].
Proof.
  intros Hne. constructor; cbn [requested to_request pending last_saved].
  - unfold rids. cbn [requested to_request]. rewrite app_assoc. reflexivity.
  - cbn. rewrite app_nil_r. reflexivity.
  - reflexivity.
  - reflexivity.
  - auto.
  - intros [H|H]; [contradiction|right; exact H].
  - intros x [].
Qed.

Lemma enq_park r h : to_request r = [] -> full r ->
  enq r (RState (requested r) [h] (pending r) (last_saved r)) [h] [].
Proof.
  intros Et Hf. constructor; cbn [requested to_request pending last_saved].
  - unfold rids. cbn [requested to_request]. rewrite Et, app_nil_r. reflexivity.
  - cbn. rewrite app_nil_r. reflexivity.
  - reflexivity.
  - reflexivity.
  - auto.
  - intros _. right. exact Hf.
  - intros x [].
Qed.

Lemma enq_direct r h : to_request r = [] -> zlen (requested r) < MAXR ->
  enq r (RState (requested r ++ [(h, None)]) (to_request r) (pending r) (last_saved r)) [h] [h].
Proof.
  intros Et Hlt. constructor; cbn [requested to_request pending last_saved].
  - unfold rids. cbn [requested to_request]. rewrite Et, map_app, !app_nil_r. reflexivity.
  - reflexivity.
  - reflexivity.
  - reflexivity.
  - intros _. unfold zlen in *. rewrite app_length. cbn [length]. lia.
  - intros _. left. exact Et.
  - auto.
Qed.

(* one header that connects *)
Lemma abr_connect r h :
  pending r <= LIM ->
  exists r' b, add_block_request MAXR LIM r (last_hash r) h = (r', Ok b) /\
               enq r r' [h] (if b then [h] else []) /\ last_hash r' = h.
Proof.
  intros Hp. unfold add_block_request, last_hash.
  destruct (last (to_request r)) as [l|] eqn:E1.
  - rewrite Z.eqb_refl. cbn [negb]. eexists _, false. split; [reflexivity|]. split.
    + apply enq_tail. intros H. rewrite H in E1. discriminate.
    + cbn [to_request]. rewrite last_snoc. reflexivity.
  - apply last_None in E1 as Et.
    assert (Hl : (match last (requested r) with
                  | Some (l, _) => l =? match last (requested r) with Some (l0, _) => l0 | None => last_saved r end
                  | None => last_saved r =? match last (requested r) with Some (l0, _) => l0 | None => last_saved r end
                  end) = true).
    { destruct (last (requested r)) as [[l b]|]; apply Z.eqb_refl. }
    rewrite Hl. cbn [negb].
    destruct (over_threshold MAXR LIM r) eqn:Eo.
    + eexists _, false. split; [reflexivity|]. split.
      * apply enq_park; [exact Et|apply over_full; assumption].
      * reflexivity.
    + eexists _, true. split; [reflexivity|]. split.
      * apply enq_direct; [exact Et|apply not_over; exact Eo].
      * cbn [to_request requested]. rewrite Et. cbn [last]. rewrite last_snoc. reflexivity.
Qed.

End Window.

(* everything but the request window, the request times (and, for some steps, more) is untouched *)
Definition same_but_rq (s s' : sync) : Prop :=
  chain s' = chain s /\ valid_of s' = valid_of s /\ ready s' = ready s /\ pending_sync s' = pending_sync s /\
  was_in_sync s' = was_in_sync s /\ start_height s' = start_height s /\
  headers_requested s' = headers_requested s /\ flags_eq s s'.

Lemma same_but_rq_refl s : same_but_rq s s.
Proof. repeat split. Qed.

Lemma same_but_rq_trans s1 s2 s3 : same_but_rq s1 s2 -> same_but_rq s2 s3 -> same_but_rq s1 s3.
Proof.
  intros (a1 & a2 & a3 & a4 & a5 & a6 & a7 & a8) (b1 & b2 & b3 & b4 & b5 & b6 & b7 & b8).
  repeat split; try congruence; destruct a8 as (c1 & c2 & c3 & c4 & c5 & c6 & c7 & c8);
    destruct b8 as (d1 & d2 & d3 & d4 & d5 & d6 & d7 & d8); congruence.
Qed.

Section Connect.
Variables MAXR LIM : Z.
Variable parent_of : Z -> Z.
Notation hdrs_of := (hdrs_of parent_of).
Notation linked_ids := (linked_ids parent_of).

Lemma last_nonempty_default {A} (l : list A) : forall d d', l <> [] -> List.last l d = List.last l d'.
Proof.
  induction l as [|a l IH]; intros d d' H; [contradiction|].
  destruct l as [|b l]; [reflexivity|].
  change (List.last (a :: b :: l) d) with (List.last (b :: l) d).
  change (List.last (a :: b :: l) d') with (List.last (b :: l) d'). apply IH. discriminate.
Qed.

Lemma last_cons_default {A} (x : A) l d : List.last (x :: l) d = List.last l x.
Proof.
  destruct l as [|b l]; [reflexivity|].
  change (List.last (x :: b :: l) d) with (List.last (b :: l) d). apply last_nonempty_default. discriminate.
Qed.

Definition mod_after {A} (m : bool) (new : list A) : bool := match new with [] => m | _ => true end.

Lemma connect_run new : forall s lh acc m,
  start_height s <> -1 -> last_hash (rq s) = lh -> pending (rq s) <= LIM -> linked_ids lh new = true ->
  exists s' sent,
    headers_loop MAXR LIM s lh (hdrs_of new) acc m = (s', Some (acc ++ sent), mod_after m new) /\
    same_but_rq s s' /\ enq MAXR (rq s) (rq s') new sent /\ last_hash (rq s') = List.last new lh.
Proof.
  induction new as [|x new IH]; intros s lh acc m Hs Hlh Hp Hl.
  - exists s, []. split; [cbn; rewrite app_nil_r; reflexivity|]. split; [apply same_but_rq_refl|].
    split; [apply enq_refl|exact Hlh].
  - cbn [Peer.linked_ids] in Hl. apply andb_prop in Hl as [Hx Hl]. apply andb_prop in Hx as [Hnz Hpar].
    apply Z.eqb_eq in Hpar.
    change (hdrs_of (x :: new)) with ((x, parent_of x) :: hdrs_of new).
    cbn [headers_loop fst snd]. rewrite Hpar, Z.eqb_refl.
    unfold check_start_height. apply Z.eqb_neq in Hs as Hs'. rewrite Hs'.
    unfold request_block.
    destruct (abr_connect MAXR LIM (rq s) x Hp) as (r' & b & Ea & He & Hlast).
    rewrite Hlh in Ea. rewrite Ea.
    destruct b.
    + match goal with |- context [headers_loop MAXR LIM ?s2 x _ ?acc2 true] =>
        destruct (IH s2 x acc2 true) as (s' & sent & E & Hsame & Henq & Hlh') end;
        [exact Hs|exact Hlast|cbn [rq upd_times upd_rq]; rewrite (enq_pending _ _ _ _ _ He); exact Hp|exact Hl|].
      exists s', (x :: sent). rewrite E. split; [rewrite <- app_assoc; destruct new; reflexivity|].
      split; [eapply same_but_rq_trans; [|exact Hsame]; repeat split|].
      split; [|rewrite last_cons_default; exact Hlh'].
      change (x :: new) with ([x] ++ new). change (x :: sent) with ([x] ++ sent).
      eapply enq_trans; [exact He|exact Henq].
    + match goal with |- context [headers_loop MAXR LIM ?s2 x _ ?acc2 true] =>
        destruct (IH s2 x acc2 true) as (s' & sent & E & Hsame & Henq & Hlh') end;
        [exact Hs|exact Hlast|cbn [rq upd_rq]; rewrite (enq_pending _ _ _ _ _ He); exact Hp|exact Hl|].
      exists s', sent. rewrite E. split; [destruct new; reflexivity|].
      split; [eapply same_but_rq_trans; [|exact Hsame]; repeat split|].
      split; [|rewrite last_cons_default; exact Hlh'].
      change (x :: new) with ([x] ++ new). change sent with ([] ++ sent).
      eapply enq_trans; [exact He|exact Henq].
Qed.

End Connect.

Section HandleHeaders.
Variables MAXR LIM : Z.
Variable parent_of : Z -> Z.
Notation hdrs_of := (hdrs_of parent_of).
Notation linked_ids := (linked_ids parent_of).

(* like same_but_rq, but the outstanding header request is cleared *)
Definition same_cleared (s s' : sync) : Prop :=
  chain s' = chain s /\ valid_of s' = valid_of s /\ ready s' = ready s /\ pending_sync s' = pending_sync s /\
  was_in_sync s' = was_in_sync s /\ start_height s' = start_height s /\
  headers_requested s' = None /\ flags_eq s s'.

Lemma same_cleared_of s s' : same_but_rq s s' -> same_cleared s (upd_hreq s' None).
Proof.
  intros (a1 & a2 & a3 & a4 & a5 & a6 & a7 & a8). repeat split; cbn; try assumption; apply a8.
Qed.

(* a reply whose headers all connect: new = the chain after the window's last hash *)
Lemma hh_connect s new :
  ready s = false -> start_height s <> -1 -> pending (rq s) <= LIM ->
  new <> [] -> linked_ids (last_hash (rq s)) new = true -> (forall x, In x new -> x <> last_hash (rq s)) ->
  exists s' sent,
    handle_headers MAXR LIM s (hdrs_of new) = (s', Some sent) /\
    same_cleared s s' /\ enq MAXR (rq s) (rq s') new sent.
Proof.
  intros Hr Hs Hp Hne Hl Hnl. unfold handle_headers. rewrite Hr. cbn [negb andb].
  assert (Hb : match hdrs_of new with
               | [] => true
               | [h] => last_hash (rq s) =? fst h
               | _ => false
               end = false).
  { destruct new as [|x [|y new]]; [contradiction| |reflexivity]. cbn.
    apply Z.eqb_neq. intros E. apply (Hnl x); [left; reflexivity|symmetry; exact E]. }
  rewrite Hb.
  destruct (connect_run MAXR LIM parent_of new s (last_hash (rq s)) [] false Hs eq_refl Hp Hl)
    as (s' & sent & E & Hsame & Henq & _).
  rewrite E. destruct new as [|x new]; [contradiction|]. cbn [mod_after app].
  eexists _, sent. split; [reflexivity|]. split; [apply same_cleared_of; exact Hsame|exact Henq].
Qed.

(* a reply to a poll: the window's last hash itself, then headers that connect *)
Lemma hh_poll s t new :
  ready s = false -> start_height s <> -1 -> pending (rq s) <= LIM ->
  t = last_hash (rq s) -> parent_of t <> t ->
  new <> [] -> linked_ids t new = true ->
  exists s' sent,
    handle_headers MAXR LIM s (hdrs_of (t :: new)) = (s', Some sent) /\
    same_cleared s s' /\ enq MAXR (rq s) (rq s') new sent.
Proof.
  intros Hr Hs Hp Ht Hpt Hne Hl. unfold handle_headers. rewrite Hr. cbn [negb andb].
  destruct new as [|x new]; [contradiction|].
  change (hdrs_of (t :: x :: new)) with ((t, parent_of t) :: hdrs_of (x :: new)).
  change (hdrs_of (x :: new)) with ((x, parent_of x) :: hdrs_of new) at 1.
  cbv beta iota. rewrite <- Ht.
  cbn [headers_loop fst snd].
  assert (E1 : (t =? parent_of t) = false) by (apply Z.eqb_neq; intros E; apply Hpt; symmetry; exact E).
  rewrite E1, Z.eqb_refl.
  change ((x, parent_of x) :: hdrs_of new) with (hdrs_of (x :: new)).
  destruct (connect_run MAXR LIM parent_of (x :: new) s t [] false Hs (eq_sym Ht) Hp Hl)
    as (s' & sent & E & Hsame & Henq & _).
  rewrite E. cbn [mod_after app].
  eexists _, sent. split; [reflexivity|]. split; [apply same_cleared_of; exact Hsame|exact Henq].
Qed.

(* the reply that says "nothing after your last hash": in sync *)
Lemma hh_insync s hs :
  ready s = false -> start_height s <> -1 -> requests_empty (rq s) = true ->
  (hs = [] \/ exists p, hs = [(last_hash (rq s), p)]) ->
  exists s', handle_headers MAXR LIM s hs = (s', Some []) /\
    chain s' = chain s /\ rq s' = rq s /\ valid_of s' = valid_of s /\ ready s' = true /\ pending_sync s' = true /\
    was_in_sync s' = was_in_sync s /\ start_height s' = start_height s /\ headers_requested s' = None /\
    flags_eq s s'.
Proof.
  intros Hr Hs He Hhs. unfold handle_headers. rewrite Hr. apply Z.eqb_neq in Hs.
  destruct Hhs as [->|(p & ->)]; cbv beta iota zeta; cbn [fst negb andb].
  - cbn [start_height upd_pending rq]. rewrite Hs, He.
    eexists. split; [reflexivity|]. repeat split.
  - rewrite Z.eqb_refl. cbn [start_height upd_pending rq]. rewrite Hs, He.
    eexists. split; [reflexivity|]. repeat split.
Qed.

End HandleHeaders.

(* ---------------------------------------------------------------------------------------- *)
(* Part D: blocks arriving and being processed                                               *)

Lemma sizes_cons' x l : sizes (x :: l) = match snd x with Some sz => sz + sizes l | None => sizes l end.
Proof. reflexivity. Qed.

Lemma sizes_app' l1 l2 : sizes (l1 ++ l2) = sizes l1 + sizes l2.
Proof.
  induction l1 as [|x l1 IH]; [reflexivity|]. cbn [app]. rewrite !sizes_cons', IH.
  destruct (snd x); lia.
Qed.

Lemma sizes_lift l : sizes (lift l) = 0.
Proof. induction l as [|x l IH]; [reflexivity|]. cbn [lift map]. rewrite sizes_cons'. exact IH. Qed.

(* every buffered block has size 1 (the model's block size) *)
Definition unit_sizes (l : list (Z * option Z)) : Prop := forall x sz, In (x, Some sz) l -> sz = 1.

Lemma unit_sizes_bound l : unit_sizes l -> 0 <= sizes l <= zlen l.
Proof.
  induction l as [|[x [sz|]] l IH]; intros H.
  - cbn. unfold zlen. cbn. lia.
  - rewrite sizes_cons'. cbn [snd]. rewrite (H x sz (or_introl eq_refl)).
    assert (H' : unit_sizes l) by (intros y s Hy; apply (H y s); right; exact Hy).
    specialize (IH H'). unfold zlen in *. cbn [length]. lia.
  - rewrite sizes_cons'. cbn [snd].
    assert (H' : unit_sizes l) by (intros y s Hy; apply (H y s); right; exact Hy).
    specialize (IH H'). unfold zlen in *. cbn [length]. lia.
Qed.

Lemma fill_spec l id : forall l' d,
  fill l id 1 = Some (l', d) ->
  map fst l' = map fst l /\ sizes l' = sizes l + d /\
  (forall x b, In (x, b) l' -> In (x, b) l \/ (x = id /\ b = Some 1)) /\
  (forall x b, In (x, b) l -> x <> id -> In (x, b) l') /\
  (NoDup (map fst l) -> ~ In (id, None) l').
Proof.
  induction l as [|[y b0] l IH]; intros l' d H; [discriminate|].
  cbn [fill] in H. destruct (y =? id) eqn:E.
  - apply Z.eqb_eq in E. subst y. injection H as <- <-. repeat split.
    + rewrite !sizes_cons'. cbn [snd]. destruct b0; lia.
    + intros x b [Hx|Hx]; [injection Hx as <- <-; right; auto|left; right; exact Hx].
    + intros x b [Hx|Hx] Hne; [injection Hx as <- <-; contradiction|right; exact Hx].
    + intros Hnd [Hx|Hx]; [discriminate|]. cbn [map fst] in Hnd. apply NoDup_cons in Hnd as [Hni _].
      apply Hni. apply elem_of_list_In. change id with (fst (id, @None Z)). apply in_map. exact Hx.
  - destruct (fill l id 1) as [[l2 d2]|] eqn:Ef; [|discriminate]. injection H as <- <-.
    destruct (IH _ _ eq_refl) as (H1 & H2 & H3 & H4 & H5). repeat split.
    + cbn [map]. rewrite H1. reflexivity.
    + rewrite !sizes_cons'. cbn [snd]. destruct b0; lia.
    + intros x b [Hx|Hx]; [left; left; exact Hx|]. destruct (H3 _ _ Hx) as [Hy|Hy]; [left; right; exact Hy|right; exact Hy].
    + intros x b [Hx|Hx] Hne; [left; exact Hx|right; apply H4; assumption].
    + intros Hnd [Hx|Hx].
      * injection Hx as -> _. apply Z.eqb_neq in E. contradiction.
      * cbn [map fst] in Hnd. apply NoDup_cons in Hnd as [_ Hnd]. exact (H5 Hnd Hx).
Qed.

Lemma fill_None_notin l id : fill l id 1 = None -> ~ In id (map fst l).
Proof.
  induction l as [|[y b0] l IH]; intros H; [intros []|].
  cbn [fill] in H. destruct (y =? id) eqn:E; [discriminate|].
  destruct (fill l id 1) as [[l2 d2]|] eqn:Ef; [discriminate|].
  apply Z.eqb_neq in E. intros [Hx|Hx]; [contradiction|]. exact (IH eq_refl Hx).
Qed.

Section Process.
Variables MAXR LIM : Z.

(* GetNextBlockToRequest drained: the blocks moved to `requested` are the ones asked for *)
Lemma request_more_spec fuel : forall s acc,
  pending (rq s) <= LIM ->
  Z.of_nat fuel > MAXR - zlen (requested (rq s)) ->
  exists s' moved,
    request_more MAXR LIM fuel s acc = (s', acc ++ moved) /\ same_but_rq s s' /\
    requested (rq s') = requested (rq s) ++ lift moved /\ to_request (rq s) = moved ++ to_request (rq s') /\
    pending (rq s') = pending (rq s) /\ last_saved (rq s') = last_saved (rq s) /\
    (to_request (rq s') = [] \/ full MAXR (rq s')) /\
    (zlen (requested (rq s)) <= MAXR -> zlen (requested (rq s')) <= MAXR).
Proof.
  induction fuel as [|f IH]; intros s acc Hp Hf.
  - exists s, []. cbn [request_more]. rewrite !app_nil_r. repeat split; auto.
    right. unfold full. lia.
  - cbn [request_more]. unfold get_next.
    destruct (to_request (rq s)) as [|h l] eqn:Et.
    + exists s, []. rewrite !app_nil_r. repeat split; auto.
    + destruct (over_threshold MAXR LIM (rq s)) eqn:Eo.
      * exists s, []. rewrite !app_nil_r. repeat split; auto; try (rewrite Et; reflexivity).
        right. apply over_full with (LIM := LIM); assumption.
      * apply not_over in Eo as Hlt.
        match goal with |- context [request_more MAXR LIM f ?s2 ?acc2] =>
          destruct (IH s2 acc2) as (s' & moved & E & Hsame & Hr & Ht & Hpe & Hls & Hfin & Hwin) end.
        { cbn [rq upd_times upd_rq pending]. exact Hp. }
        { cbn [rq upd_times upd_rq requested]. unfold zlen in *. rewrite app_length. cbn [length]. lia. }
        exists s', (h :: moved). rewrite E. cbn [rq upd_times upd_rq requested to_request pending last_saved] in *.
        split; [rewrite <- app_assoc; reflexivity|].
        split; [eapply same_but_rq_trans; [|exact Hsame]; repeat split|].
        split; [rewrite Hr, <- app_assoc; reflexivity|].
        split; [rewrite Ht; reflexivity|].
        split; [exact Hpe|]. split; [exact Hls|]. split; [exact Hfin|].
        intros _. apply Hwin. unfold zlen in *. rewrite app_length. cbn [length]. lia.
Qed.

End Process.

(* ---------------------------------------------------------------------------------------- *)
(* Part E: the locator and the peer's reply                                                  *)

Lemma locator_loop_prefix fuel : forall s d acc, exists t, locator_loop fuel s d acc = acc ++ t.
Proof.
  induction fuel as [|f IH]; intros s d acc; [exists []; rewrite app_nil_r; reflexivity|].
  cbn [locator_loop]. destruct (d >? height s); [exists []; rewrite app_nil_r; reflexivity|].
  destruct (hash_at s (height s - d)) as [h|]; [|exists []; rewrite app_nil_r; reflexivity].
  destruct (zlen (acc ++ [h]) >? 50); [exists [h]; reflexivity|].
  destruct (height s <=? d); [exists [h]; reflexivity|].
  destruct (IH s (if d =? 0 then 1 else d * 2) (acc ++ [h])) as [t Ht].
  exists (h :: t). rewrite Ht, <- app_assoc. reflexivity.
Qed.

Lemma requests_empty_lists r : requests_empty r = true -> requested r = [] /\ to_request r = [].
Proof.
  unfold requests_empty, total_requests, zlen. intros H. apply Z.eqb_eq in H.
  destruct (requested r); destruct (to_request r); cbn in H; try lia. auto.
Qed.

Lemma locator_loop_S f s d acc :
  locator_loop (S f) s d acc =
  if d >? height s then acc else
  match hash_at s (height s - d) with
  | None => acc
  | Some h =>
      let acc1 := acc ++ [h] in
      if zlen acc1 >? 50 then acc1 else
      if height s <=? d then acc1 else
      locator_loop f s (if d =? 0 then 1 else d * 2) acc1
  end.
Proof. reflexivity. Qed.

Opaque locator_loop.

(* the handshake locator starts with the tip; the poll locator with the block below the tip (with
   genesis when the chain is only genesis) - when no block request is outstanding *)
Lemma locator_first s delta c x :
  requests_empty (rq s) = true -> (delta = 0 \/ delta = 1) ->
  map fst (chain s) = c -> (length c > Z.to_nat delta)%nat -> c !! (length c - 1 - Z.to_nat delta)%nat = Some x ->
  exists t, locator s delta = x :: t.
Proof.
  intros He Hd Hc Hlen Hx. apply requests_empty_lists in He as [Er Et].
  unfold locator, block_request_hash. rewrite Er, Et.
  assert (E0 : (zlen (@nil Z) >? delta) = false) by (destruct Hd as [-> | ->]; reflexivity).
  assert (E1 : (zlen (@nil (Z * option Z)) >? delta) = false) by (destruct Hd as [-> | ->]; reflexivity).
  rewrite E0, E1. change 64%nat with (S 63). rewrite locator_loop_S.
  pose proof (height_len s c Hc) as Hh.
  assert (Hg : (delta >? height s) = false).
  { rewrite Z.gtb_ltb. apply Z.ltb_ge. rewrite Hh. unfold zlen. destruct Hd as [-> | ->]; cbn in Hlen; lia. }
  rewrite Hg.
  assert (Hha : hash_at s (height s - delta) = Some x).
  { replace (height s - delta) with (Z.of_nat (length c - 1 - Z.to_nat delta)).
    - apply hash_at_ids. rewrite Hc. exact Hx.
    - rewrite Hh. unfold zlen. destruct Hd as [-> | ->]; cbn in *; lia. }
  rewrite Hha. cbv zeta. cbn [app]. change (zlen [x] >? 50) with false. cbv iota.
  destruct (height s <=? delta).
  - exists []. reflexivity.
  - destruct (locator_loop_prefix 63 s (if delta =? 0 then 1 else delta * 2) [x]) as [t Ht].
    rewrite Ht. cbn [app]. change (zlen (x :: t) =? 0) with false. cbv iota. exists t. reflexivity.
Qed.

Lemma locator_genesis s :
  requests_empty (rq s) = true -> map fst (chain s) = [0] -> locator s 1 = [0].
Proof.
  intros He Hc. apply requests_empty_lists in He as [Er Et].
  unfold locator, block_request_hash. rewrite Er, Et.
  change (zlen (@nil Z) >? 1) with false. change (zlen (@nil (Z * option Z)) >? 1) with false. cbv iota.
  change 64%nat with (S 63). rewrite locator_loop_S.
  rewrite (height_len s [0] Hc). change (1 >? zlen [0] - 1) with true. cbv iota.
  change (zlen (@nil Z) =? 0) with true. cbv iota.
  assert (H : hash_at s 0 = Some 0) by (apply (hash_at_ids s 0%nat); rewrite Hc; reflexivity).
  rewrite H. reflexivity.
Qed.

Section Answer.
Variable parent_of : Z -> Z.
Variable M : nat.
Notation is_chain := (is_chain parent_of).

Lemma after_lookup B : NoDup B -> forall i x, B !! i = Some x -> after x B = drop (S i) B.
Proof.
  induction B as [|y B IH]; intros Hnd i x Hx; [discriminate|].
  apply NoDup_cons in Hnd as [Hni Hnd]. cbn [after]. destruct i as [|i]; cbn in Hx.
  - injection Hx as ->. rewrite Z.eqb_refl. reflexivity.
  - destruct (y =? x) eqn:E.
    + apply Z.eqb_eq in E. subst y. exfalso. apply Hni. eapply elem_of_list_lookup_2. exact Hx.
    + cbn [drop]. apply IH; assumption.
Qed.

Lemma on_best_In B x : on_best B x = true <-> In x B.
Proof.
  unfold on_best. rewrite existsb_exists. split.
  - intros (y & Hy & E). apply Z.eqb_eq in E. subst. exact Hy.
  - intros H. exists x. split; [exact H|apply Z.eqb_refl].
Qed.

Lemma answer_first B i x t :
  is_chain B = true -> B !! i = Some x ->
  answer_getheaders M parent_of B (x :: t) = hdrs_of parent_of (take M (drop (S i) B)).
Proof.
  intros Hc Hx. unfold answer_getheaders. cbn [find].
  assert (Hin : on_best B x = true).
  { apply on_best_In. apply elem_of_list_In. eapply elem_of_list_lookup_2. exact Hx. }
  rewrite Hin. rewrite (after_lookup B (chain_NoDup parent_of B Hc) i x Hx). reflexivity.
Qed.

End Answer.

(* ---------------------------------------------------------------------------------------- *)
(* Part F: what one step of the settling run does                                            *)

Section StepEq.
Variables MAXR LIM HT HDT BT DELTA : Z.
Variable M : nat.
Variable parent_of : Z -> Z.
Notation skind := (skind MAXR LIM HT HDT BT DELTA M parent_of).
Notation snext := (snext MAXR LIM HT HDT BT DELTA M parent_of).
Notation settle1 := (settle1 MAXR LIM HT HDT BT DELTA M parent_of).

Definition with_node (w : cworld) (s : sync) : world := World s (w_uverified (cw_node w)).

Lemma pick_head {A} (x : A) l : pick 0 (x :: l) = Some (x, l).
Proof. unfold pick. rewrite Nat.mod_0_l; [reflexivity|cbn; lia]. Qed.

Lemma step_version w rest : cw_chan w = MVersion :: rest ->
  skind w = 1 /\
  snext w = CW (with_node w (Sync (chain (node_sync w)) (rq (node_sync w)) (valid_of (node_sync w)) (ready (node_sync w))
                 (pending_sync (node_sync w)) (was_in_sync (node_sync w)) (notified (node_sync w))
                 (start_height (node_sync w)) (start_hash (node_sync w)) true (handshake_complete (node_sync w))
                 (sent_sendheaders (node_sync w)) (addrs_requested (node_sync w)) (headers_requested (node_sync w))
                 (connected (node_sync w)) (req_times (node_sync w)) (now (node_sync w))))
               (cw_peer w) rest (cw_reqs w) (cw_heard w).
Proof.
  intros Hc. unfold Converge_Proofs.skind, Converge_Proofs.snext, Peer.settle1. rewrite Hc. cbn [fst snd].
  split; [reflexivity|]. unfold Peer.wstep, Peer.wstep_obs. rewrite Hc, pick_head.
  unfold Peer.apply_node, Peer.nstep, Sync.step. cbn [fst set_chan cw_node cw_peer cw_chan cw_reqs cw_heard sends].
  rewrite app_nil_r. reflexivity.
Qed.

Lemma step_inv w id rest : cw_chan w = MInv id :: rest ->
  skind w = 1 /\
  snext w = CW (with_node w (Peer.handle_block_inv (node_sync w))) (cw_peer w) rest (cw_reqs w) (cw_heard w).
Proof.
  intros Hc. unfold Converge_Proofs.skind, Converge_Proofs.snext, Peer.settle1. rewrite Hc. cbn [fst snd].
  split; [reflexivity|]. unfold Peer.wstep, Peer.wstep_obs. rewrite Hc, pick_head. reflexivity.
Qed.

Lemma step_block w id rest : cw_chan w = MBlock id :: rest ->
  skind w = 1 /\
  snext w = CW (with_node w (handle_block (node_sync w) id true).1) (cw_peer w) rest (cw_reqs w) (cw_heard w).
Proof.
  intros Hc. unfold Converge_Proofs.skind, Converge_Proofs.snext, Peer.settle1. rewrite Hc. cbn [fst snd].
  split; [reflexivity|]. unfold Peer.wstep, Peer.wstep_obs. rewrite Hc, pick_head.
  unfold Peer.apply_node, Peer.nstep, Sync.step. cbn [set_chan cw_node cw_peer cw_chan cw_reqs cw_heard sends].
  change (w_sync (cw_node w)) with (node_sync w).
  destruct (handle_block (node_sync w) id true) as [s1 ok]. cbn [fst]. rewrite app_nil_r. reflexivity.
Qed.

Definition getdata_of (l : list Z) : list req := match l with [] => [] | _ => [RGetData l] end.

Lemma step_headers w hs rest : cw_chan w = MHeaders hs :: rest ->
  skind w = 1 /\
  snext w = CW (with_node w (handle_headers MAXR LIM (node_sync w) hs).1) (cw_peer w) rest
               (cw_reqs w ++ match (handle_headers MAXR LIM (node_sync w) hs).2 with Some l => getdata_of l | None => [] end)
               (add_new (cw_heard w) (ids_of hs)).
Proof.
  intros Hc. unfold Converge_Proofs.skind, Converge_Proofs.snext, Peer.settle1. rewrite Hc. cbn [fst snd].
  split; [reflexivity|]. unfold Peer.wstep, Peer.wstep_obs. rewrite Hc, pick_head.
  unfold Peer.apply_node, Peer.nstep, Sync.step, sends, node_sync, with_node.
  cbn [set_chan cw_node cw_peer cw_chan cw_reqs cw_heard].
  destruct (handle_headers MAXR LIM (w_sync (cw_node w)) hs) as [s1 res]. cbn [fst snd].
  destruct res as [[|x l]|]; reflexivity.
Qed.

Lemma step_answer w r rest : cw_chan w = [] -> cw_reqs w = r :: rest ->
  skind w = 2 /\ snext w = peer_answer M parent_of w r rest.
Proof.
  intros Hc Hr. unfold Converge_Proofs.skind, Converge_Proofs.snext, Peer.settle1. rewrite Hc, Hr. cbn [fst snd].
  split; [reflexivity|]. unfold Peer.wstep, Peer.wstep_obs. rewrite Hr, pick_head. reflexivity.
Qed.

Lemma step_process w : cw_chan w = [] -> cw_reqs w = [] -> head_ready (node_sync w) = true ->
  skind w = 3 /\
  snext w = CW (with_node w (process_next MAXR LIM parent_of (node_sync w)).1.1) (cw_peer w) []
               (getdata_of (process_next MAXR LIM parent_of (node_sync w)).2) (cw_heard w).
Proof.
  intros Hc Hr Hh. unfold Converge_Proofs.skind, Converge_Proofs.snext, Peer.settle1. rewrite Hc, Hr, Hh. cbn [fst snd].
  split; [reflexivity|]. unfold Peer.wstep, Peer.wstep_obs.
  unfold Peer.apply_node, Peer.nstep, Sync.step. cbn [cw_node cw_peer cw_chan cw_reqs cw_heard sends node_sync].
  change (w_sync (cw_node w)) with (node_sync w). rewrite Hc, Hr.
  destruct (process_next MAXR LIM parent_of (node_sync w)) as [[s1 popped] reqs]. cbn [fst snd app].
  destruct reqs; reflexivity.
Qed.

Definition wire_of (outs : list out) : list req :=
  flat_map (fun o => match o with
                     | OutGetHeaders loc => [RGetHeaders loc]
                     | OutSendHeaders => [RSendHeaders]
                     | _ => []
                     end) outs.

Lemma step_check w : cw_chan w = [] -> cw_reqs w = [] -> head_ready (node_sync w) = false ->
  check_enabled (node_sync w) = true ->
  skind w = 4 /\
  snext w = CW (with_node w (check (node_sync w)).1) (cw_peer w) [] (wire_of (check (node_sync w)).2) (cw_heard w).
Proof.
  intros Hc Hr Hh He. unfold Converge_Proofs.skind, Converge_Proofs.snext, Peer.settle1. rewrite Hc, Hr, Hh, He. cbn [fst snd].
  split; [reflexivity|]. unfold Peer.wstep, Peer.wstep_obs.
  unfold Peer.apply_node, Peer.nstep, Sync.step. cbn [cw_node cw_peer cw_chan cw_reqs cw_heard sends node_sync].
  change (w_sync (cw_node w)) with (node_sync w). rewrite Hc, Hr.
  destruct (check (node_sync w)) as [s1 outs]. reflexivity.
Qed.

Lemma step_rest w : cw_chan w = [] -> cw_reqs w = [] -> head_ready (node_sync w) = false ->
  check_enabled (node_sync w) = false -> converged w = true -> skind w = 0.
Proof.
  intros Hc Hr Hh He Hv. unfold Converge_Proofs.skind, Peer.settle1. rewrite Hc, Hr, Hh, He, Hv. reflexivity.
Qed.

End StepEq.

(* ---------------------------------------------------------------------------------------- *)
(* Part G: draining - blocks are fetched and processed until no request is left              *)

Definition vtrue (s : sync) (x : Z) : Prop :=
  match find (fun e : Z * bool => fst e =? x) (valid_of s) with Some e => snd e | None => false end = true.

Lemma find_filter_ne (v : list (Z * bool)) id x : x <> id ->
  find (fun e : Z * bool => fst e =? x) (filter (fun e : Z * bool => fst e ≠ id) v) =
  find (fun e : Z * bool => fst e =? x) v.
Proof.
  intros Hne. induction v as [|e v IH]; [reflexivity|].
  rewrite filter_cons. destruct (decide (fst e ≠ id)) as [Hd|Hd].
  - cbn [find]. rewrite IH. reflexivity.
  - cbn [find]. destruct (fst e =? x) eqn:E; [|exact IH].
    apply Z.eqb_eq in E. exfalso. apply Hd. congruence.
Qed.

Definition is_block (m : msg) : Prop := match m with MBlock _ => True | _ => False end.
Definition is_getdata (r : req) : Prop := match r with RGetData _ => True | _ => False end.

Definition covered (w : cworld) (x : Z) : Prop :=
  In (MBlock x) (cw_chan w) \/ exists ids, In (RGetData ids) (cw_reqs w) /\ In x ids.

Definition req_weight (r : req) : nat := match r with RGetData ids => 1 + 2 * length ids | _ => 1 end.

Fixpoint wsum (l : list req) : nat :=
  match l with
  | [] => O
  | r :: l' => (req_weight r + wsum l')%nat
  end.

Definition mu (w : cworld) : nat :=
  5 * length (to_request (rq (node_sync w))) + 2 * length (requested (rq (node_sync w))) +
  wsum (cw_reqs w) + length (cw_chan w).

Lemma take_drop_lookup {A} (l : list A) k j x r :
  take j (drop k l) = x :: r -> l !! k = Some x /\ r = take (j - 1) (drop (S k) l).
Proof.
  intros H. destruct j as [|j]; [discriminate|].
  destruct (drop k l) as [|y t] eqn:Ed; [discriminate|]. cbn [take] in H. injection H as -> <-.
  assert (Hk : l !! k = Some x).
  { rewrite <- (Nat.add_0_r k). rewrite <- lookup_drop, Ed. reflexivity. }
  split; [exact Hk|]. replace (S j - 1)%nat with j by lia.
  rewrite (drop_S _ _ _ Hk) in Ed. injection Ed as <-. reflexivity.
Qed.

Section Drain.
Variables MAXR LIM HT HDT BT DELTA : Z.
Variable M : nat.
Variable parent_of : Z -> Z.
Hypothesis HMAXR : 1 <= MAXR.
Hypothesis HLIM : MAXR <= LIM.
Notation skind := (skind MAXR LIM HT HDT BT DELTA M parent_of).
Notation snext := (snext MAXR LIM HT HDT BT DELTA M parent_of).
Notation settle := (settle MAXR LIM HT HDT BT DELTA M parent_of).
Notation is_chain := (is_chain parent_of).

(* the node has the first k blocks of the peer's chain B, knows T of them (the window holds the rest),
   is not in sync, has no header request outstanding; every requested block that has not arrived is
   asked for (getdata on its way to the peer) or on its way to the node *)
Record Drain (B : list Z) (T : nat) (w : cworld) (k : nat) : Prop := {
  d_best : best w = B;
  d_chainB : is_chain B = true;
  d_k : (1 <= k <= length B)%nat;
  d_chain : chain (node_sync w) = chain_of parent_of (take k B);
  d_ids : rids (rq (node_sync w)) = take (T - k) (drop k B);
  d_T : (k <= T <= length B)%nat;
  d_start : start_height (node_sync w) <> -1;
  d_saved : B !! (k - 1)%nat = Some (last_saved (rq (node_sync w)));
  d_vr : version_received (node_sync w) = true;
  d_hc : handshake_complete (node_sync w) = true;
  d_ready : ready (node_sync w) = false;
  d_pend : pending_sync (node_sync w) = false;
  d_hreq : headers_requested (node_sync w) = None;
  d_unit : unit_sizes (requested (rq (node_sync w)));
  d_pending : pending (rq (node_sync w)) = sizes (requested (rq (node_sync w)));
  d_win : zlen (requested (rq (node_sync w))) <= MAXR;
  d_full : to_request (rq (node_sync w)) = [] \/ full MAXR (rq (node_sync w));
  d_valid : forall x sz, In (x, Some sz) (requested (rq (node_sync w))) -> vtrue (node_sync w) x;
  d_chan : Forall is_block (cw_chan w);
  d_reqs : Forall is_getdata (cw_reqs w);
  d_cov : forall x, In (x, None) (requested (rq (node_sync w))) -> covered w x;
}.

Lemma drain_pending_le B T w k : Drain B T w k -> pending (rq (node_sync w)) <= LIM.
Proof.
  intros D. rewrite (d_pending _ _ _ _ D). pose proof (unit_sizes_bound _ (d_unit _ _ _ _ D)).
  pose proof (d_win _ _ _ _ D). lia.
Qed.

Lemma drain_ids_nodup B T w k : Drain B T w k -> NoDup (map fst (requested (rq (node_sync w)))).
Proof.
  intros D. pose proof (d_ids _ _ _ _ D) as H. unfold rids in H.
  assert (Hnd : NoDup (take (T - k) (drop k B))).
  { apply NoDup_alt. intros i j x Hi Hj. apply lookup_take_Some in Hi as [Hi _]. apply lookup_take_Some in Hj as [Hj _].
    rewrite lookup_drop in Hi, Hj.
    pose proof (chain_NoDup parent_of B (d_chainB _ _ _ _ D)) as HB.
    pose proof (proj1 (NoDup_alt B) HB _ _ _ Hi Hj). lia. }
  rewrite <- H in Hnd. apply NoDup_app in Hnd as [Hnd _]. exact Hnd.
Qed.

(* a block arrives *)
Lemma drain_block B T w k id rest :
  Drain B T w k -> cw_chan w = MBlock id :: rest ->
  Drain B T (snext w) k /\ (mu (snext w) < mu w)%nat /\ skind w <> 0.
Proof.
  intros D Hc. destruct (step_block MAXR LIM HT HDT BT DELTA M parent_of w id rest Hc) as [Hk Hn].
  split; [|split; [|rewrite Hk; discriminate]].
  - rewrite Hn.
    unfold handle_block, add_block.
    destruct (fill (requested (rq (node_sync w))) id 1) as [[l d]|] eqn:Ef.
    + destruct (fill_spec _ _ _ _ Ef) as (F1 & F2 & F3 & F4 & F5).
      assert (Hlen : length l = length (requested (rq (node_sync w)))).
      { rewrite <- (map_length fst l), F1, map_length. reflexivity. }
      constructor; unfold node_sync, with_node; cbn [cw_node w_sync fst cw_chan cw_reqs best cw_peer
        upd_valid upd_rq chain rq valid_of ready pending_sync start_height version_received handshake_complete
        headers_requested requested to_request pending last_saved];
        change (w_sync (cw_node w)) with (node_sync w).
      * exact (d_best _ _ _ _ D).
      * exact (d_chainB _ _ _ _ D).
      * exact (d_k _ _ _ _ D).
      * exact (d_chain _ _ _ _ D).
      * unfold rids. cbn [requested to_request]. rewrite F1. exact (d_ids _ _ _ _ D).
      * exact (d_T _ _ _ _ D).
      * exact (d_start _ _ _ _ D).
      * exact (d_saved _ _ _ _ D).
      * exact (d_vr _ _ _ _ D).
      * exact (d_hc _ _ _ _ D).
      * exact (d_ready _ _ _ _ D).
      * exact (d_pend _ _ _ _ D).
      * exact (d_hreq _ _ _ _ D).
      * intros x sz Hx. destruct (F3 _ _ Hx) as [Hy|[_ Hy]]; [exact (d_unit _ _ _ _ D _ _ Hy)|congruence].
      * rewrite (d_pending _ _ _ _ D). lia.
      * unfold zlen. rewrite Hlen. exact (d_win _ _ _ _ D).
      * destruct (d_full _ _ _ _ D) as [H|H]; [left; exact H|right].
        unfold full, zlen in *. cbn [requested]. rewrite Hlen. exact H.
      * intros x sz Hx. unfold vtrue. cbn [valid_of upd_valid upd_rq find fst snd].
        destruct (Z.eq_dec x id) as [->|Hne]; [rewrite Z.eqb_refl; reflexivity|].
        assert (E : (id =? x) = false) by (apply Z.eqb_neq; congruence). rewrite E.
        rewrite find_filter_ne by exact Hne.
        destruct (F3 _ _ Hx) as [Hy|[Hy _]]; [exact (d_valid _ _ _ _ D _ _ Hy)|contradiction].
      * pose proof (d_chan _ _ _ _ D) as H. rewrite Hc in H. inversion H; assumption.
      * exact (d_reqs _ _ _ _ D).
      * intros x Hx. destruct (F3 _ _ Hx) as [Hy|[_ Hy]]; [|discriminate].
        assert (Hne : x <> id).
        { intros ->. exact (F5 (drain_ids_nodup _ _ _ _ D) Hx). }
        destruct (d_cov _ _ _ _ D x Hy) as [Hb|Hg].
        -- left. rewrite Hc in Hb. destruct Hb as [Hb|Hb]; [injection Hb as Hb; congruence|exact Hb].
        -- right. exact Hg.
    + constructor; unfold node_sync, with_node; cbn [cw_node w_sync fst cw_chan cw_reqs best cw_peer];
        change (w_sync (cw_node w)) with (node_sync w);
        try (first [exact (d_best _ _ _ _ D)|exact (d_chainB _ _ _ _ D)|exact (d_k _ _ _ _ D)|exact (d_chain _ _ _ _ D)
                   |exact (d_ids _ _ _ _ D)|exact (d_T _ _ _ _ D)|exact (d_start _ _ _ _ D)|exact (d_saved _ _ _ _ D)
                   |exact (d_vr _ _ _ _ D)|exact (d_hc _ _ _ _ D)|exact (d_ready _ _ _ _ D)|exact (d_pend _ _ _ _ D)
                   |exact (d_hreq _ _ _ _ D)|exact (d_unit _ _ _ _ D)|exact (d_pending _ _ _ _ D)|exact (d_win _ _ _ _ D)
                   |exact (d_full _ _ _ _ D)|exact (d_valid _ _ _ _ D)|exact (d_reqs _ _ _ _ D)]).
      * pose proof (d_chan _ _ _ _ D) as H. rewrite Hc in H. inversion H; assumption.
      * intros x Hx. assert (Hne : x <> id).
        { intros ->. apply (fill_None_notin _ _ Ef). change id with (fst (id, @None Z)). apply in_map. exact Hx. }
        destruct (d_cov _ _ _ _ D x Hx) as [Hb|Hg].
        -- left. rewrite Hc in Hb. destruct Hb as [Hb|Hb]; [injection Hb as Hb; congruence|exact Hb].
        -- right. exact Hg.
  - rewrite Hn. unfold mu, node_sync, with_node. cbn [cw_node w_sync cw_chan cw_reqs]. rewrite Hc.
    change (w_sync (cw_node w)) with (node_sync w).
    unfold handle_block, add_block.
    destruct (fill (requested (rq (node_sync w))) id 1) as [[l d]|] eqn:Ef; cbn [fst rq upd_valid upd_rq requested to_request length].
    + destruct (fill_spec _ _ _ _ Ef) as (F1 & _).
      assert (Hlen : length l = length (requested (rq (node_sync w)))).
      { rewrite <- (map_length fst l), F1, map_length. reflexivity. }
      rewrite Hlen. lia.
    + lia.
Qed.

End Drain.

Section Drain2.
Variables MAXR LIM HT HDT BT DELTA : Z.
Variable M : nat.
Variable parent_of : Z -> Z.
Hypothesis HMAXR : 1 <= MAXR.
Hypothesis HLIM : MAXR <= LIM.
Notation skind := (skind MAXR LIM HT HDT BT DELTA M parent_of).
Notation snext := (snext MAXR LIM HT HDT BT DELTA M parent_of).
Notation settle := (settle MAXR LIM HT HDT BT DELTA M parent_of).
Notation is_chain := (is_chain parent_of).
Notation Drain := (Drain MAXR parent_of).

(* the peer serves a getdata *)
Lemma drain_answer B T w k ids rest :
  Drain B T w k -> cw_chan w = [] -> cw_reqs w = RGetData ids :: rest ->
  Drain B T (snext w) k /\ (mu (snext w) < mu w)%nat /\ skind w <> 0.
Proof.
  intros D Hc Hr.
  destruct (step_answer MAXR LIM HT HDT BT DELTA M parent_of w _ _ Hc Hr) as [Hk Hn].
  split; [|split; [|rewrite Hk; discriminate]].
  - rewrite Hn. unfold peer_answer.
    constructor; unfold node_sync; cbn [cw_node w_sync cw_chan cw_reqs best cw_peer];
      change (w_sync (cw_node w)) with (node_sync w);
      try (first [exact (d_best _ _ _ _ _ _ D)|exact (d_chainB _ _ _ _ _ _ D)|exact (d_k _ _ _ _ _ _ D)|exact (d_chain _ _ _ _ _ _ D)
                 |exact (d_ids _ _ _ _ _ _ D)|exact (d_T _ _ _ _ _ _ D)|exact (d_start _ _ _ _ _ _ D)|exact (d_saved _ _ _ _ _ _ D)
                 |exact (d_vr _ _ _ _ _ _ D)|exact (d_hc _ _ _ _ _ _ D)|exact (d_ready _ _ _ _ _ _ D)|exact (d_pend _ _ _ _ _ _ D)
                 |exact (d_hreq _ _ _ _ _ _ D)|exact (d_unit _ _ _ _ _ _ D)|exact (d_pending _ _ _ _ _ _ D)|exact (d_win _ _ _ _ _ _ D)
                 |exact (d_full _ _ _ _ _ _ D)|exact (d_valid _ _ _ _ _ _ D)]).
    + rewrite Hc. cbn [app]. apply Forall_map. apply List.Forall_forall. intros x _. exact I.
    + pose proof (d_reqs _ _ _ _ _ _ D) as H. rewrite Hr in H. inversion H; assumption.
    + intros x Hx. destruct (d_cov _ _ _ _ _ _ D x Hx) as [Hb|(ids' & Hg & Hin)].
      * rewrite Hc in Hb. destruct Hb.
      * rewrite Hr in Hg. destruct Hg as [Hg|Hg].
        -- injection Hg as <-. left. rewrite Hc. cbn [app]. apply in_map. exact Hin.
        -- right. exists ids'. split; assumption.
  - rewrite Hn. unfold mu, peer_answer, node_sync. cbn [cw_node cw_chan cw_reqs]. rewrite Hc, Hr.
    cbn [wsum req_weight app length]. rewrite map_length. lia.
Qed.

Lemma vtrue_same s s' x : valid_of s' = valid_of s -> vtrue s x -> vtrue s' x.
Proof. unfold vtrue. intros ->. auto. Qed.

(* the next block has arrived: it is processed and more blocks are asked for *)
Lemma drain_process B T w k :
  Drain B T w k -> cw_chan w = [] -> cw_reqs w = [] -> head_ready (node_sync w) = true ->
  Drain B T (snext w) (S k) /\ (mu (snext w) < mu w)%nat /\ skind w <> 0.
Proof.
  intros D Hc Hr Hh.
  destruct (step_process MAXR LIM HT HDT BT DELTA M parent_of w Hc Hr Hh) as [Hk Hn].
  unfold head_ready in Hh.
  destruct (requested (rq (node_sync w))) as [|[h [sz|]] rl'] eqn:Erl; try discriminate. clear Hh.
  (* the head is the next block of B *)
  pose proof (d_ids _ _ _ _ _ _ D) as Hids. unfold rids in Hids. rewrite Erl in Hids. cbn [map fst app] in Hids.
  symmetry in Hids. apply take_drop_lookup in Hids as [HBk Hrest].
  assert (Hkl : (k < length B)%nat) by (apply lookup_lt_Some in HBk; exact HBk).
  pose proof (d_k _ _ _ _ _ _ D) as Hk1.
  assert (HTk : (S k <= T)%nat).
  { pose proof (d_ids _ _ _ _ _ _ D) as H0. unfold rids in H0. rewrite Erl in H0. cbn [map fst app] in H0.
    destruct (T - k)%nat eqn:E; [discriminate|lia]. }
  destruct k as [|k0]; [lia|]. set (k := S k0) in *.
  destruct (is_chain_lookup parent_of B k0 h (d_chainB _ _ _ _ _ _ D) HBk) as [Hnz Hpar].
  pose proof (d_saved _ _ _ _ _ _ D) as Hsv. replace (k - 1)%nat with k0 in Hsv by lia. rewrite Hsv in Hpar. cbn in Hpar.
  (* compute process_next *)
  assert (Hval : vtrue (node_sync w) h) by (apply (d_valid _ _ _ _ _ _ D h sz); rewrite Erl; left; reflexivity).
  pose proof (d_chain _ _ _ _ _ _ D) as Hch.
  assert (Hcids : map fst (chain (node_sync w)) = take k B).
  { rewrite Hch. destruct (is_chain_tail parent_of B (d_chainB _ _ _ _ _ _ D)) as (r & -> & _).
    unfold k. cbn [take]. apply chain_of_ids. }
  assert (Hnot : ~ In h (take k B)).
  { intros Hin. apply elem_of_list_In, elem_of_list_lookup in Hin as (i & Hi).
    apply lookup_take_Some in Hi as [Hi Hlt].
    pose proof (proj1 (NoDup_alt B) (chain_NoDup parent_of B (d_chainB _ _ _ _ _ _ D)) _ _ _ Hi HBk). lia. }
  assert (Htip : tip (node_sync w) = last_saved (rq (node_sync w))).
  { apply (tip_last _ (take k B)); [exact Hcids|].
    rewrite last_lookup, take_length. replace (Nat.pred (k `min` length B)) with k0 by lia.
    rewrite lookup_take by lia. exact Hsv. }
  assert (Epn : exists s3 moved,
     process_next MAXR LIM parent_of (node_sync w) = (s3, Some (h, 0), moved) /\
     chain s3 = chain (node_sync w) ++ [(h, parent_of h)] /\
     requested (rq s3) = rl' ++ lift moved /\ to_request (rq (node_sync w)) = moved ++ to_request (rq s3) /\
     pending (rq s3) = pending (rq (node_sync w)) - sz /\ last_saved (rq s3) = h /\
     (to_request (rq s3) = [] \/ full MAXR (rq s3)) /\ zlen (requested (rq s3)) <= MAXR /\
     valid_of s3 = valid_of (node_sync w) /\ ready s3 = false /\ pending_sync s3 = false /\
     start_height s3 = start_height (node_sync w) /\ headers_requested s3 = None /\
     version_received s3 = true /\ handshake_complete s3 = true).
  { unfold process_next, next_block. rewrite Erl. cbv zeta.
    unfold vtrue in Hval. cbn [upd_rq valid_of]. rewrite Hval.
    unfold process_block. cbn [fst snd].
    assert (E1 : contains (upd_rq (node_sync w) (RState rl' (to_request (rq (node_sync w))) (pending (rq (node_sync w)) - sz) h)) h = false).
    { apply contains_false. cbn [chain upd_rq]. rewrite Hcids. exact Hnot. }
    rewrite E1.
    assert (E2 : (parent_of h =? tip (upd_rq (node_sync w) (RState rl' (to_request (rq (node_sync w))) (pending (rq (node_sync w)) - sz) h))) = true).
    { apply Z.eqb_eq. unfold tip in *. cbn [chain upd_rq]. rewrite Htip. exact Hpar. }
    rewrite E2. cbn [negb].
    cbn [ready pending_sync upd_chain upd_rq]. rewrite (d_ready _ _ _ _ _ _ D), (d_pend _ _ _ _ _ _ D). cbn [negb andb].
    match goal with |- context [request_more MAXR LIM ?f ?s2 []] =>
      destruct (request_more_spec MAXR LIM f s2 []) as (s3 & moved & E & Hsame & Hr3 & Ht3 & Hp3 & Hl3 & Hf3 & Hw3) end.
    { cbn [rq upd_chain upd_rq pending]. pose proof (drain_pending_le MAXR LIM parent_of HLIM _ _ _ _ D) as Hp.
      pose proof (d_unit _ _ _ _ _ _ D h sz) as Hu. rewrite Erl in Hu. specialize (Hu (or_introl eq_refl)). lia. }
    { cbn [rq upd_chain upd_rq requested]. pose proof (d_win _ _ _ _ _ _ D) as Hw. rewrite Erl in Hw.
      unfold zlen in *. cbn [length] in Hw. lia. }
    rewrite E. cbn [app]. exists s3, moved. split; [reflexivity|].
    destruct Hsame as (a1 & a2 & a3 & a4 & a5 & a6 & a7 & a8).
    cbn [rq upd_chain upd_rq requested to_request pending last_saved chain valid_of ready pending_sync start_height
         headers_requested] in *.
    destruct a8 as (c1 & c2 & c3 & c4 & c5 & c6 & c7 & c8). cbn [version_received handshake_complete upd_chain upd_rq] in *.
    split; [exact a1|]. split; [exact Hr3|]. split; [exact Ht3|]. split; [exact Hp3|]. split; [exact Hl3|].
    split; [exact Hf3|].
    split; [apply Hw3; pose proof (d_win _ _ _ _ _ _ D) as Hw; rewrite Erl in Hw; unfold zlen in *; cbn [length] in Hw; lia|].
    split; [exact a2|].
    split; [rewrite a3; exact (d_ready _ _ _ _ _ _ D)|].
    split; [rewrite a4; exact (d_pend _ _ _ _ _ _ D)|].
    split; [exact a6|].
    split; [rewrite a7; exact (d_hreq _ _ _ _ _ _ D)|].
    split; [rewrite c2; exact (d_vr _ _ _ _ _ _ D)|rewrite c3; exact (d_hc _ _ _ _ _ _ D)]. }
  destruct Epn as (s3 & moved & Epn & P1 & P2 & P3 & P4 & P5 & P6 & P7 & P8 & P9 & P10 & P11 & P12 & P13 & P14).
  rewrite Epn in Hn. cbn [fst snd] in Hn.
  split; [|split; [|rewrite Hk; discriminate]].
  - rewrite Hn.
    constructor; unfold node_sync, with_node; cbn [cw_node w_sync cw_chan cw_reqs best cw_peer];
      change (w_sync (cw_node w)) with (node_sync w).
    + exact (d_best _ _ _ _ _ _ D).
    + exact (d_chainB _ _ _ _ _ _ D).
    + lia.
    + rewrite P1, Hch. rewrite (take_S_r B k h HBk). rewrite chain_of_snoc; [reflexivity|].
      unfold k. destruct (is_chain_tail parent_of B (d_chainB _ _ _ _ _ _ D)) as (r & -> & _). discriminate.
    + unfold rids. rewrite P2, map_app, lift_ids, <- app_assoc.
      pose proof (d_ids _ _ _ _ _ _ D) as H0. unfold rids in H0. rewrite Erl, P3 in H0. cbn [map fst app] in H0.
      assert (H1 : map fst rl' ++ moved ++ to_request (rq s3) = take (T - k - 1) (drop (S k) B)).
      { symmetry in H0. apply take_drop_lookup in H0 as [_ H0]. exact H0. }
      rewrite H1. f_equal. lia.
    + pose proof (d_T _ _ _ _ _ _ D). lia.
    + rewrite P11. exact (d_start _ _ _ _ _ _ D).
    + replace (S k - 1)%nat with k by lia. rewrite P5. exact HBk.
    + exact P13.
    + exact P14.
    + exact P9.
    + exact P10.
    + exact P12.
    + rewrite P2. intros x sz' Hx. apply in_app_iff in Hx as [Hx|Hx].
      * apply (d_unit _ _ _ _ _ _ D x sz'). rewrite Erl. right. exact Hx.
      * unfold lift in Hx. apply in_map_iff in Hx as (y & Hy & _). discriminate.
    + rewrite P4, P2, sizes_app', sizes_lift, (d_pending _ _ _ _ _ _ D), Erl, sizes_cons'. cbn [snd]. lia.
    + exact P7.
    + exact P6.
    + rewrite P2. intros x sz' Hx. apply in_app_iff in Hx as [Hx|Hx].
      * eapply vtrue_same; [exact P8|]. apply (d_valid _ _ _ _ _ _ D x sz'). rewrite Erl. right. exact Hx.
      * unfold lift in Hx. apply in_map_iff in Hx as (y & Hy & _). discriminate.
    + constructor.
    + unfold getdata_of. destruct moved; [constructor|constructor; [exact I|constructor]].
    + rewrite P2. intros x Hx. apply in_app_iff in Hx as [Hx|Hx].
      * exfalso. destruct (d_cov _ _ _ _ _ _ D x) as [Hb|(ids' & Hg & _)]; [rewrite Erl; right; exact Hx| |].
        -- rewrite Hc in Hb. destruct Hb.
        -- rewrite Hr in Hg. destruct Hg.
      * unfold lift in Hx. apply in_map_iff in Hx as (y & Hy & Hin). injection Hy as ->.
        right. exists moved. split; [|exact Hin]. unfold getdata_of. destruct moved; [destruct Hin|left; reflexivity].
  - rewrite Hn. unfold mu, node_sync, with_node. cbn [cw_node w_sync cw_chan cw_reqs].
    change (w_sync (cw_node w)) with (node_sync w). rewrite Hc, Hr, Erl, P2, P3. cbn [length wsum].
    rewrite !app_length. unfold lift. rewrite map_length.
    unfold getdata_of. destruct moved as [|m0 moved]; cbn [wsum req_weight length]; lia.
Qed.

End Drain2.

Section Drain3.
Variables MAXR LIM HT HDT BT DELTA : Z.
Variable M : nat.
Variable parent_of : Z -> Z.
Hypothesis HMAXR : 1 <= MAXR.
Hypothesis HLIM : MAXR <= LIM.
Notation skind := (skind MAXR LIM HT HDT BT DELTA M parent_of).
Notation snext := (snext MAXR LIM HT HDT BT DELTA M parent_of).
Notation settle := (settle MAXR LIM HT HDT BT DELTA M parent_of).
Notation Drain := (Drain MAXR parent_of).

Definition Drained (B : list Z) (T : nat) (w : cworld) : Prop :=
  Drain B T w T /\ cw_chan w = [] /\ cw_reqs w = [] /\
  requested (rq (node_sync w)) = [] /\ to_request (rq (node_sync w)) = [].

Lemma drain_rest B T w k :
  Drain B T w k -> cw_chan w = [] -> cw_reqs w = [] -> head_ready (node_sync w) = false ->
  requested (rq (node_sync w)) = [] /\ to_request (rq (node_sync w)) = [] /\ k = T.
Proof.
  intros D Hc Hr Hh.
  assert (Er : requested (rq (node_sync w)) = []).
  { unfold head_ready in Hh. destruct (requested (rq (node_sync w))) as [|[x [sz|]] l] eqn:E; [reflexivity|discriminate|].
    exfalso. destruct (d_cov _ _ _ _ _ _ D x) as [Hb|(ids & Hg & _)]; [rewrite E; left; reflexivity| |].
    - rewrite Hc in Hb. destruct Hb.
    - rewrite Hr in Hg. destruct Hg. }
  assert (Et : to_request (rq (node_sync w)) = []).
  { destruct (d_full _ _ _ _ _ _ D) as [H|H]; [exact H|]. unfold full in H. rewrite Er in H. unfold zlen in H. cbn in H. lia. }
  split; [exact Er|]. split; [exact Et|].
  pose proof (d_ids _ _ _ _ _ _ D) as Hi. unfold rids in Hi. rewrite Er, Et in Hi. cbn in Hi.
  pose proof (d_T _ _ _ _ _ _ D) as HTk. pose proof (d_k _ _ _ _ _ _ D) as Hk.
  symmetry in Hi. apply (f_equal length) in Hi. rewrite take_length, drop_length in Hi. cbn in Hi. lia.
Qed.

Lemma drain_step B T w k :
  Drain B T w k ->
  (cw_chan w <> [] \/ cw_reqs w <> [] \/ head_ready (node_sync w) = true) ->
  exists k', Drain B T (snext w) k' /\ (mu (snext w) < mu w)%nat /\ skind w <> 0.
Proof.
  intros D H.
  destruct (cw_chan w) as [|m rest] eqn:Hc.
  - destruct (cw_reqs w) as [|r rest] eqn:Hr.
    + destruct H as [H|[H|H]]; try contradiction.
      exists (S k). apply drain_process with (LIM := LIM); assumption.
    + pose proof (d_reqs _ _ _ _ _ _ D) as Hg. rewrite Hr in Hg. inversion Hg as [|r0 l0 Hr0 _ E0]; subst.
      destruct r as [|ids|]; try destruct Hr0.
      exists k. eapply drain_answer; eassumption.
  - pose proof (d_chan _ _ _ _ _ _ D) as Hb. rewrite Hc in Hb. inversion Hb as [|m0 l0 Hm0 _ E0]; subst.
    destruct m as [| |id|]; try destruct Hm0.
    exists k. eapply drain_block; eassumption.
Qed.

Theorem drain_all B T : forall n w k, (mu w < n)%nat -> Drain B T w k -> exists m, Drained B T (settle m w).
Proof.
  induction n as [|n IH]; intros w k Hmu D; [lia|].
  destruct (cw_chan w) as [|m0 rest] eqn:Hc.
  - destruct (cw_reqs w) as [|r rest] eqn:Hr.
    + destruct (head_ready (node_sync w)) eqn:Hh.
      * destruct (drain_step B T w k D) as (k' & D' & Hlt & Hk); [right; right; exact Hh|].
        destruct (IH (snext w) k') as (m & Hm); [lia|exact D'|].
        exists (S m). rewrite settle_S. apply Z.eqb_neq in Hk. rewrite Hk. exact Hm.
      * exists O. rewrite settle_0. destruct (drain_rest B T w k D Hc Hr Hh) as (Er & Et & ->).
        split; [exact D|]. split; [exact Hc|]. split; [exact Hr|]. split; [exact Er|exact Et].
    + destruct (drain_step B T w k D) as (k' & D' & Hlt & Hk); [right; left; rewrite Hr; discriminate|].
      destruct (IH (snext w) k') as (m & Hm); [lia|exact D'|].
      exists (S m). rewrite settle_S. apply Z.eqb_neq in Hk. rewrite Hk. exact Hm.
  - destruct (drain_step B T w k D) as (k' & D' & Hlt & Hk); [left; rewrite Hc; discriminate|].
    destruct (IH (snext w) k') as (m & Hm); [lia|exact D'|].
    exists (S m). rewrite settle_S. apply Z.eqb_neq in Hk. rewrite Hk. exact Hm.
Qed.

End Drain3.

(* ---------------------------------------------------------------------------------------- *)
(* Part H: one round of header polling                                                       *)

Section ChainsMore.
Variable parent_of : Z -> Z.
Notation is_chain := (is_chain parent_of).
Notation linked_ids := (linked_ids parent_of).

Lemma linked_ids_drop l : forall p k x, linked_ids p l = true -> l !! k = Some x -> linked_ids x (drop (S k) l) = true.
Proof.
  induction l as [|y l IH]; intros p k x H Hx; [discriminate|].
  cbn [Peer.linked_ids] in H. apply andb_prop in H as [_ Hl].
  destruct k as [|k]; cbn in Hx.
  - injection Hx as <-. exact Hl.
  - cbn [drop]. eapply IH; eassumption.
Qed.

Lemma is_chain_linked_after B k t j :
  is_chain B = true -> B !! k = Some t -> linked_ids t (take j (drop (S k) B)) = true.
Proof.
  intros Hc Ht. apply linked_ids_take.
  destruct B as [|g r]; [discriminate|]. cbn [Peer.is_chain] in Hc. destruct g; try discriminate.
  destruct k as [|k]; cbn in Ht.
  - injection Ht as <-. exact Hc.
  - cbn [drop]. eapply linked_ids_drop; eassumption.
Qed.

Lemma chain_lookup_ne B i j x y : is_chain B = true -> B !! i = Some x -> B !! j = Some y -> i <> j -> x <> y.
Proof.
  intros Hc Hi Hj Hne ->. apply Hne.
  exact (proj1 (NoDup_alt B) (chain_NoDup parent_of B Hc) _ _ _ Hi Hj).
Qed.

End ChainsMore.

Lemma check_poll s :
  version_received s = true -> handshake_complete s = true -> ready s = false ->
  headers_requested s = None -> total_requests (rq s) < 5 ->
  check s = (upd_hreq s (Some (now s)), [OutGetHeaders (locator s 1)]).
Proof.
  intros Hv Hh Hr Hq Ht. unfold check. rewrite Hv, Hh. cbn [negb]. rewrite Hr, Hq.
  apply Z.ltb_lt in Ht. rewrite Ht. reflexivity.
Qed.

Lemma check_handshake s :
  version_received s = true -> handshake_complete s = false -> ready s = false ->
  check s = (Sync (chain s) (rq s) (valid_of s) (ready s) (pending_sync s) (was_in_sync s) (notified s)
               (start_height s) (start_hash s) (version_received s) true (sent_sendheaders s)
               (addrs_requested s) (Some (now s)) (connected s) (req_times s) (now s),
             [OutGetHeaders (locator s 0)]).
Proof.
  intros Hv Hh Hr. unfold check. rewrite Hv, Hh. cbn [negb]. cbn [ready headers_requested]. rewrite Hr. reflexivity.
Qed.

Section Rounds.
Variables MAXR LIM HT HDT BT DELTA : Z.
Variable M : nat.
Variable parent_of : Z -> Z.
Hypothesis HM : (2 <= M)%nat.
Hypothesis HMAXR : 1 <= MAXR.
Hypothesis HLIM : MAXR <= LIM.
Notation skind := (skind MAXR LIM HT HDT BT DELTA M parent_of).
Notation snext := (snext MAXR LIM HT HDT BT DELTA M parent_of).
Notation settle := (settle MAXR LIM HT HDT BT DELTA M parent_of).
Notation Drain := (Drain MAXR parent_of).
Notation Drained := (Drained MAXR parent_of).
Notation is_chain := (is_chain parent_of).
Notation hdrs_of := (hdrs_of parent_of).

Lemma settle_3 w :
  skind w <> 0 -> skind (snext w) <> 0 -> skind (snext (snext w)) <> 0 ->
  settle 3 w = snext (snext (snext w)).
Proof.
  intros H1 H2 H3. rewrite !settle_S. apply Z.eqb_neq in H1, H2, H3. rewrite H1, H2, H3. reflexivity.
Qed.

(* the world after: check (a header request goes out), the peer's reply, the reply handled *)
Lemma poll_steps w loc s1 :
  cw_chan w = [] -> cw_reqs w = [] -> head_ready (node_sync w) = false ->
  check (node_sync w) = (s1, [OutGetHeaders loc]) ->
  settle 3 w =
    CW (with_node w (handle_headers MAXR LIM s1 (answer_getheaders M parent_of (best w) loc)).1) (cw_peer w) []
       (match (handle_headers MAXR LIM s1 (answer_getheaders M parent_of (best w) loc)).2 with
        | Some l => getdata_of l | None => [] end)
       (add_new (cw_heard w) (ids_of (answer_getheaders M parent_of (best w) loc))).
Proof.
  intros Hc Hr Hh Ec.
  assert (He : check_enabled (node_sync w) = true) by (unfold check_enabled; rewrite Ec; reflexivity).
  destruct (step_check MAXR LIM HT HDT BT DELTA M parent_of w Hc Hr Hh He) as [K1 N1].
  rewrite Ec in N1. cbn [fst snd wire_of flat_map app] in N1.
  assert (C1 : cw_chan (snext w) = []) by (rewrite N1; reflexivity).
  assert (R1 : cw_reqs (snext w) = [RGetHeaders loc]) by (rewrite N1; reflexivity).
  destruct (step_answer MAXR LIM HT HDT BT DELTA M parent_of (snext w) _ _ C1 R1) as [K2 N2].
  unfold peer_answer in N2. rewrite C1 in N2. cbn [app] in N2.
  assert (C2 : cw_chan (snext (snext w)) = [MHeaders (answer_getheaders M parent_of (best w) loc)]).
  { rewrite N2. cbn [cw_chan]. rewrite N1. reflexivity. }
  destruct (step_headers MAXR LIM HT HDT BT DELTA M parent_of (snext (snext w)) _ _ C2) as [K3 N3].
  rewrite settle_3; [|rewrite K1; discriminate|rewrite K2; discriminate|rewrite K3; discriminate].
  rewrite N3. rewrite N2 at 1 2 3 4 5 6. unfold node_sync, with_node.
  cbn [cw_node cw_peer cw_chan cw_reqs cw_heard w_sync w_uverified app].
  rewrite N1. cbn [cw_node cw_peer cw_chan cw_reqs cw_heard w_sync w_uverified with_node]. reflexivity.
Qed.

End Rounds.

Lemma take_length_take {A} (l : list A) j : take (length (take j l)) l = take j l.
Proof.
  rewrite take_length. destruct (le_lt_dec j (length l)) as [H|H].
  - rewrite Nat.min_l by exact H. reflexivity.
  - rewrite Nat.min_r by lia. rewrite !take_ge by lia. reflexivity.
Qed.

Lemma last_hash_empty r : requested r = [] -> to_request r = [] -> last_hash r = last_saved r.
Proof. intros H1 H2. unfold last_hash. rewrite H1, H2. reflexivity. Qed.

Section Rounds2.
Variables MAXR LIM HT HDT BT DELTA : Z.
Variable M : nat.
Variable parent_of : Z -> Z.
Hypothesis HM : (2 <= M)%nat.
Hypothesis HMAXR : 1 <= MAXR.
Hypothesis HLIM : MAXR <= LIM.
Notation skind := (skind MAXR LIM HT HDT BT DELTA M parent_of).
Notation snext := (snext MAXR LIM HT HDT BT DELTA M parent_of).
Notation settle := (settle MAXR LIM HT HDT BT DELTA M parent_of).
Notation Drain := (Drain MAXR parent_of).
Notation Drained := (Drained MAXR parent_of).
Notation is_chain := (is_chain parent_of).
Notation hdrs_of := (hdrs_of parent_of).

(* a world whose node has just registered the headers `new` of a reply (nothing else in flight) drains *)
Lemma after_reply_drain B T w s s' new sent heard' :
  Drain B T w T -> requested (rq (node_sync w)) = [] -> to_request (rq (node_sync w)) = [] ->
  s = node_sync w \/ s = upd_hreq (node_sync w) (Some (now (node_sync w))) ->
  same_cleared s s' -> enq MAXR (rq s) (rq s') new sent ->
  new = take (length new) (drop T B) -> (T + length new <= length B)%nat ->
  Drain B (T + length new) (CW (with_node w s') (cw_peer w) [] (getdata_of sent) heard') T.
Proof.
  intros D Er Et Hs Hsame Henq Hnew Hlen.
  assert (Hrq : rq s = rq (node_sync w)) by (destruct Hs as [-> | ->]; reflexivity).
  destruct Hsame as (a1 & a2 & a3 & a4 & a5 & a6 & a7 & a8).
  destruct a8 as (c1 & c2 & c3 & c4 & c5 & c6 & c7 & c8).
  assert (Hsame' : chain s = chain (node_sync w) /\ ready s = ready (node_sync w) /\
                   pending_sync s = pending_sync (node_sync w) /\ start_height s = start_height (node_sync w) /\
                   version_received s = version_received (node_sync w) /\
                   handshake_complete s = handshake_complete (node_sync w) /\ valid_of s = valid_of (node_sync w)).
  { destruct Hs as [-> | ->]; repeat split. }
  destruct Hsame' as (b1 & b2 & b3 & b4 & b5 & b6 & b7).
  destruct Henq as [e1 e2 e3 e4 e5 e6 e7]. rewrite Hrq in *.
  assert (Hreq' : requested (rq s') = lift sent) by (rewrite e2, Er; reflexivity).
  constructor; unfold node_sync, with_node; cbn [cw_node w_sync cw_chan cw_reqs best cw_peer];
    change (w_sync (cw_node w)) with (node_sync w).
  - exact (d_best _ _ _ _ _ _ D).
  - exact (d_chainB _ _ _ _ _ _ D).
  - exact (d_k _ _ _ _ _ _ D).
  - rewrite a1, b1. exact (d_chain _ _ _ _ _ _ D).
  - rewrite e1. unfold rids at 1. rewrite Er, Et. cbn [map app]. replace (T + length new - T)%nat with (length new) by lia. exact Hnew.
  - lia.
  - rewrite a6, b4. exact (d_start _ _ _ _ _ _ D).
  - rewrite e4. exact (d_saved _ _ _ _ _ _ D).
  - rewrite c2, b5. exact (d_vr _ _ _ _ _ _ D).
  - rewrite c3, b6. exact (d_hc _ _ _ _ _ _ D).
  - rewrite a3, b2. exact (d_ready _ _ _ _ _ _ D).
  - rewrite a4, b3. exact (d_pend _ _ _ _ _ _ D).
  - exact a7.
  - rewrite Hreq'. intros x sz Hx. unfold lift in Hx. apply in_map_iff in Hx as (y & Hy & _). discriminate.
  - rewrite e3, Hreq', sizes_lift, (d_pending _ _ _ _ _ _ D), Er. reflexivity.
  - apply e5. rewrite Er. unfold zlen. cbn. lia.
  - apply e6. left. exact Et.
  - rewrite Hreq'. intros x sz Hx. unfold lift in Hx. apply in_map_iff in Hx as (y & Hy & _). discriminate.
  - constructor.
  - unfold getdata_of. destruct sent; [constructor|constructor; [exact I|constructor]].
  - rewrite Hreq'. intros x Hx. unfold lift in Hx. apply in_map_iff in Hx as (y & Hy & Hin). injection Hy as ->.
    right. exists sent. split; [|exact Hin]. unfold getdata_of. destruct sent; [destruct Hin|left; reflexivity].
Qed.

End Rounds2.

Section Rounds3.
Variables MAXR LIM HT HDT BT DELTA : Z.
Variable M : nat.
Variable parent_of : Z -> Z.
Hypothesis HM : (2 <= M)%nat.
Hypothesis HMAXR : 1 <= MAXR.
Hypothesis HLIM : MAXR <= LIM.
Notation skind := (skind MAXR LIM HT HDT BT DELTA M parent_of).
Notation snext := (snext MAXR LIM HT HDT BT DELTA M parent_of).
Notation settle := (settle MAXR LIM HT HDT BT DELTA M parent_of).
Notation Drain := (Drain MAXR parent_of).
Notation Drained := (Drained MAXR parent_of).
Notation is_chain := (is_chain parent_of).
Notation hdrs_of := (hdrs_of parent_of).

(* facts about a drained node *)
Lemma drained_facts B T w : Drained B T w ->
  let s := node_sync w in
  map fst (chain s) = take T B /\ requests_empty (rq s) = true /\ total_requests (rq s) = 0 /\
  last_hash (rq s) = last_saved (rq s) /\ pending (rq s) = 0 /\ (1 <= T <= length B)%nat /\
  B !! (T - 1)%nat = Some (last_saved (rq s)).
Proof.
  intros (D & Hc & Hr & Er & Et) s.
  assert (Hids : map fst (chain s) = take T B).
  { unfold s. rewrite (d_chain _ _ _ _ _ _ D). destruct (is_chain_tail parent_of B (d_chainB _ _ _ _ _ _ D)) as (r & -> & _).
    pose proof (d_k _ _ _ _ _ _ D) as Hk. destruct T as [|T0]; [lia|]. cbn [take]. apply chain_of_ids. }
  split; [exact Hids|].
  assert (Hemp : requests_empty (rq s) = true).
  { unfold requests_empty, total_requests. unfold s. rewrite Er, Et. reflexivity. }
  split; [exact Hemp|]. split; [unfold total_requests; unfold s; rewrite Er, Et; reflexivity|].
  split; [apply last_hash_empty; assumption|].
  split; [unfold s; rewrite (d_pending _ _ _ _ _ _ D), Er; reflexivity|].
  split; [exact (d_k _ _ _ _ _ _ D)|exact (d_saved _ _ _ _ _ _ D)].
Qed.

(* the poll locator of a drained node and the peer's reply to it *)
Lemma poll_reply B T w : Drained B T w ->
  exists loc,
    check (node_sync w) = (upd_hreq (node_sync w) (Some (now (node_sync w))), [OutGetHeaders loc]) /\
    answer_getheaders M parent_of B loc =
      hdrs_of (match T with
               | S (S _) => last_saved (rq (node_sync w)) :: take (M - 1) (drop T B)
               | _ => take M (drop T B)
               end).
Proof.
  intros HD. pose proof (drained_facts B T w HD) as (Hids & Hemp & Htot & Hlh & Hpend & HTb & Hsv).
  destruct HD as (D & Hc & Hr & Er & Et).
  pose proof (d_chainB _ _ _ _ _ _ D) as HcB.
  assert (Ec : forall loc, locator (node_sync w) 1 = loc ->
     check (node_sync w) = (upd_hreq (node_sync w) (Some (now (node_sync w))), [OutGetHeaders loc])).
  { intros loc <-. apply check_poll; [exact (d_vr _ _ _ _ _ _ D)|exact (d_hc _ _ _ _ _ _ D)|exact (d_ready _ _ _ _ _ _ D)
                                     |exact (d_hreq _ _ _ _ _ _ D)|rewrite Htot; lia]. }
  destruct T as [|[|T2]]; [lia| |].
  - (* only genesis *)
    assert (H0 : B !! 0%nat = Some 0) by (apply is_chain_head with (parent_of := parent_of); exact HcB).
    assert (Hg : map fst (chain (node_sync w)) = [0]).
    { rewrite Hids. destruct B as [|g r]; [discriminate|]. cbn in H0. injection H0 as ->. reflexivity. }
    exists [0]. split; [apply Ec; apply locator_genesis; assumption|].
    rewrite (answer_first parent_of M B 0 0 [] HcB H0). reflexivity.
  - (* the block below the tip *)
    assert (Hlt : (S T2 < length B)%nat) by lia.
    destruct (lookup_lt_is_Some_2 B T2) as [x Hx]; [lia|].
    destruct (locator_first (node_sync w) 1 (take (S (S T2)) B) x Hemp (or_intror eq_refl) Hids) as [t Ht].
    { rewrite take_length, Nat.min_l by lia. change (Z.to_nat 1) with 1%nat. lia. }
    { rewrite take_length, Nat.min_l by lia. change (Z.to_nat 1) with 1%nat.
      replace (S (S T2) - 1 - 1)%nat with T2 by lia. rewrite lookup_take by lia. exact Hx. }
    exists (x :: t). split; [apply Ec; exact Ht|].
    rewrite (answer_first parent_of M B T2 x t HcB Hx).
    replace (S (S T2) - 1)%nat with (S T2) in Hsv by lia.
    rewrite (drop_S B _ (S T2) Hsv). destruct M as [|M']; [lia|]. cbn [take]. replace (S M' - 1)%nat with M' by lia. reflexivity.
Qed.

(* more headers to learn: the round registers them and the window drains again *)
Lemma poll_round_more B T w :
  Drained B T w -> (T < length B)%nat ->
  exists T', (T < T' <= length B)%nat /\ Drain B T' (settle 3 w) T.
Proof.
  intros HD Hlt. pose proof (drained_facts B T w HD) as (Hids & Hemp & Htot & Hlh & Hpend & HTb & Hsv).
  destruct (poll_reply B T w HD) as (loc & Ec & Ea).
  destruct HD as (D & Hc & Hr & Er & Et).
  pose proof (d_chainB _ _ _ _ _ _ D) as HcB.
  assert (Hh : head_ready (node_sync w) = false) by (unfold head_ready; rewrite Er; reflexivity).
  rewrite (poll_steps MAXR LIM HT HDT BT DELTA M parent_of w loc _ Hc Hr Hh Ec).
  rewrite (d_best _ _ _ _ _ _ D), Ea.
  set (s1 := upd_hreq (node_sync w) (Some (now (node_sync w)))).
  assert (Hr1 : ready s1 = false) by exact (d_ready _ _ _ _ _ _ D).
  assert (Hs1 : start_height s1 <> -1) by exact (d_start _ _ _ _ _ _ D).
  assert (Hp1 : pending (rq s1) <= LIM) by (change (rq s1) with (rq (node_sync w)); rewrite Hpend; lia).
  assert (Hlh1 : last_hash (rq s1) = last_saved (rq (node_sync w))) by exact Hlh.
  destruct T as [|[|T2]]; [lia| |].
  - (* only genesis so far: every header of the reply connects *)
    set (new := take M (drop 1 B)).
    assert (Hne : new <> []).
    { unfold new. destruct (drop 1 B) eqn:E; [apply (f_equal length) in E; rewrite drop_length in E; cbn in E; lia|].
      destruct M; [lia|discriminate]. }
    destruct (hh_connect MAXR LIM parent_of s1 new Hr1 Hs1 Hp1 Hne) as (s' & sent & Eh & Hsame & Henq).
    { rewrite Hlh1. apply is_chain_linked_after; [exact HcB|exact Hsv]. }
    { intros x Hx. rewrite Hlh1. unfold new in Hx. apply In_take in Hx.
      apply elem_of_list_In, elem_of_list_lookup in Hx as (i & Hi). rewrite lookup_drop in Hi.
      eapply chain_lookup_ne; [exact HcB|exact Hi|exact Hsv|lia]. }
    rewrite Eh. cbn [fst snd].
    exists (1 + length new)%nat. split.
    + unfold new. rewrite take_length, drop_length. destruct new eqn:E; [contradiction|].
      apply (f_equal length) in E. unfold new in E. rewrite take_length, drop_length in E. cbn [length] in E. lia.
    + apply (after_reply_drain MAXR M parent_of HM HMAXR) with (s := s1); try assumption.
      * right. reflexivity.
      * unfold new. symmetry. apply take_length_take.
      * unfold new. rewrite take_length, drop_length. lia.
  - (* the tip again, then headers that connect *)
    set (t := last_saved (rq (node_sync w))) in *.
    set (new := take (M - 1) (drop (S (S T2)) B)).
    assert (Hne : new <> []).
    { unfold new. destruct (drop (S (S T2)) B) eqn:E; [apply (f_equal length) in E; rewrite drop_length in E; cbn in E; lia|].
      destruct (M - 1)%nat eqn:E2; [lia|discriminate]. }
    replace (S (S T2) - 1)%nat with (S T2) in Hsv by lia.
    destruct (hh_poll MAXR LIM parent_of s1 t new Hr1 Hs1 Hp1 (eq_sym Hlh1)) as (s' & sent & Eh & Hsame & Henq).
    { destruct (lookup_lt_is_Some_2 B T2) as [y Hy]; [lia|].
      destruct (is_chain_lookup parent_of B T2 t HcB Hsv) as [_ Hp]. rewrite Hy in Hp. cbn in Hp. rewrite Hp.
      eapply chain_lookup_ne; [exact HcB|exact Hy|exact Hsv|lia]. }
    { exact Hne. }
    { apply is_chain_linked_after; [exact HcB|exact Hsv]. }
    rewrite Eh. cbn [fst snd].
    exists (S (S T2) + length new)%nat. split.
    + unfold new. rewrite take_length, drop_length. destruct new eqn:E; [contradiction|].
      apply (f_equal length) in E. unfold new in E. rewrite take_length, drop_length in E. cbn [length] in E. lia.
    + apply (after_reply_drain MAXR M parent_of HM HMAXR) with (s := s1); try assumption.
      * right. reflexivity.
      * unfold new. symmetry. apply take_length_take.
      * unfold new. rewrite take_length, drop_length. lia.
Qed.

End Rounds3.

(* ---------------------------------------------------------------------------------------- *)
(* Part I: in sync                                                                           *)

Lemma check_ready s :
  version_received s = true -> handshake_complete s = true -> ready s = true ->
  check s =
    (Sync (chain s) (rq s) (valid_of s) (ready s) (pending_sync s) true (notified s || requests_empty (rq s))
          (start_height s) (start_hash s) (version_received s) (handshake_complete s) true true
          (headers_requested s) (connected s) (req_times s) (now s),
     (if negb (sent_sendheaders s) then [OutSendHeaders] else []) ++
     (if negb (addrs_requested s) then [OutGetAddr] else []) ++
     (if negb (notified s) && requests_empty (rq s) then [OutInSync] else [])).
Proof.
  intros Hv Hh Hr. unfold check. rewrite Hv, Hh. cbn [negb]. rewrite Hr. cbn [app]. rewrite ?Hv, ?Hh, ?Hr. reflexivity.
Qed.

Section Synced.
Variables MAXR LIM HT HDT BT DELTA : Z.
Variable M : nat.
Variable parent_of : Z -> Z.
Notation skind := (skind MAXR LIM HT HDT BT DELTA M parent_of).
Notation snext := (snext MAXR LIM HT HDT BT DELTA M parent_of).
Notation settle := (settle MAXR LIM HT HDT BT DELTA M parent_of).
Notation is_chain := (is_chain parent_of).

Record Synced (B : list Z) (w : cworld) : Prop := {
  sy_best : best w = B;
  sy_ids : map fst (chain (node_sync w)) = B;
  sy_ready : ready (node_sync w) = true;
  sy_req : requested (rq (node_sync w)) = [];
  sy_toreq : to_request (rq (node_sync w)) = [];
  sy_chan : cw_chan w = [];
  sy_vr : version_received (node_sync w) = true;
  sy_hc : handshake_complete (node_sync w) = true;
}.

Lemma synced_converged B w : Synced B w -> converged w = true.
Proof.
  intros Sy. unfold converged. rewrite (sy_ids _ _ Sy), (sy_best _ _ Sy), zeq_refl, (sy_ready _ _ Sy). reflexivity.
Qed.

Lemma synced_head B w : Synced B w -> head_ready (node_sync w) = false.
Proof. intros Sy. unfold head_ready. rewrite (sy_req _ _ Sy). reflexivity. Qed.

Lemma synced_empty B w : Synced B w -> requests_empty (rq (node_sync w)) = true.
Proof. intros Sy. unfold requests_empty, total_requests. rewrite (sy_req _ _ Sy), (sy_toreq _ _ Sy). reflexivity. Qed.

(* a synced node whose check has nothing left to say is at rest *)
Lemma synced_rest_now B w : Synced B w -> cw_reqs w = [] -> check_enabled (node_sync w) = false -> skind w = 0.
Proof.
  intros Sy Hr He. apply step_rest; [exact (sy_chan _ _ Sy)|exact Hr|exact (synced_head _ _ Sy)|exact He|exact (synced_converged _ _ Sy)].
Qed.

Lemma check_after_ready s :
  version_received s = true -> handshake_complete s = true -> ready s = true -> requests_empty (rq s) = true ->
  check_enabled (check s).1 = false.
Proof.
  intros Hv Hh Hr He. rewrite (check_ready s Hv Hh Hr). cbn [fst]. unfold check_enabled.
  rewrite check_ready; cbn [version_received handshake_complete ready]; try assumption.
  cbn [snd sent_sendheaders addrs_requested notified rq negb app]. rewrite He, orb_true_r. cbn [negb andb app].
  cbn [was_in_sync]. rewrite Hv, Hr. reflexivity.
Qed.

Theorem synced_settles B w : Synced B w -> (forall r, In r (cw_reqs w) -> r = RSendHeaders) ->
  exists n, converged (settle n w) = true /\ skind (settle n w) = 0.
Proof.
  intros Sy Hreqs.
  (* first let the peer consume what is on the wire *)
  assert (Hwire : forall l w0, cw_reqs w0 = l -> Synced B w0 -> (forall r, In r l -> r = RSendHeaders) ->
            exists n w1, settle n w0 = w1 /\ Synced B w1 /\ cw_reqs w1 = [] /\ node_sync w1 = node_sync w0).
  { induction l as [|r l IH]; intros w0 Hl S0 Hall.
    - exists O, w0. rewrite settle_0. auto.
    - assert (r = RSendHeaders) by (apply Hall; left; reflexivity). subst r.
      destruct (step_answer MAXR LIM HT HDT BT DELTA M parent_of w0 _ _ (sy_chan _ _ S0) Hl) as [K N].
      unfold peer_answer in N.
      destruct (IH (snext w0)) as (n & w1 & E & S1 & R1 & N1).
      + rewrite N. reflexivity.
      + rewrite N. constructor; unfold node_sync; cbn [cw_node cw_chan best cw_peer p_best];
          change (w_sync (cw_node w0)) with (node_sync w0);
          [exact (sy_best _ _ S0)|exact (sy_ids _ _ S0)|exact (sy_ready _ _ S0)|exact (sy_req _ _ S0)
          |exact (sy_toreq _ _ S0)|exact (sy_chan _ _ S0)|exact (sy_vr _ _ S0)|exact (sy_hc _ _ S0)].
      + intros r Hr. apply Hall. right. exact Hr.
      + exists (S n), w1. rewrite settle_S. assert (K' : (skind w0 =? 0) = false) by (rewrite K; reflexivity).
        rewrite K'. split; [exact E|]. split; [exact S1|]. split; [exact R1|]. rewrite N1, N. reflexivity. }
  destruct (Hwire (cw_reqs w) w eq_refl Sy Hreqs) as (n1 & w1 & E1 & S1 & R1 & _).
  destruct (check_enabled (node_sync w1)) eqn:He.
  - (* the check that marks / notifies in sync *)
    destruct (step_check MAXR LIM HT HDT BT DELTA M parent_of w1 (sy_chan _ _ S1) R1 (synced_head _ _ S1) He) as [K N].
    pose proof (check_ready (node_sync w1) (sy_vr _ _ S1) (sy_hc _ _ S1) (sy_ready _ _ S1)) as Ec.
    assert (S2 : Synced B (snext w1)).
    { rewrite N, Ec. constructor; unfold node_sync, with_node; cbn [cw_node w_sync cw_chan best cw_peer fst
        chain ready rq version_received handshake_complete]; change (w_sync (cw_node w1)) with (node_sync w1);
        [exact (sy_best _ _ S1)|exact (sy_ids _ _ S1)|exact (sy_ready _ _ S1)|exact (sy_req _ _ S1)
        |exact (sy_toreq _ _ S1)|reflexivity|exact (sy_vr _ _ S1)|exact (sy_hc _ _ S1)]. }
    assert (Hreqs2 : forall r, In r (cw_reqs (snext w1)) -> r = RSendHeaders).
    { rewrite N, Ec. cbn [cw_reqs snd]. unfold wire_of. intros r Hr. apply in_flat_map in Hr as (o & Ho & Hr).
      apply in_app_iff in Ho as [Ho|Ho].
      - destruct (negb (sent_sendheaders (node_sync w1))); [destruct Ho as [<-|[]]; destruct Hr as [<-|[]]; reflexivity|destruct Ho].
      - apply in_app_iff in Ho as [Ho|Ho].
        + destruct (negb (addrs_requested (node_sync w1))); [destruct Ho as [<-|[]]; destruct Hr|destruct Ho].
        + destruct (negb (notified (node_sync w1)) && requests_empty (rq (node_sync w1))); [destruct Ho as [<-|[]]; destruct Hr|destruct Ho]. }
    destruct (Hwire (cw_reqs (snext w1)) (snext w1) eq_refl S2 Hreqs2) as (n3 & w3 & E3 & S3 & R3 & N3).
    assert (He3 : check_enabled (node_sync w3) = false).
    { rewrite N3, N. unfold node_sync at 1, with_node. cbn [cw_node w_sync].
      apply check_after_ready; [exact (sy_vr _ _ S1)|exact (sy_hc _ _ S1)|exact (sy_ready _ _ S1)|exact (synced_empty _ _ S1)]. }
    exists (n1 + (1 + n3))%nat. rewrite settle_add, E1, settle_add.
    assert (K' : skind w1 <> 0) by (rewrite K; discriminate).
    rewrite (settle_step MAXR LIM HT HDT BT DELTA M parent_of w1 K'), E3.
    split; [exact (synced_converged _ _ S3)|exact (synced_rest_now _ _ S3 R3 He3)].
  - exists n1. rewrite E1. split; [exact (synced_converged _ _ S1)|exact (synced_rest_now _ _ S1 R1 He)].
Qed.

End Synced.

Section Rounds4.
Variables MAXR LIM HT HDT BT DELTA : Z.
Variable M : nat.
Variable parent_of : Z -> Z.
Hypothesis HM : (2 <= M)%nat.
Hypothesis HMAXR : 1 <= MAXR.
Hypothesis HLIM : MAXR <= LIM.
Notation skind := (skind MAXR LIM HT HDT BT DELTA M parent_of).
Notation snext := (snext MAXR LIM HT HDT BT DELTA M parent_of).
Notation settle := (settle MAXR LIM HT HDT BT DELTA M parent_of).
Notation Drain := (Drain MAXR parent_of).
Notation Drained := (Drained MAXR parent_of).
Notation is_chain := (is_chain parent_of).
Notation hdrs_of := (hdrs_of parent_of).

(* nothing more to learn: the reply is the tip alone (or empty): in sync *)
Lemma poll_round_done B T w :
  Drained B T w -> T = length B ->
  Synced B (settle 3 w) /\ cw_reqs (settle 3 w) = [].
Proof.
  intros HD HTB. pose proof (drained_facts MAXR M parent_of HM B T w HD) as (Hids & Hemp & Htot & Hlh & Hpend & HTb & Hsv).
  destruct (poll_reply MAXR M parent_of HM B T w HD) as (loc & Ec & Ea).
  destruct HD as (D & Hc & Hr & Er & Et).
  assert (Hh : head_ready (node_sync w) = false) by (unfold head_ready; rewrite Er; reflexivity).
  rewrite (poll_steps MAXR LIM HT HDT BT DELTA M parent_of w loc _ Hc Hr Hh Ec).
  rewrite (d_best _ _ _ _ _ _ D), Ea.
  set (s1 := upd_hreq (node_sync w) (Some (now (node_sync w)))).
  assert (Hdrop : drop T B = []) by (apply drop_ge; lia).
  assert (Hhs : let hs := hdrs_of match T with
                                   | S (S _) => last_saved (rq (node_sync w)) :: take (M - 1) (drop T B)
                                   | _ => take M (drop T B)
                                   end in
                hs = [] \/ exists p, hs = [(last_hash (rq s1), p)]).
  { rewrite Hdrop. destruct T as [|[|T2]]; cbn zeta.
    - left. destruct M; reflexivity.
    - left. destruct M; reflexivity.
    - right. exists (parent_of (last_saved (rq (node_sync w)))).
      change (last_hash (rq s1)) with (last_hash (rq (node_sync w))). rewrite Hlh.
      destruct (M - 1)%nat; reflexivity. }
  destruct (hh_insync MAXR LIM s1 _ (d_ready _ _ _ _ _ _ D) (d_start _ _ _ _ _ _ D) Hemp Hhs)
    as (s' & Eh & h1 & h2 & h3 & h4 & h5 & h6 & h7 & h8 & h9).
  rewrite Eh. cbn [fst snd getdata_of]. split; [|reflexivity].
  destruct h9 as (c1 & c2 & c3 & _).
  constructor; unfold node_sync, with_node; cbn [cw_node w_sync cw_chan best cw_peer];
    change (w_sync (cw_node w)) with (node_sync w).
  - exact (d_best _ _ _ _ _ _ D).
  - rewrite h1. change (chain s1) with (chain (node_sync w)). rewrite Hids. apply take_ge. lia.
  - exact h4.
  - rewrite h2. exact Er.
  - rewrite h2. exact Et.
  - reflexivity.
  - rewrite c2. exact (d_vr _ _ _ _ _ _ D).
  - rewrite c3. exact (d_hc _ _ _ _ _ _ D).
Qed.

(* from any draining world of a connection the run reaches rest, converged *)
Theorem drain_converges B : forall gap T w k,
  (length B - T <= gap)%nat -> Drain B T w k ->
  exists n, converged (settle n w) = true /\ skind (settle n w) = 0.
Proof.
  induction gap as [|gap IH]; intros T w k Hgap D.
  - destruct (drain_all MAXR LIM HT HDT BT DELTA M parent_of HMAXR HLIM B T (S (mu w)) w k (Nat.lt_succ_diag_r _) D) as (m & HD).
    pose proof (d_T _ _ _ _ _ _ D) as HT1.
    destruct (poll_round_done B T (settle m w) HD) as [Sy Hr]; [lia|].
    destruct (synced_settles MAXR LIM HT HDT BT DELTA M parent_of B _ Sy) as (n & Hn); [rewrite Hr; intros r []|].
    exists (m + (3 + n))%nat. rewrite settle_add, settle_add. exact Hn.
  - destruct (drain_all MAXR LIM HT HDT BT DELTA M parent_of HMAXR HLIM B T (S (mu w)) w k (Nat.lt_succ_diag_r _) D) as (m & HD).
    pose proof (d_T _ _ _ _ _ _ D) as HT1.
    destruct (le_lt_dec (length B) T) as [Hge|Hlt].
    + destruct (poll_round_done B T (settle m w) HD) as [Sy Hr]; [lia|].
      destruct (synced_settles MAXR LIM HT HDT BT DELTA M parent_of B _ Sy) as (n & Hn); [rewrite Hr; intros r []|].
      exists (m + (3 + n))%nat. rewrite settle_add, settle_add. exact Hn.
    + destruct (poll_round_more MAXR LIM HT HDT BT DELTA M parent_of HM HMAXR HLIM B T (settle m w) HD Hlt) as (T' & HT' & D').
      destruct (IH T' (settle 3 (settle m w)) T) as (n & Hn); [lia|exact D'|].
      exists (m + (3 + n))%nat. rewrite settle_add, settle_add. exact Hn.
Qed.

End Rounds4.

(* ---------------------------------------------------------------------------------------- *)
(* Part J: a freshly (re)established connection                                              *)

Definition is_inv (m : msg) : Prop := match m with MInv _ => True | _ => False end.

Section Fresh.
Variables MAXR LIM HT HDT BT DELTA : Z.
Variable M : nat.
Variable parent_of : Z -> Z.
Hypothesis HM : (2 <= M)%nat.
Hypothesis HMAXR : 1 <= MAXR.
Hypothesis HLIM : MAXR <= LIM.
Notation skind := (skind MAXR LIM HT HDT BT DELTA M parent_of).
Notation snext := (snext MAXR LIM HT HDT BT DELTA M parent_of).
Notation settle := (settle MAXR LIM HT HDT BT DELTA M parent_of).
Notation Drain := (Drain MAXR parent_of).
Notation is_chain := (is_chain parent_of).
Notation hdrs_of := (hdrs_of parent_of).

(* the node (not in sync) ignores block inventories *)
(* a block inventory clears the sync flags (ClearInSync); on a connection that was just made they are clear *)
Lemma clear_in_sync_id s :
  ready s = false -> pending_sync s = false -> was_in_sync s = false -> clear_in_sync s = s.
Proof. destruct s. cbn. intros -> -> ->. reflexivity. Qed.

Lemma deliver_invs invs : forall w,
  cw_chan w = invs -> Forall is_inv invs -> ready (node_sync w) = false ->
  pending_sync (node_sync w) = false -> was_in_sync (node_sync w) = false ->
  settle (length invs) w = CW (cw_node w) (cw_peer w) [] (cw_reqs w) (cw_heard w).
Proof.
  induction invs as [|m invs IH]; intros w Hc Hall Hr Hp Hw.
  - rewrite settle_0. destruct w. cbn in *. subst. reflexivity.
  - inversion Hall as [|m0 l0 Hm Hall' E0]; subst. destruct m as [| | |id]; try destruct Hm.
    destruct (step_inv MAXR LIM HT HDT BT DELTA M parent_of w id invs Hc) as [K N].
    cbn [length]. rewrite settle_S. assert (K' : (skind w =? 0) = false) by (rewrite K; reflexivity). rewrite K'.
    unfold Peer.handle_block_inv in N. rewrite (clear_in_sync_id _ Hr Hp Hw) in N.
    assert (Hn : snext w = CW (cw_node w) (cw_peer w) invs (cw_reqs w) (cw_heard w)).
    { rewrite N. unfold with_node, node_sync. destruct (cw_node w). reflexivity. }
    rewrite Hn. rewrite IH; [reflexivity|reflexivity|exact Hall'|exact Hr|exact Hp|exact Hw].
Qed.

(* the connection was just made: version (and possibly inventories of new tips) on its way, the node
   has the first k blocks of the peer's chain and nothing else, no request, no flag of the old connection *)
Record Fresh (B : list Z) (w : cworld) (k : nat) : Prop := {
  f_best : best w = B;
  f_chainB : is_chain B = true;
  f_k : (1 <= k <= length B)%nat;
  f_chain : chain (node_sync w) = chain_of parent_of (take k B);
  f_start : start_height (node_sync w) <> -1;
  f_req : requested (rq (node_sync w)) = [];
  f_toreq : to_request (rq (node_sync w)) = [];
  f_pending : pending (rq (node_sync w)) = 0;
  f_saved : B !! (k - 1)%nat = Some (last_saved (rq (node_sync w)));
  f_vr : version_received (node_sync w) = false;
  f_hc : handshake_complete (node_sync w) = false;
  f_ready : ready (node_sync w) = false;
  f_pend : pending_sync (node_sync w) = false;
  f_was : was_in_sync (node_sync w) = false;
  f_chan : exists invs, cw_chan w = MVersion :: invs /\ Forall is_inv invs;
  f_reqs : cw_reqs w = [];
}.

Theorem fresh_converges B w k : Fresh B w k ->
  exists n, converged (settle n w) = true /\ skind (settle n w) = 0.
Proof.
  intros F. destruct (f_chan _ _ _ F) as (invs & Hc & Hinv).
  (* version *)
  destruct (step_version MAXR LIM HT HDT BT DELTA M parent_of w invs Hc) as [K0 N0].
  rewrite (f_reqs _ _ _ F) in N0.
  set (s0 := Sync (chain (node_sync w)) (rq (node_sync w)) (valid_of (node_sync w)) (ready (node_sync w))
                 (pending_sync (node_sync w)) (was_in_sync (node_sync w)) (notified (node_sync w))
                 (start_height (node_sync w)) (start_hash (node_sync w)) true (handshake_complete (node_sync w))
                 (sent_sendheaders (node_sync w)) (addrs_requested (node_sync w)) (headers_requested (node_sync w))
                 (connected (node_sync w)) (req_times (node_sync w)) (now (node_sync w))) in *.
  (* inventories *)
  pose proof (deliver_invs invs (snext w)) as Hi. rewrite N0 in Hi. cbn [cw_chan cw_node cw_peer cw_reqs cw_heard] in Hi.
  specialize (Hi eq_refl Hinv (f_ready _ _ _ F) (f_pend _ _ _ F) (f_was _ _ _ F)).
  set (w1 := CW (with_node w s0) (cw_peer w) [] [] (cw_heard w)) in *.
  assert (E1 : settle (1 + length invs) w = w1).
  { rewrite settle_add. assert (K0' : skind w <> 0) by (rewrite K0; discriminate).
    rewrite (settle_step MAXR LIM HT HDT BT DELTA M parent_of w K0'), N0. exact Hi. }
  (* handshake: header request with the locator from the tip *)
  assert (Hns : node_sync w1 = s0) by reflexivity.
  assert (Hids : map fst (chain s0) = take k B).
  { cbn [chain s0]. rewrite (f_chain _ _ _ F). destruct (is_chain_tail parent_of B (f_chainB _ _ _ F)) as (r & -> & _).
    pose proof (f_k _ _ _ F) as Hk. destruct k as [|k0]; [lia|]. cbn [take]. apply chain_of_ids. }
  assert (Hemp : requests_empty (rq s0) = true).
  { unfold requests_empty, total_requests. cbn [rq s0]. rewrite (f_req _ _ _ F), (f_toreq _ _ _ F). reflexivity. }
  pose proof (f_k _ _ _ F) as Hk. pose proof (f_saved _ _ _ F) as Hsv.
  destruct (locator_first s0 0 (take k B) (last_saved (rq (node_sync w))) Hemp (or_introl eq_refl) Hids) as [t Hloc].
  { rewrite take_length, Nat.min_l by lia. change (Z.to_nat 0) with 0%nat. lia. }
  { rewrite take_length, Nat.min_l by lia. change (Z.to_nat 0) with 0%nat.
    replace (k - 1 - 0)%nat with (k - 1)%nat by lia. rewrite lookup_take by lia. exact Hsv. }
  set (s1 := Sync (chain s0) (rq s0) (valid_of s0) (ready s0) (pending_sync s0) (was_in_sync s0) (notified s0)
                  (start_height s0) (start_hash s0) (version_received s0) true (sent_sendheaders s0)
                  (addrs_requested s0) (Some (now s0)) (connected s0) (req_times s0) (now s0)).
  assert (Ec : check (node_sync w1) = (s1, [OutGetHeaders (last_saved (rq (node_sync w)) :: t)])).
  { rewrite Hns, <- Hloc. apply check_handshake; [reflexivity|exact (f_hc _ _ _ F)|exact (f_ready _ _ _ F)]. }
  assert (Hh1 : head_ready (node_sync w1) = false).
  { rewrite Hns. unfold head_ready. cbn [rq s0]. rewrite (f_req _ _ _ F). reflexivity. }
  pose proof (poll_steps MAXR LIM HT HDT BT DELTA M parent_of w1 _ _ eq_refl eq_refl Hh1 Ec) as E3.
  assert (Hb1 : best w1 = B) by exact (f_best _ _ _ F).
  rewrite Hb1 in E3.
  rewrite (answer_first parent_of M B (k - 1) _ t (f_chainB _ _ _ F) Hsv) in E3.
  replace (S (k - 1)) with k in E3 by lia.
  (* the world the reply meets, seen as a drained one whose header request is outstanding *)
  set (s_star := upd_hreq s1 None).
  set (w_star := CW (with_node w1 s_star) (cw_peer w1) [] [] (cw_heard w1)).
  assert (Dstar : Drain B k w_star k).
  { constructor; unfold w_star, node_sync, with_node; cbn [cw_node w_sync cw_chan cw_reqs best cw_peer];
      cbn [s_star upd_hreq s1 s0 chain rq valid_of ready pending_sync start_height version_received handshake_complete
           headers_requested].
    - exact (f_best _ _ _ F).
    - exact (f_chainB _ _ _ F).
    - exact Hk.
    - exact (f_chain _ _ _ F).
    - unfold rids. rewrite (f_req _ _ _ F), (f_toreq _ _ _ F), Nat.sub_diag. reflexivity.
    - lia.
    - exact (f_start _ _ _ F).
    - exact Hsv.
    - reflexivity.
    - reflexivity.
    - exact (f_ready _ _ _ F).
    - exact (f_pend _ _ _ F).
    - reflexivity.
    - rewrite (f_req _ _ _ F). intros x sz [].
    - rewrite (f_req _ _ _ F). exact (f_pending _ _ _ F).
    - rewrite (f_req _ _ _ F). unfold zlen. cbn. lia.
    - left. exact (f_toreq _ _ _ F).
    - rewrite (f_req _ _ _ F). intros x sz [].
    - constructor.
    - constructor.
    - rewrite (f_req _ _ _ F). intros x []. }
  assert (Hs1 : s1 = upd_hreq (node_sync w_star) (Some (now (node_sync w_star)))) by reflexivity.
  assert (Hlh1 : last_hash (rq s1) = last_saved (rq (node_sync w))).
  { apply last_hash_empty; cbn [rq s1 s0]; [exact (f_req _ _ _ F)|exact (f_toreq _ _ _ F)]. }
  destruct (le_lt_dec (length B) k) as [Hge|Hlt].
  - (* nothing to learn: empty reply, in sync *)
    assert (Hdrop : take M (drop k B) = []) by (rewrite drop_ge by lia; destruct M; reflexivity).
    rewrite Hdrop in E3.
    destruct (hh_insync MAXR LIM s1 (hdrs_of []) (f_ready _ _ _ F) (f_start _ _ _ F) Hemp (or_introl eq_refl))
      as (s' & Eh & h1 & h2 & h3 & h4 & h5 & h6 & h7 & h8 & h9).
    rewrite Eh in E3. cbn [fst snd getdata_of] in E3.
    destruct h9 as (c1 & c2 & c3 & _).
    assert (Sy : Synced B (settle 3 w1)).
    { rewrite E3. constructor; unfold node_sync, with_node; cbn [cw_node w_sync cw_chan best cw_peer].
      - exact (f_best _ _ _ F).
      - rewrite h1. change (chain s1) with (chain s0). rewrite Hids. apply take_ge. lia.
      - exact h4.
      - rewrite h2. exact (f_req _ _ _ F).
      - rewrite h2. exact (f_toreq _ _ _ F).
      - reflexivity.
      - rewrite c2. reflexivity.
      - rewrite c3. reflexivity. }
    destruct (synced_settles MAXR LIM HT HDT BT DELTA M parent_of B _ Sy) as (n & Hn); [rewrite E3; intros r []|].
    exists ((1 + length invs) + (3 + n))%nat. rewrite settle_add, E1, settle_add. exact Hn.
  - (* the reply's headers connect: drain, then poll *)
    set (new := take M (drop k B)) in *.
    assert (Hne : new <> []).
    { unfold new. destruct (drop k B) eqn:E; [apply (f_equal length) in E; rewrite drop_length in E; cbn in E; lia|].
      destruct M; [lia|discriminate]. }
    destruct (hh_connect MAXR LIM parent_of s1 new (f_ready _ _ _ F) (f_start _ _ _ F)) as (s' & sent & Eh & Hsame & Henq).
    { cbn [rq s1 s0]. rewrite (f_pending _ _ _ F). lia. }
    { exact Hne. }
    { rewrite Hlh1. unfold new. replace (drop k B) with (drop (S (k - 1)) B) by (f_equal; lia).
      apply is_chain_linked_after; [exact (f_chainB _ _ _ F)|exact Hsv]. }
    { intros x Hx. rewrite Hlh1. unfold new in Hx. apply In_take in Hx.
      apply elem_of_list_In, elem_of_list_lookup in Hx as (i & Hix). rewrite lookup_drop in Hix.
      eapply chain_lookup_ne; [exact (f_chainB _ _ _ F)|exact Hix|exact Hsv|lia]. }
    rewrite Eh in E3. cbn [fst snd] in E3.
    assert (D' : Drain B (k + length new) (settle 3 w1) k).
    { rewrite E3. change (with_node w1 s') with (with_node w_star s'). change (cw_peer w1) with (cw_peer w_star).
      apply (after_reply_drain MAXR M parent_of HM HMAXR) with (s := s1); try assumption.
      - exact (f_req _ _ _ F).
      - exact (f_toreq _ _ _ F).
      - right. exact Hs1.
      - unfold new. symmetry. apply take_length_take.
      - unfold new. rewrite take_length, drop_length. lia. }
    assert (Hgap : (length B - (k + length new) <= length B)%nat) by lia.
    destruct (drain_converges MAXR LIM HT HDT BT DELTA M parent_of HM HMAXR HLIM B (length B) _ _ _ Hgap D')
      as (n & Hn).
    exists ((1 + length invs) + (3 + n))%nat. rewrite settle_add, E1, settle_add. exact Hn.
Qed.

End Fresh.

(* ---------------------------------------------------------------------------------------- *)
(* Part K: the executable predicate and the theorem                                          *)

Definition hdr_eqb (a b : hdr) : bool := (fst a =? fst b) && (snd a =? snd b).

Fixpoint hdrs_eqb (a b : list hdr) : bool :=
  match a, b with
  | [], [] => true
  | x :: a', y :: b' => hdr_eqb x y && hdrs_eqb a' b'
  | _, _ => false
  end.

Lemma hdrs_eqb_eq a : forall b, hdrs_eqb a b = true -> a = b.
Proof.
  induction a as [|[x1 x2] a IH]; intros [|[y1 y2] b] H; try discriminate; [reflexivity|].
  cbn in H. apply andb_prop in H as [H H']. apply andb_prop in H as [H1 H2].
  apply Z.eqb_eq in H1, H2. cbn in H1, H2. subst. f_equal. apply IH. exact H'.
Qed.

Definition is_invb (m : msg) : bool := match m with MInv _ => true | _ => false end.

(* the connection has just been (re)established and the node is BEHIND the peer on the peer's own chain
   (no reorganisation to undo), its start block found *)
Definition clean_behind (parent_of : Z -> Z) (w : cworld) : bool :=
  let s := node_sync w in
  let B := best w in
  let k := length (chain s) in
  is_chain parent_of B &&
  hdrs_eqb (chain s) (chain_of parent_of (take k B)) &&
  (1 <=? k)%nat && (k <=? length B)%nat &&
  negb (start_height s =? -1) &&
  match requested (rq s), to_request (rq s) with [], [] => true | _, _ => false end &&
  (pending (rq s) =? 0) &&
  match B !! (k - 1)%nat with Some x => x =? last_saved (rq s) | None => false end &&
  negb (version_received s) && negb (handshake_complete s) && negb (ready s) && negb (pending_sync s) &&
  negb (was_in_sync s) &&
  match cw_chan w with MVersion :: invs => forallb is_invb invs | _ => false end &&
  match cw_reqs w with [] => true | _ => false end.

Section Partial.
Variables MAXR LIM HT HDT BT DELTA : Z.
Variable M : nat.
Variable parent_of : Z -> Z.
Hypothesis HM : (2 <= M)%nat.
Hypothesis HMAXR : 1 <= MAXR.
Hypothesis HLIM : MAXR <= LIM.
Notation settle := (settle MAXR LIM HT HDT BT DELTA M parent_of).
Notation skind := (skind MAXR LIM HT HDT BT DELTA M parent_of).

Lemma clean_behind_fresh w :
  clean_behind parent_of w = true -> Fresh parent_of (best w) w (length (chain (node_sync w))).
Proof.
  unfold clean_behind. intros H.
  repeat (apply andb_prop in H as [H ?]).
  repeat match goal with X : negb _ = true |- _ => apply negb_true_iff in X end.
  match goal with X : hdrs_eqb _ _ = true |- _ => apply hdrs_eqb_eq in X; rename X into Hchain end.
  match goal with X : (1 <=? _)%nat = true |- _ => apply Nat.leb_le in X; rename X into Hk1 end.
  match goal with X : (_ <=? length _)%nat = true |- _ => apply Nat.leb_le in X; rename X into Hk2 end.
  match goal with X : (start_height _ =? -1) = false |- _ => apply Z.eqb_neq in X; rename X into Hst end.
  match goal with X : (pending _ =? 0) = true |- _ => apply Z.eqb_eq in X; rename X into Hpe end.
  destruct (requested (rq (node_sync w))) eqn:Er; [|discriminate].
  destruct (to_request (rq (node_sync w))) eqn:Et; [|discriminate].
  destruct (best w !! (length (chain (node_sync w)) - 1)%nat) as [x|] eqn:Ex; [|discriminate].
  match goal with X : (x =? _) = true |- _ => apply Z.eqb_eq in X; subst x end.
  destruct (cw_chan w) as [|[| | |] invs] eqn:Ec; try discriminate.
  destruct (cw_reqs w) eqn:Erq; [|discriminate].
  constructor; try assumption; try reflexivity.
  - lia.
  - exists invs. split; [exact Ec|]. apply List.Forall_forall. intros m Hm.
    match goal with X : forallb is_invb invs = true |- _ => rewrite forallb_forall in X; specialize (X m Hm) end.
    destruct m; try discriminate. exact I.
Qed.

(* LIVENESS for freshly connected worlds (whatever history left the node's store and the peer's
   chain in that state): the settling run comes to rest with the node's chain equal to the peer's
   best chain and the node in sync *)
Theorem converges_clean_behind w :
  clean_behind parent_of w = true ->
  exists n, converged (settle n w) = true /\ skind (settle n w) = 0.
Proof.
  intros H. eapply fresh_converges; try eassumption. apply clean_behind_fresh. exact H.
Qed.

End Partial.
