(* C01, liveness for freshly connected worlds in which the node's stored chain has FORKED from the
   peer's best chain (a reorganisation happened while disconnected): the handshake reply starts at or
   below the fork point, its known headers are skipped, the first unknown one reverts the store to
   the fork point and is registered, the rest connect; then as in Converge_Clean. *)
From V.lib Require Import Base.
From V.model Require Import Requests Sync SyncSpec Peer.
From V.proofs Require Import Sync_Proofs Converge_Proofs Converge_Clean.

Local Open Scope Z_scope.

Lemma hgo_index (c : list hdr) : forall (i0 : Z) (i : nat) (x : Z),
  NoDup (map fst c) -> (map fst c) !! i = Some x -> hgo x c i0 = Some (i0 + Z.of_nat i).
Proof.
  induction c as [|h c IH]; intros i0 i x Hnd Hx; [discriminate|].
  cbn [map] in Hnd. apply NoDup_cons in Hnd as [Hni Hnd]. rewrite hgo_cons.
  destruct i as [|i]; cbn in Hx.
  - injection Hx as ->. rewrite Z.eqb_refl. f_equal. lia.
  - destruct (fst h =? x) eqn:E.
    + apply Z.eqb_eq in E. exfalso. apply Hni. rewrite E. eapply elem_of_list_lookup_2. exact Hx.
    + rewrite (IH (i0 + 1) i x Hnd Hx). f_equal. lia.
Qed.

Lemma height_of_index s i x :
  NoDup (map fst (chain s)) -> (map fst (chain s)) !! i = Some x -> height_of s x = Some (Z.of_nat i).
Proof. intros Hnd Hx. rewrite height_of_hgo. rewrite (hgo_index _ 0 i x Hnd Hx). f_equal. Qed.

Section Fork.
Variables MAXR LIM : Z.
Variable parent_of : Z -> Z.
Notation hdrs_of := (hdrs_of parent_of).

(* headers the node already has (none of them the child of, or equal to, the window's last hash) *)
Lemma skip_known known : forall s lh rest acc m,
  (forall x, In x known -> parent_of x <> lh /\ x <> lh /\ contains s x = true) ->
  headers_loop MAXR LIM s lh (hdrs_of known ++ rest) acc m = headers_loop MAXR LIM s lh rest acc m.
Proof.
  induction known as [|x known IH]; intros s lh rest acc m H; [reflexivity|].
  destruct (H x (or_introl eq_refl)) as (H1 & H2 & H3).
  change (hdrs_of (x :: known) ++ rest) with ((x, parent_of x) :: (hdrs_of known ++ rest)).
  cbn [headers_loop fst snd].
  assert (E1 : (lh =? parent_of x) = false) by (apply Z.eqb_neq; congruence).
  assert (E2 : (x =? lh) = false) by (apply Z.eqb_neq; congruence).
  rewrite E1, E2, H3. cbn [orb]. apply IH. intros y Hy. apply H. right. exact Hy.
Qed.

(* the state after the store was reverted to height rh: requests cleared, not in sync, last hash = new tip *)
Definition reverted (s : sync) (rh : Z) : sync :=
  let s1 := upd_rq (clear_in_sync s) (clear_all (rq s)) in
  let s2 := take_chain s1 rh in
  upd_rq s2 (set_last_hash (rq s2) (tip s2)).

Lemma reverted_chain s rh : chain (reverted s rh) = take (Z.to_nat (rh + 1)) (chain s).
Proof. reflexivity. Qed.

Lemma reverted_rq s rh : rq (reverted s rh) = RState [] [] 0 (tip (reverted s rh)).
Proof. reflexivity. Qed.

Lemma reverted_flags s rh :
  ready (reverted s rh) = false /\ pending_sync (reverted s rh) = false /\
  start_height (reverted s rh) = start_height s /\ valid_of (reverted s rh) = valid_of s /\
  version_received (reverted s rh) = version_received s /\ handshake_complete (reverted s rh) = handshake_complete s /\
  headers_requested (reverted s rh) = headers_requested s /\ now (reverted s rh) = now s.
Proof. repeat split. Qed.

(* the first header that forks off below the tip: revert, then it is handled like a header that connects *)
Lemma fork_step s lh h hs' acc m rh :
  (lh =? snd h) = false -> (fst h =? lh) = false ->
  contains s (fst h) = false -> is_requested (rq s) (fst h) = false -> is_to_be_requested (rq s) (fst h) = false ->
  is_requested (rq s) (snd h) = false -> is_to_be_requested (rq s) (snd h) = false ->
  height_of s (snd h) = Some rh -> (rh =? height s) = false ->
  headers_loop MAXR LIM s lh (h :: hs') acc m =
  headers_loop MAXR LIM (reverted s rh) (snd h) (h :: hs') acc true.
Proof.
  intros E1 E2 E3 E4 E5 E6 E7 E8 E9.
  cbn [headers_loop]. rewrite E1, E2, E3, E4, E5, E6, E7, E8, E9. cbn [orb].
  rewrite Z.eqb_refl. unfold reverted. cbv zeta. reflexivity.
Qed.

End Fork.

(* the locator only looks at the stored chain and the request window *)
Lemma locator_loop_ext fuel : forall s s' d acc,
  chain s = chain s' -> locator_loop fuel s d acc = locator_loop fuel s' d acc.
Proof.
  assert (Hh : forall s s', chain s = chain s' -> height s = height s') by (intros s s' E; unfold height; rewrite E; reflexivity).
  assert (Ha : forall s s' x, chain s = chain s' -> hash_at s x = hash_at s' x) by (intros s s' x E; unfold hash_at; rewrite E; reflexivity).
  induction fuel as [|f IH]; intros s s' d acc E.
  - Transparent locator_loop. reflexivity. Opaque locator_loop.
  - rewrite !locator_loop_S. rewrite (Hh s s' E), (Ha s s' _ E).
    destruct (d >? height s'); [reflexivity|]. destruct (hash_at s' (height s' - d)); [|reflexivity].
    cbv zeta. destruct (zlen (acc ++ [z]) >? 50); [reflexivity|]. destruct (height s' <=? d); [reflexivity|].
    apply IH. exact E.
Qed.

Lemma locator_ext s s' d : chain s = chain s' -> rq s = rq s' -> locator s d = locator s' d.
Proof.
  intros Ec Er. unfold locator. rewrite Er. rewrite (locator_loop_ext 64 s s' d _ Ec).
  unfold hash_at. rewrite Ec. reflexivity.
Qed.

Section Handshake.
Variables MAXR LIM HT HDT BT DELTA : Z.
Variable M : nat.
Variable parent_of : Z -> Z.
Notation skind := (skind MAXR LIM HT HDT BT DELTA M parent_of).
Notation snext := (snext MAXR LIM HT HDT BT DELTA M parent_of).
Notation settle := (settle MAXR LIM HT HDT BT DELTA M parent_of).

(* node state after `version` was handled / after the handshake check *)
Definition after_version (s : sync) : sync :=
  Sync (chain s) (rq s) (valid_of s) (ready s) (pending_sync s) (was_in_sync s) (notified s)
       (start_height s) (start_hash s) true (handshake_complete s) (sent_sendheaders s) (addrs_requested s)
       (headers_requested s) (connected s) (req_times s) (now s).

Definition after_handshake (s : sync) : sync :=
  Sync (chain s) (rq s) (valid_of s) (ready s) (pending_sync s) (was_in_sync s) (notified s)
       (start_height s) (start_hash s) true true (sent_sendheaders s) (addrs_requested s)
       (Some (now s)) (connected s) (req_times s) (now s).

(* version, inventories, handshake check, the peer's reply, the reply handled *)
Lemma handshake_steps w invs :
  cw_chan w = MVersion :: invs -> Forall is_inv invs -> cw_reqs w = [] ->
  handshake_complete (node_sync w) = false -> ready (node_sync w) = false ->
  pending_sync (node_sync w) = false -> was_in_sync (node_sync w) = false ->
  requested (rq (node_sync w)) = [] ->
  let s1 := after_handshake (node_sync w) in
  let reply := answer_getheaders M parent_of (best w) (locator (node_sync w) 0) in
  settle (1 + length invs + 3) w =
    CW (with_node w (handle_headers MAXR LIM s1 reply).1) (cw_peer w) []
       (match (handle_headers MAXR LIM s1 reply).2 with Some l => getdata_of l | None => [] end)
       (add_new (cw_heard w) (ids_of reply)).
Proof.
  intros Hc Hinv Hr Hhc Hrd Hpd Hws Hreq s1 reply.
  destruct (step_version MAXR LIM HT HDT BT DELTA M parent_of w invs Hc) as [K0 N0].
  rewrite Hr in N0. change (Sync _ _ _ _ _ _ _ _ _ true _ _ _ _ _ _ _) with (after_version (node_sync w)) in N0.
  pose proof (deliver_invs MAXR LIM HT HDT BT DELTA M parent_of invs (snext w)) as Hi. rewrite N0 in Hi.
  cbn [cw_chan cw_node cw_peer cw_reqs cw_heard] in Hi. specialize (Hi eq_refl Hinv Hrd Hpd Hws).
  set (w1 := CW (with_node w (after_version (node_sync w))) (cw_peer w) [] [] (cw_heard w)) in *.
  assert (E1 : settle (1 + length invs) w = w1).
  { rewrite settle_add. assert (K0' : skind w <> 0) by (rewrite K0; discriminate).
    rewrite (settle_step MAXR LIM HT HDT BT DELTA M parent_of w K0'), N0. exact Hi. }
  assert (Ec : check (node_sync w1) = (s1, [OutGetHeaders (locator (after_version (node_sync w)) 0)])).
  { change (node_sync w1) with (after_version (node_sync w)). apply check_handshake; [reflexivity|exact Hhc|exact Hrd]. }
  assert (Hh1 : head_ready (node_sync w1) = false).
  { unfold head_ready. change (requested (rq (node_sync w1))) with (requested (rq (node_sync w))). rewrite Hreq. reflexivity. }
  pose proof (poll_steps MAXR LIM HT HDT BT DELTA M parent_of w1 _ _ eq_refl eq_refl Hh1 Ec) as E3.
  rewrite (settle_add MAXR LIM HT HDT BT DELTA M parent_of (1 + length invs) 3 w), E1, E3.
  rewrite (locator_ext (after_version (node_sync w)) (node_sync w) 0 eq_refl eq_refl). reflexivity.
Qed.

End Handshake.

Lemma take_split {A} (l : list A) n m : (n <= m)%nat -> take m l = take n l ++ take (m - n) (drop n l).
Proof.
  revert n m. induction l as [|x l IH]; intros n m H.
  - rewrite !take_nil, drop_nil, take_nil. reflexivity.
  - destruct n as [|n]; [cbn; rewrite Nat.sub_0_r; reflexivity|].
    destruct m as [|m]; [lia|]. cbn [take drop app]. f_equal. replace (S m - S n)%nat with (m - n)%nat by lia.
    apply IH. lia.
Qed.

Lemma chain_of_take parent_of C f : (1 <= f)%nat -> take f (chain_of parent_of C) = chain_of parent_of (take f C).
Proof.
  intros Hf. destruct C as [|g r]; [rewrite take_nil; cbn [chain_of]; rewrite take_nil; reflexivity|].
  destruct f as [|f]; [lia|]. cbn [take chain_of]. f_equal. unfold Peer.hdrs_of.
  clear Hf. revert f. induction r as [|y r IH]; intros [|f]; cbn; try reflexivity. f_equal. apply IH.
Qed.

Lemma last_In_drop {A} (l : list A) f x : (f < length l)%nat -> last l = Some x -> In x (drop f l).
Proof.
  intros Hf Hl. rewrite last_lookup in Hl.
  apply elem_of_list_In. apply elem_of_list_lookup. exists (Nat.pred (length l) - f)%nat.
  rewrite lookup_drop. replace (f + (Nat.pred (length l) - f))%nat with (Nat.pred (length l)) by lia. exact Hl.
Qed.

Section ForkTheorem.
Variables MAXR LIM HT HDT BT DELTA : Z.
Variable M : nat.
Variable parent_of : Z -> Z.
Hypothesis HM : (2 <= M)%nat.
Hypothesis HMAXR : 1 <= MAXR.
Hypothesis HLIM : MAXR <= LIM.
Notation skind := (skind MAXR LIM HT HDT BT DELTA M parent_of).
Notation settle := (settle MAXR LIM HT HDT BT DELTA M parent_of).
Notation Drain := (Drain MAXR parent_of).
Notation is_chain := (is_chain parent_of).
Notation hdrs_of := (hdrs_of parent_of).

(* the connection was just made; the node's chain C shares its first f blocks with the peer's chain B
   and continues differently; the peer's reply to the handshake locator starts after block i < f and
   reaches block f *)
Record FreshFork (B C : list Z) (w : cworld) (f i : nat) : Prop := {
  ff_best : best w = B;
  ff_chainB : is_chain B = true;
  ff_chainC : is_chain C = true;
  ff_chain : chain (node_sync w) = chain_of parent_of C;
  ff_common : take f C = take f B;
  ff_f : (1 <= f)%nat /\ (f < length C)%nat /\ (f < length B)%nat;
  ff_stale : forall x, In x (drop f C) -> ~ In x B;
  ff_i : (i < f)%nat /\ (f <= i + M)%nat;
  ff_reply : answer_getheaders M parent_of B (locator (node_sync w) 0) = hdrs_of (take M (drop (S i) B));
  ff_start : start_height (node_sync w) <> -1;
  ff_req : requested (rq (node_sync w)) = [];
  ff_toreq : to_request (rq (node_sync w)) = [];
  ff_saved : last C = Some (last_saved (rq (node_sync w)));
  ff_hc : handshake_complete (node_sync w) = false;
  ff_ready : ready (node_sync w) = false;
  ff_pend : pending_sync (node_sync w) = false;
  ff_was : was_in_sync (node_sync w) = false;
  ff_chan : exists invs, cw_chan w = MVersion :: invs /\ Forall is_inv invs;
  ff_reqs : cw_reqs w = [];
}.

Theorem fork_converges B C w f i : FreshFork B C w f i ->
  exists n, converged (settle n w) = true /\ skind (settle n w) = 0.
Proof.
  intros F. destruct (ff_chan _ _ _ _ _ F) as (invs & Hc & Hinv).
  destruct (ff_f _ _ _ _ _ F) as (Hf1 & HfC & HfB). destruct (ff_i _ _ _ _ _ F) as (Hif & HiM).
  pose proof (ff_chainB _ _ _ _ _ F) as HcB. pose proof (ff_chainC _ _ _ _ _ F) as HcC.
  pose proof (chain_NoDup parent_of B HcB) as HndB. pose proof (chain_NoDup parent_of C HcC) as HndC.
  pose proof (handshake_steps MAXR LIM HT HDT BT DELTA M parent_of w invs Hc Hinv (ff_reqs _ _ _ _ _ F)
                (ff_hc _ _ _ _ _ F) (ff_ready _ _ _ _ _ F) (ff_pend _ _ _ _ _ F) (ff_was _ _ _ _ _ F)
                (ff_req _ _ _ _ _ F)) as E.
  cbv zeta in E. rewrite (ff_best _ _ _ _ _ F), (ff_reply _ _ _ _ _ F) in E.
  set (s1 := after_handshake (node_sync w)) in *.
  set (lh := last_saved (rq (node_sync w))) in *.
  (* the node's chain as ids *)
  assert (Hids : map fst (chain s1) = C).
  { change (chain s1) with (chain (node_sync w)). rewrite (ff_chain _ _ _ _ _ F).
    destruct (is_chain_tail parent_of C HcC) as (r & -> & _). apply chain_of_ids. }
  assert (Hcommon : forall j, (j < f)%nat -> C !! j = B !! j).
  { intros j Hj. rewrite <- (lookup_take C f j Hj), <- (lookup_take B f j Hj), (ff_common _ _ _ _ _ F). reflexivity. }
  assert (HlhC : C !! (length C - 1)%nat = Some lh).
  { pose proof (ff_saved _ _ _ _ _ F) as H. rewrite last_lookup in H. replace (length C - 1)%nat with (Nat.pred (length C)) by lia. exact H. }
  assert (Hlh_notB : ~ In lh B).
  { apply (ff_stale _ _ _ _ _ F). apply last_In_drop; [exact HfC|exact (ff_saved _ _ _ _ _ F)]. }
  assert (Hlh1 : last_hash (rq s1) = lh).
  { apply last_hash_empty; [exact (ff_req _ _ _ _ _ F)|exact (ff_toreq _ _ _ _ _ F)]. }
  (* the reply: known headers, then the first header of the other branch, then the rest *)
  destruct (lookup_lt_is_Some_2 B f HfB) as [h Hh].
  set (known := take (f - S i) (drop (S i) B)).
  set (rest := take (M - (f - S i) - 1) (drop (S f) B)).
  assert (Hsplit : take M (drop (S i) B) = known ++ h :: rest).
  { rewrite (take_split (drop (S i) B) (f - S i) M) by lia. fold known. f_equal.
    rewrite drop_drop. replace (S i + (f - S i))%nat with f by lia.
    rewrite (drop_S B h f Hh). destruct (M - (f - S i))%nat as [|q] eqn:Eq; [lia|].
    cbn [take]. unfold rest. replace (S q - 1)%nat with q by lia. reflexivity. }
  assert (Hknown : forall x, In x known -> exists j, (S i <= j < f)%nat /\ B !! j = Some x).
  { intros x Hx. unfold known in Hx. apply elem_of_list_In, elem_of_list_lookup in Hx as (q & Hq).
    apply lookup_take_Some in Hq as [Hq Hlt]. rewrite lookup_drop in Hq. exists (S i + q)%nat. split; [lia|exact Hq]. }
  assert (Hh_notC : ~ In h C).
  { intros Hin. apply elem_of_list_In, elem_of_list_lookup in Hin as (p & Hp).
    destruct (le_lt_dec f p) as [Hge|Hlt].
    - apply (ff_stale _ _ _ _ _ F h).
      + apply elem_of_list_In, elem_of_list_lookup. exists (p - f)%nat. rewrite lookup_drop. replace (f + (p - f))%nat with p by lia. exact Hp.
      + apply elem_of_list_In. eapply elem_of_list_lookup_2. exact Hh.
    - rewrite (Hcommon p Hlt) in Hp. pose proof (proj1 (NoDup_alt B) HndB _ _ _ Hp Hh). lia. }
  destruct f as [|f0]; [lia|]. set (f := S f0) in *.
  destruct (is_chain_lookup parent_of B f0 h HcB Hh) as [Hhnz Hhpar].
  destruct (lookup_lt_is_Some_2 B f0) as [p Hp]; [lia|]. rewrite Hp in Hhpar. cbn in Hhpar.
  assert (HpC : C !! f0 = Some p) by (rewrite Hcommon by lia; exact Hp).
  assert (Hp_lh : p <> lh).
  { eapply chain_lookup_ne; [exact HcC|exact HpC|exact HlhC|lia]. }
  (* the handler *)
  assert (Eh : exists s' sent,
     handle_headers MAXR LIM s1 (hdrs_of (known ++ h :: rest)) = (upd_hreq s' None, Some sent) /\
     same_but_rq (reverted s1 (Z.of_nat f0)) s' /\
     enq MAXR (rq (reverted s1 (Z.of_nat f0))) (rq s') (h :: rest) sent).
  { unfold handle_headers. change (ready s1) with (ready (node_sync w)). rewrite (ff_ready _ _ _ _ _ F). cbn [negb andb].
    rewrite Hlh1.
    assert (Hb : match hdrs_of (known ++ h :: rest) with
                 | [] => true
                 | [x] => lh =? fst x
                 | _ => false
                 end = false).
    { destruct known as [|y [|y2 known']]; cbn.
      - destruct rest; [|reflexivity]. apply Z.eqb_neq. intros E0. apply Hlh_notB. rewrite E0.
        apply elem_of_list_In. eapply elem_of_list_lookup_2. exact Hh.
      - reflexivity.
      - reflexivity. }
    rewrite Hb.
    unfold Peer.hdrs_of. rewrite map_app. fold (hdrs_of known). fold (hdrs_of (h :: rest)).
    rewrite (skip_known MAXR LIM parent_of known s1 lh).
    2:{ intros x Hx. destruct (Hknown x Hx) as (j & Hj & HBj).
        assert (HCj : C !! j = Some x) by (rewrite Hcommon by lia; exact HBj).
        destruct j as [|j']; [lia|].
        destruct (is_chain_lookup parent_of B j' x HcB HBj) as [_ Hxp].
        destruct (lookup_lt_is_Some_2 B j') as [y Hy]; [apply lookup_lt_Some in HBj; lia|].
        rewrite Hy in Hxp. cbn in Hxp.
        assert (HCy : C !! j' = Some y) by (rewrite Hcommon by lia; exact Hy).
        split; [rewrite Hxp; eapply chain_lookup_ne; [exact HcC|exact HCy|exact HlhC|lia]|].
        split; [eapply chain_lookup_ne; [exact HcC|exact HCj|exact HlhC|lia]|].
        apply contains_ids. rewrite Hids. apply elem_of_list_In. eapply elem_of_list_lookup_2. exact HCj. }
    change (hdrs_of (h :: rest)) with ((h, parent_of h) :: hdrs_of rest).
    rewrite (fork_step MAXR LIM s1 lh (h, parent_of h) (hdrs_of rest) [] false (Z.of_nat f0)); cbn [fst snd].
    2:{ apply Z.eqb_neq. rewrite Hhpar. congruence. }
    2:{ apply Z.eqb_neq. intros E0. apply Hlh_notB. rewrite <- E0. apply elem_of_list_In. eapply elem_of_list_lookup_2. exact Hh. }
    2:{ apply contains_false. rewrite Hids. exact Hh_notC. }
    2:{ unfold is_requested. change (rq s1) with (rq (node_sync w)). rewrite (ff_req _ _ _ _ _ F). reflexivity. }
    2:{ unfold is_to_be_requested. change (rq s1) with (rq (node_sync w)). rewrite (ff_toreq _ _ _ _ _ F). reflexivity. }
    2:{ unfold is_requested. change (rq s1) with (rq (node_sync w)). rewrite (ff_req _ _ _ _ _ F). reflexivity. }
    2:{ unfold is_to_be_requested. change (rq s1) with (rq (node_sync w)). rewrite (ff_toreq _ _ _ _ _ F). reflexivity. }
    2:{ rewrite Hhpar. apply height_of_index; rewrite Hids; [exact HndC|exact HpC]. }
    2:{ apply Z.eqb_neq. rewrite (height_len s1 C Hids). unfold zlen. lia. }
    change ((h, parent_of h) :: hdrs_of rest) with (hdrs_of (h :: rest)).
    destruct (connect_run MAXR LIM parent_of (h :: rest) (reverted s1 (Z.of_nat f0)) (parent_of h) [] true)
      as (s' & sent & Ec & Hsame & Henq & _).
    { exact (ff_start _ _ _ _ _ F). }
    { unfold last_hash. rewrite reverted_rq. cbn [to_request requested last last_saved].
      rewrite Hhpar. apply (tip_last _ (take f B)).
      - rewrite reverted_chain.
        change (chain s1) with (chain (node_sync w)). rewrite (ff_chain _ _ _ _ _ F).
        replace (Z.to_nat (Z.of_nat f0 + 1)) with f by lia. rewrite chain_of_take by lia.
        rewrite (ff_common _ _ _ _ _ F). destruct (is_chain_tail parent_of B HcB) as (r & -> & _). unfold f. cbn [take]. apply chain_of_ids.
      - rewrite last_lookup, take_length, Nat.min_l by lia. unfold f. cbn [Nat.pred]. rewrite lookup_take by lia. exact Hp. }
    { rewrite reverted_rq. cbn [pending]. lia. }
    { change (h :: rest) with ([h] ++ rest).
      assert (Hl : linked_ids parent_of p (take (S (M - (S f0 - S i) - 1)) (drop (S f0) B)) = true)
        by (apply is_chain_linked_after; [exact HcB|exact Hp]).
      rewrite (drop_S B h (S f0) Hh) in Hl. cbn [take] in Hl. rewrite Hhpar. exact Hl. }
    rewrite Ec. cbn [mod_after app]. exists s', sent. auto. }
  destruct Eh as (s' & sent & Eh & Hsame & Henq).
  rewrite Hsplit, Eh in E. cbn [fst snd] in E.
  (* the reverted node, seen as a drained one with the handshake's header request outstanding *)
  set (s3 := reverted s1 (Z.of_nat f0)) in *.
  set (w_star := CW (with_node w (upd_hreq s3 None)) (cw_peer w) [] [] (cw_heard w)).
  assert (Hch3 : chain s3 = chain_of parent_of (take f B)).
  { unfold s3. rewrite reverted_chain.
    change (chain s1) with (chain (node_sync w)). rewrite (ff_chain _ _ _ _ _ F).
    replace (Z.to_nat (Z.of_nat f0 + 1)) with f by lia. rewrite chain_of_take by lia. rewrite (ff_common _ _ _ _ _ F). reflexivity. }
  assert (Hsv3 : last_saved (rq s3) = p).
  { unfold s3. rewrite reverted_rq. cbn [last_saved]. fold s3.
    apply (tip_last _ (take f B)).
    - rewrite Hch3. destruct (is_chain_tail parent_of B HcB) as (r & -> & _). unfold f. cbn [take]. apply chain_of_ids.
    - rewrite last_lookup, take_length, Nat.min_l by lia. unfold f. cbn [Nat.pred]. rewrite lookup_take by lia. exact Hp. }
  assert (Dstar : Drain B f w_star f).
  { constructor; unfold w_star, node_sync, with_node; cbn [cw_node w_sync cw_chan cw_reqs best cw_peer];
      change (w_sync (cw_node w)) with (node_sync w); cbn [upd_hreq chain rq valid_of ready pending_sync start_height
        version_received handshake_complete headers_requested].
    - exact (ff_best _ _ _ _ _ F).
    - exact HcB.
    - lia.
    - exact Hch3.
    - rewrite Nat.sub_diag. reflexivity.
    - lia.
    - exact (ff_start _ _ _ _ _ F).
    - unfold f. cbn [Nat.sub]. rewrite Nat.sub_0_r. rewrite Hsv3. exact Hp.
    - reflexivity.
    - reflexivity.
    - reflexivity.
    - reflexivity.
    - reflexivity.
    - intros x sz [].
    - reflexivity.
    - unfold zlen. cbn. lia.
    - left. reflexivity.
    - intros x sz [].
    - constructor.
    - constructor.
    - intros x []. }
  assert (D' : Drain B (f + length (h :: rest)) (settle (1 + length invs + 3) w) f).
  { rewrite E. change (with_node w (upd_hreq s' None)) with (with_node w_star (upd_hreq s' None)).
    change (cw_peer w) with (cw_peer w_star).
    apply (after_reply_drain MAXR M parent_of HM HMAXR) with (s := s3).
    - exact Dstar.
    - reflexivity.
    - reflexivity.
    - right. reflexivity.
    - apply same_cleared_of. exact Hsame.
    - exact Henq.
    - assert (Hhr : h :: rest = take (S (M - (f - S i) - 1)) (drop f B)) by (rewrite (drop_S B h f Hh); reflexivity).
      rewrite Hhr. symmetry. apply take_length_take.
    - assert (Hhr : h :: rest = take (S (M - (f - S i) - 1)) (drop f B)) by (rewrite (drop_S B h f Hh); reflexivity).
      rewrite Hhr, take_length, drop_length. lia. }
  assert (Hgap : (length B - (f + length (h :: rest)) <= length B)%nat) by lia.
  destruct (drain_converges MAXR LIM HT HDT BT DELTA M parent_of HM HMAXR HLIM B (length B) _ _ _ Hgap D') as (n & Hn).
  exists ((1 + length invs + 3) + n)%nat. rewrite settle_add. exact Hn.
Qed.

End ForkTheorem.

(* ---------------------------------------------------------------------------------------- *)
(* the executable predicate                                                                  *)

Lemma cpl_take a : forall b, take (cpl a b) a = take (cpl a b) b.
Proof.
  induction a as [|x a IH]; intros [|y b]; try reflexivity.
  cbn [cpl]. destruct (x =? y) eqn:E; [|reflexivity]. apply Z.eqb_eq in E. subst. cbn [take]. f_equal. apply IH.
Qed.

Definition reply_index (B loc : list Z) : nat :=
  match find (on_best B) loc with
  | Some x => default O (find_idx (Z.eqb x) B 0)
  | None => O
  end.

Definition reply_ok (B loc : list Z) : bool :=
  match find (on_best B) loc with
  | Some x => match B !! reply_index B loc with Some y => y =? x | None => false end
  | None => true
  end.

(* freshly connected, the node's chain has forked from the peer's best chain (start block found), and
   the peer's reply to the handshake locator reaches the first block of the peer's branch *)
Definition clean_forked (M : nat) (parent_of : Z -> Z) (w : cworld) : bool :=
  let s := node_sync w in
  let B := best w in
  let C := map fst (chain s) in
  let f := cpl C B in
  let loc := locator s 0 in
  let i := reply_index B loc in
  is_chain parent_of B && is_chain parent_of C && hdrs_eqb (chain s) (chain_of parent_of C) &&
  (1 <=? f)%nat && (f <? length C)%nat && (f <? length B)%nat &&
  forallb (fun x => negb (on_best B x)) (drop f C) &&
  (i <? f)%nat && (f <=? i + M)%nat && reply_ok B loc &&
  negb (start_height s =? -1) &&
  match requested (rq s), to_request (rq s) with [], [] => true | _, _ => false end &&
  match last C with Some x => x =? last_saved (rq s) | None => false end &&
  negb (handshake_complete s) && negb (ready s) && negb (pending_sync s) && negb (was_in_sync s) &&
  match cw_chan w with MVersion :: invs => forallb is_invb invs | _ => false end &&
  match cw_reqs w with [] => true | _ => false end.

Section ForkPartial.
Variables MAXR LIM HT HDT BT DELTA : Z.
Variable M : nat.
Variable parent_of : Z -> Z.
Hypothesis HM : (2 <= M)%nat.
Hypothesis HMAXR : 1 <= MAXR.
Hypothesis HLIM : MAXR <= LIM.
Notation settle := (settle MAXR LIM HT HDT BT DELTA M parent_of).
Notation skind := (skind MAXR LIM HT HDT BT DELTA M parent_of).

Lemma reply_of_index B loc :
  is_chain parent_of B = true -> reply_ok B loc = true ->
  answer_getheaders M parent_of B loc = hdrs_of parent_of (take M (drop (S (reply_index B loc)) B)).
Proof.
  intros HcB Hok. unfold answer_getheaders, reply_ok, reply_index in *.
  destruct (find (on_best B) loc) as [x|].
  - destruct (B !! default 0%nat (find_idx (Z.eqb x) B 0)) as [y|] eqn:E; [|discriminate].
    apply Z.eqb_eq in Hok. subst y.
    rewrite (after_lookup B (chain_NoDup parent_of B HcB) _ x E). reflexivity.
  - rewrite (after_lookup B (chain_NoDup parent_of B HcB) 0 0 (is_chain_head parent_of B HcB)). reflexivity.
Qed.

Lemma clean_forked_fresh w :
  clean_forked M parent_of w = true ->
  FreshFork M parent_of (best w) (map fst (chain (node_sync w))) w
            (cpl (map fst (chain (node_sync w))) (best w))
            (reply_index (best w) (locator (node_sync w) 0)).
Proof.
  unfold clean_forked. intros H.
  repeat (apply andb_prop in H as [H ?]).
  repeat match goal with X : negb _ = true |- _ => apply negb_true_iff in X end.
  repeat match goal with X : (_ <=? _)%nat = true |- _ => apply Nat.leb_le in X end.
  repeat match goal with X : (_ <? _)%nat = true |- _ => apply Nat.ltb_lt in X end.
  match goal with X : hdrs_eqb _ _ = true |- _ => apply hdrs_eqb_eq in X; rename X into Hchain end.
  match goal with X : (start_height _ =? -1) = false |- _ => apply Z.eqb_neq in X; rename X into Hst end.
  destruct (requested (rq (node_sync w))) eqn:Er; [|discriminate].
  destruct (to_request (rq (node_sync w))) eqn:Et; [|discriminate].
  destruct (last (map fst (chain (node_sync w)))) as [x|] eqn:Ex; [|discriminate].
  match goal with X : (x =? _) = true |- _ => apply Z.eqb_eq in X; subst x end.
  destruct (cw_chan w) as [|[| | |] invs] eqn:Ec; try discriminate.
  destruct (cw_reqs w) eqn:Erq; [|discriminate].
  match goal with X : forallb (fun x => negb (on_best _ x)) _ = true |- _ => rename X into Hstale end.
  constructor; try assumption; try reflexivity.
  - apply cpl_take.
  - auto.
  - intros x Hx Hin. rewrite forallb_forall in Hstale. specialize (Hstale x Hx).
    apply negb_true_iff in Hstale. apply (on_best_In (best w) x) in Hin. congruence.
  - auto.
  - apply reply_of_index; assumption.
  - exists invs. split; [exact Ec|]. apply List.Forall_forall. intros m Hm.
    match goal with X : forallb is_invb invs = true |- _ => rewrite forallb_forall in X; specialize (X m Hm) end.
    destruct m; try discriminate. exact I.
Qed.

Theorem converges_clean_forked w :
  clean_forked M parent_of w = true ->
  exists n, converged (settle n w) = true /\ skind (settle n w) = 0.
Proof.
  intros H. eapply fork_converges; try eassumption. apply clean_forked_fresh. exact H.
Qed.

End ForkPartial.
