(* C01, liveness for freshly connected worlds whose start block has not been found yet
   (start_height = -1): headers before the start block are appended to the store without their
   blocks; from the start block on blocks are requested (then as in Converge_Clean). *)
From V.lib Require Import Base.
From V.model Require Import Requests Sync SyncSpec Peer.
From V.proofs Require Import Sync_Proofs Converge_Proofs Converge_Clean Converge_Fork.

Local Open Scope Z_scope.

Section ConnectPre.
Variables MAXR LIM : Z.
Variable parent_of : Z -> Z.
Hypothesis HMAXR : 1 <= MAXR.
Notation hdrs_of := (hdrs_of parent_of).
Notation linked_ids := (linked_ids parent_of).

(* fields untouched while headers are appended before the start block *)
Definition same_pre (s s' : sync) : Prop :=
  valid_of s' = valid_of s /\ ready s' = ready s /\ pending_sync s' = pending_sync s /\
  was_in_sync s' = was_in_sync s /\ headers_requested s' = headers_requested s /\ flags_eq s s'.

Lemma same_pre_refl s : same_pre s s.
Proof. repeat split. Qed.

Lemma same_pre_trans s1 s2 s3 : same_pre s1 s2 -> same_pre s2 s3 -> same_pre s1 s3.
Proof.
  intros (a1 & a2 & a3 & a4 & a5 & a6) (b1 & b2 & b3 & b4 & b5 & b6).
  repeat split; try congruence; destruct a6 as (c1 & c2 & c3 & c4 & c5 & c6 & c7 & c8);
    destruct b6 as (d1 & d2 & d3 & d4 & d5 & d6 & d7 & d8); congruence.
Qed.

Lemma same_but_rq_pre s s' : same_but_rq s s' -> same_pre s s'.
Proof. intros (a1 & a2 & a3 & a4 & a5 & a6 & a7 & a8). repeat split; try assumption; apply a8. Qed.

(* a run of headers that connect, met before the start block was found *)
Lemma connect_run_pre new : forall s acc m,
  start_height s = -1 -> requested (rq s) = [] -> to_request (rq s) = [] -> pending (rq s) <= LIM ->
  linked_ids (last_saved (rq s)) new = true ->
  exists pre post s' sent,
    new = pre ++ post /\ ~ In (start_hash s) pre /\
    headers_loop MAXR LIM s (last_saved (rq s)) (hdrs_of new) acc m = (s', Some (acc ++ sent), mod_after m new) /\
    chain s' = chain s ++ hdrs_of pre /\ same_pre s s' /\ start_hash s' = start_hash s /\
    ((post = [] /\ start_height s' = -1 /\ sent = [] /\
      rq s' = set_last_hash (rq s) (List.last pre (last_saved (rq s)))) \/
     (exists r, post = start_hash s :: r /\ start_height s' = height s + zlen pre + 1 /\
      enq MAXR (set_last_hash (rq s) (List.last pre (last_saved (rq s)))) (rq s') post sent)).
Proof.
  induction new as [|x new IH]; intros s acc m Hs Hr Ht Hp Hl.
  - exists [], [], s, []. cbn. rewrite app_nil_r. split; [reflexivity|]. split; [intros []|].
    split; [reflexivity|]. split; [rewrite app_nil_r; reflexivity|]. split; [apply same_pre_refl|]. split; [reflexivity|].
    left. split; [reflexivity|]. split; [exact Hs|]. split; [reflexivity|].
    destruct (rq s); reflexivity.
  - cbn [Peer.linked_ids] in Hl. apply andb_prop in Hl as [Hx Hl]. apply andb_prop in Hx as [Hnz Hpar].
    apply Z.eqb_eq in Hpar.
    change (hdrs_of (x :: new)) with ((x, parent_of x) :: hdrs_of new).
    cbn [headers_loop fst snd]. rewrite Hpar, Z.eqb_refl.
    unfold check_start_height. rewrite Hs. change (-1 =? -1) with true. cbv iota. cbn [fst].
    destruct (start_hash s =? x) eqn:Ex; cbv beta iota zeta.
    + (* the start block: from here on blocks are requested *)
      apply Z.eqb_eq in Ex. cbn [snd].
      set (s1 := upd_rq (upd_start s (height s + 1)) (set_last_hash (rq s) (parent_of x))).
      assert (Hlh1 : last_hash (rq s1) = parent_of x).
      { apply last_hash_empty; cbn [s1 rq upd_rq set_last_hash requested to_request]; assumption. }
      assert (Hs1 : start_height s1 <> -1).
      { cbn [s1 start_height upd_rq upd_start]. unfold height. pose proof (zlen_nonneg' (chain s)). lia. }
      assert (Hp1 : pending (rq s1) <= LIM) by (cbn [s1 rq upd_rq set_last_hash pending]; exact Hp).
      destruct (connect_run MAXR LIM parent_of (x :: new) s1 (parent_of x) acc m Hs1 Hlh1 Hp1) as (s' & sent & E & Hsame & Henq & _).
      { cbn [Peer.linked_ids]. rewrite Hnz, Z.eqb_refl, Hl. reflexivity. }
      (* the loop on s1 from the start block = what the handler does after check_start_height *)
      change (hdrs_of (x :: new)) with ((x, parent_of x) :: hdrs_of new) in E.
      cbn [headers_loop fst snd] in E. rewrite Z.eqb_refl in E.
      unfold check_start_height in E. apply Z.eqb_neq in Hs1 as Hs1'. rewrite Hs1' in E.
      exists [], (x :: new), s', sent. split; [reflexivity|]. split; [intros []|].
      split; [unfold s1 in E; rewrite Hpar in E; exact E|]. destruct Hsame as (a1 & a2 & a3 & a4 & a5 & a6 & a7 & a8).
      split; [rewrite a1; cbn; rewrite app_nil_r; reflexivity|].
      split; [repeat split; try assumption; apply a8|]. split; [apply a8|].
      right. exists new. split; [rewrite Ex; reflexivity|]. split.
      * rewrite a6. cbn [s1 start_height upd_rq upd_start]. unfold zlen. cbn. lia.
      * cbn [List.last]. rewrite <- Hpar. exact Henq.
    + (* before the start block: the header is stored *)
      set (s1 := upd_rq (upd_chain s (chain s ++ [((x, parent_of x) : hdr)])) (set_last_hash (rq s) x)).
      destruct (IH s1 acc true) as (pre & post & s' & sent & Hnew & Hnin & E & Hch & Hsame & Hsh & Hcase).
      { exact Hs. }
      { exact Hr. }
      { exact Ht. }
      { exact Hp. }
      { cbn [s1 rq upd_rq set_last_hash last_saved]. exact Hl. }
      cbn [s1 rq upd_rq set_last_hash last_saved] in E.
      exists (x :: pre), post, s', sent.
      split; [rewrite Hnew; reflexivity|].
      split; [intros [Hin|Hin]; [apply Z.eqb_neq in Ex; congruence|apply Hnin; exact Hin]|].
      split; [unfold s1 in E; rewrite Hpar in E; rewrite E; destruct new; reflexivity|].
      split; [rewrite Hch; cbn [s1 chain upd_rq upd_chain]; rewrite <- app_assoc; reflexivity|].
      split; [eapply same_pre_trans; [|exact Hsame]; repeat split|]. split; [exact Hsh|].
      cbn [s1 rq upd_rq set_last_hash start_hash upd_chain last_saved] in Hcase.
      destruct Hcase as [(Hp0 & Hst & Hse & Hrq)|(r & Hp0 & Hst & Henq)].
      * left. split; [exact Hp0|]. split; [exact Hst|]. split; [exact Hse|].
        rewrite Hrq. rewrite last_cons_default. destruct (rq s); reflexivity.
      * right. exists r. split; [exact Hp0|]. split.
        -- rewrite Hst. unfold height, zlen. cbn [s1 chain upd_rq upd_chain length]. rewrite app_length. cbn [length]. lia.
        -- rewrite last_cons_default.
           replace (set_last_hash (rq s) (List.last pre x))
             with (set_last_hash (set_last_hash (rq s) x) (List.last pre x)) by (destruct (rq s); reflexivity).
           exact Henq.
Qed.

End ConnectPre.

Section HandlePre.
Variables MAXR LIM : Z.
Variable parent_of : Z -> Z.
Hypothesis HMAXR : 1 <= MAXR.
Notation hdrs_of := (hdrs_of parent_of).
Notation linked_ids := (linked_ids parent_of).

(* what a reply does to a node that has not found its start block: `pre` is stored, from the start
   block on (`post`) blocks are requested *)
Definition pre_result (s : sync) (new : list Z) (s2 : sync) (sent : list Z) : Prop :=
  exists pre post s',
    s2 = upd_hreq s' None /\ new = pre ++ post /\ ~ In (start_hash s) pre /\
    chain s' = chain s ++ hdrs_of pre /\ same_pre s s' /\ start_hash s' = start_hash s /\
    ((post = [] /\ start_height s' = -1 /\ sent = [] /\
      rq s' = set_last_hash (rq s) (List.last pre (last_saved (rq s)))) \/
     (exists r, post = start_hash s :: r /\ start_height s' = height s + zlen pre + 1 /\
      enq MAXR (set_last_hash (rq s) (List.last pre (last_saved (rq s)))) (rq s') post sent)).

Lemma hh_connect_pre s new :
  ready s = false -> start_height s = -1 -> requested (rq s) = [] -> to_request (rq s) = [] -> pending (rq s) <= LIM ->
  new <> [] -> linked_ids (last_saved (rq s)) new = true -> (forall x, In x new -> x <> last_saved (rq s)) ->
  exists s2 sent, handle_headers MAXR LIM s (hdrs_of new) = (s2, Some sent) /\ pre_result s new s2 sent.
Proof.
  intros Hr Hs Hq Ht Hp Hne Hl Hnl. unfold handle_headers. rewrite Hr. cbn [negb andb].
  rewrite (last_hash_empty (rq s) Hq Ht).
  assert (Hb : match hdrs_of new with
               | [] => true
               | [h] => last_saved (rq s) =? fst h
               | _ => false
               end = false).
  { destruct new as [|x [|y new]]; [contradiction| |reflexivity]. cbn.
    apply Z.eqb_neq. intros E. apply (Hnl x); [left; reflexivity|symmetry; exact E]. }
  rewrite Hb.
  destruct (connect_run_pre MAXR LIM parent_of new s [] false Hs Hq Ht Hp Hl)
    as (pre & post & s' & sent & Hnew & Hnin & E & Hch & Hsame & Hsh & Hcase).
  rewrite E. destruct new as [|x new]; [contradiction|]. cbn [mod_after app].
  eexists _, sent. split; [reflexivity|]. exists pre, post, s'. auto 10.
Qed.

Lemma hh_poll_pre s t new :
  ready s = false -> start_height s = -1 -> requested (rq s) = [] -> to_request (rq s) = [] -> pending (rq s) <= LIM ->
  t = last_saved (rq s) -> parent_of t <> t ->
  new <> [] -> linked_ids t new = true ->
  exists s2 sent, handle_headers MAXR LIM s (hdrs_of (t :: new)) = (s2, Some sent) /\ pre_result s new s2 sent.
Proof.
  intros Hr Hs Hq Ht Hp Htt Hpt Hne Hl. unfold handle_headers. rewrite Hr. cbn [negb andb].
  rewrite (last_hash_empty (rq s) Hq Ht).
  destruct new as [|x new]; [contradiction|].
  change (hdrs_of (t :: x :: new)) with ((t, parent_of t) :: hdrs_of (x :: new)).
  change (hdrs_of (x :: new)) with ((x, parent_of x) :: hdrs_of new) at 1.
  cbv beta iota. rewrite <- Htt.
  cbn [headers_loop fst snd].
  assert (E1 : (t =? parent_of t) = false) by (apply Z.eqb_neq; intros E; apply Hpt; symmetry; exact E).
  rewrite E1, Z.eqb_refl.
  change ((x, parent_of x) :: hdrs_of new) with (hdrs_of (x :: new)).
  rewrite Htt in Hl.
  destruct (connect_run_pre MAXR LIM parent_of (x :: new) s [] false Hs Hq Ht Hp Hl)
    as (pre & post & s' & sent & Hnew & Hnin & E & Hch & Hsame & Hsh & Hcase).
  rewrite <- Htt in E. rewrite E. cbn [mod_after app].
  eexists _, sent. split; [reflexivity|]. exists pre, post, s'. auto 10.
Qed.

Lemma hh_insync_pre s hs :
  ready s = false -> start_height s = -1 ->
  (hs = [] \/ exists p, hs = [(last_hash (rq s), p)]) ->
  exists s', handle_headers MAXR LIM s hs = (s', Some []) /\
    chain s' = chain s /\ rq s' = rq s /\ ready s' = true /\ flags_eq s s'.
Proof.
  intros Hr Hs Hhs. unfold handle_headers. rewrite Hr.
  destruct Hhs as [->|(p & ->)]; cbv beta iota zeta; cbn [fst negb andb].
  - cbn [start_height upd_pending rq]. rewrite Hs. change (-1 =? -1) with true. cbv iota.
    eexists. split; [reflexivity|]. repeat split.
  - rewrite Z.eqb_refl. cbn [start_height upd_pending rq]. rewrite Hs. change (-1 =? -1) with true. cbv iota.
    eexists. split; [reflexivity|]. repeat split.
Qed.

End HandlePre.

Lemma chain_of_app parent_of a b : a <> [] -> chain_of parent_of (a ++ b) = chain_of parent_of a ++ hdrs_of parent_of b.
Proof. destruct a as [|g r]; [contradiction|]. intros _. cbn. rewrite hdrs_of_app. reflexivity. Qed.

Lemma take_take_drop' {A} (l : list A) n m : take n l ++ take m (drop n l) = take (n + m) l.
Proof.
  revert n. induction l as [|x l IH]; intros n; [rewrite !take_nil, drop_nil, take_nil; reflexivity|].
  destruct n as [|n]; [reflexivity|]. cbn [take drop app Nat.add]. f_equal. apply IH.
Qed.

Lemma take_app_split {A} (a : list A) : forall b X,
  a ++ b = take (length (a ++ b)) X ->
  a = take (length a) X /\ b = take (length b) (drop (length a) X).
Proof.
  induction a as [|x a IH]; intros b X H.
  - split; [reflexivity|exact H].
  - destruct X as [|y X]; [discriminate|]. cbn [app length take] in H. injection H as -> H.
    destruct (IH b X H) as [H1 H2]. cbn [length take drop]. split; [f_equal; exact H1|exact H2].
Qed.

Lemma last_Some_default {A} (l : list A) x d : last (x :: l) = Some (List.last (x :: l) d).
Proof.
  revert x. induction l as [|y l IH]; intros x; [reflexivity|].
  change (last (x :: y :: l)) with (last (y :: l)). rewrite IH.
  change (List.last (x :: y :: l) d) with (List.last (y :: l) d). reflexivity.
Qed.

Lemma last_take_drop (B : list Z) k j d :
  (1 <= j)%nat -> (k + j <= length B)%nat -> B !! (k + j - 1)%nat = Some (List.last (take j (drop k B)) d).
Proof.
  intros Hj Hlen. assert (Hl : length (take j (drop k B)) = j) by (rewrite take_length, drop_length; lia).
  destruct (take j (drop k B)) as [|x l] eqn:E; [cbn in Hl; lia|].
  rewrite <- (last_Some_default l x d). rewrite last_lookup, Hl, <- E.
  rewrite lookup_take by lia. rewrite lookup_drop. f_equal. lia.
Qed.

Section PreRounds.
Variables MAXR LIM HT HDT BT DELTA : Z.
Variable M : nat.
Variable parent_of : Z -> Z.
Hypothesis HM : (2 <= M)%nat.
Hypothesis HMAXR : 1 <= MAXR.
Hypothesis HLIM : MAXR <= LIM.
Notation skind := (skind MAXR LIM HT HDT BT DELTA M parent_of).
Notation settle := (settle MAXR LIM HT HDT BT DELTA M parent_of).
Notation Drain := (Drain MAXR parent_of).
Notation is_chain := (is_chain parent_of).
Notation hdrs_of := (hdrs_of parent_of).

(* a node that has stored the first k headers of the peer's chain, its start block not among them,
   nothing outstanding *)
Record PNode (B : list Z) (s : sync) (k : nat) : Prop := {
  pn_chainB : is_chain B = true;
  pn_k : (1 <= k <= length B)%nat;
  pn_chain : chain s = chain_of parent_of (take k B);
  pn_start : start_height s = -1;
  pn_req : requested (rq s) = [];
  pn_toreq : to_request (rq s) = [];
  pn_pending : pending (rq s) = 0;
  pn_saved : B !! (k - 1)%nat = Some (last_saved (rq s));
  pn_ready : ready s = false;
  pn_pend : pending_sync s = false;
}.

(* the world after a reply [optional tip] ++ take j (drop k B) was handled by such a node *)
Lemma pre_reply_world B w s k new s2 sent heard' :
  best w = B -> PNode B s k -> version_received s = true -> handshake_complete s = true ->
  new <> [] -> new = take (length new) (drop k B) -> (k + length new <= length B)%nat ->
  pre_result MAXR parent_of s new s2 sent ->
  let w' := CW (with_node w s2) (cw_peer w) [] (getdata_of sent) heard' in
  (exists k', (k < k' <= length B)%nat /\ PNode B (node_sync w') k' /\ version_received (node_sync w') = true /\
              handshake_complete (node_sync w') = true /\ headers_requested (node_sync w') = None /\
              cw_chan w' = [] /\ cw_reqs w' = [] /\ best w' = B) \/
  (exists k', (k <= k')%nat /\ Drain B (k + length new) w' k').
Proof.
  intros Hb P Hvr Hhc Hne Hnew Hlen (pre & post & s' & -> & Hsplit & Hnin & Hch & Hsame & Hsh & Hcase) w'.
  destruct Hsame as (a1 & a2 & a3 & a4 & a5 & a6). destruct a6 as (c1 & c2 & c3 & c4 & c5 & c6 & c7 & c8).
  pose proof (pn_k _ _ _ P) as Hk. pose proof (pn_chainB _ _ _ P) as HcB.
  assert (Hpp : pre = take (length pre) (drop k B) /\ post = take (length post) (drop (length pre) (drop k B))).
  { apply take_app_split. rewrite <- Hsplit. exact Hnew. }
  destruct Hpp as [Hpre Hpost]. rewrite drop_drop in Hpost.
  assert (Hlenn : length new = (length pre + length post)%nat) by (rewrite Hsplit, app_length; reflexivity).
  assert (Hchain' : chain s' = chain_of parent_of (take (k + length pre) B)).
  { rewrite Hch, (pn_chain _ _ _ P). rewrite <- take_take_drop', <- Hpre. rewrite chain_of_app; [reflexivity|].
    destruct (is_chain_tail parent_of B HcB) as (r & -> & _). destruct k; [lia|discriminate]. }
  assert (Hlastpre : B !! (k + length pre - 1)%nat = Some (List.last pre (last_saved (rq s)))).
  { destruct (length pre) as [|lp] eqn:Elp.
    - destruct pre; [|discriminate]. cbn. rewrite Nat.add_0_r. exact (pn_saved _ _ _ P).
    - rewrite Hpre. apply last_take_drop; lia. }
  assert (Hn1 : (1 <= length new)%nat) by (destruct new; [contradiction|cbn; lia]).
  destruct Hcase as [(Hp0 & Hst & Hse & Hrq)|(r & Hp0 & Hst & Henq)].
  - (* the start block is not in the reply: all headers stored *)
    left. subst post sent. rewrite app_nil_r in Hsplit. subst pre.
    exists (k + length new)%nat. split; [lia|]. unfold w', node_sync, with_node. cbn [cw_node w_sync cw_chan cw_reqs best cw_peer getdata_of].
    split; [|cbn [upd_hreq version_received handshake_complete headers_requested]; repeat split; try congruence; exact Hb].
    constructor; cbn [upd_hreq chain rq start_height ready pending_sync].
    + exact HcB.
    + lia.
    + exact Hchain'.
    + exact Hst.
    + rewrite Hrq. exact (pn_req _ _ _ P).
    + rewrite Hrq. exact (pn_toreq _ _ _ P).
    + rewrite Hrq. exact (pn_pending _ _ _ P).
    + rewrite Hrq. cbn [set_last_hash last_saved]. exact Hlastpre.
    + rewrite a2. exact (pn_ready _ _ _ P).
    + rewrite a3. exact (pn_pend _ _ _ P).
  - (* the start block is in the reply: from there on blocks are requested *)
    right. exists (k + length pre)%nat. split; [lia|].
    destruct Henq as [e1 e2 e3 e4 e5 e6 e7].
    cbn [set_last_hash requested to_request pending last_saved] in *.
    rewrite (pn_req _ _ _ P), (pn_toreq _ _ _ P) in *.
    assert (Hreq' : requested (rq s') = lift sent) by (rewrite e2; reflexivity).
    constructor; unfold w', node_sync, with_node; cbn [cw_node w_sync cw_chan cw_reqs best cw_peer];
      cbn [upd_hreq chain rq valid_of ready pending_sync start_height version_received handshake_complete headers_requested].
    + exact Hb.
    + exact HcB.
    + lia.
    + exact Hchain'.
    + rewrite e1. unfold rids. cbn [set_last_hash requested to_request]. rewrite ?(pn_req _ _ _ P), ?(pn_toreq _ _ _ P). cbn [map app].
      replace (k + length new - (k + length pre))%nat with (length post) by lia. exact Hpost.
    + lia.
    + rewrite Hst. unfold height. pose proof (zlen_nonneg' (chain s)). pose proof (zlen_nonneg' pre). lia.
    + rewrite e4. exact Hlastpre.
    + congruence.
    + congruence.
    + rewrite a2. exact (pn_ready _ _ _ P).
    + rewrite a3. exact (pn_pend _ _ _ P).
    + reflexivity.
    + rewrite Hreq'. intros x sz Hx. unfold lift in Hx. apply in_map_iff in Hx as (y & Hy & _). discriminate.
    + rewrite e3, Hreq', sizes_lift. exact (pn_pending _ _ _ P).
    + apply e5. unfold zlen. cbn. lia.
    + apply e6. left. reflexivity.
    + rewrite Hreq'. intros x sz Hx. unfold lift in Hx. apply in_map_iff in Hx as (y & Hy & _). discriminate.
    + constructor.
    + unfold getdata_of. destruct sent; [constructor|constructor; [exact I|constructor]].
    + rewrite Hreq'. intros x Hx. unfold lift in Hx. apply in_map_iff in Hx as (y & Hy & Hin). injection Hy as ->.
      right. exists sent. split; [|exact Hin]. unfold getdata_of. destruct sent; [destruct Hin|left; reflexivity].
Qed.

End PreRounds.

Section PreRounds2.
Variables MAXR LIM HT HDT BT DELTA : Z.
Variable M : nat.
Variable parent_of : Z -> Z.
Hypothesis HM : (2 <= M)%nat.
Hypothesis HMAXR : 1 <= MAXR.
Hypothesis HLIM : MAXR <= LIM.
Notation skind := (skind MAXR LIM HT HDT BT DELTA M parent_of).
Notation settle := (settle MAXR LIM HT HDT BT DELTA M parent_of).
Notation Drain := (Drain MAXR parent_of).
Notation PNode := (PNode parent_of).
Notation is_chain := (is_chain parent_of).
Notation hdrs_of := (hdrs_of parent_of).

(* the poll of a node with nothing outstanding and the peer's reply (as poll_reply, stated on the node) *)
Lemma poll_reply_node B T s :
  is_chain B = true -> map fst (chain s) = take T B -> requested (rq s) = [] -> to_request (rq s) = [] ->
  (1 <= T <= length B)%nat -> B !! (T - 1)%nat = Some (last_saved (rq s)) ->
  version_received s = true -> handshake_complete s = true -> ready s = false -> headers_requested s = None ->
  exists loc,
    check s = (upd_hreq s (Some (now s)), [OutGetHeaders loc]) /\
    answer_getheaders M parent_of B loc =
      hdrs_of (match T with
               | S (S _) => last_saved (rq s) :: take (M - 1) (drop T B)
               | _ => take M (drop T B)
               end).
Proof.
  intros HcB Hids Er Et HTb Hsv Hvr Hhc Hrd Hq.
  assert (Hemp : requests_empty (rq s) = true) by (unfold requests_empty, total_requests; rewrite Er, Et; reflexivity).
  assert (Htot : total_requests (rq s) = 0) by (unfold total_requests; rewrite Er, Et; reflexivity).
  assert (Ec : forall loc, locator s 1 = loc -> check s = (upd_hreq s (Some (now s)), [OutGetHeaders loc])).
  { intros loc <-. apply check_poll; try assumption. rewrite Htot. lia. }
  destruct T as [|[|T2]]; [lia| |].
  - assert (H0 : B !! 0%nat = Some 0) by (apply is_chain_head with (parent_of := parent_of); exact HcB).
    assert (Hg : map fst (chain s) = [0]).
    { rewrite Hids. destruct B as [|g r]; [discriminate|]. cbn in H0. injection H0 as ->. reflexivity. }
    exists [0]. split; [apply Ec; apply locator_genesis; assumption|].
    rewrite (answer_first parent_of M B 0 0 [] HcB H0). reflexivity.
  - destruct (lookup_lt_is_Some_2 B T2) as [x Hx]; [lia|].
    destruct (locator_first s 1 (take (S (S T2)) B) x Hemp (or_intror eq_refl) Hids) as [t Ht].
    { rewrite take_length, Nat.min_l by lia. change (Z.to_nat 1) with 1%nat. lia. }
    { rewrite take_length, Nat.min_l by lia. change (Z.to_nat 1) with 1%nat.
      replace (S (S T2) - 1 - 1)%nat with T2 by lia. rewrite lookup_take by lia. exact Hx. }
    exists (x :: t). split; [apply Ec; exact Ht|].
    rewrite (answer_first parent_of M B T2 x t HcB Hx).
    replace (S (S T2) - 1)%nat with (S T2) in Hsv by lia.
    rewrite (drop_S B _ (S T2) Hsv). destruct M as [|M']; [lia|]. cbn [take]. replace (S M' - 1)%nat with M' by lia. reflexivity.
Qed.

(* a world whose node is a PNode with the handshake done and nothing in flight *)
Definition PWorld (B : list Z) (w : cworld) (k : nat) : Prop :=
  PNode B (node_sync w) k /\ version_received (node_sync w) = true /\ handshake_complete (node_sync w) = true /\
  headers_requested (node_sync w) = None /\ cw_chan w = [] /\ cw_reqs w = [] /\ best w = B.

Lemma pnode_ids B s k : PNode B s k -> map fst (chain s) = take k B.
Proof.
  intros P. rewrite (pn_chain _ _ _ _ P). destruct (is_chain_tail parent_of B (pn_chainB _ _ _ _ P)) as (r & -> & _).
  pose proof (pn_k _ _ _ _ P). destruct k; [lia|]. cbn [take]. apply chain_of_ids.
Qed.

(* what a reply (optionally led by the tip) does to a PNode s1 = the polled / handshaken node *)
Lemma pre_reply_handled B w s1 k (lead : bool) j heard' :
  best w = B -> PNode B s1 k -> version_received s1 = true -> handshake_complete s1 = true ->
  (lead = true -> (2 <= k)%nat) -> (1 <= j)%nat ->
  let new := take j (drop k B) in
  let reply := hdrs_of (if lead then last_saved (rq s1) :: new else new) in
  let w' := CW (with_node w (handle_headers MAXR LIM s1 reply).1) (cw_peer w) []
               (match (handle_headers MAXR LIM s1 reply).2 with Some l => getdata_of l | None => [] end) heard' in
  (k < length B)%nat ->
  (exists k', (k < k' <= length B)%nat /\ PWorld B w' k') \/ (exists k' T', Drain B T' w' k').
Proof.
  intros Hb P Hvr Hhc Hlead Hj new reply w' Hlt.
  pose proof (pn_chainB _ _ _ _ P) as HcB. pose proof (pn_k _ _ _ _ P) as Hk. pose proof (pn_saved _ _ _ _ P) as Hsv.
  assert (Hne : new <> []).
  { unfold new. destruct (drop k B) eqn:E; [apply (f_equal length) in E; rewrite drop_length in E; cbn in E; lia|].
    destruct j; [lia|discriminate]. }
  assert (Hp : pending (rq s1) <= LIM) by (rewrite (pn_pending _ _ _ _ P); lia).
  assert (Hl : linked_ids parent_of (last_saved (rq s1)) new = true).
  { unfold new. replace (drop k B) with (drop (S (k - 1)) B) by (f_equal; lia). apply is_chain_linked_after; assumption. }
  assert (Hres : exists s2 sent, handle_headers MAXR LIM s1 reply = (s2, Some sent) /\ pre_result MAXR parent_of s1 new s2 sent).
  { unfold reply. destruct lead.
    - apply hh_poll_pre; try assumption; try exact (pn_ready _ _ _ _ P); try exact (pn_start _ _ _ _ P);
        try exact (pn_req _ _ _ _ P); try exact (pn_toreq _ _ _ _ P); [reflexivity|].
      specialize (Hlead eq_refl). destruct k as [|[|k2]]; try lia.
      replace (S (S k2) - 1)%nat with (S k2) in Hsv by lia.
      destruct (lookup_lt_is_Some_2 B k2) as [y Hy]; [lia|].
      destruct (is_chain_lookup parent_of B k2 _ HcB Hsv) as [_ Hpp]. rewrite Hy in Hpp. cbn in Hpp. rewrite Hpp.
      eapply chain_lookup_ne; [exact HcB|exact Hy|exact Hsv|lia].
    - apply hh_connect_pre; try assumption; try exact (pn_ready _ _ _ _ P); try exact (pn_start _ _ _ _ P);
        try exact (pn_req _ _ _ _ P); try exact (pn_toreq _ _ _ _ P).
      intros x Hx. unfold new in Hx. apply In_take in Hx.
      apply elem_of_list_In, elem_of_list_lookup in Hx as (q & Hq). rewrite lookup_drop in Hq.
      eapply chain_lookup_ne; [exact HcB|exact Hq|exact Hsv|lia]. }
  destruct Hres as (s2 & sent & Eh & Hres). unfold w'. rewrite Eh. cbn [fst snd].
  destruct (pre_reply_world MAXR M parent_of HM HMAXR B w s1 k new s2 sent heard' Hb P Hvr Hhc Hne) as [H|H].
  - unfold new. symmetry. apply take_length_take.
  - unfold new. rewrite take_length, drop_length. lia.
  - exact Hres.
  - left. destruct H as (k' & Hk' & HP & H1 & H2 & H3 & H4 & H5 & H6). exists k'. split; [exact Hk'|].
    unfold PWorld. auto 10.
  - right. destruct H as (k' & _ & D). eauto.
Qed.

End PreRounds2.

Section PreRounds3.
Variables MAXR LIM HT HDT BT DELTA : Z.
Variable M : nat.
Variable parent_of : Z -> Z.
Hypothesis HM : (2 <= M)%nat.
Hypothesis HMAXR : 1 <= MAXR.
Hypothesis HLIM : MAXR <= LIM.
Notation skind := (skind MAXR LIM HT HDT BT DELTA M parent_of).
Notation settle := (settle MAXR LIM HT HDT BT DELTA M parent_of).
Notation Drain := (Drain MAXR parent_of).
Notation PNode := (PNode parent_of).
Notation PWorld := (PWorld parent_of).
Notation is_chain := (is_chain parent_of).
Notation hdrs_of := (hdrs_of parent_of).

Lemma pnode_polled B s k : PNode B s k -> PNode B (upd_hreq s (Some (now s))) k.
Proof. intros [a1 a2 a3 a4 a5 a6 a7 a8 a9 a10]. constructor; assumption. Qed.

(* one poll round of a node that has not found its start block *)
Lemma pre_round B w k : PWorld B w k ->
  exists w', settle 3 w = w' /\
    (((k = length B) /\ Synced B w' /\ cw_reqs w' = []) \/
     ((k < length B)%nat /\ ((exists k', (k < k' <= length B)%nat /\ PWorld B w' k') \/ (exists k' T', Drain B T' w' k')))).
Proof.
  intros (P & Hvr & Hhc & Hq & Hc & Hr & Hb).
  pose proof (pn_chainB _ _ _ _ P) as HcB. pose proof (pn_k _ _ _ _ P) as Hk.
  destruct (poll_reply_node M parent_of HM B k (node_sync w) HcB (pnode_ids M parent_of HM _ _ _ P) (pn_req _ _ _ _ P)
              (pn_toreq _ _ _ _ P) Hk (pn_saved _ _ _ _ P) Hvr Hhc (pn_ready _ _ _ _ P) Hq) as (loc & Ec & Ea).
  assert (Hh : head_ready (node_sync w) = false) by (unfold head_ready; rewrite (pn_req _ _ _ _ P); reflexivity).
  pose proof (poll_steps MAXR LIM HT HDT BT DELTA M parent_of w loc _ Hc Hr Hh Ec) as E3.
  rewrite Hb, Ea in E3. eexists. split; [exact E3|].
  set (s1 := upd_hreq (node_sync w) (Some (now (node_sync w)))) in *.
  pose proof (pnode_polled _ _ _ P) as P1. fold s1 in P1.
  destruct (le_lt_dec (length B) k) as [Hge|Hlt].
  - left. split; [lia|].
    assert (Hdrop : drop k B = []) by (apply drop_ge; lia).
    assert (Hhs : let hs := hdrs_of match k with
                                     | S (S _) => last_saved (rq (node_sync w)) :: take (M - 1) (drop k B)
                                     | _ => take M (drop k B)
                                     end in
                  hs = [] \/ exists p, hs = [(last_hash (rq s1), p)]).
    { rewrite Hdrop. destruct k as [|[|k2]]; cbn zeta.
      - left. destruct M; reflexivity.
      - left. destruct M; reflexivity.
      - right. exists (parent_of (last_saved (rq (node_sync w)))).
        change (last_hash (rq s1)) with (last_hash (rq (node_sync w))).
        rewrite (last_hash_empty _ (pn_req _ _ _ _ P) (pn_toreq _ _ _ _ P)).
        destruct (M - 1)%nat; reflexivity. }
    destruct (hh_insync_pre MAXR LIM s1 _ (pn_ready _ _ _ _ P1) (pn_start _ _ _ _ P1) Hhs) as (s' & Eh & h1 & h2 & h3 & h4).
    rewrite Eh. cbn [fst snd getdata_of]. split; [|reflexivity].
    destruct h4 as (c1 & c2 & c3 & _).
    constructor; unfold node_sync, with_node; cbn [cw_node w_sync cw_chan best cw_peer];
      change (w_sync (cw_node w)) with (node_sync w).
    + exact Hb.
    + rewrite h1. rewrite (pnode_ids M parent_of HM _ _ _ P1). apply take_ge. lia.
    + exact h3.
    + rewrite h2. exact (pn_req _ _ _ _ P1).
    + rewrite h2. exact (pn_toreq _ _ _ _ P1).
    + reflexivity.
    + rewrite c2. exact Hvr.
    + rewrite c3. exact Hhc.
  - right. split; [exact Hlt|].
    destruct k as [|[|k2]]; [lia| |].
    + apply (pre_reply_handled MAXR LIM M parent_of HM HMAXR HLIM B w s1 1 false M); try assumption; try reflexivity; try lia; try discriminate.
    + apply (pre_reply_handled MAXR LIM M parent_of HM HMAXR HLIM B w s1 (S (S k2)) true (M - 1)); try assumption; try reflexivity; try lia.
Qed.

Theorem pre_converges B : forall gap k w,
  (length B - k <= gap)%nat -> PWorld B w k ->
  exists n, converged (settle n w) = true /\ skind (settle n w) = 0.
Proof.
  induction gap as [|gap IH]; intros k w Hgap PW.
  - destruct (pre_round B w k PW) as (w' & E & [(Hk & Sy & Hr)|(Hlt & _)]).
    + destruct (synced_settles MAXR LIM HT HDT BT DELTA M parent_of B w' Sy) as (n & Hn); [rewrite Hr; intros r []|].
      exists (3 + n)%nat. rewrite settle_add, E. exact Hn.
    + destruct PW as (P & _). pose proof (pn_k _ _ _ _ P). lia.
  - destruct (pre_round B w k PW) as (w' & E & [(Hk & Sy & Hr)|(Hlt & [(k' & Hk' & PW')|(k' & T' & D)])]).
    + destruct (synced_settles MAXR LIM HT HDT BT DELTA M parent_of B w' Sy) as (n & Hn); [rewrite Hr; intros r []|].
      exists (3 + n)%nat. rewrite settle_add, E. exact Hn.
    + destruct (IH k' w') as (n & Hn); [lia|exact PW'|].
      exists (3 + n)%nat. rewrite settle_add, E. exact Hn.
    + assert (Hgap' : (length B - T' <= length B)%nat) by lia.
      destruct (drain_converges MAXR LIM HT HDT BT DELTA M parent_of HM HMAXR HLIM B (length B) T' w' k' Hgap' D) as (n & Hn).
      exists (3 + n)%nat. rewrite settle_add, E. exact Hn.
Qed.

(* freshly connected, behind the peer on the peer's own chain, start block not found yet *)
Record FreshPre (B : list Z) (w : cworld) (k : nat) : Prop := {
  fp_best : best w = B;
  fp_node : PNode B (node_sync w) k;
  fp_hc : handshake_complete (node_sync w) = false;
  fp_was : was_in_sync (node_sync w) = false;
  fp_chan : exists invs, cw_chan w = MVersion :: invs /\ Forall is_inv invs;
  fp_reqs : cw_reqs w = [];
}.

Theorem fresh_pre_converges B w k : FreshPre B w k ->
  exists n, converged (settle n w) = true /\ skind (settle n w) = 0.
Proof.
  intros F. destruct (fp_chan _ _ _ F) as (invs & Hc & Hinv). pose proof (fp_node _ _ _ F) as P.
  pose proof (pn_chainB _ _ _ _ P) as HcB. pose proof (pn_k _ _ _ _ P) as Hk. pose proof (pn_saved _ _ _ _ P) as Hsv.
  pose proof (handshake_steps MAXR LIM HT HDT BT DELTA M parent_of w invs Hc Hinv (fp_reqs _ _ _ F)
                (fp_hc _ _ _ F) (pn_ready _ _ _ _ P) (pn_pend _ _ _ _ P) (fp_was _ _ _ F) (pn_req _ _ _ _ P)) as E.
  cbv zeta in E. rewrite (fp_best _ _ _ F) in E.
  assert (Hemp : requests_empty (rq (node_sync w)) = true).
  { unfold requests_empty, total_requests. rewrite (pn_req _ _ _ _ P), (pn_toreq _ _ _ _ P). reflexivity. }
  destruct (locator_first (node_sync w) 0 (take k B) (last_saved (rq (node_sync w))) Hemp (or_introl eq_refl)
              (pnode_ids M parent_of HM _ _ _ P)) as [t Hloc].
  { rewrite take_length, Nat.min_l by lia. change (Z.to_nat 0) with 0%nat. lia. }
  { rewrite take_length, Nat.min_l by lia. change (Z.to_nat 0) with 0%nat.
    replace (k - 1 - 0)%nat with (k - 1)%nat by lia. rewrite lookup_take by lia. exact Hsv. }
  rewrite Hloc, (answer_first parent_of M B (k - 1) _ t HcB Hsv) in E. replace (S (k - 1)) with k in E by lia.
  set (s1 := after_handshake (node_sync w)) in *.
  assert (P1 : PNode B s1 k) by (destruct P as [a1 a2 a3 a4 a5 a6 a7 a8 a9 a10]; constructor; assumption).
  destruct (le_lt_dec (length B) k) as [Hge|Hlt].
  - assert (Hdrop : take M (drop k B) = []) by (rewrite drop_ge by lia; destruct M; reflexivity).
    rewrite Hdrop in E.
    destruct (hh_insync_pre MAXR LIM s1 (hdrs_of []) (pn_ready _ _ _ _ P1) (pn_start _ _ _ _ P1) (or_introl eq_refl))
      as (s' & Eh & h1 & h2 & h3 & h4).
    rewrite Eh in E. cbn [fst snd getdata_of] in E. destruct h4 as (c1 & c2 & c3 & _).
    assert (Sy : Synced B (settle (1 + length invs + 3) w)).
    { rewrite E. constructor; unfold node_sync, with_node; cbn [cw_node w_sync cw_chan best cw_peer];
        change (w_sync (cw_node w)) with (node_sync w).
      - exact (fp_best _ _ _ F).
      - rewrite h1. rewrite (pnode_ids M parent_of HM _ _ _ P1). apply take_ge. lia.
      - exact h3.
      - rewrite h2. exact (pn_req _ _ _ _ P1).
      - rewrite h2. exact (pn_toreq _ _ _ _ P1).
      - reflexivity.
      - rewrite c2. reflexivity.
      - rewrite c3. reflexivity. }
    destruct (synced_settles MAXR LIM HT HDT BT DELTA M parent_of B _ Sy) as (n & Hn); [rewrite E; intros r []|].
    exists ((1 + length invs + 3) + n)%nat. rewrite settle_add. exact Hn.
  - destruct (pre_reply_handled MAXR LIM M parent_of HM HMAXR HLIM B w s1 k false M
                (add_new (cw_heard w) (ids_of (hdrs_of (take M (drop k B))))) (fp_best _ _ _ F) P1 eq_refl eq_refl)
      as [(k' & Hk' & PW')|(k' & T' & D)]; try lia; try discriminate.
    + cbv zeta in PW'. rewrite <- E in PW'.
      destruct (pre_converges B (length B) k' _ ltac:(lia) PW') as (n & Hn).
      exists ((1 + length invs + 3) + n)%nat. rewrite settle_add. exact Hn.
    + cbv zeta in D. rewrite <- E in D.
      assert (Hgap' : (length B - T' <= length B)%nat) by lia.
      destruct (drain_converges MAXR LIM HT HDT BT DELTA M parent_of HM HMAXR HLIM B (length B) T' _ k' Hgap' D) as (n & Hn).
      exists ((1 + length invs + 3) + n)%nat. rewrite settle_add. exact Hn.
Qed.

End PreRounds3.

(* freshly connected, behind the peer on the peer's own chain, start block NOT found yet *)
Definition clean_behind_pre (parent_of : Z -> Z) (w : cworld) : bool :=
  let s := node_sync w in
  let B := best w in
  let k := length (chain s) in
  is_chain parent_of B &&
  hdrs_eqb (chain s) (chain_of parent_of (take k B)) &&
  (1 <=? k)%nat && (k <=? length B)%nat &&
  (start_height s =? -1) &&
  match requested (rq s), to_request (rq s) with [], [] => true | _, _ => false end &&
  (pending (rq s) =? 0) &&
  match B !! (k - 1)%nat with Some x => x =? last_saved (rq s) | None => false end &&
  negb (handshake_complete s) && negb (ready s) && negb (pending_sync s) && negb (was_in_sync s) &&
  match cw_chan w with MVersion :: invs => forallb is_invb invs | _ => false end &&
  match cw_reqs w with [] => true | _ => false end.

Section PrePartial.
Variables MAXR LIM HT HDT BT DELTA : Z.
Variable M : nat.
Variable parent_of : Z -> Z.
Hypothesis HM : (2 <= M)%nat.
Hypothesis HMAXR : 1 <= MAXR.
Hypothesis HLIM : MAXR <= LIM.
Notation settle := (settle MAXR LIM HT HDT BT DELTA M parent_of).
Notation skind := (skind MAXR LIM HT HDT BT DELTA M parent_of).

Lemma clean_behind_pre_fresh w :
  clean_behind_pre parent_of w = true -> FreshPre parent_of (best w) w (length (chain (node_sync w))).
Proof.
  unfold clean_behind_pre. intros H.
  repeat (apply andb_prop in H as [H ?]).
  repeat match goal with X : negb _ = true |- _ => apply negb_true_iff in X end.
  match goal with X : hdrs_eqb _ _ = true |- _ => apply hdrs_eqb_eq in X; rename X into Hchain end.
  match goal with X : (1 <=? _)%nat = true |- _ => apply Nat.leb_le in X; rename X into Hk1 end.
  match goal with X : (_ <=? length _)%nat = true |- _ => apply Nat.leb_le in X; rename X into Hk2 end.
  match goal with X : (start_height _ =? -1) = true |- _ => apply Z.eqb_eq in X; rename X into Hst end.
  match goal with X : (pending _ =? 0) = true |- _ => apply Z.eqb_eq in X; rename X into Hpe end.
  destruct (requested (rq (node_sync w))) eqn:Er; [|discriminate].
  destruct (to_request (rq (node_sync w))) eqn:Et; [|discriminate].
  destruct (best w !! (length (chain (node_sync w)) - 1)%nat) as [x|] eqn:Ex; [|discriminate].
  match goal with X : (x =? _) = true |- _ => apply Z.eqb_eq in X; subst x end.
  destruct (cw_chan w) as [|[| | |] invs] eqn:Ec; try discriminate.
  destruct (cw_reqs w) eqn:Erq; [|discriminate].
  constructor; try assumption; try reflexivity.
  - constructor; try assumption; try reflexivity. lia.
  - exists invs. split; [exact Ec|]. apply List.Forall_forall. intros m Hm.
    match goal with X : forallb is_invb invs = true |- _ => rewrite forallb_forall in X; specialize (X m Hm) end.
    destruct m; try discriminate. exact I.
Qed.

Theorem converges_clean_behind_pre w :
  clean_behind_pre parent_of w = true ->
  exists n, converged (settle n w) = true /\ skind (settle n w) = 0.
Proof.
  intros H. eapply fresh_pre_converges; try eassumption. apply clean_behind_pre_fresh. exact H.
Qed.

End PrePartial.
