(* Proofs about the combined system node + peer + connection (model/Peer.v), property C01.
   Part 1: every reachable combined world satisfies the invariant of Sync_Proofs (the peer only sends
           headers of its block tree), over ALL action lists.
   Part 2: safety - when the in-sync notification is delivered.
   Part 3: the settling run: composition, rest states, the drain measure. *)
From V.lib Require Import Base.
From V.model Require Import Requests Sync SyncSpec Peer.
From V.proofs Require Import Sync_Proofs.

Local Open Scope Z_scope.

(* ---------------------------------------------------------------------------------------- *)
(* Part 1: the invariant of the combined world                                               *)

Section CInv.
Variables MAXR LIM HT HDT BT DELTA : Z.
Variable M : nat.
Variable parent_of : Z -> Z.

Notation wstep := (wstep MAXR LIM HT HDT BT DELTA M parent_of).
Notation wstep_obs := (wstep_obs MAXR LIM HT HDT BT DELTA M parent_of).
Notation wrun := (wrun MAXR LIM HT HDT BT DELTA M parent_of).
Notation is_chain := (is_chain parent_of).
Notation hdrs_of := (hdrs_of parent_of).
Notation nstep := (nstep MAXR LIM HT HDT BT DELTA parent_of).
Notation apply_node := (apply_node MAXR LIM HT HDT BT DELTA parent_of).

Definition msg_ok (m : msg) : Prop :=
  match m with
  | MHeaders hs => Forall (hdr_ok parent_of) hs
  | _ => True
  end.

Definition CInv (w : cworld) : Prop :=
  Inv parent_of MAXR (node_sync w) /\ is_chain (best w) = true /\ Forall msg_ok (cw_chan w).

Lemma linked_ids_nonzero c : forall p x, linked_ids parent_of p c = true -> In x c -> x <> 0.
Proof.
  induction c as [|y c IH]; intros p x H Hin; [destruct Hin|].
  cbn [linked_ids] in H. apply andb_prop in H as [H Hl]. apply andb_prop in H as [Hy _].
  destruct Hin as [<-|Hin]; [|eapply IH; eauto].
  apply negb_true_iff in Hy. apply Z.eqb_neq in Hy. exact Hy.
Qed.

Lemma is_chain_tail c : is_chain c = true -> exists r, c = 0 :: r /\ forall x, In x r -> x <> 0.
Proof.
  destruct c as [|z r]; [discriminate|]. cbn [Peer.is_chain].
  destruct z; try discriminate. intros H. exists r. split; [reflexivity|].
  intros x Hx. eapply linked_ids_nonzero; eauto.
Qed.

Lemma hdrs_of_ok ids : (forall x, In x ids -> x <> 0) -> Forall (hdr_ok parent_of) (hdrs_of ids).
Proof.
  intros H. unfold Peer.hdrs_of. apply Forall_map. apply List.Forall_forall. intros x Hx.
  split; [apply H; exact Hx|reflexivity].
Qed.

Lemma after_incl id l : forall x, In x (after id l) -> In x l.
Proof.
  induction l as [|y l IH]; intros x H; [destruct H|].
  cbn [after] in H. destruct (y =? id); [right; exact H|right; apply IH; exact H].
Qed.

Lemma after_tail id r : forall x, In x (after id (0 :: r)) -> In x r.
Proof.
  intros x H. cbn [after] in H. destruct (0 =? id); [exact H|apply after_incl in H; exact H].
Qed.

Lemma In_take {A} n (l : list A) x : In x (take n l) -> In x l.
Proof.
  revert n. induction l as [|y l IH]; intros n H; destruct n as [|n]; cbn in H; try contradiction.
  destruct H as [H|H]; [left; exact H|right; eapply IH; exact H].
Qed.

Lemma In_drop {A} n (l : list A) x : In x (drop n l) -> In x l.
Proof.
  revert n. induction l as [|y l IH]; intros n H; destruct n as [|n]; cbn in H; try contradiction.
  - exact H.
  - right; eapply IH; exact H.
Qed.

Lemma answer_ok bst loc : is_chain bst = true -> Forall (hdr_ok parent_of) (answer_getheaders M parent_of bst loc).
Proof.
  intros Hc. apply is_chain_tail in Hc as (r & -> & Hr). unfold answer_getheaders.
  apply hdrs_of_ok. intros x Hx. apply Hr.
  apply In_take in Hx. eapply after_tail; exact Hx.
Qed.

Lemma cpl_pos a b r r' : a = 0 :: r -> b = 0 :: r' -> (1 <= cpl a b)%nat.
Proof. intros -> ->. cbn. lia. Qed.

Lemma announce_ok bst c : is_chain bst = true -> is_chain c = true ->
  Forall (hdr_ok parent_of) (hdrs_of (drop (cpl bst c) c)).
Proof.
  intros Hb Hc. apply is_chain_tail in Hb as (r & -> & _). apply is_chain_tail in Hc as (r' & -> & Hr').
  apply hdrs_of_ok. intros x Hx. apply Hr'.
  cbn [cpl Z.eqb] in Hx. cbn [drop] in Hx. eapply In_drop; exact Hx.
Qed.

Definition op_ok (o : op) : Prop := Forall (hdr_ok parent_of) (op_headers o).

Lemma apply_node_inv w o w1 ob :
  apply_node w o = (w1, ob) -> CInv w -> op_ok o ->
  CInv w1 /\ cw_chan w1 = cw_chan w /\ cw_peer w1 = cw_peer w /\ cw_heard w1 = cw_heard w /\
  cw_node w1 = fst (nstep (cw_node w) o).
Proof.
  unfold Peer.apply_node. intros H (HI & Hb & Hc) Hok.
  destruct (nstep (cw_node w) o) as [n1 ob1] eqn:E. injection H as <- <-.
  cbn [cw_chan cw_peer cw_heard cw_node fst].
  unfold Peer.nstep in E. apply step_spec in E as [HI1 _]; [|exact HI|exact Hok].
  split; [split; [exact HI1|split; assumption]|]. repeat split; reflexivity.
Qed.

Lemma pick_In {A} k (l : list A) x rest : pick k l = Some (x, rest) -> In x l /\ incl rest l.
Proof.
  unfold pick. destruct l as [|a l]; [discriminate|].
  set (i := (k mod length (a :: l))%nat). destruct ((a :: l) !! i) as [y|] eqn:E; [|discriminate].
  intros H. injection H as <- <-. split.
  - apply elem_of_list_lookup_2 in E. apply elem_of_list_In. exact E.
  - clear E. generalize (a :: l) i. intros l0. induction l0 as [|b l0 IH]; intros n; [destruct n; cbn; apply incl_refl|].
    destruct n as [|n]; cbn [remove_nth].
    + apply incl_tl, incl_refl.
    + intros z Hz. destruct Hz as [<-|Hz]; [left; reflexivity|right; eapply IH; exact Hz].
Qed.

Lemma Forall_incl {A} (P : A -> Prop) l l' : incl l' l -> Forall P l -> Forall P l'.
Proof. intros Hi H. apply List.Forall_forall. intros x Hx. rewrite List.Forall_forall in H. apply H, Hi, Hx. Qed.

Lemma CInv_reset w : CInv w -> CInv (conn_reset w).
Proof.
  intros (HI & Hb & _). split; [exact HI|]. split; [exact Hb|].
  cbn. constructor; [exact I|constructor].
Qed.

Lemma wstep_inv w a : CInv w -> CInv (wstep w a).
Proof.
  intros HC. pose proof HC as (HI & Hb & Hc). unfold Peer.wstep, Peer.wstep_obs.
  destruct a.
  - (* deliver *)
    destruct (pick k (cw_chan w)) as [[m rest]|] eqn:Ep; [|exact HC].
    apply pick_In in Ep as [Hin Hrest].
    assert (Hm : msg_ok m). { rewrite List.Forall_forall in Hc. apply Hc, Hin. }
    assert (HC0 : CInv (set_chan w rest)).
    { split; [exact HI|]. split; [exact Hb|]. cbn. eapply Forall_incl; eauto. }
    destruct m as [|hs|id|id].
    + destruct (apply_node (set_chan w rest) OVersion) as [w1 ob] eqn:E. cbn [fst].
      apply apply_node_inv in E as (H1 & _); [exact H1|exact HC0|constructor].
    + match goal with |- CInv (fst (apply_node ?w0 _)) => destruct (apply_node w0 (OHeaders hs)) as [w1 ob] eqn:E;
        assert (HC1 : CInv w0) by (split; [exact HI|split; [exact Hb|cbn; eapply Forall_incl; eauto]]) end.
      cbn [fst]. apply apply_node_inv in E as (H1 & _); [exact H1|exact HC1|exact Hm].
    + destruct (apply_node (set_chan w rest) (OBlockMsg id true)) as [w1 ob] eqn:E. cbn [fst].
      apply apply_node_inv in E as (H1 & _); [exact H1|exact HC0|constructor].
    + cbn [fst]. split; [|split; [exact Hb|cbn; eapply Forall_incl; eauto]].
      unfold node_sync. cbn [cw_node set_node w_sync]. unfold Peer.handle_block_inv.
      change (w_sync (cw_node (set_chan w rest))) with (node_sync w).
      destruct (ready (node_sync w)); [|exact HI].
      eapply Inv_ext; [| | |exact HI]; reflexivity.
  - (* dup *)
    destruct (pick k (cw_chan w)) as [[m rest]|] eqn:Ep; [|exact HC].
    apply pick_In in Ep as [Hin _]. cbn [fst].
    split; [exact HI|]. split; [exact Hb|]. cbn. apply Forall_app. split; [exact Hc|].
    constructor; [|constructor]. rewrite List.Forall_forall in Hc. apply Hc, Hin.
  - (* answer *)
    destruct (pick k (cw_reqs w)) as [[r rest]|] eqn:Ep; [|exact HC]. cbn [fst].
    destruct r as [loc|ids|]; unfold peer_answer.
    + split; [exact HI|]. split; [exact Hb|]. cbn. apply Forall_app. split; [exact Hc|].
      constructor; [|constructor]. cbn. apply answer_ok. exact Hb.
    + split; [exact HI|]. split; [exact Hb|]. cbn. apply Forall_app. split; [exact Hc|].
      apply Forall_map. apply List.Forall_forall. intros x _. exact I.
    + split; [exact HI|]. split; [exact Hb|exact Hc].
  - destruct (apply_node w OProcess) as [w1 ob] eqn:E. cbn [fst].
    apply apply_node_inv in E as (H1 & _); [exact H1|exact HC|constructor].
  - destruct (apply_node w OCheck) as [w1 ob] eqn:E. cbn [fst].
    apply apply_node_inv in E as (H1 & _); [exact H1|exact HC|constructor].
  - destruct (apply_node w (OAdvance (Z.max 0 dt))) as [w1 ob] eqn:E. cbn [fst].
    apply apply_node_inv in E as (H1 & _); [exact H1|exact HC|constructor].
  - destruct (apply_node w OTimeouts) as [w1 ob] eqn:E. cbn [fst].
    apply apply_node_inv in E as (H1 & _); [|exact HC|constructor].
    destruct (timed_out HT HDT BT (node_sync w)); [apply CInv_reset|]; exact H1.
  - destruct (apply_node w OReconnect) as [w1 ob] eqn:E. cbn [fst].
    apply apply_node_inv in E as (H1 & _); [|exact HC|constructor]. apply CInv_reset. exact H1.
  - destruct (apply_node w ORestartNode) as [w1 ob] eqn:E. cbn [fst].
    apply apply_node_inv in E as (H1 & _); [|exact HC|constructor]. apply CInv_reset. exact H1.
  - (* peer event *)
    cbn [fst]. unfold peer_set.
    destruct (is_chain c && (length (p_best (cw_peer w)) <? length c)%nat) eqn:E; [|exact HC].
    apply andb_prop in E as [E _].
    split; [exact HI|]. split; [exact E|]. cbn. apply Forall_app. split; [exact Hc|].
    constructor; [|constructor].
    destruct (p_sh (cw_peer w)); [|exact I]. cbn. apply announce_ok; assumption.
Qed.

Lemma wrun_inv acts : forall w, CInv w -> CInv (wrun w acts).
Proof.
  induction acts as [|a acts IH]; intros w H; [exact H|].
  cbn [Peer.wrun fold_left]. apply IH. apply wstep_inv. exact H.
Qed.

Lemma cw_init_inv start : CInv (cw_init start).
Proof.
  split; [apply w_init_inv|]. split; [reflexivity|]. cbn. constructor; [exact I|constructor].
Qed.

End CInv.

(* ---------------------------------------------------------------------------------------- *)
(* Part 2: safety - when the in-sync notification is delivered                               *)

(* the blocks the node has been told about by headers it accepted and has not stored yet *)
Definition outstanding (s : sync) : list Z := map fst (requested (rq s)) ++ to_request (rq s).

Lemma requests_empty_outstanding s : requests_empty (rq s) = true <-> outstanding s = [].
Proof.
  unfold requests_empty, total_requests, outstanding, zlen. split.
  - intros H. apply Z.eqb_eq in H.
    destruct (requested (rq s)) as [|x l]; destruct (to_request (rq s)) as [|y l']; cbn in *; try lia. reflexivity.
  - intros H. apply app_eq_nil in H as [H1 H2]. apply map_eq_nil in H1. rewrite H1, H2. reflexivity.
Qed.

Lemma In_app3 {A} (x : A) a b c : In x (a ++ b ++ c) <-> In x a \/ In x b \/ In x c.
Proof. rewrite !in_app_iff. tauto. Qed.

Lemma insync_in_outs o1 (b2 b3 b4 : bool) :
  ~ In OutInSync o1 ->
  In OutInSync (o1 ++ (if b2 then [OutSendHeaders] else []) ++ (if b3 then [OutGetAddr] else []) ++
                (if b4 then [OutInSync] else [])) -> b4 = true.
Proof.
  intros Hn H. rewrite !in_app_iff in H. destruct H as [H|[H|[H|H]]]; [contradiction| | |].
  - destruct b2; [destruct H as [H|[]]; discriminate|destruct H].
  - destruct b3; [destruct H as [H|[]]; discriminate|destruct H].
  - destruct b4; [reflexivity|destruct H].
Qed.

(* Node.check notifies only when in sync, not notified before, and nothing is outstanding; afterwards
   the notification is marked as delivered *)
Lemma check_insync s s1 outs :
  check s = (s1, outs) -> In OutInSync outs ->
  ready s = true /\ notified s = false /\ outstanding s = [] /\ notified s1 = true.
Proof.
  unfold check. intros H Hin.
  destruct (negb (version_received s)); [injection H as <- <-; destruct Hin|].
  destruct (negb (handshake_complete s)) eqn:Ehc; cbv beta iota zeta in H;
    cbn [ready rq notified sent_sendheaders addrs_requested headers_requested] in H.
  - destruct (ready s) eqn:Er.
    + injection H as <- <-. cbn [notified].
      change (In OutInSync ([OutGetHeaders (locator s 0)] ++
                (if negb (sent_sendheaders s) then [OutSendHeaders] else []) ++
                (if negb (addrs_requested s) then [OutGetAddr] else []) ++
                (if negb (notified s) && requests_empty (rq s) then [OutInSync] else []))) in Hin.
      apply insync_in_outs in Hin; [|intros [X|[]]; discriminate].
      apply andb_prop in Hin as [E1 E2]. apply negb_true_iff in E1.
      apply requests_empty_outstanding in E2 as E3. rewrite E2, orb_true_r. auto.
    + cbn [andb] in H. injection H as <- <-. destruct Hin as [Hin|[]]; discriminate.
  - destruct (ready s) eqn:Er.
    + injection H as <- <-. cbn [notified].
      change (In OutInSync ([] ++
                (if negb (sent_sendheaders s) then [OutSendHeaders] else []) ++
                (if negb (addrs_requested s) then [OutGetAddr] else []) ++
                (if negb (notified s) && requests_empty (rq s) then [OutInSync] else []))) in Hin.
      apply insync_in_outs in Hin; [|intros []].
      apply andb_prop in Hin as [E1 E2]. apply negb_true_iff in E1.
      apply requests_empty_outstanding in E2 as E3. rewrite E2, orb_true_r. auto.
    + destruct (match headers_requested s with Some _ => false | None => true end && (total_requests (rq s) <? 5));
        injection H as <- <-; [destruct Hin as [Hin|[]]; discriminate|destruct Hin].
Qed.

Lemma emits_insync_spec s :
  emits_insync s = true ->
  ready s = true /\ notified s = false /\ outstanding s = [] /\ notified (fst (check s)) = true.
Proof.
  unfold emits_insync. intros H. apply existsb_exists in H as (o & Hin & Ho).
  destruct o; try discriminate. destruct (check s) as [s1 outs] eqn:E. cbn [snd fst] in *.
  eapply check_insync; eauto.
Qed.

(* fields that only the handshake / check / restart code touches *)
Definition flags_eq (s s' : sync) : Prop :=
  notified s' = notified s /\ version_received s' = version_received s /\
  handshake_complete s' = handshake_complete s /\ sent_sendheaders s' = sent_sendheaders s /\
  addrs_requested s' = addrs_requested s /\ start_hash s' = start_hash s /\ connected s' = connected s /\
  now s' = now s.

Lemma flags_eq_refl s : flags_eq s s.
Proof. repeat split. Qed.

Lemma flags_eq_trans s1 s2 s3 : flags_eq s1 s2 -> flags_eq s2 s3 -> flags_eq s1 s3.
Proof.
  intros (a1 & a2 & a3 & a4 & a5 & a6 & a7 & a8) (b1 & b2 & b3 & b4 & b5 & b6 & b7 & b8).
  repeat split; congruence.
Qed.

Section Flags.
Variables MAXR LIM : Z.

Lemma request_block_flags s prev h : flags_eq s (request_block MAXR LIM s prev h).1.
Proof.
  unfold request_block. destruct (add_block_request MAXR LIM (rq s) prev h) as [r1 [[|]|e|]]; repeat split.
Qed.

Lemma check_start_height_flags s h : flags_eq s (check_start_height s h).1.
Proof.
  unfold check_start_height. destruct (start_height s =? -1); [|repeat split].
  destruct (start_hash s =? fst h); repeat split.
Qed.

Lemma headers_loop_flags hs : forall s lh acc m, flags_eq s (headers_loop MAXR LIM s lh hs acc m).1.1.
Proof.
  induction hs as [|h hs IH]; intros s lh acc m; [apply flags_eq_refl|].
  cbn [headers_loop].
  destruct (lh =? snd h).
  - pose proof (check_start_height_flags s h) as H1.
    destruct (check_start_height s h) as [s1 req]. cbn [fst] in H1. destruct req.
    + pose proof (request_block_flags s1 (snd h) (fst h)) as H2.
      destruct (request_block MAXR LIM s1 (snd h) (fst h)) as [s2 send]. cbn [fst] in H2.
      eapply flags_eq_trans; [eapply flags_eq_trans; [exact H1|exact H2]|apply IH].
    + eapply flags_eq_trans; [exact H1|apply IH].
  - destruct (fst h =? lh); [apply IH|].
    destruct (contains s (fst h) || is_requested (rq s) (fst h) || is_to_be_requested (rq s) (fst h)); [apply IH|].
    destruct (is_requested (rq s) (snd h) || is_to_be_requested (rq s) (snd h)).
    + match goal with |- context [request_block MAXR LIM ?s0 ?a ?b] =>
        pose proof (request_block_flags s0 a b) as H2; destruct (request_block MAXR LIM s0 a b) as [s2 send] end.
      cbn [fst] in H2. eapply flags_eq_trans; [|apply IH].
      eapply flags_eq_trans; [|exact H2]. repeat split.
    + destruct (height_of s (snd h)) as [rh|]; [|repeat split].
      destruct (rh =? height s).
      * eapply flags_eq_trans; [|apply IH]. repeat split.
      * match goal with |- context [check_start_height ?s3 h] =>
          pose proof (check_start_height_flags s3 h) as H1; destruct (check_start_height s3 h) as [s4 req] end.
        cbn [fst] in H1. destruct req.
        -- pose proof (request_block_flags s4 (snd h) (fst h)) as H2.
           destruct (request_block MAXR LIM s4 (snd h) (fst h)) as [s5 send]. cbn [fst] in H2.
           eapply flags_eq_trans; [|apply IH]. eapply flags_eq_trans; [|exact H2].
           eapply flags_eq_trans; [|exact H1]. repeat split.
        -- eapply flags_eq_trans; [|apply IH]. eapply flags_eq_trans; [|exact H1]. repeat split.
Qed.

Lemma handle_headers_flags s hs : flags_eq s (handle_headers MAXR LIM s hs).1.
Proof.
  unfold handle_headers.
  match goal with |- context [if ?b then _ else _] => destruct b end.
  - cbn [fst]. destruct (start_height (upd_pending s true) =? -1); [repeat split|].
    destruct (requests_empty (rq (upd_pending s true))); repeat split.
  - pose proof (headers_loop_flags hs s (last_hash (rq s)) [] false) as H.
    destruct (headers_loop MAXR LIM s (last_hash (rq s)) hs [] false) as [[s1 res] m]. cbn [fst] in H.
    destruct res as [acc|]; cbn [fst]; [|exact H]. destruct m; [|exact H].
    eapply flags_eq_trans; [exact H|repeat split].
Qed.

Lemma request_more_flags fuel : forall s acc, flags_eq s (request_more MAXR LIM fuel s acc).1.
Proof.
  induction fuel as [|f IH]; intros s acc; [apply flags_eq_refl|].
  cbn [request_more]. destruct (get_next MAXR LIM (rq s)) as [r1 [[h c]|]]; [|apply flags_eq_refl].
  eapply flags_eq_trans; [|apply IH]. repeat split.
Qed.

Lemma process_next_flags parent_of s : flags_eq s (process_next MAXR LIM parent_of s).1.1.
Proof.
  unfold process_next. destruct (next_block (rq s)) as [r1 [id|]]; [|apply flags_eq_refl].
  cbv zeta.
  match goal with |- context [process_block ?a ?b ?c] => destruct (process_block a b c) as [s2 code] eqn:E end.
  pose proof (request_more_flags (Z.to_nat (MAXR + 1)) s2 []) as H.
  destruct (request_more MAXR LIM (Z.to_nat (MAXR + 1)) s2 []) as [s3 reqs]. cbn [fst] in *.
  eapply flags_eq_trans; [|exact H].
  unfold process_block in E.
  repeat match type of E with context [if ?b then _ else _] => destruct b end;
    injection E as <- <-; repeat split.
Qed.

End Flags.

Lemma check_notified s : notified s = true -> notified (check s).1 = true.
Proof.
  unfold check. intros H. destruct (negb (version_received s)); [exact H|].
  destruct (negb (handshake_complete s)); cbv beta iota zeta;
    cbn [ready rq notified sent_sendheaders addrs_requested headers_requested].
  - destruct (ready s); cbn [fst notified]; [rewrite H; reflexivity|]. cbn [andb fst notified]. exact H.
  - destruct (ready s); cbn [fst notified]; [rewrite H; reflexivity|].
    destruct (match headers_requested s with Some _ => false | None => true end && (total_requests (rq s) <? 5));
      cbn [fst notified upd_hreq]; exact H.
Qed.

Section Once.
Variables MAXR LIM HT HDT BT DELTA : Z.
Variable M : nat.
Variable parent_of : Z -> Z.
Notation wstep := (wstep MAXR LIM HT HDT BT DELTA M parent_of).
Notation wrun := (wrun MAXR LIM HT HDT BT DELTA M parent_of).
Notation nstep := (nstep MAXR LIM HT HDT BT DELTA parent_of).

Lemma nstep_notified w o :
  o <> ORestartNode -> notified (w_sync w) = true -> notified (w_sync (nstep w o).1) = true.
Proof.
  intros Ho H. destruct w as [s uv]. unfold Peer.nstep, Sync.step. cbv beta iota zeta. cbn [w_sync w_uverified] in *.
  destruct o; try contradiction; cbn [fst w_sync notified].
  - exact H.
  - pose proof (handle_headers_flags MAXR LIM s hs) as (F & _).
    destruct (handle_headers MAXR LIM s hs) as [s1 res]. cbn [fst w_sync] in *. congruence.
  - unfold handle_block. destruct (add_block (rq s) id 1) as [r1 [|]]; cbn [fst w_sync notified]; exact H.
  - pose proof (process_next_flags MAXR LIM parent_of s) as (F & _).
    destruct (process_next MAXR LIM parent_of s) as [[s1 popped] reqs]. cbn [fst w_sync] in *. congruence.
  - pose proof (check_notified s H) as F. destruct (check s) as [s1 outs]. cbn [fst w_sync] in *. exact F.
  - exact H.
  - destruct (timed_out HT HDT BT s); cbn [fst w_sync notified reconnect]; exact H.
  - exact H.
  - exact H.
  - destruct (untrusted_headers DELTA s uv hs) as [v err]. cbn [fst w_sync]. exact H.
  - exact H.
  - exact H.
Qed.

Lemma apply_node_node w o :
  cw_node (apply_node MAXR LIM HT HDT BT DELTA parent_of w o).1 = (nstep (cw_node w) o).1.
Proof. unfold Peer.apply_node. destruct (nstep (cw_node w) o) as [n1 ob]. reflexivity. Qed.

Lemma wstep_notified w a :
  a <> ARestart -> notified (node_sync w) = true -> notified (node_sync (wstep w a)) = true.
Proof.
  intros Ha H. unfold Peer.wstep, Peer.wstep_obs, node_sync in *.
  destruct a; try contradiction.
  - destruct (pick k (cw_chan w)) as [[m rest]|]; [|exact H].
    destruct m as [|hs|id|id].
    + rewrite apply_node_node. apply nstep_notified; [discriminate|exact H].
    + rewrite apply_node_node. apply nstep_notified; [discriminate|exact H].
    + rewrite apply_node_node. apply nstep_notified; [discriminate|exact H].
    + cbn [fst cw_node set_node w_sync]. unfold Peer.handle_block_inv.
      change (w_sync (cw_node (set_chan w rest))) with (w_sync (cw_node w)).
      destruct (ready (w_sync (cw_node w))); cbn [notified upd_was upd_ready]; exact H.
  - destruct (pick k (cw_chan w)) as [[m rest]|]; exact H.
  - destruct (pick k (cw_reqs w)) as [[r rest]|]; [|exact H]. destruct r; exact H.
  - rewrite apply_node_node. apply nstep_notified; [discriminate|exact H].
  - rewrite apply_node_node. apply nstep_notified; [discriminate|exact H].
  - rewrite apply_node_node. apply nstep_notified; [discriminate|exact H].
  - pose proof (apply_node_node w OTimeouts) as E.
    destruct (apply_node MAXR LIM HT HDT BT DELTA parent_of w OTimeouts) as [w1 ob]. cbn [fst] in *.
    assert (X : notified (w_sync (cw_node w1)) = true) by (rewrite E; apply nstep_notified; [discriminate|exact H]).
    destruct (timed_out HT HDT BT (w_sync (cw_node w))); exact X.
  - pose proof (apply_node_node w OReconnect) as E.
    destruct (apply_node MAXR LIM HT HDT BT DELTA parent_of w OReconnect) as [w1 ob]. cbn [fst] in *.
    cbn [conn_reset cw_node]. rewrite E. apply nstep_notified; [discriminate|exact H].
  - cbn [fst]. unfold peer_set.
    destruct (is_chain parent_of c && (length (p_best (cw_peer w)) <? length c)%nat); exact H.
Qed.

Lemma wrun_notified acts : forall w,
  Forall (fun a => a <> ARestart) acts -> notified (node_sync w) = true ->
  notified (node_sync (wrun w acts)) = true.
Proof.
  induction acts as [|a acts IH]; intros w Hall H; [exact H|].
  inversion Hall as [|a0 l0 Ha Hall' E0]; subst. cbn [Peer.wrun fold_left].
  apply IH; [exact Hall'|]. apply wstep_notified; assumption.
Qed.

(* SAFETY, over all action lists (any peer history, any delivery order, duplicates, restarts):
   when Node.check delivers the in-sync notification, the node is in sync, has not notified before in this
   process, and holds every block it has been given a header for and has accepted (no block request is
   outstanding) *)
Theorem insync_only_when_caught_up : forall (start : Z) (acts : list act),
  let w := wrun (cw_init start) acts in
  emits_insync (node_sync w) = true ->
  ready (node_sync w) = true /\ notified (node_sync w) = false /\ outstanding (node_sync w) = [].
Proof.
  intros start acts w H. apply emits_insync_spec in H as (H1 & H2 & H3 & _). auto.
Qed.

(* ... and it is delivered at most once per node process *)
Theorem insync_once : forall (start : Z) (acts1 acts2 : list act),
  let w1 := wrun (cw_init start) acts1 in
  emits_insync (node_sync w1) = true ->
  Forall (fun a => a <> ARestart) acts2 ->
  emits_insync (node_sync (wrun (wstep w1 ACheck) acts2)) = false.
Proof.
  intros start acts1 acts2 w1 H Hall.
  apply emits_insync_spec in H as (_ & _ & _ & H4).
  destruct (emits_insync (node_sync (wrun (wstep w1 ACheck) acts2))) eqn:E; [|reflexivity].
  apply emits_insync_spec in E as (_ & E2 & _).
  rewrite wrun_notified in E2; [discriminate|exact Hall|].
  unfold Peer.wstep, Peer.wstep_obs, node_sync. rewrite apply_node_node.
  unfold Peer.nstep, Sync.step. cbv beta iota zeta.
  destruct (check (w_sync (cw_node w1))) as [s1 outs] eqn:Ec. cbn [fst w_sync]. cbn [fst] in H4.
  unfold node_sync in H4. rewrite Ec in H4. exact H4.
Qed.

End Once.

(* ---------------------------------------------------------------------------------------- *)
(* Part 3: the settling run                                                                  *)

Section Settle.
Variables MAXR LIM HT HDT BT DELTA : Z.
Variable M : nat.
Variable parent_of : Z -> Z.
Notation wstep := (wstep MAXR LIM HT HDT BT DELTA M parent_of).
Notation settle1 := (settle1 MAXR LIM HT HDT BT DELTA M parent_of).
Notation settle_run := (settle_run MAXR LIM HT HDT BT DELTA M parent_of).
Notation settle := (settle MAXR LIM HT HDT BT DELTA M parent_of).
Notation quiescent := (quiescent MAXR LIM HT HDT BT DELTA M parent_of).

Definition skind (w : cworld) : Z := (settle1 w).1.2.
Definition snext (w : cworld) : cworld := (settle1 w).1.1.

Lemma skind0_snext w : skind w = 0 -> snext w = w.
Proof.
  unfold skind, snext, Peer.settle1.
  destruct (cw_chan w); [|cbn; discriminate].
  destruct (cw_reqs w); [|cbn; discriminate].
  destruct (head_ready (node_sync w)); [cbn; discriminate|].
  destruct (check_enabled (node_sync w)); [cbn; discriminate|].
  destruct (converged w); [reflexivity|].
  destruct (armed HT HDT BT (node_sync w)); [cbn; discriminate|reflexivity].
Qed.

Lemma settle_run_world n : forall w a b c a' b' c',
  (settle_run n w a b c).1.1.1 = (settle_run n w a' b' c').1.1.1.
Proof.
  induction n as [|n IH]; intros w a b c a' b' c'; [reflexivity|].
  cbn [Peer.settle_run]. destruct (settle1 w) as [[w1 k] i].
  destruct (k =? 0); [reflexivity|]. apply IH.
Qed.

Lemma settle_S n w : settle (S n) w = if skind w =? 0 then w else settle n (snext w).
Proof.
  unfold Peer.settle at 1, skind, snext. cbn [Peer.settle_run].
  destruct (settle1 w) as [[w1 k] i]. cbn [fst snd].
  destruct (k =? 0); [reflexivity|]. apply settle_run_world.
Qed.

Lemma settle_0 w : settle 0 w = w.
Proof. reflexivity. Qed.

Lemma settle_rest n w : skind w = 0 -> settle n w = w.
Proof. intros H. destruct n; [reflexivity|]. rewrite settle_S, H. reflexivity. Qed.

Lemma settle_add n : forall m w, settle (n + m) w = settle m (settle n w).
Proof.
  induction n as [|n IH]; intros m w; [reflexivity|].
  cbn [Nat.add]. rewrite !settle_S. destruct (skind w =? 0) eqn:E; [|apply IH].
  apply Z.eqb_eq in E. rewrite settle_rest; [reflexivity|exact E].
Qed.

(* one step of the run, when something is enabled *)
Lemma settle_step w : skind w <> 0 -> settle 1 w = snext w.
Proof. intros H. rewrite settle_S. apply Z.eqb_neq in H. rewrite H. reflexivity. Qed.

(* a world at rest that is not converged stays so for ever *)
Lemma rest_not_converged w n0 :
  skind (settle n0 w) = 0 ->
  forallb (fun n => negb (converged (settle n w))) (seq 0 (S n0)) = true ->
  forall n, converged (settle n w) = false.
Proof.
  intros Hk Hall n. rewrite forallb_forall in Hall.
  destruct (le_lt_dec n n0) as [Hle|Hgt].
  - specialize (Hall n). rewrite negb_true_iff in Hall. apply Hall. apply in_seq. lia.
  - replace n with (n0 + (n - n0))%nat by lia. rewrite settle_add, settle_rest; [|exact Hk].
    specialize (Hall n0). rewrite negb_true_iff in Hall. apply Hall. apply in_seq. lia.
Qed.

(* the settling run is one particular schedule: the actions it takes *)
Definition settle1_acts (w : cworld) : list act :=
  match cw_chan w with
  | _ :: _ => [ADeliver 0]
  | [] =>
      match cw_reqs w with
      | _ :: _ => [AAnswer 0]
      | [] =>
          if head_ready (node_sync w) then [AProcess]
          else if check_enabled (node_sync w) then [ACheck]
          else if converged w then []
          else if armed HT HDT BT (node_sync w) then [AAdvance (settle_dt HT HDT BT); ATimeouts]
          else []
      end
  end.

Fixpoint settle_acts (n : nat) (w : cworld) : list act :=
  match n with
  | O => []
  | S n' => settle1_acts w ++ settle_acts n' (wrun MAXR LIM HT HDT BT DELTA M parent_of w (settle1_acts w))
  end.

Lemma snext_acts w : snext w = wrun MAXR LIM HT HDT BT DELTA M parent_of w (settle1_acts w).
Proof.
  unfold snext, Peer.settle1, settle1_acts.
  destruct (cw_chan w); [|reflexivity].
  destruct (cw_reqs w); [|reflexivity].
  destruct (head_ready (node_sync w)); [reflexivity|].
  destruct (check_enabled (node_sync w)); [reflexivity|].
  destruct (converged w); [reflexivity|].
  destruct (armed HT HDT BT (node_sync w)); reflexivity.
Qed.

Lemma wrun_app w a b :
  wrun MAXR LIM HT HDT BT DELTA M parent_of w (a ++ b) =
  wrun MAXR LIM HT HDT BT DELTA M parent_of (wrun MAXR LIM HT HDT BT DELTA M parent_of w a) b.
Proof. unfold Peer.wrun. apply fold_left_app. Qed.

(* every world of the settling run is reachable from where it starts *)
Lemma settle_reachable n : forall w, settle n w = wrun MAXR LIM HT HDT BT DELTA M parent_of w (settle_acts n w).
Proof.
  induction n as [|n IH]; intros w; [reflexivity|].
  rewrite settle_S. cbn [settle_acts]. rewrite wrun_app, <- snext_acts.
  destruct (skind w =? 0) eqn:E; [|apply IH].
  apply Z.eqb_eq in E. rewrite (skind0_snext w E). rewrite <- IH. symmetry. apply settle_rest. exact E.
Qed.

End Settle.
