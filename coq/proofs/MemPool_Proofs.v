(* Proofs for property C05: the mempool model (outpoint index) refines the index-free pool. *)
From V.lib Require Import Base.
From V.model Require Import MemPool MemPoolSpec.

(* ---------------------------------------------------------------------------------------- *)
(* decidability of `shares` (needed by the statement of conflicting_evicts) *)
Global Instance shares_dec (a b : list Z) : Decision (shares a b).
Proof.
  refine (cast_if (decide (Exists (fun o => o ∈ b) a))).
  - abstract (apply Exists_exists in e; destruct e as (o & Ha & Hb); exists o;
              split; apply elem_of_list_In; assumption).
  - abstract (intros (o & Ha & Hb); apply n, Exists_exists; exists o;
              split; apply elem_of_list_In; assumption).
Defined.

(* ---------------------------------------------------------------------------------------- *)
(* basic facts *)
Definition norm (l : list Z) : option (list Z) := match l with [] => None | l => Some l end.

Lemma norm_snoc l x : norm (l ++ [x]) = Some (l ++ [x]).
Proof. destruct l; reflexivity. Qed.

Lemma norm_Some l l' : norm l = Some l' -> l' = l /\ l <> [].
Proof. destruct l; simpl; intros H; inversion H; subst; split; congruence. Qed.

Lemma norm_None l : norm l = None -> l = [].
Proof. destruct l; simpl; congruence. Qed.

Lemma norm_ne l : l <> [] -> norm l = Some l.
Proof. destruct l; simpl; congruence. Qed.

Lemma zlen_eqb0 {A} (l : list A) : (zlen l =? 0) = match l with [] => true | _ => false end.
Proof. destruct l; reflexivity. Qed.

Lemma zlen_gtb0 {A} (l : list A) : (zlen l >? 0) = match l with [] => false | _ => true end.
Proof. destruct l; reflexivity. Qed.

Lemma mem_elem x l : mem x l = true <-> x ∈ l.
Proof.
  unfold mem. rewrite existsb_exists. split.
  - intros (y & Hy & He). apply Z.eqb_eq in He. subst. apply elem_of_list_In. exact Hy.
  - intros H. exists x. split; [apply elem_of_list_In; exact H | apply Z.eqb_refl].
Qed.

Lemma mem_false x l : mem x l = false <-> x ∉ l.
Proof. rewrite <- mem_elem. destruct (mem x l); split; congruence. Qed.

Lemma mem_app x l1 l2 : mem x (l1 ++ l2) = mem x l1 || mem x l2.
Proof. apply existsb_app. Qed.

Lemma mem_single x y : mem x [y] = (x =? y).
Proof. unfold mem. simpl. apply orb_false_r. Qed.

(* ---------------------------------------------------------------------------------------- *)
(* append_if_not_contained *)
Notation aic := append_if_not_contained.

Lemma aic_cons acc a add t :
  aic acc (a :: add) t = aic (if (a =? t) || mem a acc then acc else acc ++ [a]) add t.
Proof. reflexivity. Qed.

Lemma aic_app acc l1 l2 t : aic acc (l1 ++ l2) t = aic (aic acc l1 t) l2 t.
Proof. unfold aic. apply fold_left_app. Qed.

Lemma aic_self acc t : aic acc [t] t = acc.
Proof. unfold aic. simpl. rewrite Z.eqb_refl. reflexivity. Qed.

Lemma aic_nil acc t : aic acc [] t = acc.
Proof. reflexivity. Qed.

Lemma aic_spec add : forall acc t,
  (NoDup acc -> NoDup (aic acc add t)) /\
  (forall x, x ∈ aic acc add t <-> x ∈ acc \/ (x ∈ add /\ x <> t)).
Proof.
  induction add as [|a add IH]; intros acc t.
  - simpl. split; [tauto|]. intros x. rewrite elem_of_nil. tauto.
  - rewrite aic_cons.
    destruct (IH (if (a =? t) || mem a acc then acc else acc ++ [a]) t) as [IHn IHe].
    split.
    + intros Hnd. apply IHn.
      destruct (a =? t) eqn:Eat; simpl; [exact Hnd|].
      destruct (mem a acc) eqn:Em; [exact Hnd|].
      apply mem_false in Em. apply NoDup_app. split; [exact Hnd|]. split.
      * intros y Hy Hy'. apply elem_of_list_singleton in Hy'. subst. contradiction.
      * apply NoDup_singleton.
    + intros x. rewrite IHe. rewrite elem_of_cons.
      destruct (a =? t) eqn:Eat; simpl.
      * apply Z.eqb_eq in Eat. subst a. split; [tauto|].
        intros [H|[[H|H] Hne]]; [tauto|congruence|tauto].
      * apply Z.eqb_neq in Eat.
        destruct (mem a acc) eqn:Em.
        -- apply mem_elem in Em. split; [tauto|].
           intros [H|[[H|H] Hne]]; [tauto|subst; tauto|tauto].
        -- rewrite elem_of_app, elem_of_list_singleton. split.
           ++ intros [[H|H]|H]; [tauto|subst; tauto|tauto].
           ++ intros [H|[[H|H] Hne]]; tauto.
Qed.

(* ---------------------------------------------------------------------------------------- *)
(* spenders, held, remove_tx *)
Lemma spenders_elem p o x : x ∈ spenders p o <-> exists b, (x, b) ∈ p /\ o ∈ b.
Proof.
  unfold spenders, pool. rewrite elem_of_list_fmap. split.
  - intros ([x' b] & -> & H). apply elem_of_list_filter in H. simpl in H.
    destruct H as [Hm Hp]. apply mem_elem in Hm. eauto.
  - intros (b & Hp & Ho). exists (x, b). split; [reflexivity|].
    apply elem_of_list_filter. simpl. split; [apply mem_elem; exact Ho | exact Hp].
Qed.

Lemma spenders_app p1 p2 o : spenders (p1 ++ p2) o = spenders p1 o ++ spenders p2 o.
Proof. unfold spenders, pool. rewrite filter_app, map_app. reflexivity. Qed.

Lemma spenders_single t d o : spenders [(t, d)] o = if mem o d then [t] else [].
Proof.
  unfold spenders, pool. rewrite filter_cons, filter_nil. simpl.
  destruct (mem o d) eqn:E; destruct (decide _) as [H|H]; simpl; congruence.
Qed.

Lemma spenders_snoc p t d o :
  spenders (p ++ [(t, d)]) o = spenders p o ++ (if mem o d then [t] else []).
Proof. rewrite spenders_app, spenders_single. reflexivity. Qed.

Lemma spenders_sub p o x : x ∈ spenders p o -> x ∈ map fst p.
Proof.
  rewrite spenders_elem. intros (b & Hp & _). apply elem_of_list_fmap. exists (x, b). auto.
Qed.

Lemma spenders_NoDup p o : NoDup (map fst p) -> NoDup (spenders p o).
Proof.
  unfold spenders, pool. induction p as [|e p IH]; intros Hnd.
  - constructor.
  - change (map fst (e :: p)) with (fst e :: map fst p) in Hnd.
    apply NoDup_cons in Hnd. destruct Hnd as [Hni Hnd]. rewrite filter_cons.
    destruct (decide _); [|auto].
    change (NoDup (fst e :: map fst (filter (fun e0 : Z * list Z => mem o (snd e0) = true) p))).
    apply NoDup_cons. split; [|auto].
    intros Hin. apply Hni. apply elem_of_list_fmap in Hin. destruct Hin as (y & Hy & Hin).
    apply elem_of_list_filter in Hin. apply elem_of_list_fmap. exists y. tauto.
Qed.

Lemma held_elem p t : held p t = true <-> t ∈ map fst p.
Proof. unfold held. apply mem_elem. Qed.

Lemma held_ex p t : held p t = true <-> exists b, (t, b) ∈ p.
Proof.
  rewrite held_elem, elem_of_list_fmap. split.
  - intros ([t' b] & -> & H). eauto.
  - intros (b & H). exists (t, b). auto.
Qed.

Lemma held_false p t : held p t = false <-> forall b, (t, b) ∉ p.
Proof.
  split.
  - intros H b Hb. assert (held p t = true) by (apply held_ex; eauto). congruence.
  - intros H. destruct (held p t) eqn:E; [|reflexivity].
    apply held_ex in E. destruct E as (b & Hb). destruct (H b Hb).
Qed.

Lemma remove_tx_elem p t e : e ∈ remove_tx p t <-> e ∈ p /\ fst e <> t.
Proof. unfold remove_tx, pool. rewrite elem_of_list_filter. tauto. Qed.

Lemma map_fst_filter_ne (p : list (Z * list Z)) t :
  map fst (filter (fun e => fst e ≠ t) p) = filter (fun x => x ≠ t) (map fst p).
Proof.
  induction p as [|e p IH]; [reflexivity|].
  rewrite filter_cons. simpl. rewrite filter_cons.
  destruct (decide (fst e ≠ t)); simpl; rewrite IH; reflexivity.
Qed.

Lemma filter_comm {A} (P Q : A -> Prop) `{!forall x, Decision (P x)} `{!forall x, Decision (Q x)}
    (l : list A) : filter P (filter Q l) = filter Q (filter P l).
Proof.
  induction l as [|a l IH]; [reflexivity|].
  rewrite (filter_cons Q), (filter_cons P).
  destruct (decide (Q a)) as [q|q], (decide (P a)) as [p|p]; rewrite ?filter_cons;
    repeat (destruct (decide _); try contradiction); rewrite IH; reflexivity.
Qed.

Lemma filter_idem {A} (P : A -> Prop) `{!forall x, Decision (P x)} (l : list A) :
  filter P (filter P l) = filter P l.
Proof.
  induction l as [|a l IH]; [reflexivity|].
  rewrite filter_cons. destruct (decide (P a)) as [p|p]; [|exact IH].
  rewrite filter_cons. destruct (decide (P a)); [|contradiction]. rewrite IH. reflexivity.
Qed.

Lemma filter_all {A} (P : A -> Prop) `{!forall x, Decision (P x)} (l : list A) :
  (forall x, x ∈ l -> P x) -> filter P l = l.
Proof.
  induction l as [|a l IH]; intros Hall; [reflexivity|].
  rewrite filter_cons. destruct (decide (P a)) as [p|p].
  - rewrite IH; [reflexivity|]. intros x Hx. apply Hall. apply elem_of_cons. auto.
  - destruct p. apply Hall. apply elem_of_cons. auto.
Qed.

Lemma spenders_remove_tx p t o :
  spenders (remove_tx p t) o = filter (fun x => x ≠ t) (spenders p o).
Proof.
  unfold spenders, remove_tx, pool. rewrite <- map_fst_filter_ne. f_equal. apply filter_comm.
Qed.

Lemma remove_tx_id p t : held p t = false -> remove_tx p t = p.
Proof.
  intros H. unfold remove_tx, pool. apply filter_all. intros [t' b] Hin. simpl. intros ->.
  eapply held_false in H. exact (H Hin).
Qed.

Lemma remove_tx_NoDup p t : NoDup (map fst p) -> NoDup (map fst (remove_tx p t)).
Proof. intros H. unfold remove_tx, pool. rewrite map_fst_filter_ne. apply NoDup_filter. exact H. Qed.

(* ---------------------------------------------------------------------------------------- *)
(* the refinement relation *)
Definition idx_ok (ins : gmap Z (list Z)) (p : pool) : Prop :=
  forall o, ins !! o = norm (spenders p o).

(* held body of a txid according to the model's txs map (placeholders are not held) *)
Definition hb (tx : gmap Z mtx) (t : Z) : option (list Z) :=
  match tx !! t with Some m => norm (outpoints m) | None => None end.

Record R (s : mempool) (p : pool) : Prop := mkR {
  R_nodup : NoDup (map fst p);
  R_txs : forall t b, (t, b) ∈ p <-> hb (txs s) t = Some b;
  R_idx : idx_ok (inputs s) p }.

Lemma R_init : R mp_init [].
Proof.
  split.
  - constructor.
  - intros t b. unfold hb. simpl. rewrite lookup_empty, elem_of_nil. split; [tauto|congruence].
  - intros o. simpl. apply lookup_empty.
Qed.

Lemma R_same_view s s' p :
  R s p -> (forall t, hb (txs s') t = hb (txs s) t) -> inputs s' = inputs s -> R s' p.
Proof.
  intros [Hnd Htx Hidx] Hv Hi. split; [exact Hnd| |rewrite Hi; exact Hidx].
  intros t b. rewrite Hv. apply Htx.
Qed.

Lemma hb_insert tx t m t' :
  hb (<[t := m]> tx) t' = if decide (t' = t) then norm (outpoints m) else hb tx t'.
Proof.
  unfold hb. destruct (decide (t' = t)) as [->|Hne].
  - rewrite lookup_insert. reflexivity.
  - rewrite lookup_insert_ne by congruence. reflexivity.
Qed.

Lemma hb_delete tx t t' :
  hb (delete t tx) t' = if decide (t' = t) then None else hb tx t'.
Proof.
  unfold hb. destruct (decide (t' = t)) as [->|Hne].
  - rewrite lookup_delete. reflexivity.
  - rewrite lookup_delete_ne by congruence. reflexivity.
Qed.

Lemma R_held s p t : R s p -> held p t = match hb (txs s) t with Some _ => true | None => false end.
Proof.
  intros [Hnd Htx Hidx]. destruct (hb (txs s) t) as [b|] eqn:E.
  - apply held_ex. exists b. apply Htx. exact E.
  - apply held_false. intros b Hb. apply Htx in Hb. congruence.
Qed.

Lemma R_nonempty s p : R s p -> Forall (fun e => snd e <> []) p.
Proof.
  intros [Hnd Htx Hidx]. apply Forall_forall. intros [t b] Hin. simpl.
  apply Htx in Hin. unfold hb in Hin. destruct (txs s !! t); [|congruence].
  apply norm_Some in Hin. destruct Hin as [-> Hne]. exact Hne.
Qed.

(* ---------------------------------------------------------------------------------------- *)
(* add_inputs *)
Definition cfold (p : pool) (t : Z) (body c : list Z) : list Z :=
  fold_left (fun acc o => aic acc (spenders p o) t) body c.

Lemma aic_extra c l (b : bool) t : aic c (l ++ (if b then [t] else [])) t = aic c l t.
Proof. destruct b; [rewrite aic_app, aic_self | rewrite app_nil_r]; reflexivity. Qed.

Lemma add_inputs_spec p t : t ∉ map fst p -> forall body done ins c,
  idx_ok ins (p ++ [(t, done)]) ->
  idx_ok (fst (add_inputs ins c t body)) (p ++ [(t, done ++ body)]) /\
  snd (add_inputs ins c t body) = cfold p t body c.
Proof.
  intros Hnh. induction body as [|o body IH]; intros done ins c Hok.
  - simpl. rewrite app_nil_r. auto.
  - simpl add_inputs. unfold cfold. simpl fold_left. fold (cfold p t body).
    pose proof (Hok o) as Ho. rewrite spenders_snoc in Ho.
    assert (Hmt : forall l0, mem t (spenders p o ++ l0) = mem t l0).
    { intros l0. rewrite mem_app. replace (mem t (spenders p o)) with false; [reflexivity|].
      symmetry. apply mem_false. intros H. apply Hnh. eapply spenders_sub; eauto. }
    replace (done ++ o :: body) with ((done ++ [o]) ++ body)
      by (rewrite <- app_assoc; reflexivity).
    destruct (ins !! o) as [l|] eqn:El.
    + symmetry in Ho. apply norm_Some in Ho. destruct Ho as [-> Hne].
      rewrite aic_extra, Hmt. apply IH.
      intros o'. rewrite spenders_snoc, mem_app, mem_single.
      destruct (mem o done) eqn:Emd.
      * rewrite mem_single, Z.eqb_refl. rewrite Hok, spenders_snoc.
        destruct (o' =? o) eqn:E.
        -- apply Z.eqb_eq in E. subst o'. rewrite Emd. reflexivity.
        -- rewrite orb_false_r. reflexivity.
      * simpl (mem t []). cbv iota. destruct (o' =? o) eqn:E.
        -- apply Z.eqb_eq in E. subst o'. rewrite lookup_insert, orb_true_r, app_nil_r, norm_snoc.
           reflexivity.
        -- apply Z.eqb_neq in E. rewrite lookup_insert_ne by congruence.
           rewrite orb_false_r, Hok, spenders_snoc. reflexivity.
    + symmetry in Ho. apply norm_None in Ho. apply app_eq_nil in Ho. destruct Ho as [Hs Hx].
      assert (Emd : mem o done = false) by (destruct (mem o done); congruence).
      rewrite Hs, aic_nil. apply IH.
      intros o'. rewrite spenders_snoc, mem_app, mem_single.
      destruct (o' =? o) eqn:E.
      * apply Z.eqb_eq in E. subst o'. rewrite lookup_insert, orb_true_r, Hs. reflexivity.
      * apply Z.eqb_neq in E. rewrite lookup_insert_ne by congruence.
        rewrite orb_false_r, Hok, spenders_snoc. reflexivity.
Qed.
