(* Proofs for property C05: the mempool model (outpoint index) refines the index-free pool. *)
From V.lib Require Import Base.
From V.model Require Import MemPool MemPoolSpec.

(* ---------------------------------------------------------------------------------------- *)
(* decidability of `shares` (needed by the statement of conflicting_evicts) *)
Global Instance shares_dec (a b : list Z) : Decision (shares a b).
Proof.
  refine (cast_if (decide (Exists (fun o => o ∈ b) a))).
  - abstract (apply Exists_exists in e; destruct e as (o & Ha & Hb); exists o;
              split; apply elem_of_list_In; assumption).
  - abstract (intros (o & Ha & Hb); apply n, Exists_exists; exists o;
              split; apply elem_of_list_In; assumption).
Defined.

(* ---------------------------------------------------------------------------------------- *)
(* basic facts *)
Definition norm (l : list Z) : option (list Z) :=
  match l with [] => None | z :: l0 => Some (z :: l0) end.

Lemma norm_snoc l x : norm (l ++ [x]) = Some (l ++ [x]).
Proof. destruct l; reflexivity. Qed.

Lemma norm_Some l l' : norm l = Some l' -> l' = l /\ l <> [].
Proof. destruct l; simpl; intros H; inversion H; subst; split; congruence. Qed.

Lemma norm_None l : norm l = None -> l = [].
Proof. destruct l; simpl; congruence. Qed.

Lemma norm_ne l : l <> [] -> norm l = Some l.
Proof. destruct l; simpl; congruence. Qed.

Lemma zlen_eqb0 {A} (l : list A) : (zlen l =? 0) = match l with [] => true | _ => false end.
Proof. destruct l; reflexivity. Qed.

Lemma zlen_gtb0 {A} (l : list A) : (zlen l >? 0) = match l with [] => false | _ => true end.
Proof. destruct l; reflexivity. Qed.

Lemma mem_elem x l : mem x l = true <-> x ∈ l.
Proof.
  unfold mem. rewrite existsb_exists. split.
  - intros (y & Hy & He). apply Z.eqb_eq in He. subst. apply elem_of_list_In. exact Hy.
  - intros H. exists x. split; [apply elem_of_list_In; exact H | apply Z.eqb_refl].
Qed.

Lemma mem_false x l : mem x l = false <-> x ∉ l.
Proof. rewrite <- mem_elem. destruct (mem x l); split; congruence. Qed.

Lemma mem_app x l1 l2 : mem x (l1 ++ l2) = mem x l1 || mem x l2.
Proof. apply existsb_app. Qed.

Lemma mem_single x y : mem x [y] = (x =? y).
Proof. unfold mem. simpl. apply orb_false_r. Qed.

(* ---------------------------------------------------------------------------------------- *)
(* append_if_not_contained *)
Notation aic := append_if_not_contained.

Lemma aic_cons acc a add t :
  aic acc (a :: add) t = aic (if (a =? t) || mem a acc then acc else acc ++ [a]) add t.
Proof. reflexivity. Qed.

Lemma aic_app acc l1 l2 t : aic acc (l1 ++ l2) t = aic (aic acc l1 t) l2 t.
Proof. unfold aic. apply fold_left_app. Qed.

Lemma aic_self acc t : aic acc [t] t = acc.
Proof. unfold aic. simpl. rewrite Z.eqb_refl. reflexivity. Qed.

Lemma aic_nil acc t : aic acc [] t = acc.
Proof. reflexivity. Qed.

Lemma aic_spec add : forall acc t,
  (NoDup acc -> NoDup (aic acc add t)) /\
  (forall x, x ∈ aic acc add t <-> x ∈ acc \/ (x ∈ add /\ x <> t)).
Proof.
  induction add as [|a add IH]; intros acc t.
  - simpl. split; [tauto|]. intros x. rewrite elem_of_nil. tauto.
  - rewrite aic_cons.
    destruct (IH (if (a =? t) || mem a acc then acc else acc ++ [a]) t) as [IHn IHe].
    split.
    + intros Hnd. apply IHn.
      destruct (a =? t) eqn:Eat; simpl; [exact Hnd|].
      destruct (mem a acc) eqn:Em; [exact Hnd|].
      apply mem_false in Em. apply NoDup_app. split; [exact Hnd|]. split.
      * intros y Hy Hy'. apply elem_of_list_singleton in Hy'. subst. contradiction.
      * apply NoDup_singleton.
    + intros x. rewrite IHe. rewrite elem_of_cons.
      destruct (a =? t) eqn:Eat; simpl.
      * apply Z.eqb_eq in Eat. subst a. split; [tauto|].
        intros [H|[[H|H] Hne]]; [tauto|congruence|tauto].
      * apply Z.eqb_neq in Eat.
        destruct (mem a acc) eqn:Em.
        -- apply mem_elem in Em. split; [tauto|].
           intros [H|[[H|H] Hne]]; [tauto|subst; tauto|tauto].
        -- rewrite elem_of_app, elem_of_list_singleton. split.
           ++ intros [[H|H]|H]; [tauto|subst; tauto|tauto].
           ++ intros [H|[[H|H] Hne]]; tauto.
Qed.

(* ---------------------------------------------------------------------------------------- *)
(* spenders, held, remove_tx *)
Lemma spenders_elem p o x : x ∈ spenders p o <-> exists b, (x, b) ∈ p /\ o ∈ b.
Proof.
  unfold spenders, pool. rewrite elem_of_list_fmap. split.
  - intros ([x' b] & -> & H). apply elem_of_list_filter in H. simpl in H.
    destruct H as [Hm Hp]. apply mem_elem in Hm. eauto.
  - intros (b & Hp & Ho). exists (x, b). split; [reflexivity|].
    apply elem_of_list_filter. simpl. split; [apply mem_elem; exact Ho | exact Hp].
Qed.

Lemma spenders_app p1 p2 o : spenders (p1 ++ p2) o = spenders p1 o ++ spenders p2 o.
Proof. unfold spenders, pool. rewrite filter_app, map_app. reflexivity. Qed.

Lemma spenders_single t d o : spenders [(t, d)] o = if mem o d then [t] else [].
Proof.
  unfold spenders, pool. rewrite filter_cons, filter_nil. simpl.
  destruct (mem o d) eqn:E; destruct (decide _) as [H|H]; simpl; congruence.
Qed.

Lemma spenders_snoc p t d o :
  spenders (p ++ [(t, d)]) o = spenders p o ++ (if mem o d then [t] else []).
Proof. rewrite spenders_app, spenders_single. reflexivity. Qed.

Lemma spenders_sub p o x : x ∈ spenders p o -> x ∈ map fst p.
Proof.
  rewrite spenders_elem. intros (b & Hp & _). apply elem_of_list_fmap. exists (x, b). auto.
Qed.

Lemma spenders_NoDup p o : NoDup (map fst p) -> NoDup (spenders p o).
Proof.
  unfold spenders, pool. induction p as [|e p IH]; intros Hnd.
  - constructor.
  - change (map fst (e :: p)) with (fst e :: map fst p) in Hnd.
    apply NoDup_cons in Hnd. destruct Hnd as [Hni Hnd]. rewrite filter_cons.
    destruct (decide _); [|auto].
    change (NoDup (fst e :: map fst (filter (fun e0 : Z * list Z => mem o (snd e0) = true) p))).
    apply NoDup_cons. split; [|auto].
    intros Hin. apply Hni. apply elem_of_list_fmap in Hin. destruct Hin as (y & Hy & Hin).
    apply elem_of_list_filter in Hin. apply elem_of_list_fmap. exists y. tauto.
Qed.

Lemma held_elem p t : held p t = true <-> t ∈ map fst p.
Proof. unfold held. apply mem_elem. Qed.

Lemma held_ex p t : held p t = true <-> exists b, (t, b) ∈ p.
Proof.
  rewrite held_elem, elem_of_list_fmap. split.
  - intros ([t' b] & -> & H). eauto.
  - intros (b & H). exists (t, b). auto.
Qed.

Lemma held_false p t : held p t = false <-> forall b, (t, b) ∉ p.
Proof.
  split.
  - intros H b Hb. assert (held p t = true) by (apply held_ex; eauto). congruence.
  - intros H. destruct (held p t) eqn:E; [|reflexivity].
    apply held_ex in E. destruct E as (b & Hb). destruct (H b Hb).
Qed.

Lemma remove_tx_elem p t e : e ∈ remove_tx p t <-> e ∈ p /\ fst e <> t.
Proof. unfold remove_tx, pool. rewrite elem_of_list_filter. tauto. Qed.

Lemma map_fst_filter_ne (p : list (Z * list Z)) t :
  map fst (filter (fun e => fst e ≠ t) p) = filter (fun x => x ≠ t) (map fst p).
Proof.
  induction p as [|e p IH]; [reflexivity|].
  rewrite filter_cons. simpl. rewrite filter_cons.
  destruct (decide (fst e ≠ t)); simpl; rewrite IH; reflexivity.
Qed.

Lemma filter_comm {A} (P Q : A -> Prop) `{!forall x, Decision (P x)} `{!forall x, Decision (Q x)}
    (l : list A) : filter P (filter Q l) = filter Q (filter P l).
Proof.
  induction l as [|a l IH]; [reflexivity|].
  rewrite (filter_cons Q), (filter_cons P).
  destruct (decide (Q a)) as [q|q], (decide (P a)) as [p|p]; rewrite ?filter_cons;
    repeat (destruct (decide _); try contradiction); rewrite IH; reflexivity.
Qed.

Lemma filter_idem {A} (P : A -> Prop) `{!forall x, Decision (P x)} (l : list A) :
  filter P (filter P l) = filter P l.
Proof.
  induction l as [|a l IH]; [reflexivity|].
  rewrite filter_cons. destruct (decide (P a)) as [p|p]; [|exact IH].
  rewrite filter_cons. destruct (decide (P a)); [|contradiction]. rewrite IH. reflexivity.
Qed.

Lemma filter_all {A} (P : A -> Prop) `{!forall x, Decision (P x)} (l : list A) :
  (forall x, x ∈ l -> P x) -> filter P l = l.
Proof.
  induction l as [|a l IH]; intros Hall; [reflexivity|].
  rewrite filter_cons. destruct (decide (P a)) as [p|p].
  - rewrite IH; [reflexivity|]. intros x Hx. apply Hall. apply elem_of_cons. auto.
  - destruct p. apply Hall. apply elem_of_cons. auto.
Qed.

Lemma spenders_remove_tx p t o :
  spenders (remove_tx p t) o = filter (fun x => x ≠ t) (spenders p o).
Proof.
  unfold spenders, remove_tx, pool. rewrite <- map_fst_filter_ne. f_equal. apply filter_comm.
Qed.

Lemma remove_tx_id p t : held p t = false -> remove_tx p t = p.
Proof.
  intros H. unfold remove_tx, pool. apply filter_all. intros [t' b] Hin. simpl. intros ->.
  eapply held_false in H. exact (H Hin).
Qed.

Lemma remove_tx_NoDup p t : NoDup (map fst p) -> NoDup (map fst (remove_tx p t)).
Proof. intros H. unfold remove_tx, pool. rewrite map_fst_filter_ne. apply NoDup_filter. exact H. Qed.

(* ---------------------------------------------------------------------------------------- *)
(* the refinement relation *)
Definition idx_ok (ins : gmap Z (list Z)) (p : pool) : Prop :=
  forall o, ins !! o = norm (spenders p o).

(* held body of a txid according to the model's txs map (placeholders are not held) *)
Definition hb (tx : gmap Z mtx) (t : Z) : option (list Z) :=
  match tx !! t with Some m => norm (outpoints m) | None => None end.

Record R (s : mempool) (p : pool) : Prop := mkR {
  R_nodup : NoDup (map fst p);
  R_txs : forall t b, (t, b) ∈ p <-> hb (txs s) t = Some b;
  R_idx : idx_ok (inputs s) p }.

Lemma R_init : R mp_init [].
Proof.
  split.
  - constructor.
  - intros t b. unfold hb. simpl. rewrite lookup_empty, elem_of_nil. split; [tauto|congruence].
  - intros o. simpl. apply lookup_empty.
Qed.

Lemma R_same_view s s' p :
  R s p -> (forall t, hb (txs s') t = hb (txs s) t) -> inputs s' = inputs s -> R s' p.
Proof.
  intros [Hnd Htx Hidx] Hv Hi. split; [exact Hnd| |rewrite Hi; exact Hidx].
  intros t b. rewrite Hv. apply Htx.
Qed.

Lemma hb_insert tx t m t' :
  hb (<[t := m]> tx) t' = if decide (t' = t) then norm (outpoints m) else hb tx t'.
Proof.
  unfold hb. destruct (decide (t' = t)) as [->|Hne].
  - rewrite lookup_insert. reflexivity.
  - rewrite lookup_insert_ne by congruence. reflexivity.
Qed.

Lemma hb_delete tx t t' :
  hb (delete t tx) t' = if decide (t' = t) then None else hb tx t'.
Proof.
  unfold hb. destruct (decide (t' = t)) as [->|Hne].
  - rewrite lookup_delete. reflexivity.
  - rewrite lookup_delete_ne by congruence. reflexivity.
Qed.

Lemma R_held s p t : R s p -> held p t = match hb (txs s) t with Some _ => true | None => false end.
Proof.
  intros [Hnd Htx Hidx]. destruct (hb (txs s) t) as [b|] eqn:E.
  - apply held_ex. exists b. apply Htx. exact E.
  - apply held_false. intros b Hb. apply Htx in Hb. congruence.
Qed.

Lemma R_nonempty s p : R s p -> Forall (fun e => snd e <> []) p.
Proof.
  intros [Hnd Htx Hidx]. apply Forall_forall. intros [t b] Hin. simpl.
  apply Htx in Hin. unfold hb in Hin. destruct (txs s !! t); [|congruence].
  apply norm_Some in Hin. destruct Hin as [-> Hne]. exact Hne.
Qed.

(* ---------------------------------------------------------------------------------------- *)
(* add_inputs *)
Definition cfold (p : pool) (t : Z) (body c : list Z) : list Z :=
  fold_left (fun acc o => aic acc (spenders p o) t) body c.

Lemma aic_extra c l (b : bool) t : aic c (l ++ (if b then [t] else [])) t = aic c l t.
Proof. destruct b; [rewrite aic_app, aic_self | rewrite app_nil_r]; reflexivity. Qed.

Lemma add_inputs_spec p t : t ∉ map fst p -> forall body done ins c,
  idx_ok ins (p ++ [(t, done)]) ->
  idx_ok (fst (add_inputs ins c t body)) (p ++ [(t, done ++ body)]) /\
  snd (add_inputs ins c t body) = cfold p t body c.
Proof.
  intros Hnh. induction body as [|o body IH]; intros done ins c Hok.
  - simpl. rewrite app_nil_r. auto.
  - simpl add_inputs. unfold cfold. simpl fold_left. fold (cfold p t body).
    pose proof (Hok o) as Ho. rewrite spenders_snoc in Ho.
    assert (Hmt : forall l0, mem t (spenders p o ++ l0) = mem t l0).
    { intros l0. rewrite mem_app. replace (mem t (spenders p o)) with false; [reflexivity|].
      symmetry. apply mem_false. intros H. apply Hnh. eapply spenders_sub; eauto. }
    replace (done ++ o :: body) with ((done ++ [o]) ++ body)
      by (rewrite <- app_assoc; reflexivity).
    destruct (ins !! o) as [l|] eqn:El.
    + symmetry in Ho. apply norm_Some in Ho. destruct Ho as [-> Hne].
      rewrite aic_extra, Hmt. apply IH.
      intros o'. rewrite spenders_snoc, mem_app, mem_single.
      destruct (mem o done) eqn:Emd.
      * rewrite mem_single, Z.eqb_refl. rewrite Hok, spenders_snoc.
        destruct (o' =? o) eqn:E.
        -- apply Z.eqb_eq in E. subst o'. rewrite Emd. reflexivity.
        -- rewrite orb_false_r. reflexivity.
      * simpl (mem t []). cbv iota. destruct (o' =? o) eqn:E.
        -- apply Z.eqb_eq in E. subst o'. rewrite lookup_insert, orb_true_r, app_nil_r, norm_snoc.
           reflexivity.
        -- apply Z.eqb_neq in E. rewrite lookup_insert_ne by congruence.
           rewrite orb_false_r, Hok, spenders_snoc. reflexivity.
    + symmetry in Ho. apply norm_None in Ho. apply app_eq_nil in Ho. destruct Ho as [Hs Hx].
      assert (Emd : mem o done = false) by (destruct (mem o done); congruence).
      rewrite Hs, aic_nil. apply IH.
      intros o'. rewrite spenders_snoc, mem_app, mem_single.
      destruct (o' =? o) eqn:E.
      * apply Z.eqb_eq in E. subst o'. rewrite lookup_insert, orb_true_r, Hs. reflexivity.
      * apply Z.eqb_neq in E. rewrite lookup_insert_ne by congruence.
        rewrite orb_false_r, Hok, spenders_snoc. reflexivity.
Qed.

Lemma idx_ok_snoc_nil ins p t : idx_ok ins (p ++ [(t, [])]) <-> idx_ok ins p.
Proof.
  unfold idx_ok. split; intros H o; specialize (H o); rewrite spenders_snoc in *;
    simpl in *; rewrite app_nil_r in *; exact H.
Qed.

Lemma R_add_fresh s p t body ins c :
  R s p -> hb (txs s) t = None ->
  add_inputs (inputs s) [] t body = (ins, c) ->
  (forall m2 reqs, outpoints m2 = body ->
     R (MemPool (<[t := m2]> (txs s)) ins reqs)
       (if zlen body =? 0 then p else p ++ [(t, body)])) /\
  c = conflicts_of p t body /\ held p t = false.
Proof.
  intros HR Hhb Hadd.
  assert (Hheld : held p t = false) by (rewrite (R_held s p t HR), Hhb; reflexivity).
  destruct HR as [Hnd Htx Hidx].
  assert (Hni : t ∉ map fst p).
  { intros Hin. apply held_elem in Hin. congruence. }
  destruct (add_inputs_spec p t Hni body [] (inputs s) []) as [Hi Hc].
  { apply idx_ok_snoc_nil. exact Hidx. }
  rewrite Hadd in Hi, Hc. simpl in Hi, Hc.
  split; [|split; [exact Hc | exact Hheld]].
  intros m2 reqs Hm2.
  rewrite zlen_eqb0. destruct body as [|x body].
  - split; simpl; [exact Hnd| |apply idx_ok_snoc_nil in Hi; exact Hi].
    intros t' b. rewrite hb_insert. destruct (decide (t' = t)) as [->|Hne]; [|apply Htx].
    rewrite Hm2. simpl. split; [|congruence]. intros Hin. apply Htx in Hin. congruence.
  - split; simpl; [| |exact Hi].
    + rewrite map_app. simpl. apply NoDup_app. split; [exact Hnd|]. split; [|apply NoDup_singleton].
      intros y Hy Hy'. apply elem_of_list_singleton in Hy'. subst. contradiction.
    + intros t' b. rewrite hb_insert, elem_of_app, elem_of_list_singleton.
      destruct (decide (t' = t)) as [->|Hne].
      * rewrite Hm2. simpl. split.
        -- intros [Hin|Heq]; [apply Htx in Hin; congruence | congruence].
        -- intros Heq. right. congruence.
      * rewrite <- Htx. split; [|tauto]. intros [Hin|Heq]; [exact Hin | congruence].
Qed.

Lemma R_add s p now t body tr : R s p ->
  let r := add_transaction s now t body tr in
  let r' := ref_step p (OAddTx t body tr) in
  R (fst r) (fst r') /\ b2z (snd (snd r)) :: fst (fst (snd r)) = snd r'.
Proof.
  intros HR. cbv zeta. unfold add_transaction, ref_step.
  destruct (txs s !! t) as [m|] eqn:Em.
  - rewrite zlen_eqb0. destruct (outpoints m) as [|x b0] eqn:Eo; simpl negb; cbv iota.
    + destruct (add_inputs (inputs s) [] t body) as [ins c] eqn:Ea.
      destruct (R_add_fresh s p t body ins c HR) as (HR' & Hc & Hh); [|exact Ea|].
      { unfold hb. rewrite Em, Eo. reflexivity. }
      rewrite Hh. simpl. split; [apply HR'; reflexivity|]. rewrite Hc. reflexivity.
    + assert (Hh : held p t = true).
      { rewrite (R_held s p t HR). unfold hb. rewrite Em, Eo. reflexivity. }
      rewrite Hh. simpl. split; [|reflexivity].
      apply (R_same_view s); [exact HR| |reflexivity]. simpl.
      intros t'. rewrite hb_insert. destruct (decide (t' = t)) as [->|Hne]; [|reflexivity].
      unfold hb. rewrite Em. destruct (tr && negb (mtrusted m)); simpl; rewrite ?Eo; reflexivity.
  - destruct (add_inputs (inputs s) [] t body) as [ins c] eqn:Ea.
    destruct (R_add_fresh s p t body ins c HR) as (HR' & Hc & Hh); [|exact Ea|].
    { unfold hb. rewrite Em. reflexivity. }
    rewrite Hh. simpl. split; [apply HR'; reflexivity|]. rewrite Hc. reflexivity.
Qed.

Lemma add_request_view s now t tr :
  let s' := fst (add_request s now t tr) in
  (forall t', hb (txs s') t' = hb (txs s) t') /\ inputs s' = inputs s.
Proof.
  cbv zeta. unfold add_request. destruct (txs s !! t) as [m|] eqn:Em.
  - assert (Hv : forall m1, outpoints m1 = outpoints m ->
                  forall t', hb (<[t := m1]> (txs s)) t' = hb (txs s) t').
    { intros m1 Hm1 t'. rewrite hb_insert. destruct (decide (t' = t)) as [->|Hne]; [|reflexivity].
      unfold hb. rewrite Em, Hm1. reflexivity. }
    assert (Ho : outpoints (if tr && negb (mtrusted m)
                            then MTx (mtime m) (outpoints m) true else m) = outpoints m).
    { destruct (tr && negb (mtrusted m)); reflexivity. }
    destruct (negb (zlen (outpoints m) =? 0));
      [|destruct (requests s !! t) as [t0|]; [destruct (now - t0 >? REQ_WINDOW)|]];
      simpl; (split; [apply Hv; exact Ho | reflexivity]).
  - assert (Hv : forall t', hb (<[t := MTx now [] tr]> (txs s)) t' = hb (txs s) t').
    { intros t'. rewrite hb_insert. destruct (decide (t' = t)) as [->|Hne]; [|reflexivity].
      unfold hb. rewrite Em. reflexivity. }
    destruct (requests s !! t) as [t0|]; [destruct (now - t0 >? REQ_WINDOW)|];
      simpl; (split; [exact Hv | reflexivity]).
Qed.

(* ---------------------------------------------------------------------------------------- *)
(* remove_inputs / remove_transaction *)
Definition rm_entry (t : Z) (x : option (list Z)) : option (list Z) :=
  match x with Some l => norm (filter (fun y => y ≠ t) l) | None => None end.

Lemma rm_entry_idem t x : rm_entry t (rm_entry t x) = rm_entry t x.
Proof.
  destruct x as [l|]; simpl; [|reflexivity].
  destruct (norm (filter (fun y => y ≠ t) l)) as [l'|] eqn:E; [|reflexivity].
  apply norm_Some in E. destruct E as [-> Hne]. simpl. rewrite filter_idem.
  apply norm_ne. exact Hne.
Qed.

Lemma rm_entry_norm t l : rm_entry t (norm l) = norm (filter (fun y => y ≠ t) l).
Proof. destruct l; reflexivity. Qed.

Definition rm_step (t : Z) (ins : gmap Z (list Z)) (o : Z) : gmap Z (list Z) :=
  match ins !! o with
  | Some l => let r := filter (fun x => x ≠ t) l in
              if zlen r >? 0 then <[o := r]> ins else delete o ins
  | None => ins
  end.

Lemma rm_step_lookup t ins o o' :
  rm_step t ins o !! o' = if decide (o' = o) then rm_entry t (ins !! o) else ins !! o'.
Proof.
  unfold rm_step. destruct (ins !! o) as [l|] eqn:E; cbv zeta.
  - rewrite zlen_gtb0. simpl rm_entry.
    destruct (filter (fun x => x ≠ t) l) as [|y r] eqn:F;
      destruct (decide (o' = o)) as [->|Hne];
      rewrite ?lookup_delete, ?lookup_insert, ?lookup_delete_ne, ?lookup_insert_ne by congruence;
      reflexivity.
  - destruct (decide (o' = o)) as [->|Hne]; [exact E | reflexivity].
Qed.

Lemma remove_inputs_lookup t ops : forall ins o',
  remove_inputs ins t ops !! o' = if mem o' ops then rm_entry t (ins !! o') else ins !! o'.
Proof.
  induction ops as [|a ops IH]; intros ins o'; [reflexivity|].
  change (remove_inputs ins t (a :: ops)) with (remove_inputs (rm_step t ins a) t ops).
  rewrite IH, rm_step_lookup.
  change (mem o' (a :: ops)) with ((o' =? a) || mem o' ops).
  destruct (decide (o' = a)) as [->|Hne].
  - rewrite Z.eqb_refl. simpl. destruct (mem a ops); [apply rm_entry_idem | reflexivity].
  - apply Z.eqb_neq in Hne. rewrite Hne. reflexivity.
Qed.

Lemma R_remove s p t : R s p ->
  R (fst (remove_transaction s t)) (remove_tx p t) /\ snd (remove_transaction s t) = held p t.
Proof.
  intros HR. pose proof (R_held s p t HR) as Hh. destruct HR as [Hnd Htx Hidx].
  unfold remove_transaction. unfold hb in Hh. destruct (txs s !! t) as [m|] eqn:Em; simpl.
  - split.
    + split; simpl.
      * apply remove_tx_NoDup. exact Hnd.
      * intros t' b. rewrite remove_tx_elem, hb_delete. simpl.
        destruct (decide (t' = t)) as [->|Hne].
        -- split; [tauto|congruence].
        -- rewrite Htx. tauto.
      * intros o. rewrite remove_inputs_lookup, spenders_remove_tx.
        destruct (mem o (outpoints m)) eqn:E; rewrite (Hidx o); [apply rm_entry_norm|].
        rewrite filter_all; [reflexivity|]. intros x Hx ->.
        apply spenders_elem in Hx. destruct Hx as (b & Hp & Ho).
        apply Htx in Hp. unfold hb in Hp. rewrite Em in Hp. apply norm_Some in Hp.
        destruct Hp as [-> _]. apply mem_elem in Ho. congruence.
    + rewrite zlen_eqb0, Hh. destruct (outpoints m); reflexivity.
  - rewrite remove_tx_id by exact Hh. split; [|symmetry; exact Hh].
    split; simpl; assumption.
Qed.

(* ---------------------------------------------------------------------------------------- *)
(* conflicting *)
Definition cf_inner : mempool * list Z -> Z -> mempool * list Z :=
  fun '(s, acc) t => (fst (remove_transaction s t), acc ++ [t]).

Definition cf_outer : mempool * list Z -> Z -> mempool * list Z :=
  fun '(s, acc) o =>
  match inputs s !! o with
  | Some l => fold_left cf_inner l (s, acc)
  | None => (s, acc)
  end.

Definition rcf_outer : pool * list Z -> Z -> pool * list Z :=
  fun '(p, acc) o => let l := spenders p o in (fold_left remove_tx l p, acc ++ l).

Lemma conflicting_unfold s body : conflicting s body = fold_left cf_outer body (s, []).
Proof. reflexivity. Qed.

Lemma cf_inner_spec l : forall s p acc, R s p ->
  R (fst (fold_left cf_inner l (s, acc))) (fold_left remove_tx l p) /\
  snd (fold_left cf_inner l (s, acc)) = acc ++ l.
Proof.
  induction l as [|t l IH]; intros s p acc HR.
  - simpl. rewrite app_nil_r. auto.
  - simpl fold_left. destruct (IH (fst (remove_transaction s t)) (remove_tx p t) (acc ++ [t]))
      as [H1 H2].
    { apply R_remove. exact HR. }
    split; [exact H1|]. rewrite H2, <- app_assoc. reflexivity.
Qed.

Lemma cf_outer_spec body : forall s p acc, R s p ->
  R (fst (fold_left cf_outer body (s, acc))) (fst (fold_left rcf_outer body (p, acc))) /\
  snd (fold_left cf_outer body (s, acc)) = snd (fold_left rcf_outer body (p, acc)).
Proof.
  induction body as [|o body IH]; intros s p acc HR.
  - simpl. auto.
  - simpl fold_left. rewrite (R_idx s p HR o).
    destruct (spenders p o) as [|x l] eqn:E.
    + simpl. rewrite app_nil_r. apply IH. exact HR.
    + change (norm (x :: l)) with (Some (x :: l)). cbv iota.
      destruct (cf_inner_spec (x :: l) s p acc HR) as [H1 H2].
      destruct (fold_left cf_inner (x :: l) (s, acc)) as [s1 acc1]. simpl in H1, H2. subst acc1.
      apply IH. exact H1.
Qed.

(* ---------------------------------------------------------------------------------------- *)
(* one step *)
Lemma step_R s now p o : R s p ->
  R (fst (fst (step (s, now) o))) (fst (ref_step p o)) /\
  c05_proj o (snd (step (s, now) o)) = snd (ref_step p o).
Proof.
  intros HR. destruct o as [dt|t tr|t body tr|t|t|t|body|o]; simpl step.
  - simpl. auto.
  - destruct (add_request_view s now t tr) as [Hv Hi].
    destruct (add_request s now t tr) as [s1 [a b]]. simpl in *.
    split; [|reflexivity]. apply (R_same_view s); assumption.
  - pose proof (R_add s p now t body tr HR) as H. cbv zeta in H.
    destruct (add_transaction s now t body tr) as [s1 [[c tr1] added]]. simpl in H.
    simpl fst. simpl snd. simpl c05_proj. exact H.
  - destruct (R_remove s p t HR) as [H1 H2].
    destruct (remove_transaction s t) as [s1 b]. simpl in *. subst b. auto.
  - simpl. split; [exact HR|]. rewrite (R_held s p t HR). unfold transaction_exists, hb.
    destruct (txs s !! t) as [m|]; [|reflexivity]. rewrite zlen_eqb0.
    destruct (outpoints m); reflexivity.
  - simpl. auto.
  - rewrite conflicting_unfold.
    change (ref_step p (OConflicting body))
      with (let '(p1, c) := fold_left rcf_outer body (p, []) in (p1, OK :: c)).
    destruct (cf_outer_spec body s p [] HR) as [H1 H2].
    destruct (fold_left cf_outer body (s, [])) as [s1 c].
    destruct (fold_left rcf_outer body (p, [])) as [p1 c1]. simpl in *. subst c1. auto.
  - simpl. split; [exact HR|]. rewrite (R_idx s p HR o).
    destruct (spenders p o); reflexivity.
Qed.

Lemma run_refines ops : forall s now p, R s p ->
  proj_trace c05_proj ops (run_from (s, now) ops) = ref_run_from p ops.
Proof.
  induction ops as [|o ops IH]; intros s now p HR; [reflexivity|].
  change (run_from (s, now) (o :: ops))
    with (let '(st1, ob) := step (s, now) o in ob :: run_from st1 ops).
  change (ref_run_from p (o :: ops))
    with (let '(p1, ob) := ref_step p o in ob :: ref_run_from p1 ops).
  destruct (step_R s now p o HR) as [H1 H2].
  destruct (step (s, now) o) as [[s1 now1] ob]. destruct (ref_step p o) as [p1 rob].
  simpl in H1, H2. simpl proj_trace. rewrite H2. f_equal. apply IH. exact H1.
Qed.

Theorem mempool_refines_pool :
  forall ops : list op, proj_trace c05_proj ops (run ops) = ref_run ops.
Proof. intros ops. apply run_refines. exact R_init. Qed.

Lemma after_R ops : forall st p, R (fst st) p ->
  R (fst (fold_left (fun st o => fst (step st o)) ops st))
    (fold_left (fun p o => fst (ref_step p o)) ops p).
Proof.
  induction ops as [|o ops IH]; intros [s now] p HR; [exact HR|].
  change (fold_left (fun st o => fst (step st o)) (o :: ops) (s, now))
    with (fold_left (fun st o => fst (step st o)) ops (fst (step (s, now) o))).
  change (fold_left (fun p o => fst (ref_step p o)) (o :: ops) p)
    with (fold_left (fun p o => fst (ref_step p o)) ops (fst (ref_step p o))).
  apply IH. apply step_R. exact HR.
Qed.

Lemma R_after ops : R (mp_after ops) (ref_after ops).
Proof. unfold mp_after, ref_after. apply after_R. exact R_init. Qed.

Theorem index_exact :
  forall (ops : list op) (o : Z),
    inputs (mp_after ops) !! o =
      match spenders (ref_after ops) o with [] => None | l => Some l end.
Proof. intros ops o. exact (R_idx _ _ (R_after ops) o). Qed.

Theorem pool_wellformed :
  forall ops : list op,
    NoDup (map fst (ref_after ops)) /\ Forall (fun e => snd e <> []) (ref_after ops) /\
    (forall o, NoDup (spenders (ref_after ops) o)).
Proof.
  intros ops. pose proof (R_after ops) as HR. split; [apply (R_nodup _ _ HR)|]. split.
  - apply (R_nonempty _ _ HR).
  - intros o. apply spenders_NoDup. apply (R_nodup _ _ HR).
Qed.

(* ---------------------------------------------------------------------------------------- *)
(* statements about the reference alone *)
Lemma cfold_spec p t body : forall c,
  (NoDup c -> NoDup (cfold p t body c)) /\
  (forall x, x ∈ cfold p t body c <->
             x ∈ c \/ (x <> t /\ exists o, o ∈ body /\ x ∈ spenders p o)).
Proof.
  induction body as [|o body IH]; intros c.
  - simpl. split; [tauto|]. intros x. split; [tauto|].
    intros [Hx|(_ & o & Ho & _)]; [exact Hx|]. apply elem_of_nil in Ho. destruct Ho.
  - unfold cfold. simpl fold_left. fold (cfold p t body).
    destruct (IH (aic c (spenders p o) t)) as [IHn IHe].
    destruct (aic_spec (spenders p o) c t) as [An Ae].
    split; [tauto|]. intros x. rewrite IHe, Ae. split.
    + intros [[Hx|[Hx Hne]]|(Hne & o' & Ho' & Hs)].
      * tauto.
      * right. split; [exact Hne|]. exists o. rewrite elem_of_cons. auto.
      * right. split; [exact Hne|]. exists o'. rewrite elem_of_cons. auto.
    + intros [Hx|(Hne & o' & Ho' & Hs)]; [tauto|].
      apply elem_of_cons in Ho'. destruct Ho' as [->|Ho'].
      * left. right. tauto.
      * right. split; [exact Hne|]. eauto.
Qed.

Lemma conflicts_of_elem p t body x :
  x ∈ conflicts_of p t body <-> (x <> t /\ exists b', (x, b') ∈ p /\ shares body b').
Proof.
  change (conflicts_of p t body) with (cfold p t body []).
  rewrite (proj2 (cfold_spec p t body [])). rewrite elem_of_nil. split.
  - intros [[]|(Hne & o & Ho & Hs)]. split; [exact Hne|].
    apply spenders_elem in Hs. destruct Hs as (b & Hp & Hob). exists b. split; [exact Hp|].
    exists o. rewrite <- !elem_of_list_In. auto.
  - intros (Hne & b & Hp & o & Ho & Hob). right. split; [exact Hne|].
    exists o. rewrite elem_of_list_In. split; [exact Ho|].
    apply spenders_elem. exists b. rewrite elem_of_list_In. auto.
Qed.

Theorem add_returns_conflicts :
  forall (p : pool) (t : Z) (body : list Z),
    NoDup (map fst p) ->
    let c := conflicts_of p t body in
    NoDup c /\
    forall t', In t' c <-> (t' <> t /\ exists b', In (t', b') p /\ shares body b').
Proof.
  intros p t body Hnd c. subst c. split.
  - change (conflicts_of p t body) with (cfold p t body []). apply cfold_spec. constructor.
  - intros t'. rewrite <- elem_of_list_In, conflicts_of_elem. split.
    + intros (Hne & b & Hp & Hs). split; [exact Hne|]. exists b. rewrite <- elem_of_list_In. auto.
    + intros (Hne & b & Hp & Hs). split; [exact Hne|]. exists b. rewrite elem_of_list_In. auto.
Qed.

Theorem no_false_conflict :
  forall (p : pool) (t : Z) (body : list Z),
    (forall t' b', In (t', b') p -> t' <> t -> ~ shares body b') ->
    conflicts_of p t body = [].
Proof.
  intros p t body Hno. destruct (conflicts_of p t body) as [|x l] eqn:E; [reflexivity|].
  assert (Hx : x ∈ conflicts_of p t body) by (rewrite E; left).
  apply conflicts_of_elem in Hx. destruct Hx as (Hne & b & Hp & Hs).
  exfalso. apply (Hno x b); [apply elem_of_list_In; exact Hp | exact Hne | exact Hs].
Qed.

(* conflicting *)
Lemma shares_nil b : ~ shares [] b.
Proof. intros (o & [] & _). Qed.

Lemma shares_snoc body o b : shares (body ++ [o]) b <-> shares body b \/ o ∈ b.
Proof.
  unfold shares. split.
  - intros (o' & Ho' & Hb). apply in_app_or in Ho'. destruct Ho' as [Ho'|[->|[]]].
    + left. eauto.
    + right. apply elem_of_list_In. exact Hb.
  - intros [(o' & Ho' & Hb)|Ho].
    + exists o'. split; [apply in_or_app; auto | exact Hb].
    + exists o. split; [apply in_or_app; simpl; auto | apply elem_of_list_In; exact Ho].
Qed.

Lemma filter_ext_in {A} (P Q : A -> Prop) `{!forall x, Decision (P x)} `{!forall x, Decision (Q x)}
    (l : list A) : (forall x, x ∈ l -> (P x <-> Q x)) -> filter P l = filter Q l.
Proof.
  induction l as [|a l IH]; intros Hext; [reflexivity|].
  rewrite !filter_cons.
  assert (Ha : P a <-> Q a) by (apply Hext; left).
  rewrite IH by (intros x Hx; apply Hext; right; exact Hx).
  destruct (decide (P a)), (decide (Q a)); tauto.
Qed.

Lemma NoDup_fst_inj (p : list (Z * list Z)) t b1 b2 :
  NoDup (map fst p) -> (t, b1) ∈ p -> (t, b2) ∈ p -> b1 = b2.
Proof.
  induction p as [|e p IH]; intros Hnd H1 H2.
  - apply elem_of_nil in H1. destruct H1.
  - change (map fst (e :: p)) with (fst e :: map fst p) in Hnd.
    apply NoDup_cons in Hnd. destruct Hnd as [Hni Hnd].
    apply elem_of_cons in H1. apply elem_of_cons in H2.
    assert (Hin : forall b, (t, b) ∈ p -> t ∈ map fst p).
    { intros b Hb. apply elem_of_list_fmap. exists (t, b). auto. }
    destruct H1 as [<-|H1], H2 as [E2|H2].
    + congruence.
    + destruct Hni. simpl. eapply Hin; eauto.
    + subst e. destruct Hni. simpl. eapply Hin; eauto.
    + auto.
Qed.

Lemma NoDup_fst_filter (P : Z * list Z -> Prop) `{!forall x, Decision (P x)}
    (p : list (Z * list Z)) : NoDup (map fst p) -> NoDup (map fst (filter P p)).
Proof.
  induction p as [|e p IH]; intros Hnd; [constructor|].
  change (map fst (e :: p)) with (fst e :: map fst p) in Hnd.
  apply NoDup_cons in Hnd. destruct Hnd as [Hni Hnd]. rewrite filter_cons.
  destruct (decide (P e)); [|auto].
  change (NoDup (fst e :: map fst (filter P p))). apply NoDup_cons. split; [|auto].
  intros Hin. apply Hni. apply elem_of_list_fmap in Hin. destruct Hin as (y & Hy & Hin).
  apply elem_of_list_filter in Hin. apply elem_of_list_fmap. exists y. tauto.
Qed.

Lemma fold_remove_tx l : forall p : list (Z * list Z),
  fold_left remove_tx l p = filter (fun e => fst e ∉ l) p.
Proof.
  induction l as [|t l IH]; intros p.
  - simpl. symmetry. apply filter_all. intros x _. apply not_elem_of_nil.
  - simpl fold_left. rewrite IH. unfold remove_tx, pool. rewrite list_filter_filter.
    apply filter_ext_in. intros e _. rewrite not_elem_of_cons. tauto.
Qed.

Lemma rcf_spec (p : pool) : NoDup (map fst p) -> forall body,
  fst (fold_left rcf_outer body (p, [])) = filter (fun e => ~ shares body (snd e)) p /\
  NoDup (snd (fold_left rcf_outer body (p, []))) /\
  (forall x, x ∈ snd (fold_left rcf_outer body (p, [])) <->
             exists b, (x, b) ∈ p /\ shares body b).
Proof.
  intros Hnd body. induction body as [|o body IH] using rev_ind.
  - simpl. split; [|split].
    + symmetry. apply filter_all. intros x _. apply shares_nil.
    + constructor.
    + intros x. rewrite elem_of_nil. split; [tauto|]. intros (b & _ & Hs).
      exact (shares_nil _ Hs).
  - rewrite fold_left_app. simpl fold_left.
    destruct (fold_left rcf_outer body (p, [])) as [p1 acc]. simpl in IH.
    destruct IH as (Hp1 & Hnacc & Hacc). simpl.
    assert (Hin1 : forall e, e ∈ p1 <-> ~ shares body (snd e) /\ e ∈ p).
    { intros e. rewrite Hp1.
      exact (elem_of_list_filter (fun e : Z * list Z => ~ shares body (snd e)) p e). }
    assert (Hsp : forall x, x ∈ spenders p1 o <->
                            exists b, (x, b) ∈ p /\ ~ shares body b /\ o ∈ b).
    { intros x. rewrite spenders_elem. split.
      - intros (b & Hb & Ho). apply Hin1 in Hb. simpl in Hb. exists b. tauto.
      - intros (b & Hb & Hns & Ho). exists b. split; [|exact Ho]. apply Hin1. simpl. tauto. }
    split; [|split].
    + rewrite fold_remove_tx.
      transitivity (filter (fun e : Z * list Z => fst e ∉ spenders p1 o)
                      (filter (fun e : Z * list Z => ~ shares body (snd e)) p)).
      { subst p1. reflexivity. }
      unfold pool. rewrite list_filter_filter.
      apply filter_ext_in. intros [t b] He. simpl. rewrite shares_snoc, Hsp. split.
      * intros [Hns Hnb] [Hs|Ho]; [tauto|]. apply Hns. exists b. tauto.
      * intros Hn. split; [|tauto]. intros (b' & Hb' & Hns & Ho).
        assert (b' = b) by (eapply NoDup_fst_inj; eauto). subst b'. tauto.
    + apply NoDup_app. split; [exact Hnacc|]. split.
      * intros x Hx Hx'. apply Hacc in Hx. apply Hsp in Hx'.
        destruct Hx as (b & Hb & Hs). destruct Hx' as (b' & Hb' & Hns & Ho).
        assert (b' = b) by (eapply NoDup_fst_inj; eauto). subst b'. tauto.
      * apply spenders_NoDup. rewrite Hp1. apply NoDup_fst_filter. exact Hnd.
    + intros x. rewrite elem_of_app, Hacc, Hsp. split.
      * intros [(b & Hb & Hs)|(b & Hb & Hns & Ho)]; exists b; rewrite shares_snoc; tauto.
      * intros (b & Hb & Hs). apply shares_snoc in Hs.
        destruct (decide (shares body b)) as [Hd|Hd].
        -- left. eauto.
        -- right. exists b. tauto.
Qed.

Theorem conflicting_evicts :
  forall (p : pool) (body : list Z),
    NoDup (map fst p) ->
    let r := ref_step p (OConflicting body) in
    (forall t', In t' (tl (snd r)) <-> exists b', In (t', b') p /\ shares body b') /\
    NoDup (tl (snd r)) /\
    fst r = filter (fun e => ~ shares body (snd e)) p.
Proof.
  intros p body Hnd r. subst r.
  change (ref_step p (OConflicting body))
    with (let '(p1, c) := fold_left rcf_outer body (p, []) in (p1, OK :: c)).
  destruct (rcf_spec p Hnd body) as (H1 & H2 & H3).
  destruct (fold_left rcf_outer body (p, [])) as [p1 c]. simpl in H1, H2, H3. simpl.
  split; [|split; [exact H2 | exact H1]].
  intros t'. rewrite <- elem_of_list_In, H3. split.
  - intros (b & Hb & Hs). exists b. rewrite <- elem_of_list_In. auto.
  - intros (b & Hb & Hs). exists b. rewrite elem_of_list_In. auto.
Qed.
