(* Proofs for property C04 over model/Merkle.v.

   Everything is for ALL block sizes (induction over the level lists), all subsets / positions of
   registered transactions, txids pairwise distinct.

     root_agrees        the streaming (pruned) tree's root is the textbook root
     proof_verifies     every returned proof carries the transaction's index in the block and is accepted
                        by the model of client.MerkleProof.IsValid against that root
     alignment          proofs come back in registration order (proofs[i] belongs to registered[i])
     bad_block_rejected a body whose textbook root differs from the header's leaves ProcessBlock's state
                        and notification stream untouched; with pairwise distinct txids every body that
                        differs from the committed list (added / dropped / reordered / altered) is such a body
     second_gate_unreachable, accepted_block: end-to-end statements about process_block

   Structure: level lists.  Level 0 is the list of leaves; `pairs` builds the complete pairs of a level
   (what the streaming tree has hashed so far), `pair_up` (model, textbook) also duplicates an unpaired
   last node.  `layers_of ns ls` says the pruned layer stack ls is the one belonging to level list ns;
   `resident ns p` says proof p sits, fully climbed, somewhere in the levels above ns; `vrun` is the
   verifier's loop as a relation, extended at the far end by AddHash / AddDuplicate. *)
From V.lib Require Import Base.
From V.model Require Import Merkle.

(* ---------------------------------------------------------------------------------------- *)
(* symbolic hashes *)
Lemma mnode_eqb_eq a b : mnode_eqb a b = true <-> a = b.
Proof.
  revert b. induction a as [x|a1 IH1 a2 IH2]; intros [y|b1 b2]; simpl; try (split; congruence).
  - rewrite Z.eqb_eq. split; congruence.
  - rewrite andb_true_iff, IH1, IH2. split; [intros [-> ->]; reflexivity | intros [= -> ->]; auto].
Qed.

Lemma mnode_eqb_refl a : mnode_eqb a a = true.
Proof. apply mnode_eqb_eq. reflexivity. Qed.

Lemma mnode_eqb_neq a b : a <> b -> mnode_eqb a b = false.
Proof. intros H. destruct (mnode_eqb a b) eqn:E; [apply mnode_eqb_eq in E; contradiction | reflexivity]. Qed.

(* height along the left spine; every node of level d has height d *)
Fixpoint mh (n : mnode) : nat := match n with Leaf _ => O | Node l _ => S (mh l) end.

(* ---------------------------------------------------------------------------------------- *)
(* level lists *)
Fixpoint pairs (ns : list mnode) : list mnode :=
  match ns with
  | a :: b :: rest => Node a b :: pairs rest
  | _ => []
  end.

Lemma list_ind2 {A} (P : list A -> Prop) :
  P [] -> (forall a, P [a]) -> (forall a b l, P l -> P (a :: b :: l)) -> forall l, P l.
Proof.
  intros H0 H1 H2.
  assert (forall l, P l /\ forall a, P (a :: l)) as H.
  { induction l as [|x l [IHa IHb]]; split; auto. }
  intros l. apply H.
Qed.

Lemma pairs_length ns : length (pairs ns) = Nat.div2 (length ns).
Proof. induction ns as [|a|a b l IH] using list_ind2; simpl; auto. Qed.

Lemma pairs_app_even ns l : Nat.even (length ns) = true -> pairs (ns ++ l) = pairs ns ++ pairs l.
Proof.
  induction ns as [|a|a b ns IH] using list_ind2; simpl; intros H; auto; try discriminate.
  rewrite IH; auto.
Qed.

Lemma even_odd_len {A} (l : list A) : Nat.even (length l) = negb (Nat.odd (length l)).
Proof. unfold Nat.odd. destruct (Nat.even (length l)); reflexivity. Qed.

Lemma split_last_odd (ns : list mnode) :
  Nat.odd (length ns) = true -> exists ns0 y, ns = ns0 ++ [y] /\ Nat.even (length ns0) = true.
Proof.
  induction ns as [|a|a b ns IH] using list_ind2; simpl; intros H; try discriminate.
  - exists [], a. auto.
  - destruct (IH H) as (ns0 & y & -> & He). exists (a :: b :: ns0), y. split; auto.
Qed.

Lemma pairs_snoc_even ns x : Nat.even (length ns) = true -> pairs (ns ++ [x]) = pairs ns.
Proof. intros H. rewrite pairs_app_even by exact H. simpl. apply app_nil_r. Qed.

Lemma pairs_snoc_odd ns y x :
  Nat.odd (length ns) = true -> last ns = Some y -> pairs (ns ++ [x]) = pairs ns ++ [Node y x].
Proof.
  intros Ho Hl. destruct (split_last_odd ns Ho) as (ns0 & y' & -> & He).
  rewrite last_snoc in Hl. injection Hl as ->.
  rewrite <- app_assoc. simpl. rewrite !pairs_app_even by exact He. simpl. reflexivity.
Qed.

Lemma pair_up_even ns : Nat.even (length ns) = true -> pair_up ns = pairs ns.
Proof. induction ns as [|a|a b ns IH] using list_ind2; simpl; intros H; auto; try discriminate. rewrite IH; auto. Qed.

Lemma pair_up_odd ns y :
  Nat.odd (length ns) = true -> last ns = Some y -> pair_up ns = pairs ns ++ [Node y y].
Proof.
  induction ns as [|a|a b ns IH] using list_ind2; simpl; intros H Hl; try discriminate.
  - injection Hl as ->. reflexivity.
  - rewrite IH; auto.
Qed.

Lemma pair_up_length_lt ns : (2 <= length ns)%nat -> (1 <= length (pair_up ns) < length ns)%nat.
Proof.
  induction ns as [|a|a b ns IH] using list_ind2; simpl; intros H; try lia.
  destruct ns as [|c ns]; [simpl; lia|].
  destruct ns as [|c' ns]; [simpl; lia|].
  specialize (IH ltac:(simpl; lia)). simpl in *. lia.
Qed.

Lemma elem_of_pairs a b ns :
  Node a b ∈ pairs ns -> exists l1 l2, ns = l1 ++ a :: b :: l2 /\ Nat.even (length l1) = true.
Proof.
  induction ns as [|c|c e ns IH] using list_ind2; simpl; intros H.
  - inversion H.
  - inversion H.
  - apply elem_of_cons in H as [[= -> ->]|H].
    + exists [], ns. auto.
    + destruct (IH H) as (l1 & l2 & -> & He). exists (c :: e :: l1), l2. auto.
Qed.

Lemma NoDup_pairs ns : NoDup ns -> NoDup (pairs ns).
Proof.
  induction ns as [|a|a b ns IH] using list_ind2; simpl; intros H; try constructor.
  - intros Hin. apply elem_of_pairs in Hin as (l1 & l2 & -> & _).
    apply NoDup_cons in H as [Ha _]. apply Ha. right. apply elem_of_app. right. left.
  - apply IH. apply NoDup_cons in H as [_ H]. apply NoDup_cons in H as [_ H]. exact H.
Qed.

Lemma pairs_height d ns : Forall (fun n => mh n = d) ns -> Forall (fun n => mh n = S d) (pairs ns).
Proof.
  induction ns as [|a|a b ns IH] using list_ind2; simpl; intros H; try constructor.
  - simpl. apply Forall_cons in H as [-> _]. reflexivity.
  - apply IH. apply Forall_cons in H as [_ H]. apply Forall_cons in H as [_ H]. exact H.
Qed.

Lemma pairs_nonempty ns : (2 <= length ns)%nat -> pairs ns <> [].
Proof. destruct ns as [|a [|b ns]]; simpl; intros H; try lia. discriminate. Qed.

(* arithmetic of positions *)
Lemma div2_len_Z (ns : list mnode) : Z.of_nat (length (pairs ns)) = Z.of_nat (length ns) / 2.
Proof. rewrite pairs_length, Nat.div2_div, Nat2Z.inj_div. reflexivity. Qed.

Lemma odd_len_Z {A} (l : list A) : Z.odd (zlen l) = Nat.odd (length l).
Proof.
  unfold zlen. induction l as [|a|a b l IH] using list_ind2; auto.
  change (length (a :: b :: l)) with (S (S (length l))). rewrite !Nat2Z.inj_succ, Z.odd_succ_succ. exact IH.
Qed.

Lemma even_len_Z {A} (l : list A) : Z.even (zlen l) = Nat.even (length l).
Proof. rewrite <- Z.negb_odd, odd_len_Z. unfold Nat.odd. rewrite negb_involutive. reflexivity. Qed.

Lemma nat_even_mod n : Nat.even n = true -> Z.of_nat n mod 2 = 0.
Proof.
  intros H. apply Nat.even_spec in H as [k ->]. rewrite Nat2Z.inj_mul. change (Z.of_nat 2) with 2.
  rewrite Z.mul_comm. apply Z_mod_mult.
Qed.

Lemma nat_odd_mod n : Nat.odd n = true -> Z.of_nat n mod 2 = 1.
Proof.
  intros H. apply Nat.odd_spec in H as [k ->]. rewrite Nat2Z.inj_add, Nat2Z.inj_mul.
  change (Z.of_nat 2) with 2. change (Z.of_nat 1) with 1.
  rewrite Z.add_comm, Z.mul_comm, Z_mod_plus_full. reflexivity.
Qed.
