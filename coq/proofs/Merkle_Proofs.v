(* Proofs for property C04 over model/Merkle.v.

   Everything is for ALL block sizes (induction over the level lists), all subsets / positions of
   registered transactions, txids pairwise distinct.

     root_agrees        the streaming (pruned) tree's root is the textbook root
     proof_verifies     every returned proof carries the transaction's index in the block and is accepted
                        by the model of client.MerkleProof.IsValid against that root
     alignment          proofs come back in registration order (proofs[i] belongs to registered[i])
     bad_block_rejected a body whose textbook root differs from the header's leaves ProcessBlock's state
                        and notification stream untouched; with pairwise distinct txids every body that
                        differs from the committed list (added / dropped / reordered / altered) is such a body
     second_gate_unreachable, accepted_block: end-to-end statements about process_block

   Structure: level lists.  Level 0 is the list of leaves; `pairs` builds the complete pairs of a level
   (what the streaming tree has hashed so far), `pair_up` (model, textbook) also duplicates an unpaired
   last node.  `layers_of ns ls` says the pruned layer stack ls is the one belonging to level list ns;
   `resident ns p` says proof p sits, fully climbed, somewhere in the levels above ns; `vrun` is the
   verifier's loop as a relation, extended at the far end by AddHash / AddDuplicate. *)
From V.lib Require Import Base.
From V.model Require Import Merkle.

(* ---------------------------------------------------------------------------------------- *)
(* symbolic hashes *)
Lemma mnode_eqb_eq a b : mnode_eqb a b = true <-> a = b.
Proof.
  revert b. induction a as [x|a1 IH1 a2 IH2]; intros [y|b1 b2]; simpl; try (split; congruence).
  - rewrite Z.eqb_eq. split; congruence.
  - rewrite andb_true_iff, IH1, IH2. split; [intros [-> ->]; reflexivity | intros [= -> ->]; auto].
Qed.

Lemma mnode_eqb_refl a : mnode_eqb a a = true.
Proof. apply mnode_eqb_eq. reflexivity. Qed.

Lemma mnode_eqb_neq a b : a <> b -> mnode_eqb a b = false.
Proof. intros H. destruct (mnode_eqb a b) eqn:E; [apply mnode_eqb_eq in E; contradiction | reflexivity]. Qed.

(* height along the left spine; every node of level d has height d *)
Fixpoint mh (n : mnode) : nat := match n with Leaf _ => O | Node l _ => S (mh l) end.

(* ---------------------------------------------------------------------------------------- *)
(* level lists *)
Fixpoint pairs (ns : list mnode) : list mnode :=
  match ns with
  | a :: b :: rest => Node a b :: pairs rest
  | _ => []
  end.

Lemma list_ind2 {A} (P : list A -> Prop) :
  P [] -> (forall a, P [a]) -> (forall a b l, P l -> P (a :: b :: l)) -> forall l, P l.
Proof.
  intros H0 H1 H2.
  assert (forall l, P l /\ forall a, P (a :: l)) as H.
  { induction l as [|x l [IHa IHb]]; split; auto. }
  intros l. apply H.
Qed.

Lemma pairs_length ns : length (pairs ns) = Nat.div2 (length ns).
Proof. induction ns as [|a|a b l IH] using list_ind2; simpl; auto. Qed.

Lemma pairs_app_even ns l : Nat.even (length ns) = true -> pairs (ns ++ l) = pairs ns ++ pairs l.
Proof.
  induction ns as [|a|a b ns IH] using list_ind2; simpl; intros H; auto; try discriminate.
  rewrite IH; auto.
Qed.

Lemma even_odd_len {A} (l : list A) : Nat.even (length l) = negb (Nat.odd (length l)).
Proof. unfold Nat.odd. destruct (Nat.even (length l)); reflexivity. Qed.

Lemma split_last_odd (ns : list mnode) :
  Nat.odd (length ns) = true -> exists ns0 y, ns = ns0 ++ [y] /\ Nat.even (length ns0) = true.
Proof.
  induction ns as [|a|a b ns IH] using list_ind2; simpl; intros H; try discriminate.
  - exists [], a. auto.
  - destruct (IH H) as (ns0 & y & -> & He). exists (a :: b :: ns0), y. split; auto.
Qed.

Lemma pairs_snoc_even ns x : Nat.even (length ns) = true -> pairs (ns ++ [x]) = pairs ns.
Proof. intros H. rewrite pairs_app_even by exact H. simpl. apply app_nil_r. Qed.

Lemma pairs_snoc_odd ns y x :
  Nat.odd (length ns) = true -> last ns = Some y -> pairs (ns ++ [x]) = pairs ns ++ [Node y x].
Proof.
  intros Ho Hl. destruct (split_last_odd ns Ho) as (ns0 & y' & -> & He).
  rewrite last_snoc in Hl. injection Hl as ->.
  rewrite <- app_assoc. simpl. rewrite !pairs_app_even by exact He. simpl. rewrite app_nil_r. reflexivity.
Qed.

Lemma pair_up_even ns : Nat.even (length ns) = true -> pair_up ns = pairs ns.
Proof. induction ns as [|a|a b ns IH] using list_ind2; simpl; intros H; auto; try discriminate. rewrite IH; auto. Qed.

Lemma pair_up_odd ns y :
  Nat.odd (length ns) = true -> last ns = Some y -> pair_up ns = pairs ns ++ [Node y y].
Proof.
  induction ns as [|a|a b ns IH] using list_ind2; simpl; intros H Hl; try discriminate.
  - injection Hl as ->. reflexivity.
  - rewrite IH; auto. destruct ns; [discriminate|exact Hl].
Qed.

Lemma pair_up_length_lt ns : (2 <= length ns)%nat -> (1 <= length (pair_up ns) < length ns)%nat.
Proof.
  induction ns as [|a|a b ns IH] using list_ind2; simpl; intros H; try lia.
  destruct ns as [|c ns]; [simpl; lia|].
  destruct ns as [|c' ns]; [simpl; lia|].
  specialize (IH ltac:(simpl; lia)). simpl in *. lia.
Qed.

Lemma elem_of_pairs a b ns :
  Node a b ∈ pairs ns -> exists l1 l2, ns = l1 ++ a :: b :: l2 /\ Nat.even (length l1) = true.
Proof.
  induction ns as [|c|c e ns IH] using list_ind2; simpl; intros H.
  - inversion H.
  - inversion H.
  - apply elem_of_cons in H as [[= -> ->]|H].
    + exists [], ns. auto.
    + destruct (IH H) as (l1 & l2 & -> & He). exists (c :: e :: l1), l2. auto.
Qed.

Lemma NoDup_pairs ns : NoDup ns -> NoDup (pairs ns).
Proof.
  induction ns as [|a|a b ns IH] using list_ind2; simpl; intros H; try constructor.
  - intros Hin. apply elem_of_pairs in Hin as (l1 & l2 & -> & _).
    apply NoDup_cons in H as [Ha _]. apply Ha. right. apply elem_of_app. right. left.
  - apply IH. apply NoDup_cons in H as [_ H]. apply NoDup_cons in H as [_ H]. exact H.
Qed.

Lemma pairs_height d ns : Forall (fun n => mh n = d) ns -> Forall (fun n => mh n = S d) (pairs ns).
Proof.
  induction ns as [|a|a b ns IH] using list_ind2; simpl; intros H; try constructor.
  - simpl. apply Forall_cons in H as [-> _]. reflexivity.
  - apply IH. apply Forall_cons in H as [_ H]. apply Forall_cons in H as [_ H]. exact H.
Qed.

Lemma pairs_nonempty ns : (2 <= length ns)%nat -> pairs ns <> [].
Proof. destruct ns as [|a [|b ns]]; simpl; intros H; try lia. discriminate. Qed.

(* arithmetic of positions *)
Lemma div2_len_Z (ns : list mnode) : Z.of_nat (length (pairs ns)) = Z.of_nat (length ns) / 2.
Proof. rewrite pairs_length, Nat.div2_div, Nat2Z.inj_div. reflexivity. Qed.

Lemma odd_len_Z {A} (l : list A) : Z.odd (zlen l) = Nat.odd (length l).
Proof.
  unfold zlen. induction l as [|a|a b l IH] using list_ind2; auto.
  change (length (a :: b :: l)) with (S (S (length l))). rewrite !Nat2Z.inj_succ, Z.odd_succ_succ. exact IH.
Qed.

Lemma even_len_Z {A} (l : list A) : Z.even (zlen l) = Nat.even (length l).
Proof. rewrite <- Z.negb_odd, odd_len_Z. unfold Nat.odd. rewrite negb_involutive. reflexivity. Qed.

Lemma nat_even_mod n : Nat.even n = true -> Z.of_nat n mod 2 = 0.
Proof.
  intros H. apply Nat.even_spec in H as [k ->]. rewrite Nat2Z.inj_mul. change (Z.of_nat 2) with 2.
  rewrite Z.mul_comm. apply Z_mod_mult.
Qed.

Lemma nat_odd_mod n : Nat.odd n = true -> Z.of_nat n mod 2 = 1.
Proof.
  intros H. apply Nat.odd_spec in H as [k ->]. rewrite Nat2Z.inj_add, Nat2Z.inj_mul.
  change (Z.of_nat 2) with 2. change (Z.of_nat 1) with 1.
  rewrite Z.add_comm, Z.mul_comm, Z_mod_plus_full. reflexivity.
Qed.

(* ---------------------------------------------------------------------------------------- *)
(* the verifier's loop as a relation: from (index, layer, hash) the path and the duplicated indexes are
   consumed completely and the loop stops in (index', layer', hash') *)
Inductive vrun : Z -> Z -> mnode -> list mnode -> list Z -> Z -> Z -> mnode -> Prop :=
| vr_done idx layer h : vrun idx layer h [] [] idx layer h
| vr_dup idx layer h path dups idx' layer' h' :
    idx mod 2 = 0 ->
    vrun (idx / 2) (layer + 1) (Node h h) path dups idx' layer' h' ->
    vrun idx layer h path (layer :: dups) idx' layer' h'
| vr_path idx layer h s path dups idx' layer' h' :
    match dups with d0 :: _ => layer <> d0 | [] => True end ->
    (idx mod 2 = 0 \/ s <> h) ->
    vrun (idx / 2) (layer + 1) (if idx mod 2 =? 0 then Node h s else Node s h) path dups idx' layer' h' ->
    vrun idx layer h (s :: path) dups idx' layer' h'.

Lemma vrun_layer_mono idx layer h path dups idx' layer' h' :
  vrun idx layer h path dups idx' layer' h' -> layer <= layer'.
Proof. induction 1; lia. Qed.

Lemma vrun_snoc_path idx layer h path dups idx' layer' h' s :
  vrun idx layer h path dups idx' layer' h' ->
  (idx' mod 2 = 0 \/ s <> h') ->
  vrun idx layer h (path ++ [s]) dups (idx' / 2) (layer' + 1) (if idx' mod 2 =? 0 then Node h' s else Node s h').
Proof.
  induction 1; intros Hs; simpl.
  - apply vr_path; [exact I | exact Hs | apply vr_done].
  - apply vr_dup; auto.
  - apply vr_path; auto.
Qed.

Lemma vrun_snoc_dup idx layer h path dups idx' layer' h' :
  vrun idx layer h path dups idx' layer' h' ->
  idx' mod 2 = 0 ->
  vrun idx layer h path (dups ++ [layer']) (idx' / 2) (layer' + 1) (Node h' h').
Proof.
  induction 1; intros Hs; simpl.
  - apply vr_dup; [exact Hs | apply vr_done].
  - apply vr_dup; auto.
  - apply vr_path; auto.
    destruct dups as [|d0 dups]; simpl; auto.
    apply vrun_layer_mono in H1. lia.
Qed.

(* the executable loop of the model follows the relation *)
Lemma vrun_loop idx layer h path dups idx' layer' h' :
  vrun idx layer h path dups idx' layer' h' ->
  forall fuel, (length path + length dups + 1 <= fuel)%nat ->
  isvalid_loop fuel idx layer h path dups = Ok (idx', layer', h', []).
Proof.
  induction 1; intros fuel Hf.
  - destruct fuel; [simpl in Hf; lia|]. reflexivity.
  - destruct fuel; [simpl in Hf; lia|]. simpl. rewrite Z.eqb_refl.
    rewrite mnode_eqb_refl. rewrite H. simpl. apply IHvrun. simpl in Hf. lia.
  - destruct fuel; [simpl in Hf; lia|]. simpl in Hf.
    assert (Hstep : (if mnode_eqb s h && negb (idx mod 2 =? 0) then Err 1
                     else isvalid_loop fuel (idx / 2) (layer + 1) (if idx mod 2 =? 0 then Node h s else Node s h) path dups)
                    = Ok (idx', layer', h', [])).
    { destruct H0 as [He|Hn].
      - rewrite He. simpl. rewrite andb_false_r. rewrite He in IHvrun. apply IHvrun. lia.
      - rewrite (mnode_eqb_neq s h Hn). simpl. apply IHvrun. lia. }
    simpl. destruct dups as [|d0 dups].
    + exact Hstep.
    + destruct (layer =? d0) eqn:E; [apply Z.eqb_eq in E; contradiction|]. exact Hstep.
Qed.

(* ---------------------------------------------------------------------------------------- *)
(* a proof that has an index: the verifier, run on what the proof holds so far, ends at position pos of
   the level the tracked root belongs to, with the tracked root as hash *)
Record wf (p : mproof) (pos : Z) : Prop := WF {
  wf_index : 0 <= p_index p;
  wf_run : vrun (p_index p) 1 (Leaf (p_txid p)) (p_path p) (p_dups p) pos (p_depth p) (p_root p);
  wf_depth : p_depth p = 1 + Z.of_nat (mh (p_root p));
  wf_dups : Forall (fun d => 1 <= d < p_depth p) (p_dups p);
}.

Definition same_id (p q : mproof) : Prop := p_index q = p_index p /\ p_txid q = p_txid p.

(* p has climbed as far as the nodes of level list ns (and the levels built from complete pairs above it)
   allow: it waits at the unpaired last node of some level *)
Inductive resident : list mnode -> mproof -> Prop :=
| res_here ns p :
    Nat.odd (length ns) = true -> last ns = Some (p_root p) -> wf p (Z.of_nat (length ns) - 1) ->
    resident ns p
| res_up ns p : resident (pairs ns) p -> resident ns p.

(* p tracks the node that is about to be appended at position c *)
Definition riding (x : mnode) (c : Z) (p : mproof) : Prop := p_root p = x /\ wf p c.

Lemma resident_nonempty ns p : resident ns p -> ns <> [].
Proof. induction 1; intros ->; [discriminate | apply IHresident; reflexivity]. Qed.

Lemma resident_height ns p :
  resident ns p -> forall d, Forall (fun n => mh n = d) ns -> (d <= mh (p_root p))%nat.
Proof.
  induction 1; intros d Hd.
  - apply last_Some in H0 as (l' & ->). apply Forall_app in Hd as [_ Hd]. apply Forall_cons in Hd as [-> _]. lia.
  - specialize (IHresident (S d) (pairs_height d ns Hd)). lia.
Qed.

Lemma resident_up_neq ns p d x :
  resident (pairs ns) p -> Forall (fun n => mh n = d) ns -> mh x = d -> p_root p <> x.
Proof.
  intros Hr Hd Hx He. rewrite <- He in Hx.
  apply resident_height with (d := S d) in Hr; [lia|]. apply pairs_height. exact Hd.
Qed.

Lemma resident_index ns p : resident ns p -> 0 <= p_index p.
Proof. induction 1; auto. apply H1. Qed.

(* the layer stack that belongs to a level list *)
Definition pending (ns : list mnode) : list mnode :=
  if Nat.odd (length ns) then match last ns with Some y => [y] | None => [] end else [].

Inductive layers_of : list mnode -> list layer -> Prop :=
| lo_nil : layers_of [] []
| lo_cons ns ls : ns <> [] -> layers_of (pairs ns) ls -> layers_of ns (Layer (pending ns) (zlen ns) :: ls).

Lemma layers_of_nil_inv ls : layers_of [] ls -> ls = [].
Proof. inversion 1; [reflexivity | congruence]. Qed.

Lemma pending_odd ns : Nat.odd (length ns) = true -> exists y, last ns = Some y /\ pending ns = [y].
Proof.
  intros H. unfold pending. rewrite H. destruct (split_last_odd ns H) as (ns0 & y & -> & _).
  exists y. rewrite last_snoc. auto.
Qed.

Lemma pending_even ns : Nat.odd (length ns) = false -> pending ns = [].
Proof. intros H. unfold pending. rewrite H. reflexivity. Qed.

(* ---------------------------------------------------------------------------------------- *)
(* MerkleProof.AddHash / AddDuplicate keep wf *)
Lemma wf_add_hash_left p pos s :
  wf p pos -> pos mod 2 = 0 ->
  wf (mp_add_hash p s (Node (p_root p) s)) (pos / 2).
Proof.
  intros [Hi Hr Hd Hu] He. split; simpl; auto.
  - pose proof (vrun_snoc_path _ _ _ _ _ _ _ _ s Hr (or_introl He)) as H. rewrite He in H. exact H.
  - rewrite Hd. lia.
  - eapply Forall_impl; [exact Hu|]. simpl. intros; lia.
Qed.

Lemma wf_add_hash_right p pos s :
  wf p pos -> pos mod 2 = 1 -> s <> p_root p -> mh s = mh (p_root p) ->
  wf (mp_add_hash p s (Node s (p_root p))) (pos / 2).
Proof.
  intros [Hi Hr Hd Hu] Ho Hn Hh. split; simpl; auto.
  - pose proof (vrun_snoc_path _ _ _ _ _ _ _ _ s Hr (or_intror Hn)) as H. rewrite Ho in H. exact H.
  - rewrite Hd, Hh. lia.
  - eapply Forall_impl; [exact Hu|]. simpl. intros; lia.
Qed.

Lemma wf_add_dup p pos :
  wf p pos -> pos mod 2 = 0 ->
  wf (mp_add_dup p (Node (p_root p) (p_root p))) (pos / 2).
Proof.
  intros [Hi Hr Hd Hu] He. split; simpl; auto.
  - apply vrun_snoc_dup; auto.
  - rewrite Hd. lia.
  - apply Forall_app. split.
    + eapply Forall_impl; [exact Hu|]. simpl. intros; lia.
    + constructor; [lia | constructor].
Qed.

(* what is known about a proof before a level list ns grows by the node x (or, in Finalize, is closed
   with the pending node x), and after *)
Definition pre (ns : list mnode) (x : option mnode) (p : mproof) : Prop :=
  p_index p = -1 \/ resident ns p \/ (exists n, x = Some n /\ riding n (zlen ns) p).

Lemma same_id_refl p : same_id p p.
Proof. split; reflexivity. Qed.

Lemma same_id_trans p q r : same_id p q -> same_id q r -> same_id p r.
Proof. intros [A B] [C D]. split; congruence. Qed.

Lemma pre_index ns x p : pre ns x p -> p_index p = -1 \/ 0 <= p_index p.
Proof.
  intros [H|[H|(n & _ & _ & H)]]; [left; exact H | right; eapply resident_index; exact H | right; apply H].
Qed.

Lemma last_elem_of {A} (l : list A) y : last l = Some y -> y ∈ l.
Proof. intros H. apply last_Some in H as (l' & ->). apply elem_of_app. right. left. Qed.

Lemma odd_pos_Z (ns : list mnode) :
  Nat.odd (length ns) = true ->
  (zlen ns - 1) mod 2 = 0 /\ (zlen ns - 1) / 2 = zlen (pairs ns) /\ zlen ns mod 2 = 1 /\ zlen ns / 2 = zlen (pairs ns).
Proof.
  intros H. unfold zlen. rewrite div2_len_Z. pose proof (nat_odd_mod _ H) as Hm.
  set (n := Z.of_nat (length ns)) in *. assert (0 <= n) by (subst n; lia).
  repeat split; try lia.
  - rewrite Zminus_mod, Hm. reflexivity.
  - pose proof (Z.div_mod n 2 ltac:(lia)). pose proof (Z.div_mod (n - 1) 2 ltac:(lia)).
    assert ((n - 1) mod 2 = 0) by (rewrite Zminus_mod, Hm; reflexivity). lia.
Qed.

Lemma even_pos_Z (ns : list mnode) :
  Nat.odd (length ns) = false -> zlen ns mod 2 = 0 /\ zlen ns / 2 = zlen (pairs ns).
Proof.
  intros H. unfold zlen. rewrite div2_len_Z. split; [|reflexivity].
  apply nat_even_mod. unfold Nat.odd in H. destruct (Nat.even (length ns)); auto; discriminate.
Qed.

(* processProofsLayer on the pair (last ns, x) that completes a level of odd length *)
Lemma ppl_pair ns y x d p :
  Nat.odd (length ns) = true -> last ns = Some y ->
  Forall (fun n => mh n = d) (ns ++ [x]) -> NoDup (ns ++ [x]) ->
  pre ns (Some x) p ->
  let q := ppl_one y x (Node y x) false p in
  pre (pairs ns) (Some (Node y x)) q /\ same_id p q /\ (p_index p = -1 -> q = p).
Proof.
  intros Ho Hl Hd Hn Hp q. subst q. unfold ppl_one.
  apply Forall_app in Hd as [Hd Hdx]. apply Forall_cons in Hdx as [Hdx _].
  assert (Hy : y ∈ ns) by (apply last_elem_of; exact Hl).
  assert (Hdy : mh y = d) by (eapply Forall_forall in Hd; eauto).
  assert (Hxy : x <> y).
  { intros ->. apply NoDup_app in Hn as (_ & Hn & _). apply (Hn y Hy). left. }
  destruct (odd_pos_Z ns Ho) as (E1 & E2 & E3 & E4).
  destruct Hp as [Hi|[Hr|(n & [= <-] & Hroot & Hw)]].
  - rewrite Hi. simpl. repeat split; auto. left. exact Hi.
  - pose proof (resident_index _ _ Hr) as Hi.
    destruct (p_index p =? -1) eqn:E; [apply Z.eqb_eq in E; lia|]. simpl.
    inversion Hr as [ns' p' Ho' Hl' Hw|ns' p' Hup]; subst.
    + rewrite Hl in Hl'. injection Hl' as Hl'. rewrite <- Hl'. rewrite mnode_eqb_refl.
      repeat split; simpl; auto; try lia.
      right. right. exists (Node y x). split; [reflexivity|]. split; [reflexivity|].
      rewrite <- E2. rewrite Hl'. apply wf_add_hash_left; auto.
    + rewrite (mnode_eqb_neq (p_root p) y) by (eapply resident_up_neq; eauto).
      rewrite (mnode_eqb_neq (p_root p) x) by (eapply resident_up_neq; eauto).
      repeat split; auto; try lia. right. left. exact Hup.
  - pose proof (wf_index _ _ Hw) as Hi.
    destruct (p_index p =? -1) eqn:E; [apply Z.eqb_eq in E; lia|]. simpl.
    rewrite Hroot. rewrite (mnode_eqb_neq x y Hxy). rewrite mnode_eqb_refl.
    repeat split; simpl; auto; try lia.
    right. right. exists (Node y x). split; [reflexivity|]. split; [reflexivity|].
    rewrite <- E4. rewrite <- Hroot. apply wf_add_hash_right; auto; rewrite Hroot; auto; congruence.
Qed.

(* Finalize: the pending node n closes a level of even length and is hashed with itself *)
Lemma ppl_dup_pend ns n d p :
  Nat.odd (length ns) = false ->
  Forall (fun k => mh k = d) (ns ++ [n]) ->
  pre ns (Some n) p ->
  let q := ppl_one n n (Node n n) true p in
  pre (pairs ns) (Some (Node n n)) q /\ same_id p q /\ (p_index p = -1 -> q = p).
Proof.
  intros Ho Hd Hp q. subst q. unfold ppl_one.
  apply Forall_app in Hd as [Hd Hdx]. apply Forall_cons in Hdx as [Hdx _].
  destruct (even_pos_Z ns Ho) as (E1 & E2).
  destruct Hp as [Hi|[Hr|(k & [= <-] & Hroot & Hw)]].
  - rewrite Hi. simpl. repeat split; auto. left. exact Hi.
  - pose proof (resident_index _ _ Hr) as Hi.
    destruct (p_index p =? -1) eqn:E; [apply Z.eqb_eq in E; lia|]. simpl.
    inversion Hr as [ns' p' Ho' Hl' Hw|ns' p' Hup]; subst; [congruence|].
    rewrite (mnode_eqb_neq (p_root p) n) by (eapply resident_up_neq; eauto).
    repeat split; auto; try lia. right. left. exact Hup.
  - pose proof (wf_index _ _ Hw) as Hi.
    destruct (p_index p =? -1) eqn:E; [apply Z.eqb_eq in E; lia|]. simpl.
    rewrite Hroot, mnode_eqb_refl.
    repeat split; simpl; auto; try lia.
    right. right. exists (Node n n). split; [reflexivity|]. split; [reflexivity|].
    rewrite <- E2. rewrite <- Hroot. apply wf_add_dup; auto.
Qed.

(* Finalize: nothing pending, the unpaired last node of an odd level is hashed with itself *)
Lemma ppl_dup_last ns y d p :
  Nat.odd (length ns) = true -> last ns = Some y ->
  Forall (fun k => mh k = d) ns ->
  pre ns None p ->
  let q := ppl_one y y (Node y y) true p in
  pre (pairs ns) (Some (Node y y)) q /\ same_id p q /\ (p_index p = -1 -> q = p).
Proof.
  intros Ho Hl Hd Hp q. subst q. unfold ppl_one.
  assert (Hy : y ∈ ns) by (apply last_elem_of; exact Hl).
  assert (Hdy : mh y = d) by (eapply Forall_forall in Hd; eauto).
  destruct (odd_pos_Z ns Ho) as (E1 & E2 & E3 & E4).
  destruct Hp as [Hi|[Hr|(k & [=] & _)]].
  - rewrite Hi. simpl. repeat split; auto. left. exact Hi.
  - pose proof (resident_index _ _ Hr) as Hi.
    destruct (p_index p =? -1) eqn:E; [apply Z.eqb_eq in E; lia|]. simpl.
    inversion Hr as [ns' p' Ho' Hl' Hw|ns' p' Hup]; subst.
    + rewrite Hl in Hl'. injection Hl' as Hl'. rewrite <- Hl'. rewrite mnode_eqb_refl.
      repeat split; simpl; auto; try lia.
      right. right. exists (Node y y). split; [reflexivity|]. split; [reflexivity|].
      rewrite <- E2. rewrite Hl'. apply wf_add_dup; auto.
    + rewrite (mnode_eqb_neq (p_root p) y) by (eapply resident_up_neq; eauto).
      repeat split; auto; try lia. right. left. exact Hup.
Qed.

(* ---------------------------------------------------------------------------------------- *)
(* MerkleTree.AddHash, the loop over the layers *)
Definition post (ns' : list mnode) (p q : mproof) : Prop :=
  same_id p q /\ (p_index p = -1 -> q = p) /\ (p_index p <> -1 -> resident ns' q).

Lemma post_same ns' p : (p_index p <> -1 -> resident ns' p) -> post ns' p p.
Proof. intros H. split; [apply same_id_refl|]. split; auto. Qed.

Lemma odd_succ_len {A} (l : list A) : Z.odd (zlen l + 1) = negb (Nat.odd (length l)).
Proof. change (zlen l + 1) with (Z.succ (zlen l)). rewrite Z.odd_succ, even_len_Z. apply even_odd_len. Qed.

Lemma index_pair_0 (y x : mnode) : index [y; x] (zlen [y; x] - 2) = Ok y.
Proof. reflexivity. Qed.

Lemma add_loop_spec ns ls :
  layers_of ns ls ->
  forall d x ps,
    Forall (fun n => mh n = d) (ns ++ [x]) -> NoDup (ns ++ [x]) ->
    exists ls' ps',
      add_loop ls x ps = Ok (ls', ps') /\ layers_of (ns ++ [x]) ls' /\
      Forall2 (fun p q => pre ns (Some x) p -> post (ns ++ [x]) p q) ps ps'.
Proof.
  induction 1 as [|ns ls Hne Hlo IH]; intros d x ps Hd Hn.
  - (* no layer yet *)
    exists [new_layer x], ps. split; [reflexivity|]. split.
    + apply (lo_cons [x] []); [discriminate | constructor].
    + apply Forall2_same_length_lookup_2; [reflexivity|].
      intros i p q Hp Hq. rewrite Hp in Hq. injection Hq as <-.
      intros Hpre. apply post_same. intros Hi.
      destruct Hpre as [Hi'|[Hr|(n & [= <-] & Hroot & Hw)]]; [contradiction| |].
      * apply resident_nonempty in Hr. congruence.
      * apply res_here; simpl; auto. rewrite Hroot. reflexivity.
  - simpl. rewrite odd_succ_len.
    destruct (Nat.odd (length ns)) eqn:Ho; simpl.
    + (* the level had odd length: x completes a pair, one level up *)
      destruct (pending_odd ns Ho) as (y & Hl & ->). simpl.
      assert (Hps : pairs (ns ++ [x]) = pairs ns ++ [Node y x]) by (apply pairs_snoc_odd; auto).
      destruct (IH (S d) (Node y x) (map (ppl_one y x (Node y x) false) ps)) as (ls2 & ps2 & Ha & Hlo2 & Hf).
      { rewrite <- Hps. apply pairs_height. exact Hd. }
      { rewrite <- Hps. apply NoDup_pairs. exact Hn. }
      rewrite Ha. simpl. exists (Layer [] (zlen ns + 1) :: ls2), ps2. split; [reflexivity|]. split.
      * replace (Layer [] (zlen ns + 1)) with (Layer (pending (ns ++ [x])) (zlen (ns ++ [x]))).
        { apply lo_cons; [destruct ns; discriminate|]. rewrite Hps. exact Hlo2. }
        f_equal; [|unfold zlen; rewrite app_length; simpl; lia].
        apply pending_even. rewrite app_length. simpl. rewrite Nat.add_1_r, Nat.odd_succ.
        unfold Nat.odd in Ho. destruct (Nat.even (length ns)); auto; discriminate.
      * apply Forall2_fmap_l in Hf. eapply Forall2_impl; [exact Hf|].
        intros p q Hpq Hpre. simpl in Hpq.
        destruct (ppl_pair ns y x d p Ho Hl Hd Hn Hpre) as (Hpre1 & Hsid & Hun).
        destruct (Hpq Hpre1) as (Hsid2 & Hun2 & Hres).
        split; [eapply same_id_trans; eauto|]. split.
        -- intros Hi. rewrite (Hun2 ltac:(destruct Hsid as [-> _]; exact Hi)). apply Hun. exact Hi.
        -- intros Hi. apply res_up. rewrite Hps. apply Hres. destruct Hsid as [-> _]. exact Hi.
    + (* the level had even length: x waits as its unpaired last node *)
      rewrite (pending_even ns Ho). simpl.
      exists (Layer [x] (zlen ns + 1) :: ls), ps. split; [reflexivity|].
      assert (Hev : Nat.even (length ns) = true) by (unfold Nat.odd in Ho; destruct (Nat.even (length ns)); auto; discriminate).
      assert (Hps : pairs (ns ++ [x]) = pairs ns) by (apply pairs_snoc_even; auto).
      assert (Hod : Nat.odd (length (ns ++ [x])) = true).
      { rewrite app_length. simpl. rewrite Nat.add_1_r, Nat.odd_succ. exact Hev. }
      split.
      * replace (Layer [x] (zlen ns + 1)) with (Layer (pending (ns ++ [x])) (zlen (ns ++ [x]))).
        { apply lo_cons; [destruct ns; discriminate|]. rewrite Hps. exact Hlo. }
        f_equal; [|unfold zlen; rewrite app_length; simpl; lia].
        unfold pending. rewrite Hod, last_snoc. reflexivity.
      * apply Forall2_same_length_lookup_2; [reflexivity|].
        intros i p q Hp Hq. rewrite Hp in Hq. injection Hq as <-.
        intros Hpre. apply post_same. intros Hi.
        destruct Hpre as [Hi'|[Hr|(n & [= <-] & Hroot & Hw)]]; [contradiction| |].
        -- inversion Hr as [ns' p' Ho' Hl' Hw|ns' p' Hup]; subst; [congruence|].
           apply res_up. rewrite Hps. exact Hup.
        -- apply res_here; auto.
           ++ rewrite last_snoc, Hroot. reflexivity.
           ++ rewrite app_length. simpl. replace (Z.of_nat (length ns + 1) - 1) with (zlen ns) by (unfold zlen; lia). exact Hw.
Qed.

(* ---------------------------------------------------------------------------------------- *)
(* the textbook root: fuel does not matter once it covers the length *)
Lemma ref_root_f_fuel f1 : forall f2 ns,
  (1 <= length ns <= f1)%nat -> (length ns <= f2)%nat -> ref_root_f f1 ns = ref_root_f f2 ns.
Proof.
  induction f1 as [|f1 IH]; intros f2 ns H1 H2; [lia|].
  destruct f2 as [|f2]; [lia|].
  destruct ns as [|a [|b ns]]; simpl in *; try lia; auto.
  pose proof (pair_up_length_lt (a :: b :: ns) ltac:(simpl; lia)) as Hl. simpl in Hl.
  apply IH; simpl; lia.
Qed.

Lemma ref_root_single a : ref_root [a] = Some a.
Proof. reflexivity. Qed.

Lemma ref_root_step ns : (2 <= length ns)%nat -> ref_root ns = ref_root (pair_up ns).
Proof.
  intros H. unfold ref_root. pose proof (pair_up_length_lt ns H) as Hl.
  destruct ns as [|a [|b ns]]; simpl in H; try lia.
  change (ref_root_f (length (a :: b :: ns)) (a :: b :: ns))
    with (ref_root_f (S (length ns)) (pair_up (a :: b :: ns))).
  apply ref_root_f_fuel; simpl in *; lia.
Qed.

Lemma ref_root_height fuel : forall ns d r,
  Forall (fun n => mh n = d) ns -> ref_root_f fuel ns = Some r -> (mh r + 1 <= d + length ns)%nat.
Proof.
  induction fuel as [|f IH]; intros ns d r Hd Hr; [discriminate|].
  destruct ns as [|a [|b ns]]; simpl in Hr; try discriminate.
  - injection Hr as <-. apply Forall_cons in Hd as [-> _]. simpl. lia.
  - pose proof (pair_up_length_lt (a :: b :: ns) ltac:(simpl; lia)) as Hl.
    apply (IH _ (S d)) in Hr.
    + simpl in *. lia.
    + change (Node a b :: pair_up ns) with (pair_up (a :: b :: ns)).
      clear -Hd. revert Hd. generalize (a :: b :: ns). intros l.
      induction l as [|x|x y l IHl] using list_ind2; simpl; intros H; constructor.
      * simpl. apply Forall_cons in H as [-> _]. reflexivity.
      * constructor.
      * simpl. apply Forall_cons in H as [-> _]. reflexivity.
      * apply IHl. apply Forall_cons in H as [_ H]. apply Forall_cons in H as [_ H]. exact H.
Qed.

(* ---------------------------------------------------------------------------------------- *)
(* FinalizeMerkleProofs, the loop *)
Definition fin_post (root : mnode) (p q : mproof) : Prop :=
  same_id p q /\ (p_index p = -1 -> q = p) /\ (p_index p <> -1 -> p_root q = root /\ exists pos, wf q pos).

Lemma fin_post_same root p :
  (p_index p <> -1 -> p_root p = root /\ exists pos, wf p pos) -> fin_post root p p.
Proof. intros H. split; [apply same_id_refl|]. split; auto. Qed.

Lemma fin_post_trans root p q r :
  same_id p q -> (p_index p = -1 -> q = p) -> fin_post root q r -> fin_post root p r.
Proof.
  intros Hs Hu (Hs2 & Hu2 & Hr). split; [eapply same_id_trans; eauto|]. split.
  - intros Hi. rewrite (Hu2 ltac:(destruct Hs as [-> _]; exact Hi)). apply Hu. exact Hi.
  - intros Hi. apply Hr. destruct Hs as [-> _]. exact Hi.
Qed.

Lemma odd_false_even n : Nat.odd n = false -> Nat.even n = true.
Proof. unfold Nat.odd. destruct (Nat.even n); auto; discriminate. Qed.

Lemma last_hash_pending ns y :
  Nat.odd (length ns) = true -> last ns = Some y -> last_hash (Layer (pending ns) (zlen ns)) = Ok y.
Proof. intros Ho Hl. unfold pending. rewrite Ho, Hl. reflexivity. Qed.

Lemma fin_loop_spec ns ls :
  layers_of ns ls ->
  forall d pend ps,
    ns ++ option_list pend <> [] ->
    Forall (fun n => mh n = d) (ns ++ option_list pend) -> NoDup (ns ++ option_list pend) ->
    exists root ps',
      fin_loop ls pend ps = Ok (Some root, ps') /\ ref_root (ns ++ option_list pend) = Some root /\
      Forall2 (fun p q => pre ns pend p -> fin_post root p q) ps ps'.
Proof.
  induction 1 as [|ns ls Hne Hlo IH]; intros d pend ps Hfull Hd Hn.
  - (* above the top layer *)
    destruct pend as [n|]; [|simpl in Hfull; congruence].
    exists n, ps. split; [reflexivity|]. split; [reflexivity|].
    apply Forall2_same_length_lookup_2; [reflexivity|].
    intros i p q Hp Hq. rewrite Hp in Hq. injection Hq as <-.
    intros Hpre. apply fin_post_same. intros Hi.
    destruct Hpre as [Hi'|[Hr|(k & [= <-] & Hroot & Hw)]]; [contradiction| |].
    + apply resident_nonempty in Hr. congruence.
    + split; [exact Hroot | eexists; exact Hw].
  - simpl fin_loop. destruct pend as [n|].
    + (* a node is pending from below *)
      rewrite even_len_Z. simpl option_list in *.
      destruct (Nat.odd (length ns)) eqn:Ho.
      * (* odd level: its unpaired last node is hashed with the pending node *)
        rewrite even_odd_len, Ho. simpl negb. cbv iota.
        destruct (pending_odd ns Ho) as (y & Hl & Hpe).
        rewrite (last_hash_pending ns y Ho Hl). simpl.
        assert (Hps : pairs (ns ++ [n]) = pairs ns ++ [Node y n]) by (apply pairs_snoc_odd; auto).
        assert (Hev : Nat.even (length (ns ++ [n])) = true).
        { rewrite app_length. simpl. rewrite Nat.add_1_r, Nat.even_succ. exact Ho. }
        destruct (IH (S d) (Some (Node y n)) (map (ppl_one y n (Node y n) false) ps)) as (root & ps2 & Ha & Hroot & Hf).
        { simpl. destruct (pairs ns); discriminate. }
        { simpl. rewrite <- Hps. apply pairs_height. exact Hd. }
        { simpl. rewrite <- Hps. apply NoDup_pairs. exact Hn. }
        exists root, ps2. split; [exact Ha|]. split.
        -- rewrite ref_root_step by (rewrite app_length; simpl; destruct ns; [congruence | simpl; lia]).
           rewrite pair_up_even by exact Hev. rewrite Hps. exact Hroot.
        -- apply Forall2_fmap_l in Hf. eapply Forall2_impl; [exact Hf|].
           intros p q Hpq Hpre. simpl in Hpq.
           destruct (ppl_pair ns y n d p Ho Hl Hd Hn Hpre) as (Hpre1 & Hsid & Hun).
           eapply fin_post_trans; eauto.
      * (* even level: the pending node is hashed with itself *)
        rewrite even_odd_len, Ho. simpl negb. cbv iota. simpl.
        assert (Hod : Nat.odd (length (ns ++ [n])) = true).
        { rewrite app_length. simpl. rewrite Nat.add_1_r, Nat.odd_succ. apply odd_false_even. exact Ho. }
        assert (Hps : pair_up (ns ++ [n]) = pairs ns ++ [Node n n]).
        { rewrite (pair_up_odd _ n Hod) by apply last_snoc. rewrite pairs_snoc_even by (apply odd_false_even; exact Ho). reflexivity. }
        destruct (IH (S d) (Some (Node n n)) (map (ppl_one n n (Node n n) true) ps)) as (root & ps2 & Ha & Hroot & Hf).
        { simpl. destruct (pairs ns); discriminate. }
        { simpl. apply Forall_app. split.
          - apply pairs_height. apply Forall_app in Hd as [Hd _]. exact Hd.
          - constructor; [|constructor]. simpl. apply Forall_app in Hd as [_ Hd]. apply Forall_cons in Hd as [-> _]. reflexivity. }
        { simpl. apply NoDup_app in Hn as (Hn & _ & _).
          apply NoDup_app. split; [apply NoDup_pairs; exact Hn|]. split; [|apply NoDup_singleton].
          intros z Hz Hz2. apply elem_of_list_singleton in Hz2. subst z.
          apply elem_of_pairs in Hz as (l1 & l2 & He & _). rewrite He in Hn.
          apply NoDup_app in Hn as (_ & _ & Hn). apply NoDup_cons in Hn as [Hn _]. apply Hn. left. }
        exists root, ps2. split; [exact Ha|]. split.
        -- rewrite ref_root_step by (rewrite app_length; simpl; destruct ns; [congruence | simpl; lia]).
           rewrite Hps. exact Hroot.
        -- apply Forall2_fmap_l in Hf. eapply Forall2_impl; [exact Hf|].
           intros p q Hpq Hpre. simpl in Hpq.
           destruct (ppl_dup_pend ns n d p Ho Hd Hpre) as (Hpre1 & Hsid & Hun).
           eapply fin_post_trans; eauto.
    + (* nothing pending from below *)
      simpl option_list in *. rewrite app_nil_r in *.
      rewrite odd_len_Z. destruct (Nat.odd (length ns)) eqn:Ho.
      * destruct (pending_odd ns Ho) as (y & Hl & Hpe).
        rewrite (last_hash_pending ns y Ho Hl).
        destruct ((zlen ns =? 1) && match ls with [] => true | _ :: _ => false end) eqn:Etop.
        -- (* the top layer: its single node is the root *)
           apply andb_true_iff in Etop as [E1 _]. apply Z.eqb_eq in E1.
           destruct ns as [|a [|b ns]]; unfold zlen in E1; simpl in E1; try lia. simpl in Hl. injection Hl as <-.
           exists a, ps. split; [reflexivity|]. split; [reflexivity|].
           apply Forall2_same_length_lookup_2; [reflexivity|].
           intros i p q Hp Hq. rewrite Hp in Hq. injection Hq as <-.
           intros Hpre. apply fin_post_same. intros Hi.
           destruct Hpre as [Hi'|[Hr|(k & [=] & _)]]; [contradiction|].
           inversion Hr as [ns' p' Ho' Hl' Hw|ns' p' Hup]; subst.
           ++ simpl in Hl'. injection Hl' as <-. split; [reflexivity | eexists; exact Hw].
           ++ apply resident_nonempty in Hup. simpl in Hup. congruence.
        -- (* an odd level below the top: its last node is hashed with itself *)
           simpl.
           assert (Hlen : (3 <= length ns)%nat).
           { destruct ns as [|a [|b [|c ns]]]; simpl in *; try discriminate; try lia.
             apply layers_of_nil_inv in Hlo. subst ls. discriminate. }
           assert (Hps : pair_up ns = pairs ns ++ [Node y y]) by (apply pair_up_odd; auto).
           destruct (IH (S d) (Some (Node y y)) (map (ppl_one y y (Node y y) true) ps)) as (root & ps2 & Ha & Hroot & Hf).
           { simpl. destruct (pairs ns); discriminate. }
           { simpl. apply Forall_app. split; [apply pairs_height; exact Hd|].
             constructor; [|constructor]. simpl. f_equal. eapply Forall_forall in Hd; [exact Hd|]. apply last_elem_of. exact Hl. }
           { simpl. apply NoDup_app. split; [apply NoDup_pairs; exact Hn|]. split; [|apply NoDup_singleton].
             intros z Hz Hz2. apply elem_of_list_singleton in Hz2. subst z.
             apply elem_of_pairs in Hz as (l1 & l2 & He & _). rewrite He in Hn.
             apply NoDup_app in Hn as (_ & _ & Hn). apply NoDup_cons in Hn as [Hn _]. apply Hn. left. }
           exists root, ps2. split; [exact Ha|]. split.
           ++ rewrite ref_root_step by lia. rewrite Hps. exact Hroot.
           ++ apply Forall2_fmap_l in Hf. eapply Forall2_impl; [exact Hf|].
              intros p q Hpq Hpre. simpl in Hpq.
              destruct (ppl_dup_last ns y d p Ho Hl Hd Hpre) as (Hpre1 & Hsid & Hun).
              eapply fin_post_trans; eauto.
      * (* even level, nothing pending: nothing to do here *)
        assert (Hlen : (2 <= length ns)%nat).
        { destruct ns as [|a [|b ns]]; simpl in *; try discriminate; try lia. congruence. }
        destruct (IH (S d) None ps) as (root & ps2 & Ha & Hroot & Hf).
        { simpl. rewrite app_nil_r. apply pairs_nonempty. exact Hlen. }
        { simpl. rewrite app_nil_r. apply pairs_height. exact Hd. }
        { simpl. rewrite app_nil_r. apply NoDup_pairs. exact Hn. }
        simpl in Hroot. rewrite app_nil_r in Hroot.
        exists root, ps2. split; [exact Ha|]. split.
        -- rewrite ref_root_step by lia. rewrite pair_up_even by (apply odd_false_even; exact Ho). exact Hroot.
        -- eapply Forall2_impl; [exact Hf|]. intros p q Hpq Hpre. apply Hpq.
           destruct Hpre as [Hi|[Hr|(k & [=] & _)]]; [left; exact Hi|].
           right. left. inversion Hr as [ns' p' Ho' Hl' Hw|ns' p' Hup]; subst; [congruence | exact Hup].
Qed.

(* ---------------------------------------------------------------------------------------- *)
(* the tree while ProcessBlock feeds it: ids = txids added so far, regs = those registered (in order) *)
Definition proof_at (ids : list Z) (r : Z) (p : mproof) : Prop :=
  p_txid p = r /\ 0 <= p_index p /\ ids !! Z.to_nat (p_index p) = Some r.

Definition tree_inv (ids regs : list Z) (t : mtree) : Prop :=
  t_count t = zlen ids /\ layers_of (map Leaf ids) (t_layers t) /\
  Forall2 (fun r p => proof_at ids r p /\ resident (map Leaf ids) p) regs (t_proofs t).

Lemma tree_inv_init : tree_inv [] [] new_tree.
Proof. split; [reflexivity|]. split; constructor. Qed.

Lemma set_index_skip ps h c : Forall (fun p => p_index p <> -1) ps -> set_index ps h c = ps.
Proof.
  induction 1 as [|p ps Hp _ IH]; simpl; [reflexivity|].
  destruct (p_index p =? -1) eqn:E; [apply Z.eqb_eq in E; contradiction|]. simpl. rewrite IH. reflexivity.
Qed.

Lemma set_index_new ps x c :
  Forall (fun p => p_index p <> -1) ps ->
  set_index (ps ++ [new_proof x]) (Leaf x) c = ps ++ [MP c x [] [] (Leaf x) 1].
Proof.
  induction 1 as [|p ps Hp _ IH]; simpl.
  - rewrite Z.eqb_refl. reflexivity.
  - destruct (p_index p =? -1) eqn:E; [apply Z.eqb_eq in E; contradiction|]. simpl. rewrite IH. reflexivity.
Qed.

Lemma add_hash_unfold t h :
  (t_layers t = [] -> t_count t = 0) ->
  add_hash t h = res_bind (add_loop (t_layers t) h (set_index (t_proofs t) h (t_count t)))
                          (fun r => Ok (MT (fst r) (t_count t + 1) (snd r))).
Proof.
  intros H. unfold add_hash. destruct (t_layers t) as [|L ls] eqn:E; [|reflexivity].
  simpl. rewrite (H eq_refl). reflexivity.
Qed.

Lemma NoDup_leaves ids : NoDup ids -> NoDup (map Leaf ids).
Proof. intros H. apply NoDup_fmap_2; [|exact H]. intros a b [= ->]. reflexivity. Qed.

Lemma leaves_height ids : Forall (fun n => mh n = O) (map Leaf ids).
Proof. apply Forall_fmap. apply Forall_forall. intros; reflexivity. Qed.

Lemma zlen_map {A B} (f : A -> B) l : zlen (map f l) = zlen l.
Proof. unfold zlen. rewrite map_length. reflexivity. Qed.

Lemma zlen_app {A} (l1 l2 : list A) : zlen (l1 ++ l2) = zlen l1 + zlen l2.
Proof. unfold zlen. rewrite app_length. lia. Qed.

Lemma proof_at_app ids x r p : proof_at ids r p -> proof_at (ids ++ [x]) r p.
Proof. intros (A & B & C). split; [exact A|]. split; [exact B|]. apply lookup_app_l_Some. exact C. Qed.

Lemma tree_step ids regs t x (reg : bool) :
  tree_inv ids regs t -> NoDup (ids ++ [x]) ->
  exists t2,
    add_hash (if reg then add_merkle_proof t x else t) (Leaf x) = Ok t2 /\
    tree_inv (ids ++ [x]) (regs ++ (if reg then [x] else [])) t2.
Proof.
  intros (Hc & Hlo & Hps) Hn.
  assert (Hidx : Forall (fun p => p_index p <> -1) (t_proofs t)).
  { apply Forall_forall. intros p Hp. apply elem_of_list_lookup in Hp as (i & Hp).
    destruct (Forall2_lookup_r _ _ _ _ _ Hps Hp) as (r & _ & (_ & Hi & _) & _). lia. }
  assert (Hl0 : t_layers t = [] -> t_count t = 0).
  { intros E. rewrite E in Hlo. inversion Hlo as [Hm|]. rewrite Hc. destruct ids; [reflexivity | discriminate]. }
  set (t1 := if reg then add_merkle_proof t x else t).
  assert (Hl1 : t_layers t1 = t_layers t /\ t_count t1 = t_count t) by (subst t1; destruct reg; auto).
  destruct Hl1 as [El Ec].
  rewrite add_hash_unfold by (rewrite El, Ec; exact Hl0). rewrite El, Ec.
  set (ps1 := set_index (t_proofs t1) (Leaf x) (t_count t)).
  assert (Hps1 : ps1 = t_proofs t ++ (if reg then [MP (zlen ids) x [] [] (Leaf x) 1] else [])).
  { subst ps1 t1. destruct reg; simpl.
    - rewrite set_index_new by exact Hidx. rewrite Hc. reflexivity.
    - rewrite set_index_skip by exact Hidx. rewrite app_nil_r. reflexivity. }
  destruct (add_loop_spec _ _ Hlo O (Leaf x) ps1) as (ls' & ps' & Ha & Hlo' & Hf).
  { change [Leaf x] with (map Leaf [x]). rewrite <- map_app. apply leaves_height. }
  { change [Leaf x] with (map Leaf [x]). rewrite <- map_app. apply NoDup_leaves. exact Hn. }
  rewrite Ha. simpl. eexists. split; [reflexivity|].
  change [Leaf x] with (map Leaf [x]) in *. rewrite <- map_app in *.
  split; [simpl; rewrite Hc, zlen_app; reflexivity|]. split; [exact Hlo'|]. simpl.
  rewrite Hps1 in Hf. apply Forall2_app_inv_l in Hf as (qs1 & qs2 & Hf1 & Hf2 & ->).
  apply Forall2_app.
  - (* the proofs registered earlier *)
    apply Forall2_same_length_lookup_2.
    { rewrite (Forall2_length _ _ _ Hps). apply (Forall2_length _ _ _ Hf1). }
    intros i r q Hr Hq.
    destruct (Forall2_lookup_l _ _ _ _ _ Hps Hr) as (p & Hp & Hat & Hres).
    destruct (Forall2_lookup_l _ _ _ _ _ Hf1 Hp) as (q' & Hq' & Hpost).
    rewrite Hq in Hq'. injection Hq' as <-.
    destruct Hpost as ((Hi & Ht) & _ & Hr2).
    { right. left. exact Hres. }
    destruct Hat as (A & B & C). split.
    + split; [congruence|]. split; [lia|]. rewrite Hi. apply lookup_app_l_Some. exact C.
    + apply Hr2. lia.
  - (* the proof registered for x itself *)
    destruct reg; [|apply Forall2_nil_inv_l in Hf2; subst; constructor].
    apply Forall2_cons_inv_l in Hf2 as (q & qs & Hpost & Hnil & ->).
    apply Forall2_nil_inv_l in Hnil. subst qs. constructor; [|constructor].
    destruct Hpost as ((Hi & Ht) & _ & Hr2).
    { right. right. exists (Leaf x). split; [reflexivity|]. split; [reflexivity|].
      rewrite zlen_map. split; simpl; try (unfold zlen; lia); [constructor | constructor]. }
    simpl in *. split.
    + split; [exact Ht|]. split; [unfold zlen in *; lia|]. rewrite Hi. unfold zlen. rewrite Nat2Z.id.
      apply list_lookup_middle. reflexivity.
    + apply Hr2. unfold zlen in *. lia.
Qed.

(* ---------------------------------------------------------------------------------------- *)
(* the registration discipline in isolation: any choice of registered transactions (flag per tx),
   AddMerkleProof immediately before the transaction's own AddHash, AddHash for every transaction
   (reg_step, reg_loop, registered are defined in model/Merkle.v) *)

Lemma registered_snoc body tx :
  registered (body ++ [tx]) = registered body ++ (if snd tx then [fst tx] else []).
Proof.
  unfold registered. rewrite filter_app, map_app. f_equal.
  destruct tx as [t [|]]; reflexivity.
Qed.

Lemma reg_loop_inv body :
  NoDup (map fst body) ->
  exists t, reg_loop body = Ok t /\ tree_inv (map fst body) (registered body) t.
Proof.
  induction body as [|tx body IH] using rev_ind; intros Hn.
  - exists new_tree. split; [reflexivity | apply tree_inv_init].
  - rewrite map_app in Hn. simpl in Hn.
    destruct IH as (t & Ht & Hinv). { apply NoDup_app in Hn as [Hn _]. exact Hn. }
    destruct (tree_step _ _ _ (fst tx) (snd tx) Hinv Hn) as (t2 & Ha & Hinv2).
    exists t2. split.
    + unfold reg_loop in *. rewrite fold_left_app, Ht. simpl. exact Ha.
    + rewrite map_app, registered_snoc. exact Hinv2.
Qed.

(* FinalizeMerkleProofs on such a tree *)
Lemma finalize_spec ids regs t :
  tree_inv ids regs t -> ids <> [] -> NoDup ids ->
  exists root ps,
    finalize t = Ok (Some root, ps) /\ ref_root (map Leaf ids) = Some root /\
    Forall2 (fun r q => proof_at ids r q /\ p_root q = root /\ exists pos, wf q pos) regs ps.
Proof.
  intros (Hc & Hlo & Hps) Hne Hn. unfold finalize. rewrite Hc.
  destruct (zlen ids =? 0) eqn:E0; [apply Z.eqb_eq in E0; destruct ids; [congruence | unfold zlen in E0; simpl in E0; lia]|].
  destruct (zlen ids =? 1) eqn:E1.
  - apply Z.eqb_eq in E1. destruct ids as [|a [|b ids]]; unfold zlen in E1; simpl in E1; try lia.
    simpl in Hlo. inversion Hlo as [|ns ls Hne' Hlo' E]; subst. simpl.
    exists (Leaf a), (t_proofs t). split; [reflexivity|]. split; [reflexivity|].
    eapply Forall2_impl; [exact Hps|]. intros r q [Hat Hr]. split; [exact Hat|].
    inversion Hr as [ns' p' Ho' Hl' Hw|ns' p' Hup]; subst.
    + simpl in Hl'. injection Hl' as <-. split; [reflexivity | eexists; exact Hw].
    + apply resident_nonempty in Hup. simpl in Hup. congruence.
  - destruct (fin_loop_spec _ _ Hlo O None (t_proofs t)) as (root & ps & Hf & Hroot & Hall).
    { simpl. rewrite app_nil_r. destruct ids; [congruence | discriminate]. }
    { simpl. rewrite app_nil_r. apply leaves_height. }
    { simpl. rewrite app_nil_r. apply NoDup_leaves. exact Hn. }
    simpl in Hroot. rewrite app_nil_r in Hroot.
    exists root, ps. split; [exact Hf|]. split; [exact Hroot|].
    apply Forall2_same_length_lookup_2.
    { rewrite (Forall2_length _ _ _ Hps). apply (Forall2_length _ _ _ Hall). }
    intros i r q Hr Hq.
    destruct (Forall2_lookup_l _ _ _ _ _ Hps Hr) as (p & Hp & Hat & Hres).
    destruct (Forall2_lookup_l _ _ _ _ _ Hall Hp) as (q' & Hq' & Hpost).
    rewrite Hq in Hq'. injection Hq' as <-.
    destruct Hpost as ((Hi & Ht) & _ & Hr2). { right. left. exact Hres. }
    destruct Hat as (A & B & C).
    split; [split; [congruence | split; [lia | rewrite Hi; exact C]]|]. apply Hr2. lia.
Qed.

(* the client-side verifier accepts a finalized proof (values fit Go's integers when the block has fewer
   than 2^63 transactions, so the uint64 conversions of convertMerkleProof change nothing) *)
Lemma to_u64_small x : 0 <= x < 2 ^ 64 -> to_u64 x = x.
Proof. intros H. unfold to_u64. apply Z.mod_small. exact H. Qed.

Lemma wf_valid q pos root hid :
  wf q pos -> p_root q = root -> p_index q < 2 ^ 63 -> p_depth q <= 2 ^ 63 ->
  is_valid (convert_merkle_proof q (hid, root)) (p_txid q) = 0.
Proof.
  intros [Hi Hr Hd Hu] Hroot Hib Hdb. unfold is_valid, convert_merkle_proof. simpl.
  rewrite to_u64_small by lia.
  assert (Hm : map to_u64 (p_dups q) = p_dups q).
  { clear -Hu Hdb. induction Hu as [|d ds Hd _ IH]; simpl; [reflexivity|]. rewrite IH, to_u64_small by lia. reflexivity. }
  rewrite Hm. rewrite (vrun_loop _ _ _ _ _ _ _ _ Hr) by lia.
  rewrite Hroot, mnode_eqb_refl. reflexivity.
Qed.

(* ---------------------------------------------------------------------------------------- *)
(* THE STREAMING TREE IS CORRECT - for every block size, every subset and position of registered txs *)
Theorem streaming_correct body :
  NoDup (map fst body) -> body <> [] -> zlen body < 2 ^ 63 ->
  exists t root proofs,
    reg_loop body = Ok t /\ finalize t = Ok (Some root, proofs) /\
    ref_root (map Leaf (map fst body)) = Some root /\
    map p_txid proofs = registered body /\
    Forall (fun q => 0 <= p_index q /\ map fst body !! Z.to_nat (p_index q) = Some (p_txid q) /\
                     forall hid, is_valid (convert_merkle_proof q (hid, root)) (p_txid q) = 0) proofs.
Proof.
  intros Hn Hne Hlen.
  destruct (reg_loop_inv body Hn) as (t & Ht & Hinv).
  destruct (finalize_spec _ _ _ Hinv) as (root & ps & Hf & Hroot & Hall); auto.
  { destruct body; [congruence | discriminate]. }
  exists t, root, ps. repeat split; auto.
  - clear -Hall. induction Hall as [|r q rs qs (Hat & _) _ IH]; simpl; [reflexivity|].
    destruct Hat as [-> _]. f_equal. exact IH.
  - apply Forall_forall. intros q Hq. apply elem_of_list_lookup in Hq as (i & Hq).
    destruct (Forall2_lookup_r _ _ _ _ _ Hall Hq) as (r & _ & (Ht' & Hi & Hlk) & Hr & pos & Hw).
    subst r. split; [exact Hi|]. split; [exact Hlk|]. intros hid.
    assert (Hb : Z.of_nat (length body) < 2 ^ 63) by exact Hlen.
    apply lookup_lt_Some in Hlk. rewrite map_length in Hlk.
    eapply wf_valid; eauto; try lia.
    rewrite (wf_depth _ _ Hw), Hr.
    unfold ref_root in Hroot. apply (ref_root_height _ _ O) in Hroot; [|apply leaves_height].
    rewrite !map_length in Hroot. lia.
Qed.

(* the three named statements *)
Theorem root_agrees body t :
  NoDup (map fst body) -> body <> [] -> reg_loop body = Ok t ->
  exists root proofs, finalize t = Ok (Some root, proofs) /\ ref_root (map Leaf (map fst body)) = Some root.
Proof.
  intros Hn Hne Ht. destruct (reg_loop_inv body Hn) as (t' & Ht' & Hinv).
  rewrite Ht in Ht'. injection Ht' as <-.
  destruct (finalize_spec _ _ _ Hinv) as (root & ps & Hf & Hroot & _); eauto.
  destruct body; [congruence | discriminate].
Qed.

Theorem alignment body t root proofs :
  NoDup (map fst body) -> body <> [] -> reg_loop body = Ok t -> finalize t = Ok (root, proofs) ->
  map p_txid proofs = registered body.
Proof.
  intros Hn Hne Ht Hf. destruct (reg_loop_inv body Hn) as (t' & Ht' & Hinv).
  rewrite Ht in Ht'. injection Ht' as <-.
  destruct (finalize_spec _ _ _ Hinv) as (root' & ps & Hf' & _ & Hall); auto.
  { destruct body; [congruence | discriminate]. }
  rewrite Hf in Hf'. injection Hf' as -> ->.
  clear -Hall. induction Hall as [|r q rs qs (Hat & _) _ IH]; simpl; [reflexivity|].
  destruct Hat as [-> _]. f_equal. exact IH.
Qed.

Theorem proof_verifies body t root proofs i q :
  NoDup (map fst body) -> zlen body < 2 ^ 63 ->
  reg_loop body = Ok t -> finalize t = Ok (Some root, proofs) -> proofs !! i = Some q ->
  registered body !! i = Some (p_txid q) /\
  0 <= p_index q /\ map fst body !! Z.to_nat (p_index q) = Some (p_txid q) /\
  forall hid, is_valid (convert_merkle_proof q (hid, root)) (p_txid q) = 0.
Proof.
  intros Hn Hlen Ht Hf Hq.
  assert (Hne : body <> []).
  { intros ->. unfold reg_loop in Ht. simpl in Ht. injection Ht as <-. discriminate. }
  destruct (streaming_correct body Hn Hne Hlen) as (t' & root' & ps & Ht' & Hf' & _ & Hal & Hall).
  rewrite Ht in Ht'. injection Ht' as <-. rewrite Hf in Hf'. injection Hf' as <- <-.
  split.
  - rewrite <- Hal, list_lookup_fmap, Hq. reflexivity.
  - eapply Forall_forall in Hall; [exact Hall|]. eapply elem_of_list_lookup_2. exact Hq.
Qed.

(* ---------------------------------------------------------------------------------------- *)
(* the textbook root is injective on lists of pairwise distinct txids: a body that differs from the
   committed list (transaction added, dropped, reordered, altered) has another root *)
Lemma pair_up_height d ns : Forall (fun n => mh n = d) ns -> Forall (fun n => mh n = S d) (pair_up ns).
Proof.
  induction ns as [|x|x y l IHl] using list_ind2; simpl; intros H; constructor.
  - simpl. apply Forall_cons in H as [-> _]. reflexivity.
  - constructor.
  - simpl. apply Forall_cons in H as [-> _]. reflexivity.
  - apply IHl. apply Forall_cons in H as [_ H]. apply Forall_cons in H as [_ H]. exact H.
Qed.

Lemma elem_of_pair_up a b ns : Node a b ∈ pair_up ns -> a ∈ ns /\ b ∈ ns.
Proof.
  induction ns as [|x|x y l IHl] using list_ind2; simpl; intros H.
  - inversion H.
  - apply elem_of_list_singleton in H. injection H as -> ->. split; left.
  - apply elem_of_cons in H as [[= -> ->]|H].
    + split; [left | right; left].
    + destruct (IHl H). split; right; right; auto.
Qed.

Lemma NoDup_pair_up ns : NoDup ns -> NoDup (pair_up ns).
Proof.
  induction ns as [|x|x y l IHl] using list_ind2; simpl; intros H.
  - constructor.
  - apply NoDup_singleton.
  - apply NoDup_cons in H as [Hx H]. apply NoDup_cons in H as [Hy H]. constructor; [|apply IHl; exact H].
    intros Hin. apply elem_of_pair_up in Hin as [Hin _]. apply Hx. right. exact Hin.
Qed.

Lemma pair_up_inj xs : forall ys, NoDup xs -> NoDup ys -> pair_up xs = pair_up ys -> xs = ys.
Proof.
  induction xs as [|x|x y l IHl] using list_ind2; intros ys Hx Hy E.
  - destruct ys as [|a [|b ys]]; simpl in E; [reflexivity | discriminate | discriminate].
  - destruct ys as [|a [|b ys]]; simpl in E; try discriminate.
    + injection E as -> _. reflexivity.
    + destruct ys as [|c [|e ys]]; simpl in E; try discriminate.
      injection E as -> ->. apply NoDup_cons in Hy as [Hy _]. exfalso. apply Hy. left.
  - destruct ys as [|a [|b ys]]; simpl in E; try discriminate.
    + destruct l as [|c [|e l]]; simpl in E; try discriminate.
      injection E as -> ->. apply NoDup_cons in Hx as [Hx _]. exfalso. apply Hx. left.
    + injection E as -> -> E. f_equal. f_equal. apply IHl; auto.
      * apply NoDup_cons in Hx as [_ Hx]. apply NoDup_cons in Hx as [_ Hx]. exact Hx.
      * apply NoDup_cons in Hy as [_ Hy]. apply NoDup_cons in Hy as [_ Hy]. exact Hy.
Qed.

Lemma ref_root_height_ge fuel : forall ns d r,
  Forall (fun n => mh n = d) ns -> ref_root_f fuel ns = Some r -> (d <= mh r)%nat.
Proof.
  induction fuel as [|f IH]; intros ns d r Hd Hr; [discriminate|].
  destruct ns as [|a [|b ns]]; simpl in Hr; try discriminate.
  - injection Hr as <-. apply Forall_cons in Hd as [-> _]. lia.
  - apply (IH _ (S d)) in Hr; [lia|]. apply (pair_up_height d (a :: b :: ns)). exact Hd.
Qed.

Lemma ref_root_f_inj f1 : forall f2 xs ys d r,
  Forall (fun n => mh n = d) xs -> Forall (fun n => mh n = d) ys -> NoDup xs -> NoDup ys ->
  ref_root_f f1 xs = Some r -> ref_root_f f2 ys = Some r -> xs = ys.
Proof.
  induction f1 as [|f1 IH]; intros f2 xs ys d r Hdx Hdy Hnx Hny Hx Hy; [discriminate|].
  destruct f2 as [|f2]; [discriminate|].
  destruct xs as [|a [|b xs]]; simpl in Hx; try discriminate;
    destruct ys as [|a' [|b' ys]]; simpl in Hy; try discriminate.
  - congruence.
  - injection Hx as <-. apply (ref_root_height_ge _ _ (S d)) in Hy.
    + apply Forall_cons in Hdx as [Hda _]. lia.
    + apply (pair_up_height d (a' :: b' :: ys)). exact Hdy.
  - injection Hy as <-. apply (ref_root_height_ge _ _ (S d)) in Hx.
    + apply Forall_cons in Hdy as [Hda _]. lia.
    + apply (pair_up_height d (a :: b :: xs)). exact Hdx.
  - apply pair_up_inj; auto.
    apply (IH f2 _ _ (S d) r); auto.
    + apply (pair_up_height d (a :: b :: xs)). exact Hdx.
    + apply (pair_up_height d (a' :: b' :: ys)). exact Hdy.
    + apply (NoDup_pair_up (a :: b :: xs)). exact Hnx.
    + apply (NoDup_pair_up (a' :: b' :: ys)). exact Hny.
Qed.

Theorem ref_root_inj a b r :
  NoDup a -> NoDup b -> ref_root (map Leaf a) = Some r -> ref_root (map Leaf b) = Some r -> a = b.
Proof.
  intros Ha Hb Hra Hrb.
  assert (E : map Leaf a = map Leaf b).
  { eapply ref_root_f_inj; try exact Hra; try exact Hrb; try apply leaves_height; apply NoDup_leaves; auto. }
  clear -E. revert b E. induction a as [|x a IH]; intros [|y b] E; simpl in E; try discriminate; auto.
  injection E as -> E. f_equal. apply IH. exact E.
Qed.

(* ---------------------------------------------------------------------------------------- *)
(* ProcessBlock *)

(* a body whose textbook root is not the header's root: chain and notification stream untouched *)
Theorem bad_block_rejected s hid prev hroot body :
  ref_root (map Leaf (map fst body)) <> Some hroot ->
  process_block s hid prev hroot body false = (s, ERR, []).
Proof.
  intros H. unfold process_block.
  destruct (existsb _ _ || _); [reflexivity|].
  destruct (negb (prev =? n_tip s)); [reflexivity|].
  unfold is_merkle_root_valid. simpl.
  destruct (ref_root (map Leaf (map fst body))) as [r|]; [|reflexivity].
  rewrite mnode_eqb_neq by congruence. reflexivity.
Qed.

(* every corruption of the body under an unchanged header, txids pairwise distinct *)
Theorem corrupted_body_rejected s hid prev hroot committed body :
  NoDup committed -> NoDup (map fst body) ->
  ref_root (map Leaf committed) = Some hroot ->
  map fst body <> committed ->
  process_block s hid prev hroot body false = (s, ERR, []).
Proof.
  intros Hc Hb Hr Hne. apply bad_block_rejected. intros Hr2. apply Hne.
  eapply ref_root_inj; eauto.
Qed.

(* removeHash *)
Lemma remove_hash_fst x l : fst (remove_hash x l) = zmem x l.
Proof.
  induction l as [|y l IH]; simpl; [reflexivity|].
  destruct (x =? y); simpl; [reflexivity|]. destruct (remove_hash x l). simpl in *. exact IH.
Qed.

Lemma remove_hash_other x y l : y <> x -> zmem y (snd (remove_hash x l)) = zmem y l.
Proof.
  intros Hne. induction l as [|z l IH]; simpl; [reflexivity|].
  destruct (x =? z) eqn:E; simpl.
  - apply Z.eqb_eq in E. subst z. destruct (y =? x) eqn:E2; [apply Z.eqb_eq in E2; contradiction | reflexivity].
  - destruct (remove_hash x l). simpl in *. rewrite IH. reflexivity.
Qed.

(* one transaction of the registration loop, with the decision spelled out *)
Lemma block_tx_step insync tree unconf mempool txs file tx :
  exists file1,
    block_tx insync (Ok (tree, unconf, mempool, txs, file)) tx =
    let sel := select_tx insync unconf mempool tx in
    res_bind (add_hash (if sel then add_merkle_proof tree (fst tx) else tree) (Leaf (fst tx)))
             (fun t2 => Ok (t2, snd (remove_hash (fst tx) unconf), snd (remove_hash (fst tx) mempool),
                            txs ++ option_list sel, file1)).
Proof.
  unfold block_tx, select_tx. simpl.
  rewrite <- (remove_hash_fst (fst tx) unconf).
  destruct (remove_hash (fst tx) unconf) as [in_unconf unconf1]. simpl.
  rewrite <- (remove_hash_fst (fst tx) mempool).
  destruct (remove_hash (fst tx) mempool) as [in_mempool mempool1]. simpl.
  destruct in_unconf; [eexists; reflexivity|].
  destruct (insync && in_mempool); simpl.
  - rewrite andb_false_r, app_nil_r. eexists; reflexivity.
  - rewrite andb_true_r. destruct (snd tx); simpl; [|rewrite app_nil_r]; eexists; reflexivity.
Qed.

(* the registration loop of ProcessBlock keeps the tree invariant: the proofs registered are exactly, and
   in the same order, the transactions appended to txs - and those are `selected`: whatever mix of already
   delivered / new / irrelevant / mempool-known transactions the block holds, and WHATEVER THE PER-HEIGHT
   TX ID FILE ALREADY LISTS (file0 is arbitrary) *)
Lemma block_fold_inv insync body :
  NoDup (map fst body) ->
  forall unconf0 mempool0 file0,
  exists tree unconf mempool file,
    fold_left (block_tx insync) body (Ok (new_tree, unconf0, mempool0, [], file0))
      = Ok (tree, unconf, mempool, selected insync unconf0 mempool0 body, file) /\
    tree_inv (map fst body) (map fst (selected insync unconf0 mempool0 body)) tree /\
    (forall y, y ∉ map fst body -> zmem y unconf = zmem y unconf0 /\ zmem y mempool = zmem y mempool0).
Proof.
  induction body as [|tx body IH] using rev_ind; intros Hn unconf0 mempool0 file0.
  - exists new_tree, unconf0, mempool0, file0. split; [reflexivity|]. split; [apply tree_inv_init | auto].
  - rewrite map_app in Hn. simpl in Hn.
    destruct (IH ltac:(apply NoDup_app in Hn as [Hn _]; exact Hn) unconf0 mempool0 file0)
      as (tree & unconf & mempool & file & Hf & Hinv & Hmem).
    rewrite fold_left_app, Hf. cbn [fold_left].
    destruct (block_tx_step insync tree unconf mempool (selected insync unconf0 mempool0 body) file tx) as (file1 & ->).
    assert (Hx : fst tx ∉ map fst body).
    { apply NoDup_app in Hn as (_ & Hn & _). intros Hin. apply (Hn _ Hin). left. }
    destruct (Hmem _ Hx) as [Hu Hm].
    assert (Hsel : select_tx insync unconf mempool tx = select_tx insync unconf0 mempool0 tx).
    { unfold select_tx. rewrite Hu, Hm. reflexivity. }
    cbv zeta. rewrite Hsel.
    set (sel := select_tx insync unconf0 mempool0 tx).
    destruct (tree_step _ _ _ (fst tx) (if sel then true else false) Hinv Hn) as (t2 & Ha & Hinv2).
    assert (Hat : add_hash (if sel then add_merkle_proof tree (fst tx) else tree) (Leaf (fst tx)) = Ok t2).
    { destruct sel; exact Ha. }
    rewrite Hat. simpl.
    assert (Hsnoc : selected insync unconf0 mempool0 (body ++ [tx]) = selected insync unconf0 mempool0 body ++ option_list sel).
    { unfold selected. rewrite omap_app. simpl. fold sel. destruct sel; reflexivity. }
    rewrite Hsnoc. eexists _, _, _, _. split; [reflexivity|]. split.
    + rewrite !map_app. simpl.
      assert (Hm1 : map fst (option_list sel) = if (if sel then true else false) then [fst tx] else []).
      { subst sel. unfold select_tx. destruct (zmem (fst tx) unconf0); [reflexivity|].
        destruct (snd tx && negb (insync && zmem (fst tx) mempool0)); reflexivity. }
      rewrite Hm1. exact Hinv2.
    + intros y Hy. rewrite map_app in Hy. simpl in Hy.
      assert (Hy1 : y ∉ map fst body) by (intros H; apply Hy; apply elem_of_app; left; exact H).
      assert (Hy2 : y <> fst tx) by (intros ->; apply Hy; apply elem_of_app; right; left).
      destruct (Hmem _ Hy1) as [Hu' Hm']. split.
      * rewrite remove_hash_other by exact Hy2. exact Hu'.
      * rewrite remove_hash_other by exact Hy2. exact Hm'.
Qed.

Lemma final_valid ids r q root pos hid :
  proof_at ids r q -> p_root q = root -> wf q pos ->
  ref_root (map Leaf ids) = Some root -> zlen ids < 2 ^ 63 ->
  is_valid (convert_merkle_proof q (hid, root)) r = 0 /\ c_index (convert_merkle_proof q (hid, root)) = p_index q.
Proof.
  intros (Ht & Hi & Hlk) Hr Hw Hroot Hlen. subst r.
  apply lookup_lt_Some in Hlk. unfold zlen in Hlen.
  split.
  - eapply wf_valid; eauto; try lia.
    rewrite (wf_depth _ _ Hw), Hr.
    unfold ref_root in Hroot. apply (ref_root_height _ _ O) in Hroot; [|apply leaves_height].
    rewrite !map_length in Hroot. lia.
  - simpl. apply to_u64_small. lia.
Qed.

Lemma index_middle {A} (l1 l2 : list A) x : index (l1 ++ x :: l2) (zlen l1) = Ok x.
Proof.
  unfold index, zlen. destruct (Z.of_nat (length l1) <? 0) eqn:E; [apply Z.ltb_lt in E; lia|].
  rewrite Nat2Z.id, list_lookup_middle by reflexivity. reflexivity.
Qed.

(* nothing cuts the second pass short: no transaction that would be delivered as new has a failing output
   fetch, and every previously seen one has a stored state *)
Definition tx_aborts (faults : list Z) (states : list (Z * option cproof)) (tx : Z * bool) : bool :=
  if snd tx then zmem (fst tx) faults else match get_state (fst tx) states with None => true | Some _ => false end.
Definition no_abort (faults : list Z) (states : list (Z * option cproof)) (txs : list (Z * bool)) : Prop :=
  Forall (fun tx => tx_aborts faults states tx = false) txs.

(* the second pass: whatever is delivered - all of txs, or only a prefix when it is cut short - is a right
   confirmation of the transaction at that position, built from THIS block's proof whatever the stored
   state of the transaction carried *)
Lemma block_events_spec hid hroot faults states ids txs ps :
  ref_root (map Leaf ids) = Some hroot -> zlen ids < 2 ^ 63 ->
  Forall2 (fun (tx : Z * bool) q => proof_at ids (fst tx) q /\ p_root q = hroot /\ exists pos, wf q pos) txs ps ->
  forall done, exists evs code,
    block_events (hid, hroot) faults states (done ++ ps) (zlen done) txs = (evs, code) /\
    Forall2 (conf_ok hid hroot ids) (take (length evs) txs) evs /\
    (code = OK \/ code = ERR) /\
    (code = OK -> length evs = length txs) /\
    (no_abort faults states txs -> code = OK).
Proof.
  intros Hroot Hlen. induction 1 as [|tx q txs ps (Hat & Hr & pos & Hw) _ IH]; intros done.
  - exists [], OK. split; [reflexivity|]. split; [constructor|]. auto.
  - destruct tx as [txid isnew]. cbn [block_events]. rewrite index_middle.
    change (if isnew then zmem txid faults else match get_state txid states with None => true | Some _ => false end)
      with (tx_aborts faults states (txid, isnew)).
    destruct (tx_aborts faults states (txid, isnew)) eqn:Ef.
    + exists [], ERR. split; [reflexivity|]. split; [constructor|]. split; [auto|].
      split; [discriminate|]. intros Hnf. apply Forall_cons in Hnf as [Hnf _]. congruence.
    + destruct (IH (done ++ [q])) as (evs & code & He & Hall & Hc & Hlen' & Hnf).
      rewrite <- app_assoc, zlen_app in He. simpl in He. change (zlen [q]) with 1 in He. rewrite He.
      eexists _, code. split; [reflexivity|]. split.
      * simpl. constructor; [|exact Hall].
        destruct (final_valid ids txid q hroot pos hid Hat Hr Hw Hroot Hlen) as [Hv Hci].
        exists (convert_merkle_proof q (hid, hroot)). simpl fst. simpl snd. rewrite Hv.
        split; [reflexivity|]. split; [reflexivity|]. rewrite Hci.
        destruct Hat as (_ & Hi & Hlk). auto.
      * split; [exact Hc|]. split.
        -- intros Hok. simpl. f_equal. apply Hlen'. exact Hok.
        -- intros H. apply Forall_cons in H as [_ H]. apply Hnf. exact H.
Qed.

(* A block that passes the three gates of ProcessBlock (not held yet, extends the tip, the block type's
   IsMerkleRootValid - the textbook root - agrees with the header), txids pairwise distinct, in ANY state
   of the node and of its storage (whatever the per-height tx id files already list, e.g. after a crash in
   the middle of an earlier processing of the same block) and under any output-fetch faults:
   - the streaming root equals the header's root, so the second comparison (which would come after the
     header was added and announced) never fails,
   - the header is added and announced; the transactions to notify are `selected` (independent of the
     files); what is delivered is, in block order, a prefix of them - all of them when no output fetch
     fails - each notification of the right kind, carrying the header, depth zero, the transaction's true
     index and a proof the client verifier accepts. *)
Theorem processed_block s hid prev hroot body :
  NoDup (map fst body) -> zlen body < 2 ^ 63 ->
  existsb (fun h => fst h =? hid) (n_chain s) || (hid =? 0) = false ->
  prev = n_tip s ->
  is_merkle_root_valid hroot (map fst body) = true ->
  let txs := selected (n_insync s) (n_unconf s) (n_mempool s) body in
  exists s' code evs,
    process_block s hid prev hroot body false = (s', code, EHeaders (n_height s + 1) hid :: evs) /\
    n_chain s' = (hid, hroot) :: n_chain s /\
    Forall2 (conf_ok hid hroot (map fst body)) (take (length evs) txs) evs /\
    (code = OK \/ code = ERR) /\
    (no_abort (n_faults s) (n_states s) txs -> code = OK /\ length evs = length txs).
Proof.
  intros Hn Hlen Hfresh Hprev Hgate txs. unfold process_block.
  rewrite Hfresh, Hprev, Z.eqb_refl, Hgate. simpl negb. cbv iota.
  unfold is_merkle_root_valid in Hgate.
  destruct (ref_root (map Leaf (map fst body))) as [r|] eqn:Hroot; [|discriminate].
  apply mnode_eqb_eq in Hgate. subst r.
  destruct (block_fold_inv (n_insync s) body Hn (n_unconf s) (n_mempool s)
              (get_file (zlen ((hid, hroot) :: n_chain s)) (n_txfiles s)))
    as (tree & unconf & mempool & file & Hf & Hinv & _).
  cbv zeta. rewrite Hf.
  assert (Hne : map fst body <> []).
  { intros E. rewrite E in Hroot. discriminate. }
  destruct (finalize_spec _ _ _ Hinv Hne Hn) as (root & ps & Hfin & Hroot2 & Hall).
  rewrite Hroot in Hroot2. injection Hroot2 as <-.
  rewrite Hfin, mnode_eqb_refl. simpl negb. cbv iota.
  fold txs in Hall |- *.
  assert (Hall' : Forall2 (fun (tx : Z * bool) q => proof_at (map fst body) (fst tx) q /\ p_root q = hroot /\ exists pos, wf q pos) txs ps).
  { apply Forall2_fmap_l in Hall. exact Hall. }
  destruct (block_events_spec hid hroot (n_faults s) (n_states s) (map fst body) txs ps Hroot ltac:(rewrite zlen_map; exact Hlen) Hall' [])
    as (evs & code & He & Hev & Hc & Hl & Hnf).
  change (zlen (@nil mproof)) with 0 in He. change ([] ++ ps) with ps in He. rewrite He.
  assert (Hh : zlen ((hid, hroot) :: n_chain s) = n_height s + 1).
  { unfold n_height, zlen. simpl length. lia. }
  rewrite Hh.
  destruct (code =? OK) eqn:Ec.
  - eexists _, OK, evs. split; [reflexivity|]. split; [reflexivity|]. split; [exact Hev|].
    split; [auto|]. intros _. apply Z.eqb_eq in Ec. auto.
  - eexists _, code, evs. split; [reflexivity|]. split; [reflexivity|]. split; [exact Hev|].
    split; [exact Hc|]. intros H. specialize (Hnf H). subst code. discriminate.
Qed.

(* the complete case, as a statement of its own: no output fetch fails *)
Theorem accepted_block s hid prev hroot body :
  NoDup (map fst body) -> zlen body < 2 ^ 63 ->
  existsb (fun h => fst h =? hid) (n_chain s) || (hid =? 0) = false ->
  prev = n_tip s ->
  is_merkle_root_valid hroot (map fst body) = true ->
  let txs := selected (n_insync s) (n_unconf s) (n_mempool s) body in
  no_abort (n_faults s) (n_states s) txs ->
  exists s' evs,
    process_block s hid prev hroot body false = (s', OK, EHeaders (n_height s + 1) hid :: evs) /\
    n_chain s' = (hid, hroot) :: n_chain s /\
    Forall2 (conf_ok hid hroot (map fst body)) txs evs.
Proof.
  intros Hn Hlen Hfresh Hprev Hgate txs Hnf.
  destruct (processed_block s hid prev hroot body Hn Hlen Hfresh Hprev Hgate) as (s' & code & evs & Hp & Hc & Hev & _ & Hok).
  destruct (Hok Hnf) as [-> Hl]. exists s', evs. split; [exact Hp|]. split; [exact Hc|].
  fold txs in Hev, Hl. rewrite Hl, firstn_all in Hev. exact Hev.
Qed.

(* the registration loop does not read the per-height file: forgetting the file component commutes *)
Definition drop_file (st : res (mtree * list Z * list Z * list (Z * bool) * list Z))
  : res (mtree * list Z * list Z * list (Z * bool)) :=
  match st with Ok (t, u, m, x, _) => Ok (t, u, m, x) | Err e => Err e | Panic => Panic end.

Lemma block_tx_drop_file insync st1 st2 tx :
  drop_file st1 = drop_file st2 -> drop_file (block_tx insync st1 tx) = drop_file (block_tx insync st2 tx).
Proof.
  destruct st1 as [[[[[t1 u1] m1] x1] f1]|e1|], st2 as [[[[[t2 u2] m2] x2] f2]|e2|]; intros H; simpl in H;
    try discriminate; try reflexivity; try (injection H as ->; reflexivity).
  injection H as -> -> -> ->.
  destruct (block_tx_step insync t2 u2 m2 x2 f1 tx) as (g1 & E1).
  destruct (block_tx_step insync t2 u2 m2 x2 f2 tx) as (g2 & E2).
  rewrite E1, E2. cbv zeta. destruct (add_hash _ _); reflexivity.
Qed.

Lemma block_fold_drop_file insync body : forall st1 st2,
  drop_file st1 = drop_file st2 ->
  drop_file (fold_left (block_tx insync) body st1) = drop_file (fold_left (block_tx insync) body st2).
Proof.
  induction body as [|tx body IH]; intros st1 st2 H; [exact H|].
  simpl. apply IH. apply block_tx_drop_file. exact H.
Qed.

(* the second pass reads of the stored states only whether one exists *)
Lemma block_events_states_ext hdr faults st1 st2 proofs txs : forall i,
  (forall t, get_state t st1 = None <-> get_state t st2 = None) ->
  block_events hdr faults st1 proofs i txs = block_events hdr faults st2 proofs i txs.
Proof.
  induction txs as [|[txid isnew] txs IH]; intros i H; [reflexivity|].
  cbn [block_events]. rewrite (IH (i + 1) H).
  assert (E : match get_state txid st1 with None => true | Some _ => false end
            = match get_state txid st2 with None => true | Some _ => false end).
  { specialize (H txid). destruct (get_state txid st1), (get_state txid st2); auto.
    - destruct H as [_ H]. discriminate (H eq_refl).
    - destruct H as [H _]. discriminate (H eq_refl). }
  rewrite E. reflexivity.
Qed.

(* ALIGNMENT FOR REPROCESSED / RE-CONFIRMED BLOCKS.  Two node states that differ ONLY in what the per-height
   tx id files already list and in WHICH PROOFS the stored tx states carry (same transactions have a state)
   - say the files a crash in the middle of the first processing of this very block left behind, or the
   proof of a block reverted since that a re-announced transaction still carries - give the same outcome
   class and the same notifications for the block: every confirmation is rebuilt from the current block. *)
Theorem reprocessed_block_aligned s hid prev hroot body files states :
  (forall t, get_state t states = None <-> get_state t (n_states s) = None) ->
  let s2 := NS (n_chain s) (n_unconf s) (n_mempool s) (n_insync s) (n_saved_chain s) (n_saved_unconf s)
               files (n_faults s) states in
  snd (fst (process_block s2 hid prev hroot body false)) = snd (fst (process_block s hid prev hroot body false)) /\
  snd (process_block s2 hid prev hroot body false) = snd (process_block s hid prev hroot body false).
Proof.
  intros Hst s2. unfold process_block.
  change (n_chain s2) with (n_chain s). change (n_tip s2) with (n_tip s). change (n_insync s2) with (n_insync s).
  change (n_unconf s2) with (n_unconf s). change (n_mempool s2) with (n_mempool s). change (n_faults s2) with (n_faults s).
  change (n_states s2) with states.
  destruct (existsb _ _ || _); [auto|].
  destruct (negb (prev =? n_tip s)); [auto|].
  destruct (negb _); [auto|]. cbv zeta.
  pose proof (block_fold_drop_file (n_insync s) body
                (Ok (new_tree, n_unconf s, n_mempool s, [], get_file (zlen ((hid, hroot) :: n_chain s)) (n_txfiles s2)))
                (Ok (new_tree, n_unconf s, n_mempool s, [], get_file (zlen ((hid, hroot) :: n_chain s)) (n_txfiles s)))
                eq_refl) as H.
  destruct (fold_left _ body (Ok (_, _, _, _, get_file _ (n_txfiles s2)))) as [[[[[t2 u2] m2] x2] f2]|e2|];
    destruct (fold_left _ body (Ok (_, _, _, _, get_file _ (n_txfiles s)))) as [[[[[t1 u1] m1] x1] f1]|e1|];
    simpl in H; try discriminate; auto.
  injection H as -> -> -> ->.
  destruct (finalize t1) as [[root ps]| |]; auto.
  destruct (negb _); auto.
  rewrite (block_events_states_ext _ _ states (n_states s) _ _ _ Hst).
  destruct (block_events _ _ _ _ _ _) as [evs code].
  destruct (code =? OK); auto.
Qed.

(* ---------------------------------------------------------------------------------------- *)
(* soundness over histories: every notification a block operation produces - in whatever state the node
   and its storage are (after any history of arrivals, re-announcements, blocks, reorgs, faults, restarts) -
   is the block's header announcement or a right confirmation *)
Lemma process_block_sound s hid prev hroot body :
  NoDup (map fst body) -> zlen body < 2 ^ 63 ->
  Forall (block_event_ok hid hroot (map fst body)) (snd (process_block s hid prev hroot body false)).
Proof.
  intros Hn Hlen.
  destruct (existsb (fun h => fst h =? hid) (n_chain s) || (hid =? 0)) eqn:Hfresh.
  { unfold process_block. rewrite Hfresh. constructor. }
  destruct (prev =? n_tip s) eqn:Hprev.
  2:{ unfold process_block. rewrite Hfresh, Hprev. constructor. }
  apply Z.eqb_eq in Hprev.
  destruct (is_merkle_root_valid hroot (map fst body)) eqn:Hgate.
  2:{ unfold process_block. rewrite Hfresh, Hprev, Z.eqb_refl, Hgate. constructor. }
  destruct (processed_block s hid prev hroot body Hn Hlen Hfresh Hprev Hgate) as (s' & code & evs & Hp & _ & Hev & _).
  rewrite Hp. simpl. constructor; [reflexivity|].
  clear -Hev. revert Hev. generalize (selected (n_insync s) (n_unconf s) (n_mempool s) body). intros txs.
  generalize (take (length evs) txs). intros l H.
  induction H as [|tx e l evs Hc _ IH]; constructor; [|exact IH].
  destruct Hc as (cp & -> & Hrest). exists tx, cp. auto.
Qed.

Theorem step_block_sound s hid prev committed body :
  NoDup (map fst body) -> zlen body < 2 ^ 63 ->
  Forall (block_event_ok hid (committed_root committed) (map fst body))
         (snd (step_ev s (OBlock hid prev committed body false))) /\
  Forall (block_event_ok hid (committed_root committed) (map fst body))
         (snd (step_ev s (OReorg hid prev committed body))).
Proof.
  intros Hn Hlen. split; simpl.
  - apply process_block_sound; auto.
  - unfold process_reorg.
    destruct (prev =? n_tip s); [apply process_block_sound; auto|].
    destruct (existsb _ _ || _); [constructor|].
    destruct (height_in prev (n_chain s)); [apply process_block_sound; auto | constructor].
Qed.

Theorem history_sound insync ops hid prev committed body :
  NoDup (map fst body) -> zlen body < 2 ^ 63 ->
  let s := state_after insync ops in
  Forall (block_event_ok hid (committed_root committed) (map fst body))
         (snd (step_ev s (OBlock hid prev committed body false))) /\
  Forall (block_event_ok hid (committed_root committed) (map fst body))
         (snd (step_ev s (OReorg hid prev committed body))).
Proof. intros Hn Hlen s. apply step_block_sound; auto. Qed.
