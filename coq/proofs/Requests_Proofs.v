(* Proofs about the block request window model. (to be completed) *)
From V.lib Require Import Base.
From V.model Require Import Requests RequestsSpec.
From V.gen Require Import Consts.
