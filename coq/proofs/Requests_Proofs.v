(* Proofs about the block request window model (property C13).
   1. The executable model of internal/state/requests.go (model/Requests.v) refines the reference
      queue (model/RequestsSpec.v): equal observations on every operation sequence.
   2. Invariants of the reference queue: window bound, byte accounting, pause, unrequested blocks
      ignored, FIFO processing, no duplicates / chain order, clear-after. *)
From V.lib Require Import Base.
From V.model Require Import Requests RequestsSpec.
From V.gen Require Import Consts.
(* Exported on purpose: props/C13.v states the chain-order theorem with StronglySorted and imports
   only this file besides the models, so the name must be visible through it. *)
From Coq Require Export Sorted.

Local Open Scope Z_scope.

(* ---------------------------------------------------------------------------------------- *)
(* Helper lemmas on lists                                                                    *)

Definition lift (l : list Z) : list (Z * option Z) := map (fun h => (h, None)) l.

Lemma sizes_cons x l :
  sizes (x :: l) = match snd x with Some sz => sz + sizes l | None => sizes l end.
Proof. reflexivity. Qed.

Lemma sizes_app l1 l2 : sizes (l1 ++ l2) = sizes l1 + sizes l2.
Proof.
  induction l1 as [|x l1 IH]; [reflexivity|].
  rewrite <- app_comm_cons, !sizes_cons, IH. destruct (snd x); lia.
Qed.

Lemma sizes_lift tr : sizes (lift tr) = 0.
Proof. induction tr as [|h tr IH]; [reflexivity|]. unfold lift in *. cbn [map]. rewrite sizes_cons. exact IH. Qed.

Lemma sizes_all_none l : Forall (fun x : Z * option Z => snd x = None) l -> sizes l = 0.
Proof.
  induction 1 as [|x l Hx _ IH]; [reflexivity|]. rewrite sizes_cons, Hx. exact IH.
Qed.

Lemma sizes_take_drop n l : sizes l = sizes (take n l) + sizes (drop n l).
Proof. rewrite <- sizes_app, take_drop. reflexivity. Qed.

Lemma length_lift tr : length (lift tr) = length tr.
Proof. unfold lift. apply map_length. Qed.

Lemma lift_app a b : lift (a ++ b) = lift a ++ lift b.
Proof. unfold lift. apply map_app. Qed.

Lemma lift_take n l : lift (take n l) = take n (lift l).
Proof. unfold lift. symmetry. apply firstn_map. Qed.

Lemma last_lift tr : last (lift tr) = option_map (fun h => (h, @None Z)) (last tr).
Proof.
  induction tr as [|h tr IH]; [reflexivity|].
  unfold lift in *. cbn [map]. rewrite !last_cons, IH. destruct (last tr); reflexivity.
Qed.

Lemma lookup_lift tr (i : nat) : lift tr !! i = option_map (fun h => (h, @None Z)) (tr !! i).
Proof.
  revert i. induction tr as [|h tr IH]; intros [|i]; try reflexivity.
  unfold lift in *. cbn [map]. cbn. apply IH.
Qed.

Lemma existsb_lift h tr :
  existsb (fun x : Z * option Z => fst x =? h) (lift tr) = existsb (fun x => x =? h) tr.
Proof.
  induction tr as [|x tr IH]; [reflexivity|].
  unfold lift in *. cbn [map existsb fst]. rewrite IH. reflexivity.
Qed.

Lemma zlen_app {A} (a b : list A) : zlen (a ++ b) = zlen a + zlen b.
Proof. unfold zlen. rewrite app_length. lia. Qed.

Lemma zlen_lift tr : zlen (lift tr) = zlen tr.
Proof. unfold zlen. rewrite length_lift. reflexivity. Qed.

Lemma zlen_nonneg {A} (l : list A) : 0 <= zlen l.
Proof. unfold zlen. lia. Qed.

(* find_idx *)
Lemma find_idx_shift {A} (f : A -> bool) l (n : nat) :
  find_idx f l n = option_map (fun i => (n + i)%nat) (find_idx f l 0).
Proof.
  revert n. induction l as [|x l IH]; intros n; [reflexivity|].
  cbn [find_idx]. destruct (f x).
  - cbn. f_equal. lia.
  - rewrite (IH (S n)), (IH 1%nat). destruct (find_idx f l 0); cbn; [f_equal; lia|reflexivity].
Qed.

Lemma find_idx_app {A} (f : A -> bool) l1 l2 (n : nat) :
  find_idx f (l1 ++ l2) n =
  match find_idx f l1 n with
  | Some i => Some i
  | None => find_idx f l2 (n + length l1)%nat
  end.
Proof.
  revert n. induction l1 as [|x l1 IH]; intros n.
  - cbn. rewrite Nat.add_0_r. reflexivity.
  - cbn [app find_idx length]. destruct (f x); [reflexivity|].
    rewrite IH. replace (S n + length l1)%nat with (n + S (length l1))%nat by lia. reflexivity.
Qed.

Lemma find_idx_bound {A} (f : A -> bool) l (n i : nat) :
  find_idx f l n = Some i -> (n <= i < n + length l)%nat.
Proof.
  revert n. induction l as [|x l IH]; intros n; cbn [find_idx length]; [discriminate|].
  destruct (f x).
  - intros [= <-]. lia.
  - intros H. apply IH in H. lia.
Qed.

Lemma find_idx_lift h tr (n : nat) :
  find_idx (fun x : Z * option Z => fst x =? h) (lift tr) n = find_idx (fun x => x =? h) tr n.
Proof.
  revert n. induction tr as [|x tr IH]; intros n; [reflexivity|].
  unfold lift in *. cbn [map find_idx fst]. rewrite IH. reflexivity.
Qed.

(* fill *)
Lemma fill_Some l h size l' d :
  fill l h size = Some (l', d) ->
  length l' = length l /\ map fst l' = map fst l /\ sizes l' = sizes l + d.
Proof.
  revert l' d. induction l as [|[x b] l IH]; intros l' d; cbn [fill]; [discriminate|].
  destruct (x =? h) eqn:E.
  - intros [= <- <-]. cbn [length map fst]. rewrite !sizes_cons. cbn [snd].
    repeat split. destruct b; lia.
  - destruct (fill l h size) as [[l2 d2]|]; [|discriminate].
    intros [= <- <-]. destruct (IH l2 d2 eq_refl) as (Hl & Hm & Hs).
    cbn [length map fst]. rewrite !sizes_cons, Hl, Hm, Hs. cbn [snd].
    repeat split. destruct b; lia.
Qed.

Lemma fill_None l h size : fill l h size = None <-> ~ In h (map fst l).
Proof.
  induction l as [|[x b] l IH]; cbn [fill map fst In].
  - tauto.
  - destruct (x =? h) eqn:E.
    + apply Z.eqb_eq in E. split; [discriminate|]. intros H. exfalso. apply H. left. exact E.
    + apply Z.eqb_neq in E. destruct (fill l h size) as [[l2 d2]|].
      * split; [discriminate|]. intros H. exfalso.
        assert (Hn : ~ In h (map fst l)) by (intros Hin; apply H; right; exact Hin).
        apply IH in Hn. discriminate.
      * split; [|reflexivity]. intros _ [H|H]; [contradiction|]. apply IH in H; [exact H|reflexivity].
Qed.

(* ---------------------------------------------------------------------------------------- *)
(* 1. Refinement: model -> reference queue                                                    *)

Definition abs (s : rstate) : qstate :=
  QState (requested s ++ lift (to_request s)) (length (requested s)) (last_saved s).

Definition rinv (s : rstate) : Prop := pending s = sizes (requested s).

Definition qdig (q : qstate) : list Z :=
  [Z.of_nat (nreq q); zlen (queue q) - Z.of_nat (nreq q); buffered q].

Lemma qdig_abs s : rinv s -> qdig (abs s) = digest s.
Proof.
  unfold rinv, qdig, digest, abs, buffered. cbn [nreq queue]. intros ->.
  rewrite zlen_app, zlen_lift, sizes_app, sizes_lift. unfold zlen.
  repeat (f_equal; try lia).
Qed.

Lemma fin_eq (Q1 : qstate) (S1 : rstate) (pre : list Z) :
  Q1 = abs S1 -> rinv S1 ->
  (Q1, pre ++ [Z.of_nat (nreq Q1); zlen (queue Q1) - Z.of_nat (nreq Q1); buffered Q1])
  = (abs S1, pre ++ digest S1).
Proof. intros -> H. fold (qdig (abs S1)). rewrite (qdig_abs _ H). reflexivity. Qed.

Section Refine.
Variable MAXR LIM : Z.

Lemma buffered_abs s : buffered (abs s) = sizes (requested s).
Proof. unfold buffered, abs. cbn [queue]. rewrite sizes_app, sizes_lift. lia. Qed.

Lemma q_over_abs s : rinv s -> q_over MAXR LIM (abs s) = over_threshold MAXR LIM s.
Proof.
  intros H. unfold q_over, over_threshold. rewrite buffered_abs, <- H.
  unfold abs, zlen. cbn [nreq]. reflexivity.
Qed.

Lemma q_tail_abs s : q_tail (abs s) = last_hash s.
Proof.
  unfold q_tail, last_hash, abs. cbn [queue q_last_saved].
  rewrite last_app, last_lift. destruct (last (to_request s)); cbn; [reflexivity|].
  destruct (last (requested s)) as [[l b]|]; reflexivity.
Qed.

Lemma take_abs s : take (nreq (abs s)) (queue (abs s)) = requested s.
Proof. unfold abs. cbn [nreq queue]. apply take_app. Qed.

Lemma drop_abs s : drop (nreq (abs s)) (queue (abs s)) = lift (to_request s).
Proof. unfold abs. cbn [nreq queue]. apply drop_app. Qed.

Definition refines_at (s : rstate) (o : op) : Prop :=
  rinv s ->
  rinv (fst (step MAXR LIM s o)) /\
  q_step MAXR LIM (abs s) o = (abs (fst (step MAXR LIM s o)), snd (step MAXR LIM s o)).

Lemma queue_abs s : queue (abs s) = requested s ++ lift (to_request s).
Proof. reflexivity. Qed.
Lemma nreq_abs s : nreq (abs s) = length (requested s).
Proof. reflexivity. Qed.
Lemma q_last_saved_abs s : q_last_saved (abs s) = last_saved s.
Proof. reflexivity. Qed.

Lemma nreq_len_abs s :
  (nreq (abs s) =? length (queue (abs s)))%nat = match to_request s with [] => true | _ => false end.
Proof.
  rewrite nreq_abs, queue_abs, app_length, length_lift.
  destruct (to_request s); cbn [length].
  - rewrite Nat.add_0_r. apply Nat.eqb_refl.
  - apply Nat.eqb_neq. lia.
Qed.

Lemma refine_announce s prev h : refines_at s (OAnnounce prev h).
Proof.
  intros Hinv. unfold step, q_step. cbv beta zeta.
  rewrite q_tail_abs, (q_over_abs _ Hinv), nreq_len_abs.
  unfold add_block_request, last_hash.
  destruct (last (to_request s)) as [l|] eqn:Hl.
  - destruct (negb (l =? prev)); cbn [fst snd].
    + split; [exact Hinv|]. apply (fin_eq _ _ [ERR]); [reflexivity|exact Hinv].
    + assert (Hne : match to_request s with [] => true | _ :: _ => false end = false).
      { revert Hl. destruct (to_request s); [discriminate|reflexivity]. }
      rewrite Hne. cbn [andb].
      split; [exact Hinv|]. apply (fin_eq _ _ [OK; 0]); [|exact Hinv].
      unfold abs. cbn [requested to_request last_saved queue nreq q_last_saved].
      rewrite lift_app, app_assoc. reflexivity.
  - apply last_None in Hl. rewrite Hl.
    assert (Hlk : negb (match last (requested s) with
                        | Some (l, _) => l =? prev
                        | None => last_saved s =? prev
                        end)
                  = negb (match last (requested s) with
                          | Some (l, _) => l
                          | None => last_saved s
                          end =? prev))
      by (destruct (last (requested s)) as [[? ?]|]; reflexivity).
    rewrite Hlk. clear Hlk.
    destruct (negb _); cbn [fst snd].
    + split; [exact Hinv|]. apply (fin_eq _ _ [ERR]); [reflexivity|exact Hinv].
    + destruct (over_threshold MAXR LIM s); cbn [andb negb fst snd].
      * split; [exact Hinv|]. apply (fin_eq _ _ [OK; 0]); [|exact Hinv].
        unfold abs. cbn [requested to_request last_saved queue nreq q_last_saved].
        rewrite Hl. cbn. rewrite app_nil_r. reflexivity.
      * assert (Hinv1 : rinv (RState (requested s ++ [(h, None)]) (to_request s) (pending s) (last_saved s))).
        { unfold rinv in *. cbn [pending requested]. rewrite sizes_app, Hinv. cbn. lia. }
        split; [exact Hinv1|]. apply (fin_eq _ _ [OK; 1]); [|exact Hinv1].
        unfold abs. cbn [requested to_request last_saved queue nreq q_last_saved].
        rewrite Hl, app_length. cbn. rewrite !app_nil_r. f_equal. lia.
Qed.

Lemma refine_deliver s h size : refines_at s (ODeliver h size).
Proof.
  intros Hinv. unfold step, q_step. cbv beta zeta.
  rewrite take_abs, drop_abs. unfold add_block.
  destruct (fill (requested s) h size) as [[l d]|] eqn:Hf; cbn [fst snd].
  - destruct (fill_Some _ _ _ _ _ Hf) as (Hlen & Hmap & Hsz).
    assert (Hinv1 : rinv (RState l (to_request s) (pending s + d) (last_saved s))).
    { unfold rinv in *. cbn [pending requested]. lia. }
    split; [exact Hinv1|]. apply (fin_eq _ _ [OK; 1]); [|exact Hinv1].
    unfold abs. cbn [requested to_request last_saved nreq q_last_saved]. rewrite Hlen. reflexivity.
  - split; [exact Hinv|]. apply (fin_eq _ _ [OK; 0]); [reflexivity|exact Hinv].
Qed.

Lemma refine_pop s : refines_at s OPop.
Proof.
  intros Hinv. unfold step, q_step, next_block. cbv beta zeta.
  fold (qdig (abs s)). rewrite queue_abs, nreq_abs.
  destruct (requested s) as [|[x [sz|]] rq] eqn:Erq; cbn [app length fst snd].
  - split; [exact Hinv|].
    assert (Hg : (abs s, OK :: 0 :: qdig (abs s)) = (abs s, OK :: 0 :: digest s))
      by (apply (fin_eq _ _ [OK; 0]); [reflexivity|exact Hinv]).
    destruct (lift (to_request s)) as [|[? [?|]] ?]; exact Hg.
  - assert (Hinv1 : rinv (RState rq (to_request s) (pending s - sz) x)).
    { unfold rinv in *. cbn [pending requested]. rewrite Erq, sizes_cons in Hinv. cbn [snd] in Hinv. lia. }
    split; [exact Hinv1|]. apply (fin_eq _ _ [OK; 1; x]); [reflexivity|exact Hinv1].
  - split; [exact Hinv|]. apply (fin_eq _ _ [OK; 0]); [reflexivity|exact Hinv].
Qed.

Lemma refine_next s : refines_at s ONext.
Proof.
  intros Hinv. unfold step, q_step, get_next. cbv beta zeta.
  rewrite drop_abs, (q_over_abs _ Hinv).
  destruct (to_request s) as [|t tr] eqn:Etr; cbn [lift map fst snd].
  - split; [exact Hinv|]. apply (fin_eq _ _ [OK; 0]); [reflexivity|exact Hinv].
  - destruct (over_threshold MAXR LIM s); cbn [fst snd].
    + split; [exact Hinv|]. apply (fin_eq _ _ [OK; 0]); [reflexivity|exact Hinv].
    + assert (Hinv1 : rinv (RState (requested s ++ [(t, None)]) tr (pending s) (last_saved s))).
      { unfold rinv in *. cbn [pending requested]. rewrite sizes_app, Hinv. cbn. lia. }
      split; [exact Hinv1|].
      replace (zlen (requested s) + 1) with (Z.of_nat (S (nreq (abs s))))
        by (rewrite nreq_abs; unfold zlen; lia).
      apply (fin_eq _ _ [OK; 1; t; Z.of_nat (S (nreq (abs s)))]); [|exact Hinv1].
      unfold abs. cbn [requested to_request last_saved queue nreq q_last_saved].
      rewrite Etr, app_length, <- app_assoc. cbn. f_equal. lia.
Qed.

Lemma refine_clear_all s : refines_at s OClearAll.
Proof.
  intros Hinv. unfold step, q_step, clear_all. cbv beta zeta. cbn [fst snd].
  assert (Hinv1 : rinv (RState [] [] 0 (last_saved s))) by reflexivity.
  split; [exact Hinv1|]. apply (fin_eq _ _ [OK]); [reflexivity|exact Hinv1].
Qed.

Lemma refine_reset s : refines_at s OReset.
Proof.
  intros Hinv. unfold step, q_step, reset. cbv beta zeta. cbn [fst snd].
  assert (Hinv1 : rinv (RState [] [] 0 (last_saved s))) by reflexivity.
  split; [exact Hinv1|]. apply (fin_eq _ _ [OK]); [reflexivity|exact Hinv1].
Qed.

Lemma refine_clear_after s h : refines_at s (OClearAfter h).
Proof.
  intros Hinv. unfold step, q_step, clear_after. cbv beta zeta.
  fold (qdig (abs s)). rewrite queue_abs, nreq_abs, find_idx_app, find_idx_lift.
  destruct (find_idx (fun x : Z * option Z => fst x =? h) (requested s) 0) as [i|] eqn:Hi.
  - apply find_idx_bound in Hi.
    assert (Hinv1 : rinv (RState (take (S i) (requested s)) []
                                 (pending s - sizes (drop (S i) (requested s))) (last_saved s))).
    { unfold rinv in *. cbn [pending requested]. rewrite (sizes_take_drop (S i) (requested s)) in Hinv. lia. }
    cbn [fst snd]. split; [exact Hinv1|]. apply (fin_eq _ _ [OK]); [|exact Hinv1].
    unfold abs. cbn [requested to_request last_saved queue nreq q_last_saved].
    rewrite take_app_le by lia. rewrite take_length. cbn [lift map]. rewrite app_nil_r.
    f_equal. lia.
  - cbn [Nat.add]. rewrite (find_idx_shift _ (to_request s) (length (requested s))).
    destruct (find_idx (fun x => x =? h) (to_request s) 0) as [j|] eqn:Hj; cbn [option_map fst snd].
    + assert (Hinv1 : rinv (RState (requested s) (take (S j) (to_request s)) (pending s) (last_saved s)))
        by exact Hinv.
      split; [exact Hinv1|]. apply (fin_eq _ _ [OK]); [|exact Hinv1].
      unfold abs. cbn [requested to_request last_saved queue nreq q_last_saved].
      rewrite take_app_ge by lia.
      replace (S (length (requested s) + j) - length (requested s))%nat with (S j) by lia.
      rewrite lift_take. f_equal. lia.
    + split; [exact Hinv|]. apply (fin_eq _ _ [OK]); [reflexivity|exact Hinv].
Qed.

Lemma refine_set_last s h : refines_at s (OSetLast h).
Proof.
  intros Hinv. unfold step, q_step, set_last_hash. cbv beta zeta. cbn [fst snd].
  assert (Hinv1 : rinv (RState (requested s) (to_request s) (pending s) h)) by exact Hinv.
  split; [exact Hinv1|]. apply (fin_eq _ _ [OK]); [reflexivity|exact Hinv1].
Qed.

Lemma refine_last_hash s : refines_at s OLastHash.
Proof.
  intros Hinv. unfold step, q_step. cbv beta zeta. cbn [fst snd].
  rewrite q_tail_abs.
  split; [exact Hinv|]. apply (fin_eq _ _ [OK; last_hash s]); [reflexivity|exact Hinv].
Qed.

Lemma refine_req_hash s d : refines_at s (OReqHash d).
Proof.
  intros Hinv. unfold step, q_step. cbv beta zeta. cbn [fst snd].
  split; [exact Hinv|]. f_equal.
  rewrite drop_abs, take_abs, zlen_lift.
  fold (qdig (abs s)). rewrite (qdig_abs _ Hinv).
  unfold block_request_hash, index, res_bind.
  pose proof (zlen_nonneg (to_request s)) as Hz1.
  pose proof (zlen_nonneg (requested s)) as Hz2.
  destruct (d <? 0) eqn:Ed.
  - apply Z.ltb_lt in Ed.
    replace (zlen (to_request s) >? d) with true by (symmetry; apply Z.gtb_lt; lia).
    replace (zlen (to_request s) - d - 1 <? 0) with false by (symmetry; apply Z.ltb_ge; lia).
    rewrite (lookup_ge_None_2 (to_request s)); [reflexivity|].
    unfold zlen in *. lia.
  - apply Z.ltb_ge in Ed.
    destruct (zlen (to_request s) >? d) eqn:E1.
    + apply Z.gtb_lt in E1.
      replace (zlen (to_request s) - d - 1 <? 0) with false by (symmetry; apply Z.ltb_ge; lia).
      rewrite lookup_lift.
      destruct (to_request s !! Z.to_nat (zlen (to_request s) - d - 1)); reflexivity.
    + destruct (zlen (requested s) >? d) eqn:E2; [|reflexivity].
      apply Z.gtb_lt in E2.
      replace (zlen (requested s) - d - 1 <? 0) with false by (symmetry; apply Z.ltb_ge; lia).
      destruct (requested s !! Z.to_nat (zlen (requested s) - d - 1)) as [[hh b]|]; reflexivity.
Qed.

Lemma refine_is_requested s h : refines_at s (OIsRequested h).
Proof.
  intros Hinv. unfold step, q_step. cbv beta zeta. cbn [fst snd].
  rewrite take_abs.
  split; [exact Hinv|].
  apply (fin_eq _ _ [OK; b2z (existsb (fun x : Z * option Z => fst x =? h) (requested s))]);
    [reflexivity|exact Hinv].
Qed.

Lemma refine_is_to_be_requested s h : refines_at s (OIsToBeRequested h).
Proof.
  intros Hinv. unfold step, q_step. cbv beta zeta. cbn [fst snd].
  rewrite drop_abs, existsb_lift.
  split; [exact Hinv|].
  apply (fin_eq _ _ [OK; b2z (existsb (fun x => x =? h) (to_request s))]);
    [reflexivity|exact Hinv].
Qed.

Lemma step_refine s o : refines_at s o.
Proof.
  destruct o.
  - apply refine_announce.
  - apply refine_deliver.
  - apply refine_pop.
  - apply refine_next.
  - apply refine_clear_all.
  - apply refine_clear_after.
  - apply refine_set_last.
  - apply refine_reset.
  - apply refine_last_hash.
  - apply refine_req_hash.
  - apply refine_is_requested.
  - apply refine_is_to_be_requested.
Qed.

Lemma run_from_refine ops :
  forall s, rinv s -> run_from MAXR LIM s ops = q_run_from MAXR LIM (abs s) ops.
Proof.
  induction ops as [|o ops IH]; intros s Hinv; [reflexivity|].
  cbn [run_from q_run_from].
  destruct (step_refine s o Hinv) as [H1 H2]. rewrite H2.
  destruct (step MAXR LIM s o) as [s1 ob]. cbn [fst snd] in *.
  f_equal. apply IH. exact H1.
Qed.

End Refine.

Theorem requests_refine :
  forall (MAXR LIM : Z) (ops : list op), run MAXR LIM ops = q_run MAXR LIM ops.
Proof.
  intros MAXR LIM ops. unfold run, q_run.
  rewrite run_from_refine by reflexivity. reflexivity.
Qed.

(* ---------------------------------------------------------------------------------------- *)
(* 2. The reference queue                                                                     *)

Theorem window_is_ten : maxRequestedBlocks = 10.
Proof. reflexivity. Qed.

(* One case analysis of q_step, used by every invariant below: the possible state changes,
   together with the request issued / block popped by the step. *)
Section Spec.
Variable MAXR LIM : Z.

Inductive qtrans (q : qstate) : op -> qstate -> list Z -> list Z -> Prop :=
| T_same o : qtrans q o q [] []
| T_ann_req prev h :
    q_tail q = prev -> nreq q = length (queue q) -> q_over MAXR LIM q = false ->
    qtrans q (OAnnounce prev h)
           (QState (queue q ++ [(h, None)]) (S (nreq q)) (q_last_saved q)) [h] []
| T_ann_wait prev h :
    q_tail q = prev ->
    qtrans q (OAnnounce prev h)
           (QState (queue q ++ [(h, None)]) (nreq q) (q_last_saved q)) [] []
| T_deliver h size l d :
    fill (take (nreq q) (queue q)) h size = Some (l, d) ->
    qtrans q (ODeliver h size)
           (QState (l ++ drop (nreq q) (queue q)) (nreq q) (q_last_saved q)) [] []
| T_pop h sz l n :
    queue q = (h, Some sz) :: l -> nreq q = S n ->
    qtrans q OPop (QState l n h) [] [h]
| T_next h b r :
    drop (nreq q) (queue q) = (h, b) :: r -> q_over MAXR LIM q = false ->
    qtrans q ONext (QState (queue q) (S (nreq q)) (q_last_saved q)) [h] []
| T_clear o :
    o = OClearAll \/ o = OReset ->
    qtrans q o (QState [] 0 (q_last_saved q)) [] []
| T_clear_after h i :
    find_idx (fun x : Z * option Z => fst x =? h) (queue q) 0 = Some i ->
    qtrans q (OClearAfter h)
           (QState (take (S i) (queue q)) (Nat.min (nreq q) (S i)) (q_last_saved q)) [] []
| T_set_last h :
    qtrans q (OSetLast h) (QState (queue q) (nreq q) h) [] [].

Lemma q_step_trans q o :
  qtrans q o (fst (q_step MAXR LIM q o))
         (issued_of o (snd (q_step MAXR LIM q o)))
         (popped_of o (snd (q_step MAXR LIM q o))).
Proof.
  destruct o as [prev h|h size| | | |h|h| | |d|h|h]; unfold q_step; cbv beta zeta; unfold OK, ERR.
  - destruct (negb (q_tail q =? prev)) eqn:E1; cbn [fst snd issued_of popped_of].
    + apply T_same.
    + apply negb_false_iff, Z.eqb_eq in E1.
      destruct ((nreq q =? length (queue q))%nat && negb (q_over MAXR LIM q)) eqn:E2;
        cbn [fst snd issued_of popped_of].
      * apply andb_true_iff in E2 as [E2 E3].
        apply Nat.eqb_eq in E2. apply negb_true_iff in E3.
        apply T_ann_req; assumption.
      * apply T_ann_wait; assumption.
  - destruct (fill (take (nreq q) (queue q)) h size) as [[l d]|] eqn:Hf;
      cbn [fst snd issued_of popped_of].
    + eapply T_deliver; exact Hf.
    + apply T_same.
  - destruct (queue q) as [|[h [sz|]] l] eqn:Eq; cbn [fst snd issued_of popped_of];
      [apply T_same| |apply T_same].
    destruct (nreq q) as [|n] eqn:En; cbn [fst snd issued_of popped_of]; [apply T_same|].
    eapply T_pop; [exact Eq|exact En].
  - destruct (drop (nreq q) (queue q)) as [|[h b] r] eqn:Ed; cbn [fst snd issued_of popped_of];
      [apply T_same|].
    destruct (q_over MAXR LIM q) eqn:Eo; cbn [fst snd issued_of popped_of]; [apply T_same|].
    eapply T_next; [exact Ed|exact Eo].
  - cbn [fst snd issued_of popped_of]. apply T_clear. left; reflexivity.
  - destruct (find_idx (fun x : Z * option Z => fst x =? h) (queue q) 0) as [i|] eqn:Hi;
      cbn [fst snd issued_of popped_of].
    + apply T_clear_after. exact Hi.
    + apply T_same.
  - cbn [fst snd issued_of popped_of]. apply T_set_last.
  - cbn [fst snd issued_of popped_of]. apply T_clear. right; reflexivity.
  - cbn [fst snd issued_of popped_of]. apply T_same.
  - cbn [fst snd issued_of popped_of]. apply T_same.
  - cbn [fst snd issued_of popped_of]. apply T_same.
  - cbn [fst snd issued_of popped_of]. apply T_same.
Qed.

(* induction principle for q_after *)
Lemma q_after_ind (I : qstate -> Prop) (P : op -> Prop) :
  I (q_init 0) ->
  (forall q o, P o -> I q -> I (fst (q_step MAXR LIM q o))) ->
  forall ops, Forall P ops -> I (q_after MAXR LIM ops).
Proof.
  intros H0 Hstep ops. unfold q_after. generalize (q_init 0) H0. clear H0.
  induction ops as [|o ops IH]; intros q Hq HP; cbn [fold_left]; [exact Hq|].
  inversion HP as [|? ? Ho HP']; subst.
  apply IH; [|exact HP']. apply Hstep; assumption.
Qed.

Lemma Forall_True_ops (ops : list op) : Forall (fun _ => True) ops.
Proof. induction ops; constructor; auto. Qed.

(* well-formedness: the requested part is a prefix of the queue *)
Definition wf (q : qstate) : Prop := (nreq q <= length (queue q))%nat.

Lemma wf_trans q o q1 iss pop : qtrans q o q1 iss pop -> wf q -> wf q1.
Proof.
  unfold wf. intros Ht Hw.
  destruct Ht as [o|prev h Ht Hn Ho|prev h Ht|h size l d Hf|h sz l n Eq En|h b r Ed Eo|o Ho|h i Hi|h];
    cbn [queue nreq].
  - exact Hw.
  - rewrite app_length. cbn [length]. lia.
  - rewrite app_length. cbn [length]. lia.
  - apply fill_Some in Hf as (Hl & _ & _).
    rewrite app_length, Hl, take_length, drop_length. lia.
  - rewrite Eq, En in Hw. cbn [length] in Hw. lia.
  - apply (f_equal length) in Ed. rewrite drop_length in Ed. cbn [length] in Ed. lia.
  - cbn [length]. lia.
  - rewrite take_length. lia.
  - exact Hw.
Qed.

(* ---- window bound ---- *)
Lemma q_over_false q :
  q_over MAXR LIM q = false -> Z.of_nat (nreq q) < MAXR /\ buffered q <= LIM.
Proof.
  unfold q_over. intros H. apply orb_false_iff in H as [H1 H2].
  rewrite Z.geb_leb in H1. apply Z.leb_gt in H1.
  rewrite Z.gtb_ltb in H2. apply Z.ltb_ge in H2. lia.
Qed.

Lemma bound_trans q o q1 iss pop :
  0 <= MAXR -> qtrans q o q1 iss pop -> Z.of_nat (nreq q) <= MAXR -> Z.of_nat (nreq q1) <= MAXR.
Proof.
  intros HM Ht Hb.
  destruct Ht as [o|prev h Ht Hn Ho|prev h Ht|h size l d Hf|h sz l n Eq En|h b r Ed Eo|o Ho|h i Hi|h];
    cbn [queue nreq]; try lia.
  - apply q_over_false in Ho. lia.
  - apply q_over_false in Eo. lia.
Qed.

End Spec.

Theorem window_bound :
  forall (MAXR LIM : Z) (ops : list op), 0 <= MAXR ->
    let q := q_after MAXR LIM ops in
    Z.of_nat (nreq q) <= MAXR /\ (nreq q <= length (queue q))%nat.
Proof.
  intros MAXR LIM ops HM. cbv zeta.
  apply (q_after_ind MAXR LIM
           (fun q => Z.of_nat (nreq q) <= MAXR /\ (nreq q <= length (queue q))%nat)
           (fun _ => True)).
  - cbn. lia.
  - intros q o _ [Hb Hw]. pose proof (q_step_trans MAXR LIM q o) as Ht. split.
    + eapply bound_trans; eauto.
    + eapply wf_trans; eauto.
  - apply Forall_True_ops.
Qed.

(* ---- byte accounting ---- *)
Definition no_body (x : Z * option Z) : Prop := snd x = None.

Lemma waiting_trans MAXR LIM q o q1 iss pop :
  qtrans MAXR LIM q o q1 iss pop ->
  Forall no_body (drop (nreq q) (queue q)) -> Forall no_body (drop (nreq q1) (queue q1)).
Proof.
  intros Ht Hw.
  destruct Ht as [o|prev h Ht Hn Ho|prev h Ht|h size l d Hf|h sz l n Eq En|h b r Ed Eo|o Ho|h i Hi|h];
    cbn [queue nreq].
  - exact Hw.
  - rewrite drop_ge; [constructor|]. rewrite app_length. cbn [length]. lia.
  - rewrite skipn_app. apply Forall_app. split; [exact Hw|].
    apply Forall_drop. constructor; [reflexivity|constructor].
  - apply fill_Some in Hf as (Hl & _ & _).
    rewrite skipn_app. apply Forall_app. split.
    + rewrite drop_ge; [constructor|]. rewrite Hl, take_length. lia.
    + apply Forall_drop. exact Hw.
  - rewrite Eq, En in Hw. exact Hw.
  - replace (S (nreq q)) with (nreq q + 1)%nat by lia.
    rewrite <- drop_drop. apply Forall_drop. exact Hw.
  - constructor.
  - destruct (Nat.min_spec (nreq q) (S i)) as [[Hlt ->]|[Hge ->]].
    + replace (S i) with (nreq q + (S i - nreq q))%nat by lia.
      rewrite <- take_drop_commute. apply Forall_take. exact Hw.
    + rewrite drop_ge; [constructor|]. rewrite take_length. lia.
  - exact Hw.
Qed.

Theorem accounting :
  forall (MAXR LIM : Z) (ops : list op),
    let q := q_after MAXR LIM ops in
    Forall (fun x => snd x = None) (waiting_part q) /\
    (Forall (fun x => snd x = None) (requested_part q) -> buffered q = 0).
Proof.
  intros MAXR LIM ops. cbv zeta.
  assert (Hw : Forall no_body (waiting_part (q_after MAXR LIM ops))).
  { unfold waiting_part.
    apply (q_after_ind MAXR LIM (fun q => Forall no_body (drop (nreq q) (queue q))) (fun _ => True)).
    - constructor.
    - intros q o _ Hq. eapply waiting_trans; [apply q_step_trans|exact Hq].
    - apply Forall_True_ops. }
  split; [exact Hw|].
  intros Hr. unfold buffered, requested_part, waiting_part in *.
  rewrite (sizes_take_drop (nreq (q_after MAXR LIM ops))).
  rewrite (sizes_all_none _ Hr), (sizes_all_none _ Hw). reflexivity.
Qed.

(* ---- pause ---- *)
Theorem pause :
  forall (MAXR LIM : Z) (q : qstate) (prev h : Z),
    (Z.of_nat (nreq q) >= MAXR \/ buffered q > LIM) ->
    nreq (fst (q_step MAXR LIM q ONext)) = nreq q /\
    nreq (fst (q_step MAXR LIM q (OAnnounce prev h))) = nreq q.
Proof.
  intros MAXR LIM q prev h Hov.
  assert (Ho : q_over MAXR LIM q = true).
  { unfold q_over. apply orb_true_iff. destruct Hov as [H|H]; [left|right].
    - rewrite Z.geb_leb. apply Z.leb_le. lia.
    - rewrite Z.gtb_ltb. apply Z.ltb_lt. lia. }
  split.
  - unfold q_step. cbv beta zeta. rewrite Ho.
    destruct (drop (nreq q) (queue q)) as [|[? ?] ?]; reflexivity.
  - unfold q_step. cbv beta zeta. rewrite Ho. cbn [negb]. rewrite andb_false_r.
    destruct (negb (q_tail q =? prev)); reflexivity.
Qed.

(* ---- unrequested blocks are ignored ---- *)
Theorem unrequested_ignored :
  forall (MAXR LIM : Z) (q : qstate) (h size : Z),
    ~ In h (map fst (requested_part q)) ->
    fst (q_step MAXR LIM q (ODeliver h size)) = q /\
    exists d, snd (q_step MAXR LIM q (ODeliver h size)) = OK :: 0 :: d.
Proof.
  intros MAXR LIM q h size Hn. unfold requested_part in Hn.
  apply (fill_None _ h size) in Hn.
  unfold q_step. cbv beta zeta. rewrite Hn. cbn [fst snd].
  split; [reflexivity|]. eexists. reflexivity.
Qed.

(* ---- clear after ---- *)
Theorem clear_after_spec :
  forall (MAXR LIM : Z) (q : qstate) (h : Z) (i : nat),
    find_idx (fun x => fst x =? h) (queue q) 0 = Some i ->
    let q1 := fst (q_step MAXR LIM q (OClearAfter h)) in
    queue q1 = take (S i) (queue q) /\ nreq q1 = Nat.min (nreq q) (S i).
Proof.
  intros MAXR LIM q h i Hi. cbv zeta.
  unfold q_step. cbv beta zeta. rewrite Hi. cbn [fst queue nreq].
  split; reflexivity.
Qed.

(* ---- no duplicates, chain order ---- *)
Section Sorted.
Context {A : Type} (R : A -> A -> Prop).

Lemma ssorted_snoc l x :
  StronglySorted R l -> Forall (fun a => R a x) l -> StronglySorted R (l ++ [x]).
Proof.
  induction 1 as [|a l Hs IH Ha]; intros HF; cbn [app].
  - constructor; constructor.
  - inversion HF as [|? ? Hax HF']; subst.
    constructor; [apply IH; exact HF'|].
    apply Forall_app. split; [exact Ha|]. constructor; [exact Hax|constructor].
Qed.

Lemma ssorted_last_bound l y :
  StronglySorted R (l ++ [y]) -> Forall (fun a => R a y) l.
Proof.
  induction l as [|a l IH]; cbn [app]; intros H; [constructor|].
  inversion H as [|? ? Hs Ha]; subst.
  constructor; [|apply IH; exact Hs].
  apply Forall_app in Ha as [_ Ha]. inversion Ha; subst. assumption.
Qed.

Lemma ssorted_app_l l1 l2 : StronglySorted R (l1 ++ l2) -> StronglySorted R l1.
Proof.
  induction l1 as [|a l1 IH]; cbn [app]; intros H; [constructor|].
  inversion H as [|? ? Hs Ha]; subst.
  constructor; [apply IH; exact Hs|]. apply Forall_app in Ha as [Ha _]. exact Ha.
Qed.
End Sorted.

Lemma ssorted_nodup (rk : Z -> Z) l :
  StronglySorted (fun a b => rk a < rk b) l -> NoDup l.
Proof.
  induction 1 as [|a l Hs IH Ha]; constructor; [|exact IH].
  intros Hin. pose proof (proj1 (List.Forall_forall _ _) Ha a) as H.
  apply elem_of_list_In in Hin. apply H in Hin. lia.
Qed.

Lemma sorted_trans MAXR LIM (rk : Z -> Z) q o q1 iss pop :
  qtrans MAXR LIM q o q1 iss pop ->
  match o with OAnnounce prev h => rk prev < rk h | _ => True end ->
  StronglySorted (fun a b => rk a < rk b) (map fst (queue q)) ->
  StronglySorted (fun a b => rk a < rk b) (map fst (queue q1)).
Proof.
  intros Ht Hrk Hs.
  assert (Hann : forall prev h, q_tail q = prev -> rk prev < rk h ->
            StronglySorted (fun a b => rk a < rk b) (map fst (queue q ++ [(h, None)]))).
  { intros prev h Htl Hlt. rewrite map_app. cbn [map fst].
    apply ssorted_snoc; [exact Hs|].
    unfold q_tail in Htl. destruct (last (queue q)) as [[l b]|] eqn:Hl.
    - apply last_Some in Hl as [l' Hl]. subst l. rewrite Hl in *.
      rewrite map_app in *. cbn [map fst] in *.
      apply Forall_app. split.
      + apply ssorted_last_bound in Hs.
        eapply Forall_impl; [exact Hs|]. cbv beta. intros a Ha. lia.
      + constructor; [exact Hlt|constructor].
    - apply last_None in Hl. rewrite Hl. constructor. }
  destruct Ht as [o|prev h Ht Hn Ho|prev h Ht|h size l d Hf|h sz l n Eq En|h b r Ed Eo|o Ho|h i Hi|h];
    cbn [queue nreq].
  - exact Hs.
  - eapply Hann; eauto.
  - eapply Hann; eauto.
  - apply fill_Some in Hf as (_ & Hm & _).
    rewrite map_app, Hm, <- map_app, take_drop. exact Hs.
  - rewrite Eq in Hs. cbn [map] in Hs. inversion Hs; subst. assumption.
  - exact Hs.
  - constructor.
  - rewrite <- (take_drop (S i) (queue q)), map_app in Hs.
    apply ssorted_app_l in Hs. exact Hs.
  - exact Hs.
Qed.

Theorem no_duplicates_chain_order :
  forall (MAXR LIM : Z) (rk : Z -> Z) (ops : list op),
    announces_ranked rk ops ->
    let q := q_after MAXR LIM ops in
    NoDup (map fst (queue q)) /\
    StronglySorted (fun a b => rk a < rk b) (map fst (queue q)).
Proof.
  intros MAXR LIM rk ops Hr. cbv zeta.
  assert (Hs : StronglySorted (fun a b => rk a < rk b) (map fst (queue (q_after MAXR LIM ops)))).
  { apply (q_after_ind MAXR LIM
             (fun q => StronglySorted (fun a b => rk a < rk b) (map fst (queue q)))
             (fun o => match o with OAnnounce prev h => rk prev < rk h | _ => True end)).
    - constructor.
    - intros q o Ho Hq. eapply sorted_trans; [apply q_step_trans|exact Ho|exact Hq].
    - exact Hr. }
  split; [|exact Hs]. eapply ssorted_nodup. exact Hs.
Qed.

(* ---- FIFO processing ---- *)
Definition noclear (o : op) : Prop :=
  match o with OClearAll | OClearAfter _ | OReset => False | _ => True end.

Lemma fifo_trans MAXR LIM q o q1 iss pop :
  qtrans MAXR LIM q o q1 iss pop -> wf q ->
  sublist (pop ++ map fst (requested_part q1)) (map fst (requested_part q) ++ iss) /\
  (noclear o -> pop ++ map fst (requested_part q1) = map fst (requested_part q) ++ iss).
Proof.
  intros Ht Hw. unfold wf in Hw. unfold requested_part.
  assert (Heq : forall (P : Prop) (a b : list Z), a = b -> sublist a b /\ (P -> a = b)).
  { intros P a b ->. split; [reflexivity|intros _; reflexivity]. }
  destruct Ht as [o|prev h Ht Hn Ho|prev h Ht|h size l d Hf|h sz l n Eq En|h b r Ed Eo|o Ho|h i Hi|h];
    cbn [queue nreq].
  - apply Heq. cbn [app]. rewrite app_nil_r. reflexivity.
  - apply Heq. cbn [app].
    rewrite take_ge by (rewrite app_length; cbn [length]; lia).
    rewrite (take_ge (queue q)) by lia.
    rewrite map_app. reflexivity.
  - apply Heq. cbn [app]. rewrite take_app_le by lia. rewrite app_nil_r. reflexivity.
  - apply Heq. apply fill_Some in Hf as (Hl & Hm & _).
    rewrite take_app_alt by (rewrite Hl, take_length; lia).
    cbn [app]. rewrite app_nil_r. exact Hm.
  - apply Heq. rewrite Eq, En. cbn [firstn map fst app]. rewrite app_nil_r. reflexivity.
  - apply Heq. cbn [app].
    assert (Hlk : queue q !! nreq q = Some (h, b)).
    { rewrite <- (Nat.add_0_r (nreq q)), <- lookup_drop, Ed. reflexivity. }
    rewrite (take_S_r _ _ _ Hlk), map_app. reflexivity.
  - split.
    + cbn. apply sublist_nil_l.
    + destruct Ho as [-> | ->]; intros [].
  - split; [|intros []].
    cbn [app]. rewrite app_nil_r, take_take.
    replace (Nat.min (Nat.min (nreq q) (S i)) (S i)) with (Nat.min (S i) (nreq q)) by lia.
    rewrite <- take_take, <- firstn_map. apply sublist_take.
  - apply Heq. cbn [app]. rewrite app_nil_r. reflexivity.
Qed.

Lemma fifo_gen MAXR LIM ops :
  forall q P I, wf q ->
    sublist (P ++ map fst (requested_part q)) I ->
    sublist (P ++ collect popped_of ops (q_run_from MAXR LIM q ops))
            (I ++ collect issued_of ops (q_run_from MAXR LIM q ops)).
Proof.
  induction ops as [|o ops IH]; intros q P I Hw Hs.
  - cbn [q_run_from collect]. rewrite !app_nil_r.
    etransitivity; [|exact Hs]. apply sublist_inserts_r. reflexivity.
  - pose proof (q_step_trans MAXR LIM q o) as Ht.
    cbn [q_run_from]. destruct (q_step MAXR LIM q o) as [q1 ob]. cbn [fst snd] in Ht.
    cbn [collect]. rewrite !app_assoc. apply IH.
    + eapply wf_trans; eauto.
    + destruct (fifo_trans _ _ _ _ _ _ _ Ht Hw) as [Hsub _].
      rewrite <- app_assoc. etransitivity.
      { apply sublist_app; [reflexivity|exact Hsub]. }
      rewrite app_assoc. apply sublist_app; [exact Hs|reflexivity].
Qed.

Lemma fifo_gen_eq MAXR LIM ops :
  forall q P I, wf q -> Forall noclear ops ->
    P ++ map fst (requested_part q) = I ->
    prefix (P ++ collect popped_of ops (q_run_from MAXR LIM q ops))
           (I ++ collect issued_of ops (q_run_from MAXR LIM q ops)).
Proof.
  induction ops as [|o ops IH]; intros q P I Hw Hnc Hs.
  - cbn [q_run_from collect]. rewrite !app_nil_r.
    exists (map fst (requested_part q)). symmetry. exact Hs.
  - inversion Hnc as [|? ? Ho Hnc']; subst.
    pose proof (q_step_trans MAXR LIM q o) as Ht.
    cbn [q_run_from]. destruct (q_step MAXR LIM q o) as [q1 ob]. cbn [fst snd] in Ht.
    cbn [collect]. rewrite !app_assoc. apply IH.
    + eapply wf_trans; eauto.
    + exact Hnc'.
    + destruct (fifo_trans _ _ _ _ _ _ _ Ht Hw) as [_ Heq].
      rewrite <- app_assoc, (Heq Ho), app_assoc. reflexivity.
Qed.

Theorem fifo :
  forall (MAXR LIM : Z) (ops : list op),
    let tr := q_run MAXR LIM ops in
    sublist (collect popped_of ops tr) (collect issued_of ops tr) /\
    (Forall (fun o => match o with OClearAll | OClearAfter _ | OReset => False | _ => True end) ops ->
     prefix (collect popped_of ops tr) (collect issued_of ops tr)).
Proof.
  intros MAXR LIM ops. cbv zeta. unfold q_run.
  assert (Hw : wf (q_init 0)) by (unfold wf; cbn; lia).
  split.
  - apply (fifo_gen MAXR LIM ops (q_init 0) [] [] Hw). cbn. reflexivity.
  - intros Hnc. apply (fifo_gen_eq MAXR LIM ops (q_init 0) [] [] Hw Hnc). reflexivity.
Qed.
