(* The response router as the source has it (gen/RouterGen.v, regenerated from
   pkg/client/remote_client.go on every run) computes exactly Client.route, for every message and
   every pending list.  With Client16_Proofs.route_answers: the code's router serves exactly the
   first outstanding request the message answers. *)
From V.lib Require Import Base.
From V.gen Require Import Consts RouterGen.
From V.model Require Import Client ClientSpec RouterDSL.
From V.proofs Require Import Client16_Proofs.

Lemma take_first_none f l : fst (take_first f l) = None -> take_first f l = (None, l).
Proof.
  induction l as [|p l IH]; cbn [take_first]; [reflexivity|].
  destruct (f p); [discriminate|].
  destruct (take_first f l) as [r l'] eqn:E. cbn [fst]. intros ->.
  specialize (IH eq_refl). congruence.
Qed.

Lemma exec_loop_ok m typ key l :
  exec_loop m typ key true true true l =
    match take_first (loop_pred m typ key) l with
    | (Some p, l') => Done (Some p) l' false
    | (None, _) => Fall l
    end.
Proof. unfold exec_loop. destruct (take_first _ l) as [[p|] l']; reflexivity. Qed.

Definition the_router := exec_router router_shape_ok router_clauses router_tail.

Lemma tf_cases f l :
  (exists p l', take_first f l = (Some p, l')) \/ take_first f l = (None, l).
Proof.
  destruct (take_first f l) as [[p|] l'] eqn:E; [left; eauto|right].
  rewrite <- E. apply take_first_none. rewrite E. reflexivity.
Qed.

Ltac fix_kinds :=
  repeat match goal with
  | |- context[kind_of_typ ?t] =>
      let v := eval vm_compute in (kind_of_typ t) in change (kind_of_typ t) with v
  end.

Ltac fix_pred :=
  repeat match goal with
  | |- context[loop_pred ?m ?t KNone] =>
      let v := eval vm_compute in (kind_of_typ t) in
      change (loop_pred m t KNone) with (konly v)
  | |- context[loop_pred ?m ?t ?k] =>
      let v := eval vm_compute in (kind_of_typ t) in
      match eval cbn in (msg_key m k) with
      | Some ?key => change (loop_pred m t k) with (kk v key)
      end
  end.

Ltac tf f l :=
  let p := fresh "p" in let l' := fresh "l'" in let E := fresh "E" in
  destruct (tf_cases f l) as [(p & l' & E)|E]; rewrite E; try reflexivity.

Ltac finish :=
  rewrite ?exec_loop_ok; fix_pred;
  match goal with
  | |- context[take_first ?f ?l] => tf f l
  | _ => reflexivity
  end.

Theorem router_agrees m l : the_router m l = route m l.
Proof.
  unfold the_router, exec_router, router_shape_ok, router_clauses, router_tail.
  destruct m as [id k|id k| |k|reqh n|key| |k|kind key|kind key code|];
    cbn [negb payload_of find_clause payload_eqb exec_seq exec route no_hash sub_kind].
  all: try reflexivity.
  1-4: finish.
  all: fix_kinds.
  all: destruct (key =? -1) eqn:Ek; [try reflexivity|].
  all: repeat match goal with
       | |- context[?a =? ?c] =>
           is_var a;
           let E := fresh "Ekind" in
           destruct (a =? c) eqn:E;
           [apply Z.eqb_eq in E; subst a; cbn [mem_z existsb Z.eqb Pos.eqb orb]; try finish|]
       end.
  all: try reflexivity.
  all: unfold mem_z; cbn [existsb];
       repeat match goal with H : (_ =? _) = false |- _ => rewrite H; clear H end; reflexivity.
Qed.


Corollary router_answers m l :
  the_router m l = let '(r, l') := take_first (fun p => answers m (p_kind p) (p_key p)) l in
                   (r, l', match m, r with MHeaders _ _, None => true | _, _ => false end).
Proof. rewrite router_agrees. apply route_answers. Qed.
